#!/usr/bin/env python3
"""Regenerates /verif/MANIFEST.json from the table below (single source of truth) and
validates it against the schema."""
import json
import os
import subprocess

VERIF = os.path.dirname(os.path.dirname(os.path.abspath(__file__)))

# property -> (category, technique, level text, level note, design ref, engine)
CHECKS = {
    "C17": ("model_checking",
            "TLA+ machine + requirement invariants checked by TLC (safety and liveness); TLC-generated schedules replayed "
            "into the real TcpStream; recorded socket/yield traces validated by TLC against the requirement monitor",
            "Exhaustive model check of the framing machine over all chunkings, would-block placements and close "
            "positions for small messages; every TLC-enumerated schedule (incl. 255/256/300-byte messages with splits at "
            "the prefix and both body ends) is replayed through hickory_net::tcp::TcpStream and its outcome compared; "
            "all socket-call/yield events of those runs and of seeded random runs are accepted by the TLA+ monitor.",
            "Scripted socket and JSON projection in harness/src/bin/drive_tcp.rs; TLC; fair-socket assumption for liveness.",
            "DESIGN.md section 4 C17", "tcp"),
    "C15": ("model_checking",
            "TLA+ cache model + requirement invariants checked by TLC; TLC-generated histories (with the allowed outcome of "
            "every get) replayed into the real ResponseCache on a virtual clock; recorded random histories validated by a "
            "TLA+ monitor",
            "Exhaustive model check of insert/get/advance/evict histories over a small universe (per-type overrides, min>ttl, "
            "max<ttl, min=max, 0); thousands of TLC-simulated histories over 7 TTL configurations replayed through "
            "hickory_resolver::ResponseCache (hit/miss, every reported TTL); seeded random histories over random "
            "configurations recorded from the real cache and accepted event by event by Trace_Cache.",
            "The cache API takes `now` explicitly, so the clock is virtual without hooks; a miss is always allowed (eviction); "
            "configurations with min > max are excluded; TLC and the JSON projection are trusted.",
            "DESIGN.md section 4 C15", "cache"),
    "C03": ("model_checking",
            "TLA+ encoder machine + requirement invariants checked by TLC (with an AsIs counterexample configuration); "
            "TLC-enumerated (message, limit) cases with the prescribed observation replayed into BinEncoder/Message::emit; "
            "recorded random encodings and server responses judged by a TLA+ monitor",
            "Exhaustive model check of the emit/rollback machine over all limits 0..230 for a small message universe x "
            "question/OPT/TSIG/TC-in; every enumerated case is concretised with exact wire sizes and encoded by the real "
            "encoder, and all five observables (length, leftover, header counts, section prefixes, TC) compared; seeded "
            "random messages with realistic compression x limits up to 65535 and Catalog responses over UDP (no OPT, OPT "
            "payloads) / TCP are accepted by Trace_Encoder.",
            "Record sizes are realised with root owners and NULL RDATA (self-checked); Message::read/BinDecoder is the reader "
            "for 'no bytes left over'; server path driven through hook H4.",
            "DESIGN.md section 4 C03", "encoder"),
    "C13": ("model_checking",
            "TLA+ model of the RFC 8945 server procedure checked by TLC against declarative requirements; TLC-enumerated "
            "request descriptions x policies replayed (client-side signing, byte-level tampering, real Catalog + "
            "SqliteZoneHandler, reply fed to TSigVerifier); exhaustive single-bit/byte mutation sweeps judged by a TLA+ monitor",
            "Exhaustive model check over every request description (signed?, key name, MAC secret, algorithm, MAC length, clock "
            "offset around the fudge window, 14 tamper kinds) x policy (allow_update, AXFR deny/all/signed); every applicable "
            "case is concretised and sent through Catalog::handle_request on a virtual clock, the zone/serial/answers observed, "
            "and every signed reply plus all its single-bit-flipped copies given to the client verifier; every single-bit flip, "
            "byte deletion and insertion of authentic UPDATE/AXFR requests is sent and classified by region.",
            "HMAC (ring) trusted; message ID and letter case of the key name are not MAC-covered by design (RFC 8945 4.3.3); "
            "bytes appended behind the TSIG record and |time-now| = fudge accept either outcome.",
            "DESIGN.md section 4 C13", "tsig"),
    "C04": ("model_checking",
            "TLA+ name algebra (DnsNames) whose order laws are model-checked by TLC; TLC-enumerated name pairs and operation "
            "sequences with prescribed outcomes replayed into hickory_proto::rr::Name; recorded random names judged by a TLA+ monitor",
            "TLC proves the specification's CanonCmp/NameEq a strict total order consistent with folded equality on 1.4M "
            "triples around both case-fold boundaries and that the constructor/combinator machine never leaves the RFC 1035 "
            "limits; every ordered pair of a 300+ name universe (cmp, ==, Hash, LowerName, RrKey) and every operation sequence "
            "(lengths 0,1,61..64) is replayed through the public API; random names of up to 127 labels with arbitrary octets "
            "are round-tripped through the wire format at many offsets with and without compression, host-style names through "
            "the text format, and operations at the 255-octet boundary, all judged by Trace_Names.",
            "Text identity is judged case-insensitively for the UTF-8/IDNA entry points (they lower-case by design) and "
            "exactly for from_ascii; Name::parse is not given interior underscores (UTS 46 STD3 refuses them by design); "
            "order laws are exhaustive on the stated universe only.",
            "DESIGN.md section 4 C04", "names"),
    "C10": ("model_checking",
            "TLA+ oracle Answer(zone, qname, qtype) from RFC 1034 4.3.2 / 2308 / 4592 / 8482 plus a top-down machine model-checked "
            "against it; TLC-enumerated zones with expectation tables replayed as bytes through the real Catalog + "
            "InMemoryZoneHandler (unsigned, NSEC, NSEC3); seeded random zones judged by a TLA+ trace monitor",
            "Exhaustive over zones of <= 2 nodes (11-owner universe; <= 3 nodes over 6 owners in thorough) x ~18 qnames x 9 "
            "qtypes x 3 signing modes: the RFC algorithm as a machine is model-checked against the C10_* invariants and the "
            "bottom-up oracle; every enumerated (zone, query) is sent as wire bytes through Request::from_bytes / "
            "Catalog::handle_request and the response must conform to one of the alternatives the oracle allows; random larger "
            "zones (long CNAME chains, loops, nested cuts, wildcards) are judged by Trace_AuthServer. Listed deviations are "
            "attributed only when the response is exactly what the switchable AuthAsIs rule predicts.",
            "InMemory store only; the DNSSEC stage checks presence of RRSIGs and NSEC/NSEC3 denial, not what the proofs prove "
            "(C08/C09); MinChase = 8 is an assumed CNAME chase bound; order inside RRsets, additional section and TTLs free.",
            "DESIGN.md section 4 C10", "auth"),
    "C11": ("model_checking",
            "TLA+ machine of the request pipeline (gate, ACL, EDNS version, longest-suffix dispatch, handler chain) model-checked "
            "by TLC; TLC-enumerated request attributes x catalogs x ACLs replayed as bytes through hook H4 over UDP and TCP, each "
            "followed by a probe query; mutated/random request bytes judged by a TLA+ trace monitor with an independent byte reader",
            "Exhaustive model check over all request attributes x catalogs of nested/sibling/root zones x handler chains x "
            "allow/deny lists; three exhaustive case families replayed through ServerContext::handle_raw_request (number of "
            "replies, rcode class, id/question echo, answering zone), every hostile message followed by a known-good probe "
            "(survival); tens of thousands of mutated and random messages judged by Trace_FrontDoor.",
            "Driven in-process through hook H4 (no sockets); TLS/HTTPS/QUIC front ends share handle_request and are not driven "
            "separately; precedence among several applicable error codes follows the code where the property leaves it open.",
            "DESIGN.md section 4 C11", "front"),
    "C05": ("model_checking",
            "TLA+ canonical-form operators (CanonRdata, RdataLess, CanonSet, SignedOwner, SignedData) and a sign/publish/verify "
            "machine model-checked by TLC; TLC-enumerated RRsets with the expected field list replayed through TBS, the built-in "
            "signer/verifier and a direct ring signature over the expected bytes; recorded random RRsets judged by a TLA+ monitor",
            "Exhaustive model check of order-invariance and self/third-party verification over small RRsets (bytes, names, "
            "wildcards, NSEC, MX; every permutation/duplication/recasing); every generated case is turned into real Records, "
            "TBS bytes are compared with the serialisation of the expected field list, signed with every supported algorithm "
            "by the built-in signer and by ring directly over the expected bytes, and verified by the built-in verifier; random "
            "RRsets of many RDATA types are parsed back into fields and judged by Trace_Canonical.",
            "Cryptographic primitives (ring) trusted; RSASHA1 is verify-only and not exercised as a signer; exhaustive refers "
            "to the enumerated Gen spaces.",
            "DESIGN.md section 4 C05", "canonical"),
    "C06": ("model_checking",
            "TLA+ machine of signature checking with a validation cache (cache lookup / key state / validity window in RFC 1982 "
            "arithmetic / crypto / cache insert / clock advance / evict) model-checked by TLC; TLC-generated histories replayed "
            "through DnssecDnsHandle with real keys on a virtual clock (hook H2); recorded histories and bit-flip sweeps judged "
            "by a TLA+ monitor",
            "Exhaustive model check of histories of validate/advance/evict over single-field variants of RRset, RRSIG and DNSKEY; "
            "tens of thousands of generated histories are concretised with real Ed25519/ECDSA keys and run through "
            "DnssecDnsHandle::send over a scripted upstream, projecting Record.proof and TTL; single-bit flips over the wire "
            "images and clock placements at the window edges incl. u32 wrap are recorded and judged by Trace_SigCheck.",
            "The property is an 'only if': NotSecure is never judged; a verdict served from the cache is attributed to the key "
            "of the call that established it; crypto trusted; validator clock = RuntimeProvider::Timer, cache clock via hook H2.",
            "DESIGN.md section 4 C06", "sigcheck"),
    "C12": ("model_checking",
            "TLA+ machine of RFC 2136 section 3 processing plus requirement invariants checked by TLC; TLC-generated histories replayed through the real Catalog + SqliteZoneHandler with TSIG-signed wire bytes; every run and seeded random histories judged message by message by a TLA+ monitor",
            "Exhaustive model check of prerequisite / prescan / update steps (incl. serial wrap) and of histories over a small "
            "name and rdata universe; TLC-enumerated and -simulated histories of UPDATE messages covering every class/type/rdata "
            "form of RFC 2136 tables 3.2.4 and 3.4.2.6 are sent as TSIG-signed wire bytes through Catalog::handle_request into a "
            "zone built by SqliteZoneHandler::try_from_config, the reply and the zone (records(), AXFR, serial) projected, and "
            "each message judged by Trace_Update (rcode, contents, serial iff changed in RFC 1982 order, one SOA, apex NS, CNAME "
            "alone, all-or-nothing, prerequisites on the current zone). Mismatches are attributed to a listed finding only if "
            "its syntactic trigger is present and every broken requirement is one that defect can break.",
            "Projection in drive_update.rs; TTLs, wildcard owners, DNSSEC-signed zones and concurrent updates not modelled; the "
            "value-dependent prerequisite subset-vs-equality reading is accepted both ways.",
            "DESIGN.md section 4 C12", "update"),
    "C14": ("model_checking",
            "TLA+ write-ahead-journal machine (one action per journal row, Crash, Recover) model-checked by TLC with AsIs "
            "counterexample configurations; real journals cut after every row and recovered by an unmodified try_from_config; "
            "every recovery judged by a TLA+ monitor",
            "Exhaustive model check of histories x crash after every row x second crash; the driver runs update histories "
            "against a real on-disk journal, copies it, cuts it after every possible stop row (detected through SQLite's file "
            "change counter, so a transactional implementation raises no alarm), recovers with try_from_config and continues the "
            "history; Trace_Journal judges each recovery (boundary between whole messages, acknowledged updates present, serial "
            "not behind, recovery total, transparent continuation).",
            "SQLite durability of committed transactions trusted; PRAGMA synchronous=OFF on driver-built connections; crash "
            "points are the commit boundaries.",
            "DESIGN.md section 4 C14", "update"),
    "C01": ("model_checking",
            "TLA+ state machine of the name reader model-checked by TLC against a declarative meaning of names in messages "
            "(termination variant, linear work, bounds, 63/255 limits); every TLC-enumerated (buffer, offset) replayed through "
            "Name::read; mutated/random/adversarial inputs through every network entry point judged by a TLA+ monitor",
            "The compression-pointer machinery -- the only place where decoding can fail to terminate -- is decided exhaustively "
            "in a small scope: TLC proves the lexicographic variant, the work bound and agreement with RFC 1035 4.1.4 for every "
            "buffer of <= 4/5 octets over an alphabet of pointers, reserved forms and label lengths at every offset, and the real "
            "Name::read is run on every one of those inputs. Totality of the ~35 RDATA decoders, Message, the server-side "
            "Request and Record is covered twice: (1) the wire grammar of 41 record types is a TLA+ table (GrammarOps: fields, "
            "boundary variants of every field, EDNS options, SVCB parameters, bit maps, with the grammar's well-formedness verdict) "
            "that TLC unfolds into every variant x every message context (opcode x section x class x RDLENGTH policy x position) "
            "plus the item lists of the model-checked loop machine TlvLoop; a table-free driver serialises them and Trace_Grammar "
            "judges panic / hang / CPU budget / limits for four entry points; (2) seeded mutation of valid messages of 30 RDATA "
            "types, random bytes and adversarial 64 KiB packets under catch_unwind and a watchdog, judged by Trace_Wire.",
            "Outside the exhaustive scope the claim is exploration-level (sampled inputs; the oracle is 'ok or err, within "
            "bounds, limits respected, within the time budget'); memory consumption is not judged; whether valid names decode "
            "to the right labels is judged by C02.",
            "DESIGN.md section 4 C01", "wire"),
    "C02": ("model_checking",
            "the TLA+ meaning of a name in a message (model-checked against the reader machine) is the oracle that decides, in a "
            "TLA+ trace monitor, that every name of every encoded message means the original name whatever compression layout was "
            "chosen; valid names enumerated by TLC replayed through Name::read; value and byte round trips recorded and judged",
            "Compression -- where the listed interactions of the property live -- is decided by the specification: for thousands of "
            "random messages (30 RDATA types, flags, opcodes, extended RCODEs, EDNS options, TSIG, 150-400-record messages beyond "
            "the 120-name and 0x3FFF compressor limits) an independent wire walker locates each question/owner name and TLC "
            "evaluates DecodeName on the encoded bytes (prior, complete, case-exact); header counts, OPT/TSIG placement, RCODE "
            "split and absence of trailing bytes are judged from the walker's output; decode(encode(m)) = m; accepted byte "
            "strings (valid and mutated) are re-encoded and re-decoded and RDATA of non-compressible types compared byte for "
            "byte. Every valid (buffer, offset) of the exhaustive small scope must decode to exactly the specified labels. The "
            "record grammar GrammarOps (41 types, every field variant, every message context, TlvLoop item lists) adds: a record the "
            "grammar calls well-formed in its context is accepted by Message, Request, Record::read (stopping exactly behind it) "
            "and RData::read, survives decode+encode octet for octet, and whatever is accepted re-encodes to a fixpoint.",
            "Value equality is hickory's PartialEq (+ case-exact owner names); field-value fidelity of each RDATA type is exercised "
            "by corpus values, not decided by TLC; names inside RDATA are covered through message equality, not through the layout "
            "oracle.",
            "DESIGN.md section 4 C02", "wire"),
    "C16": ("model_checking",
            "TLA+ machines (UdpMatch, Mux) with requirement invariants checked exhaustively by TLC; TLC-enumerated arrival "
            "schedules / interleavings with the outcome sets the property permits replayed into the real UdpClientStream "
            "(scripted RuntimeProvider) and DnsMultiplexer (scripted DnsClientStream, polled exactly when its task would be "
            "woken, paused clock); recorded traces validated by TLA+ monitors judging on concrete source / ID / question bytes",
            "Every schedule of <= 4 (thorough <= 5) datagrams over the forgery catalogue (wrong source ip/port, id, qname, qname "
            "case, qtype, extra question, garbage), genuine reply at every position or absent, case randomisation on/off, plus "
            "two-socket retransmission schedules; every interleaving of <= 7 (<= 8) steps over 2-4 multiplexed requests "
            "(deliver in-flight / unknown / duplicate id, garbage, cancel, timeout, close); all replayed through the real code; "
            "long random schedules, 400-in-flight and burst/flood scenarios judged by Trace_UdpMatch / Trace_Mux.",
            "Scripted sockets/streams and hand-written wire codec in drive_c16; skip-vs-fail for non-matching datagrams and "
            "refusal at the in-flight cap are left open by the property and accepted either way; ID/port/case entropy not judged.",
            "DESIGN.md section 4 C16", "mux"),
    "C20": ("model_checking",
            "TLA+ reference reading of RFC 1035 section 5 (character-level lexer ZoneLex, denotation ZoneFile!Read) and a "
            "master-file printer machine (ZonePrinter) whose every layout decision is a TLC choice; TLC-printed files with the "
            "denoted record set replayed through Parser and zone loading; recorded texts judged by a TLA+ monitor",
            "The lexical level is exhaustive in scope (every string of <= 4/5 characters over 15 classes, with liveness); the "
            "printer/reader pair is model-checked for inheritance and RDATA layouts; TLC prints hundreds to thousands of files "
            "(absolute/relative names, inherited owner/TTL/class, $ORIGIN/$TTL, comments, blank lines, parenthesised continuation, "
            "quoted/unquoted strings, escapes) over 21 record types with the record set they denote; each is loaded with "
            "Parser and, for a share, through FileZoneHandler::try_from_config, and compared; mutated/garbage/very long texts are "
            "run under catch_unwind and a watchdog and judged (ok|err, and the denotation where the reading is decisive) by "
            "Trace_ZoneFile.",
            "RDATA value spellings come from a fixed table; \\DDD escapes, IDNA labels and $INCLUDE are 'unspec' (totality only); "
            "whole files are sampled with seeded -simulate; layouts the reading leaves unspecified are not judged.",
            "DESIGN.md section 4 C20", "zonefile"),
    "C07": ("model_checking",
            "TLA+ specification of DNSSEC worlds, adversarial faults and a declarative UnbrokenChain/denial oracle plus the "
            "validator walk, model-checked by TLC; TLC-generated worlds x queries x fault sets replayed against the real "
            "DnssecDnsHandle over real signed zones and against the real forwarding server path; random deeper worlds judged by a "
            "TLA+ monitor",
            "Exhaustive for <= 2 faults, hierarchy depth <= 3 (depth 4 for single faults): worlds of signed / unsigned / "
            "unsupported-algorithm zones with secure, provably insecure, DS-unsupported-only and broken delegations, positive / "
            "NODATA / NXDOMAIN queries, faults drop / alter signed bit / re-sign with an attacker key / inject on records, RRSIGs "
            "and denial records of the answer, DNSKEY and DS responses; each world is built from real InMemoryZoneHandlers signed "
            "by hickory's own signer (Ed25519), queries routed by name, faults applied to the responses, and the verdict class "
            "(Secure / Insecure / anything else) of DnssecDnsHandle compared with the allowed set; second stage through Catalog "
            "-> forwarder -> resolver for the AD / SERVFAIL mapping under CD x DO.",
            "The property is an 'only if': Bogus, Indeterminate and errors are always accepted; NSEC3/opt-out worlds, wildcard "
            "and CNAME answers, key-tag collisions, revoked keys and RSA worlds are not generated; crypto (ring) trusted.",
            "DESIGN.md section 4 C07", "chain"),
    "C18": ("model_checking",
            "TLA+ timeline machine of the name server pool (rounds, TCP fallback, backoff, deadline, shared in-flight entry) with "
            "requirement operators checked by TLC; TLC-enumerated configurations and arrival patterns replayed into the real "
            "NameServerPool on a virtual clock (hook H3); recorded runs judged by a TLA+ monitor",
            "Exhaustive over all assignments of 19 server profiles (answer, trusted/untrusted NXDOMAIN, truncated then TCP, "
            "timeout, io error, busy then answer ... with latencies) to 1-4 servers x ordering strategies x parallelism x "
            "per-attempt timeout, with 2-3 callers joining anywhere; every case is replayed against NameServerPool::send behind a "
            "mock ConnectionProvider on tokio's paused clock and the result class, completion time and exchange log compared; "
            "seeded random runs with 1-6 servers and caller cancellation judged by Trace_Pool (FindsHealthy, TcpRetry, "
            "UntrustedNxContinues, Deadline, SharedOnce, MapCleaned).",
            "Scripted DnsHandle per (server, protocol); the per-attempt timeout is enforced by the script; a busy server owes one "
            "retry only; which healthy server answers and the order under QueryStatistics are free.",
            "DESIGN.md section 4 C18", "pool"),
    "C19": ("model_checking",
            "TLA+ iterative-resolver model with a bailiwick rule on observables, model-checked by TLC; generated internets "
            "replayed into the real Recursor behind per-address response tables, followed by a silent-network probe phase "
            "(poisoned cache detection); runs judged by a TLA+ monitor",
            "Exhaustive over small simulated internets (root + <= 3 levels, in/out-of-zone NS names, with/without glue, CNAME and "
            "NS loops, glueless cycles, lame and self-referential delegations) x hostile servers injecting out-of-bailiwick "
            "records in any section x queries; each is realised as scripted authoritative tables behind a mock "
            "ConnectionProvider and resolved by Recursor::resolve; observables: returned records, addresses contacted, number of "
            "upstream queries, and what a second phase with a silent network still answers (cached); judged by Trace_Recursor "
            "(NoPoison, Filters, Terminates); stub alias chasing depth in the trace direction.",
            "The zones an address is delegated are read statically from the internet definition; hostile servers add only "
            "out-of-bailiwick records; the query bound is deliberately generous; DNSSEC off.",
            "DESIGN.md section 4 C19", "recursor"),
    "C08": ("model_checking",
            "TLA+ machine plus declarative RFC oracle (Entails / Entails3) model-checked against zone truth; TLC-generated zones x claims with the exact families of record subsets that entail them replayed into the real verifier via hook H1; end-to-end signed server -> validator; recorded events judged by a TLA+ monitor with clause-level explanations",
            "Entails is written from RFC 4035 5.4 / RFC 6840 4 and checked by TLC against the truth of the name space (zone, child "
            "zone, parent side) for soundness and for completeness of the RFC 4035 3.1.3 server proof; for every zone of <= 2-3 "
            "owners over the {a,b,*} universe x query x type x rcode, every subset of <= 3 NSEC records (own chain and foreign) in "
            "every order and several SOA contexts is offered to verify_nsec (16M calls in quick, 83M in thorough): Secure only "
            "if Entails, and the prescribed proof must be Secure; end to end a signed InMemoryZoneHandler answers through "
            "Catalog and its proof goes through verify_nsec and DnssecDnsHandle; random larger zones with perturbed proofs are "
            "judged by Trace_Nsec.",
            "H1 wrapper, JSON/record concretisers and TLC trusted; only minimal unsound subsets are reported (supersets implied); "
            "a DS NODATA proven by a record with the SOA bit accepts both verdicts.",
            "DESIGN.md section 4 C08", "nsec"),
    "C09": ("model_checking",
            "TLA+ machine plus declarative RFC oracle (Entails / Entails3) model-checked against zone truth; TLC-generated zones x claims with the exact families of record subsets that entail them replayed into the real verifier via hook H1; end-to-end signed server -> validator; recorded events judged by a TLA+ monitor with clause-level explanations",
            "Entails3 is written from RFC 5155 8.4-8.8 and checked by TLC over zones x hash orders x Opt-Out incl. stale-parameter "
            "material and iteration limits; the hash table is a constant built from real SHA-1 hashes; every subset of <= 3 "
            "NSEC3 records in every order is offered to verify_nsec3 (12M calls in quick, 156M in thorough) for every claim; "
            "iteration counts around the soft/hard limits; end to end through a signed NSEC3 zone; random larger zones, "
            "mixed-parameter and cross-zone mixtures judged by Trace_Nsec3.",
            "Only SHA-1 (cross-checked between ring and hickory), first 60 hash bits; H1 wrapper and concretisers trusted; eight "
            "soundness defects of verify_nsec3 are known findings (their fix stack needs edits of unit-test data), so unsound "
            "acceptances explained by exactly those clauses are not reported.",
            "DESIGN.md section 4 C09", "nsec"),
}

NOT_YET = {
}

ENGINES = [
    {"name": "nsec", "path": "spec/Nsec.tla", "serves_properties": ["C08", "C09"],
     "kind_free_text": "TLA+ spec (DnsNames, NsecOps, Nsec, NsecScopes, Nsec3Ops, Nsec3, Nsec3Scopes, MC_/Gen_/Trace_Nsec, MC_/Gen_/Trace_Nsec3) + harness/src/bin/drive_nsec, drive_nsec3 (verify_nsec / verify_nsec3 through hook H1, served worlds end to end, published-chain audit)"},
    {"name": "pool", "path": "spec/Pool.tla", "serves_properties": ["C18"],
     "kind_free_text": "TLA+ spec (PoolOps, Pool, MC_/Gen_/Trace_Pool) + harness/src/bin/drive_pool/ (connection level: scripted ConnectionProvider; socket level: scripted RuntimeProvider under the real ConnectionProvider, DnsExchange, DnsMultiplexer, TcpClientStream, UdpClientStream)"},
    {"name": "recursor", "path": "spec/Recursor.tla", "serves_properties": ["C19"],
     "kind_free_text": "TLA+ spec (RecursorOps, Recursor, RecursorNets, AccessOps, Gen_Access, MC_/Gen_/Trace_Recursor) + harness/src/bin/drive_recursor.rs (recursor over simulated internets, stub alias chasing, AccessControlSet replay)"},
    {"name": "chain", "path": "spec/Chain.tla", "serves_properties": ["C07"],
     "kind_free_text": "TLA+ spec (ChainOps, Chain, MC_/Gen_/Trace_Chain) + harness/src/bin/drive_chain.rs (real signed zones + fault layer + DnssecDnsHandle; delivery modes raw / pool / upper-case / twice)"},
    {"name": "zonefile", "path": "spec/ZoneFile.tla", "serves_properties": ["C20"],
     "kind_free_text": "TLA+ spec (ZoneLex, ZoneFile, ZonePrinter, MC_/Gen_ZoneLex, MC_/Gen_/Trace_ZoneFile) + harness/src/bin/drive_zone.rs"},
    {"name": "mux", "path": "spec/Mux.tla", "serves_properties": ["C16"],
     "kind_free_text": "TLA+ spec (UdpMatchOps, UdpMatch, Mux, MC_/Gen_/Trace_UdpMatch, Gen_UdpRetx, MC_/Gen_/Trace_Mux) + harness/src/bin/drive_c16/"},
    {"name": "wire", "path": "spec/WireName.tla", "serves_properties": ["C01", "C02"],
     "kind_free_text": "TLA+ spec (WireNameOps, WireName, MC_WireName, Gen_WireName, Trace_Wire, Trace_RoundTrip, GrammarOps, TlvLoop, MC_TlvLoop, Gen_Grammar, Trace_Grammar) + harness/src/bin/drive_wire.rs"},
    {"name": "update", "path": "spec/Update.tla", "serves_properties": ["C12", "C14"],
     "kind_free_text": "TLA+ spec (Serial, UpdateOps, Update, JournalOps, Journal, MC_/Gen_/Trace_Update, MC_/Gen_/Trace_Journal) + harness/src/bin/drive_update.rs"},
    {"name": "canonical", "path": "spec/Canonical.tla", "serves_properties": ["C05"],
     "kind_free_text": "TLA+ spec (CanonicalForm, Canonical, MC_/Gen_/Trace_Canonical) + harness/src/bin/drive_canonical.rs"},
    {"name": "sigcheck", "path": "spec/SigCheck.tla", "serves_properties": ["C06"],
     "kind_free_text": "TLA+ spec (SigSerial, SigRules, SigCheck, MC_/Gen_/Trace_SigCheck) + harness/src/bin/drive_sigcheck.rs"},
    {"name": "auth", "path": "spec/AuthServer.tla", "serves_properties": ["C10"],
     "kind_free_text": "TLA+ spec (AuthNames, AuthAnswer, AuthAsIs, AuthZones, AuthServer, MC_/Gen_/Trace_AuthServer) + harness/src/bin/drive_auth.rs"},
    {"name": "front", "path": "spec/FrontDoor.tla", "serves_properties": ["C11"],
     "kind_free_text": "TLA+ spec (FrontDoorReq, FrontDoor, MC_/Gen_/Trace_FrontDoor, Serving, MC_Serving, Trace_Serving, ZoneLock, MC_ZoneLock) + harness/src/bin/drive_front.rs (in-process through hook H4 and a live stage: the real Server on loopback UDP/TCP with canary queries)"},
    {"name": "names", "path": "spec/NameOps.tla", "serves_properties": ["C04"],
     "kind_free_text": "TLA+ spec (DnsNames, NameLaws, NameOps, Gen_NamePairs, Gen_NameOps, Trace_Names) + harness/src/bin/drive_names.rs"},
    {"name": "tsig", "path": "spec/Tsig.tla", "serves_properties": ["C13"],
     "kind_free_text": "TLA+ spec (TsigOps, Tsig, MC_/Gen_/Trace_Tsig) + harness/src/bin/drive_tsig.rs + the mux-tsig / udp-tsig modes of harness/src/bin/drive_c16/"},
    {"name": "encoder", "path": "spec/Encoder.tla", "serves_properties": ["C03"],
     "kind_free_text": "TLA+ spec (EncoderOps, Encoder, MC_/Gen_/Trace_Encoder) + harness/src/bin/drive_encoder.rs (proto encoder, and the server path through hook H4 incl. a handler that sets TC itself)"},
    {"name": "cache", "path": "spec/Cache.tla", "serves_properties": ["C15"],
     "kind_free_text": "TLA+ spec (CacheOps, Cache, MC_/Gen_/Trace_Cache, Trace_LookupTtl) + harness/src/bin/drive_cache.rs (ResponseCache, CachingClient through hook H6) + the ttl mode of harness/src/bin/drive_stub.rs (Resolver API)"},
    {"name": "tcp", "path": "spec/TcpFraming.tla", "serves_properties": ["C17"],
     "kind_free_text": "TLA+ spec (Framing, TcpFraming, MC_/Gen_/Trace_TcpFraming, IdleTimer, MC_IdleTimer, Trace_IdleTimer) + harness/src/bin/drive_tcp.rs (bare TcpStream, TcpClientStream, TimeoutStream with virtual time, io adapters)"},
]


def main():
    props = [json.loads(l)["id"] for l in open(os.path.join(VERIF, "properties.jsonl"))]
    checks = []
    for pid in props:
        if pid not in CHECKS:
            continue
        cat, tech, text, note, ref, eng = CHECKS[pid]
        checks.append({
            "property_id": pid,
            "quick_cmd": f"./check {pid} quick",
            "thorough_cmd": f"./check {pid} thorough",
            "evidence_file": f"/verif/evidence/{pid}.json",
            "replay_cmd_template": f"./check {pid} --replay {{path}}",
            "engine": eng,
            "level_claimed": {"category": cat, "text": text, "design_ref": ref},
            "level_note": note,
            "technique": tech,
        })
    na = []
    for pid in props:
        if pid not in CHECKS:
            na.append({"property_id": pid,
                       "reason": NOT_YET.get(pid, "not claimed yet: the TLA+ module and conformance driver for this property "
                                                  "are not built in this revision (see DESIGN.md section 4 for the plan)")})
    hooks_file = os.path.join(VERIF, "lib", "hooks.json")
    hooks = json.load(open(hooks_file)) if os.path.exists(hooks_file) else {"source_commits": [], "add_only": True}
    man = {
        "version": 1,
        "setup_cmd": "./setup.sh",
        "hooks": {
            "guard": "--cfg hickory_dns_verif (rustc cfg)",
            "enable": "harness/.cargo/config.toml sets rustflags = [\"--cfg\", \"hickory_dns_verif\"]; the harness "
                      "crate has path dependencies on /repo/crates/* so every check rebuilds them from the working tree",
            "baseline_off_cmd": "cd /repo && cargo nextest run --workspace --no-fail-fast --test-threads 8 --offline "
                                "|| cargo test --workspace --no-fail-fast --offline",
            "source_commits": hooks.get("source_commits", []),
            "add_only": hooks.get("add_only", True),
        },
        "engines": ENGINES,
        "checks": checks,
        "not_applicable": na,
        "notes": "One entry point: ./check <Cnn> quick|thorough. Exit 0 held / 1 VIOLATION / 2 tool error. "
                 "Known findings: KNOWN_FINDINGS.txt. Seeded breakages used to validate the checks: seeded/.",
    }
    with open(os.path.join(VERIF, "MANIFEST.json"), "w") as f:
        json.dump(man, f, indent=1)
    r = subprocess.run(["python3-vt", "-c", "import json,jsonschema,sys; jsonschema.validate(json.load(open('%s/MANIFEST.json')), json.load(open('/root/.vp/MANIFEST.schema.json'))); print('manifest valid')" % VERIF])
    return r.returncode


if __name__ == "__main__":
    raise SystemExit(main())
