#!/usr/bin/env python3
"""Developer tool: drop the hunks of a unified diff that fall inside a `#[cfg(test)]` module
(fix commits touch only what the defect requires). usage: strip_test_hunks.py in.diff repo_root > out.diff"""
import re
import sys

src, root = sys.argv[1], sys.argv[2]
out, cur_file, test_start, hunk, keep = [], None, None, [], True
lines = open(src).read().splitlines(keepends=True)
i = 0
header = []


def flush():
    global hunk
    if hunk and keep:
        out.extend(hunk)
    hunk = []


for ln in lines:
    if ln.startswith("diff --git") or ln.startswith("--- ") and not hunk:
        flush()
    if ln.startswith("diff --git"):
        flush()
        out.append(ln)
        continue
    if ln.startswith("index ") or ln.startswith("--- "):
        out.append(ln)
        continue
    if ln.startswith("+++ "):
        out.append(ln)
        cur_file = ln[6:].strip() if ln.startswith("+++ b/") else ln[4:].strip()
        test_start = None
        for n, l in enumerate(open(f"{root}/{cur_file}"), 1):
            if re.match(r"\s*#\[cfg\(test\)\]", l):
                test_start = n
                break
        continue
    if ln.startswith("@@"):
        flush()
        a = int(re.match(r"@@ -(\d+)", ln).group(1))
        keep = test_start is None or a < test_start - 3
        hunk = [ln]
        continue
    hunk.append(ln)
flush()
sys.stdout.write("".join(out))
