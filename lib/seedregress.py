#!/usr/bin/env python3
"""Regression over kept seeded changes: apply seeded/<id>/patch.diff in a scratch worktree and run the
check(s) that detected it when it was confirmed (meta.json "detected_by"); report seeds that are no
longer detected.  Usage: seedregress.py <worktree> <id> [<id> ...]"""
import json, os, subprocess, sys
VERIF = os.path.dirname(os.path.dirname(os.path.abspath(__file__)))
wt = sys.argv[1]
for sid in sys.argv[2:]:
    d = os.path.join(VERIF, "seeded", sid)
    meta = json.load(open(os.path.join(d, "meta.json")))
    checks = meta.get("detected_by") or [sid.split("-")[0]]
    subprocess.run("git checkout -q -- . && git clean -fdq -e target -e .verif-alt", shell=True, cwd=wt)
    a = subprocess.run(["git", "apply", os.path.join(d, "patch.diff")], cwd=wt, capture_output=True, text=True)
    if a.returncode != 0:
        print(f"REGRESS {sid}: patch does not apply ({a.stderr.strip()[:100]})", flush=True)
        continue
    hit = []
    for c in checks:
        p = subprocess.run(["./check", c, "quick"], cwd=VERIF, env=dict(os.environ, VERIF_REPO=wt), capture_output=True, text=True)
        if p.returncode == 1 and "VIOLATION property=" in p.stdout:
            hit.append(c)
        elif p.returncode == 2:
            hit.append(c + ":TOOL-ERROR")
    print(f"REGRESS {sid}: expected={checks} now={hit} {'OK' if any(':' not in h for h in hit) else 'LOST'}", flush=True)
    subprocess.run("git checkout -q -- .", shell=True, cwd=wt)
