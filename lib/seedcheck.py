#!/usr/bin/env python3
"""Developer tool (not a registered command): confirm a seeded breaking change and run the
owning check against it.

  lib/seedcheck.py <Cnn> <seed-dir> <name>

<seed-dir> holds patch.diff, demo/ (with RUN.txt) and meta.json as produced by an independent
sub-agent. Uses ONE persistent scratch worktree (/tmp/sc-wt, its own target/) so that cargo builds
are incremental; the worktree is reset before and after. Steps:
  1. demo WITHOUT the change must pass, WITH the change must fail (commands from RUN.txt);
  2. `cargo check` of the touched crates and their unit tests with the change: no test that
     passes on the clean tree may fail (network-only failures are the same with and without);
  3. VERIF_REPO=<worktree> ./check <Cnn> quick  -> detected iff a VIOLATION line is printed;
  4. copies everything to /verif/seeded/<name>/ with the outcome in meta.json.
"""
import json
import os
import re
import shutil
import subprocess
import sys

VERIF = os.path.dirname(os.path.dirname(os.path.abspath(__file__)))
WT = os.environ.get("SC_WT", "/tmp/sc-wt")      # SC_WT: another scratch worktree (parallel runs)


def sh(cmd, cwd=WT, timeout=3600, env=None):
    e = dict(os.environ, CARGO_NET_OFFLINE="true")
    e.update(env or {})
    p = subprocess.run(cmd, shell=True, cwd=cwd, stdout=subprocess.PIPE, stderr=subprocess.STDOUT, text=True, timeout=timeout, env=e)
    return p.returncode, p.stdout


def reset():
    if not os.path.isdir(WT):
        sh(f"git -C /repo worktree add -q --detach {WT} HEAD", cwd="/")
    head = subprocess.check_output(["git", "-C", "/repo", "rev-parse", "HEAD"], text=True).strip()
    sh(f"git checkout -q --detach {head} && git checkout -q -- . && git clean -fdq -e target -e .verif-alt")


def failing_tests(out):
    return sorted(set(re.findall(r"^test (\S+) \.\.\. FAILED", out, re.M)))


def main():
    args = [a for a in sys.argv[1:] if not a.startswith("--")]
    prop, seed, name = args[0], args[1].rstrip("/"), args[2]
    checks = args[3:] or [prop]
    reset()
    patch = os.path.join(seed, "patch.diff")
    run_txt = open(os.path.join(seed, "demo", "RUN.txt")).read()
    cmds = []
    demo_dir = os.path.join(seed, "demo")
    for l in run_txt.splitlines():
        l = l.strip()
        l = re.sub(r"^\d+[.)]\s+(?=(cp|cd|cargo|git|mkdir)\b)", "", l)      # "1. cp ..." enumerations
        l = l.replace("<checkout>", WT).replace("<repo>", WT)
        l = re.sub(r"^cd \S+\s*&&\s*", "", l)
        l = re.sub(r"/tmp/seed[2345]?-C\d+", WT, l)
        l = l.replace("<worktree>", WT).replace("<this dir>/../", seed + "/").replace("<this dir>", demo_dir)
        l = re.sub(r"^git apply (\S*/)?patch\.diff$", "git apply " + patch, l)
        # ENV=... cargo ...  ->  keep the assignments as a prefix the shell understands, mark as cargo
        menv = re.match(r"^((?:[A-Z_]+=(?:\"[^\"]*\"|'[^']*'|\S+)\s+)+)(cargo\b.*)$", l)
        if menv:
            l = "cargo-env " + l
        if l.startswith("cp "):
            parts = l.split()
            # a source given relative to the demo directory
            if len(parts) == 3 and not os.path.exists(parts[1]) and os.path.exists(os.path.join(demo_dir, os.path.basename(parts[1]))):
                parts[1] = os.path.join(demo_dir, os.path.basename(parts[1]))
            if len(parts) == 3 and not parts[2].startswith("/"):
                parts[2] = os.path.join(WT, parts[2])
            l = " ".join(parts)
        if re.match(r"^(cp|mkdir|cargo|git apply)\b", l):
            cmds.append(l)
    # "git apply ...   # omit for the run without the change" placed BEFORE the test command: the same
    # commands are meant for both states -> drop the apply step and let the both-states path below run
    first_apply = next((i for i, c in enumerate(cmds) if c.startswith("git apply") and not c.startswith("git apply -R")), None)
    first_cargo = next((i for i, c in enumerate(cmds) if c.startswith("cargo")), None)
    if first_apply is not None and first_cargo is not None and first_apply < first_cargo:
        cmds = [c for c in cmds if not c.startswith("git apply")]
    if "--demo-only" in sys.argv:
        os.environ["SEEDCHECK_DEMO_ONLY"] = "1"
    log = []
    phase = "before"
    demo_before = demo_after = None
    for c in cmds:
        if c.startswith("git apply -R") or c.startswith("rm -rf") or c.startswith("git checkout") or c.startswith("git clean"):
            continue
        if c.startswith("git apply"):
            rc, out = sh(f"git apply {patch}")
            log.append((c, rc))
            if rc != 0:
                print("PATCH DOES NOT APPLY", out)
                return 2
            phase = "after"
            continue
        if c.startswith("cd "):
            continue
        rc, out = sh(c[len("cargo-env "):] if c.startswith("cargo-env ") else c)
        log.append((c, rc))
        if c.startswith("cargo"):
            if phase == "before":
                demo_before = rc
            else:
                demo_after = rc
            print(f"[demo {phase}] rc={rc}: {c}")
            if (phase == "before" and rc != 0) or (phase == "after" and rc == 0):
                print(out[-3000:])
    if phase == "before":
        # RUN.txt without an explicit apply step: the same cargo commands are meant for both states
        rc, out = sh(f"git apply {patch}")
        if rc != 0:
            print("PATCH DOES NOT APPLY", out)
            return 2
        for c in [c for c in cmds if c.startswith("cargo")]:
            rc, out = sh(c[len("cargo-env "):] if c.startswith("cargo-env ") else c)
            log.append((c + "   # with the change", rc))
            demo_after = rc if demo_after in (None, 0) else demo_after
            print(f"[demo after] rc={rc}: {c}")
            if rc == 0:
                print(out[-2000:])
    if os.environ.get("SEEDCHECK_DEMO_ONLY"):
        dst = os.path.join(VERIF, "seeded", name, "meta.json")
        meta = json.load(open(dst))
        meta["confirmed"]["demo_passes_without_change"] = demo_before == 0
        meta["confirmed"]["demo_fails_with_change"] = demo_after not in (0, None)
        meta["confirmed"]["commands"] = [c for c, _ in log] + meta["confirmed"]["commands"][-2:]
        json.dump(meta, open(dst, "w"), indent=1)
        reset()
        print(f"SEED {name}: demo confirmed={demo_before == 0 and demo_after not in (0, None)} detected_by={meta.get('detected_by')}")
        return 0
    # 2. touched crates
    files = re.findall(r"^\+\+\+ b/(\S+)", open(patch).read(), re.M)
    crates = sorted({"/".join(f.split("/")[:2]) for f in files if f.startswith("crates/")} | {f.split("/")[0] for f in files if f.startswith("bin/")})
    pk = {"crates/proto": "hickory-proto", "crates/net": "hickory-net", "crates/resolver": "hickory-resolver",
          "crates/server": "hickory-server", "bin": "hickory-dns"}
    feats = {"hickory-proto": "--features dnssec-ring", "hickory-net": "--features dnssec-ring",
             "hickory-resolver": "--features dnssec-ring,recursor", "hickory-server": "--features dnssec-ring,sqlite,resolver,recursor",
             "hickory-dns": ""}
    unit = {}
    for c in crates:
        p = pk.get(c)
        if not p:
            continue
        rc, out = sh(f"cargo test -p {p} --offline --lib {feats[p]} 2>&1")
        with_fail = failing_tests(out)
        compiled = "error: could not compile" not in out and "error[E" not in out
        sh(f"git apply -R {patch}")
        rc0, out0 = sh(f"cargo test -p {p} --offline --lib {feats[p]} 2>&1")
        base_fail = failing_tests(out0)
        sh(f"git apply {patch}")
        new = [t for t in with_fail if t not in base_fail]
        unit[p] = {"compiles": compiled, "newly_failing": new, "baseline_failing": len(base_fail)}
        print(f"[unit {p}] compiles={compiled} newly failing={new} (baseline network failures={len(base_fail)})")
    # 3. our checks
    results = {}
    for ck in checks:
        shutil.rmtree(os.path.join(WT, ".verif-alt", "replays"), ignore_errors=True)
        rc, out = sh(f"./check {ck} quick", cwd=VERIF, env={"VERIF_REPO": WT}, timeout=7200)
        viol = re.findall(r"^VIOLATION property=(\S+) replay=(\S+)", out, re.M)
        classes = re.findall(r"^violation-class: property=\S+ class=(\S+)", out, re.M)
        results[ck] = {"rc": rc, "violations": classes[:8], "violation_lines": len(viol)}
        print(f"[check {ck}] rc={rc} violations={classes[:5]}")
        if rc == 2:
            print(out[-2500:])
    # 4. keep
    dst = os.path.join(VERIF, "seeded", name)
    shutil.rmtree(dst, ignore_errors=True)
    os.makedirs(dst)
    shutil.copy(patch, os.path.join(dst, "patch.diff"))
    shutil.copytree(os.path.join(seed, "demo"), os.path.join(dst, "demo"))
    meta = json.load(open(os.path.join(seed, "meta.json")))
    meta["confirmed"] = {
        "demo_passes_without_change": demo_before == 0, "demo_fails_with_change": demo_after not in (0, None),
        "unit_tests": unit,
        "base_commit": subprocess.check_output(["git", "-C", "/repo", "rev-parse", "--short", "HEAD"], text=True).strip(),
        "commands": [c for c, _ in log] + [f"cargo test -p <crate> --offline --lib (with/without)", f"VERIF_REPO={WT} ./check {' '.join(checks)} quick"],
    }
    meta["checks"] = results
    meta["detected_by"] = [k for k, v in results.items() if v["rc"] == 1]
    with open(os.path.join(dst, "meta.json"), "w") as f:
        json.dump(meta, f, indent=1)
    reset()
    ok = demo_before == 0 and demo_after not in (0, None)
    print(f"SEED {name}: confirmed={ok} detected_by={meta['detected_by']}")
    return 0


if __name__ == "__main__":
    sys.exit(main())
