"""C02 -- encode/decode round trip preserves every message.

D: the declarative meaning of a name in a message (WireNameOps!DecodeName, RFC 1035 4.1.4) is the
   same operator that MC_WireName checks against the reader machine (see C01); here it is the
   oracle for compression validity.
R: every (buffer, offset) that the specification says holds a VALID name (Gen_WireName) must be
   decoded by Name::read to exactly those labels (case-exact) and offset.
R2: the record grammar GrammarOps.tla (41 types, boundary variants of every field, EDNS options,
   SVCB parameters) unfolded by Gen_Grammar: a record the grammar calls well-formed in its context
   must be accepted by Message::from_vec, Request::from_bytes, Record::read (stopping exactly
   behind it) and RData::read, its RDATA must survive decode+encode octet for octet (types
   without compressible names), and whatever is accepted must re-encode to a fixpoint
   (monitor Trace_Grammar).
T: seeded random structurally valid messages (30 RDATA types, all flags, four opcodes, plain and
   extended RCODEs, EDNS options, TSIG, shared-suffix / mixed-case / 63-octet labels, messages
   with 150-400 records crossing the 120-name and 0x3FFF limits of the compressor) are encoded;
   an independent wire walker locates every question/owner name and the TLA+ monitor decides that
   whatever compression layout was chosen MEANS the original name; header counts, OPT/TSIG
   placement, the extended-RCODE split and "no trailing bytes" are judged from the walker's
   output; decode(encode(m)) = m. Accepted byte strings (valid and mutated messages) are decoded,
   re-encoded and decoded again: equal, and RDATA of name-less types (and of types whose names must
   not be compressed, when the input did not compress them) preserved byte for byte.
"""
import json
import os

import vlib
from checks import grammar_common

BINS = ["drive_wire"]


def run(res, tier, seed):
    res.rule = ("case = one random message (value round trip, layout, placement) or one accepted byte string (byte round trip), or "
                "one valid (buffer, offset) name; non-trivial = message with >= 2 records / byte string with >= 1 compared RDATA / "
                "name using a pointer; distinct by case id or content")
    res.assumptions = ["equality of messages is hickory's PartialEq plus case-exact owner names; Update0 vs empty OPT counts as equal "
                       "(the repository's own fuzz target makes the same exception)",
                       "per-type value fidelity is exercised by the corpus values, not decided by the specification",
                       "a re-encoding that sets TC is not compared further"]
    wd = vlib.workdir("c02")
    cfg = "MC_WireName.cfg" if tier == "thorough" else "MC_WireName_quick.cfg"
    st = vlib.mc(os.path.join(vlib.SPEC, "MC_WireName.tla"), os.path.join(vlib.SPEC, cfg), wd, workers=6, timeout=2400)
    res.add_mc(cfg, st)
    bufs = "MC_Bufs5" if tier == "thorough" else "MC_Bufs4"
    tla, gcfg = vlib.wrapper(wd, "GW", "Gen_WireName, MC_WireName_defs", {},
                             ["SPECIFICATION Spec", "CONSTANTS", f"  Bufs <- {bufs}", "  Starts <- MC_Starts", "INVARIANT Emit",
                              "CHECK_DEADLOCK FALSE"])
    cases, gst = vlib.gen(tla, gcfg, wd, workers=6, timeout=2400, heap="12g")
    valid = [c for c in cases if c["ok"]]
    if len(valid) < 1000:
        raise vlib.ToolError(f"only {len(valid)} valid names generated")
    res.states += gst["distinct"]
    res.transitions += gst["generated"]
    cpath = os.path.join(wd, "names.ndjson")
    vlib.write_ndjson(cpath, valid)
    vpath = os.path.join(wd, "names.verdicts.ndjson")
    vlib.run_driver("drive_wire", ["replay-names"], stdin_path=cpath, stdout_path=vpath)
    n = 0
    for v in vlib.read_ndjson(vpath):
        n += 1
        res.evaluations += 1
        if v["nontrivial"]:
            res.nontrivial.add(vlib.digest([v["input"]["buf"], v["input"]["start"]]))
        if not v["ok"]:
            res.mismatch("valid-name-refused-or-misread", {"entry": "name"}, v)
    if n != len(valid):
        raise vlib.ToolError("driver lost cases")
    res.traces += n
    # ---- R2: the record grammar: well-formed records are accepted, framed exactly, preserved; accepted ones are fixpoints
    grammar_common.run(res, "C02", tier, "c02g")
    # ---- T
    n_rand = 150000 if tier == "thorough" else 3000
    tpath = os.path.join(wd, "rt.trace.ndjson")
    vlib.run_driver("drive_wire", ["record-roundtrip", "--trace", tpath, "--n", str(n_rand), "--seed", str(seed)],
                    stdout_path=os.path.join(wd, "rt.out"), timeout=3000)
    lines = open(tpath).read().splitlines(keepends=True)
    shards = 12 if tier == "thorough" else 6
    files = []
    for i in range(shards):
        p = os.path.join(wd, f"t{i}.ndjson")
        with open(p, "w") as f:
            f.writelines(lines[i::shards])
        files.append(p)
    from concurrent.futures import ThreadPoolExecutor
    with ThreadPoolExecutor(max_workers=shards) as ex:
        outs = list(ex.map(lambda a: vlib.trace_check(os.path.join(vlib.SPEC, "Trace_RoundTrip.tla"),
                                                      os.path.join(vlib.SPEC, "Trace_RoundTrip.cfg"),
                                                      vlib.workdir(f"c02_s{a[0]}"), a[1], 3000, "6g"), enumerate(files)))
    mism = [m for o in outs for m in o[0]]
    kinds = {}
    compared = big = 0
    for ln in lines:
        e = json.loads(ln)
        kinds[e["ev"]] = kinds.get(e["ev"], 0) + 1
        if e["ev"] == "rt1":
            if e.get("records", 0) >= 2:
                res.nontrivial.add("rt1" + e["case"])
            if e.get("len", 0) > 16384:
                big += 1
        elif e["ev"] == "rt2":
            compared += e.get("compared", 0)
            if e.get("compared", 0) > 0:
                res.nontrivial.add("rt2" + e["case"])
        elif e["ev"] == "layout" and len(res.samples) < 2 and len(e["buf"]) < 200 and len(e["names"]) >= 2:
            res.sample({"layout_of_encoded_message": e["names"], "bytes": len(e["buf"])})
    if any(kinds.get(k, 0) == 0 for k in ("rt1", "layout", "place", "rt2")) or compared == 0:
        raise vlib.ToolError(f"vacuous round-trip trace: {kinds} compared={compared}")
    res.traces += len(lines)
    res.evaluations += len(lines)
    res.extra.update({"events": kinds, "rdata_slices_compared": compared, "messages_beyond_offset_0x3FFF": big,
                      "valid_names_replayed": n})
    for m in mism:
        ev = m["event"]
        cls = {"rt1": "value-roundtrip-differs:" + ",".join(ev.get("diffs", [])), "layout": "name-in-encoding-means-something-else",
               "place": "placement-or-counts", "rt2": "byte-roundtrip-differs"}.get(ev["ev"], ev["ev"])
        if ev["ev"] == "rt2" and not ev.get("rdataPreserved", True):
            cls = "rdata-not-preserved:type" + str(ev.get("badType"))
        res.mismatch(cls, {"case": ev["case"]}, m)


def replay(res, path):
    print(json.dumps(json.load(open(path)), indent=1)[:6000])
    return 0
