"""C08 -- NSEC denial of existence is sound and complete.

D: Nsec.tla (zone admin / signer / server / attacker / validator) model-checked: the declarative
   reading of NSEC records (NsecOps.Entails, RFC 4035 5.4 + RFC 6840 4) accepts the proof RFC 4035
   3.1.3 prescribes (C08_Complete) and accepts nothing that is false of the name space, whatever
   genuine records of the zone, its children and its parent an attacker mixes (C08_Sound).
R: Gen_Nsec enumerates zones x questions; for every claim the exact family of record subsets Entails
   accepts.  drive_nsec offers every subset (every order, several SOA contexts) to the real
   verify_nsec (hook H1) and compares; the prescribed proof must be accepted.
   End to end: the zone is signed by the real InMemoryZoneHandler (NxProofKind::Nsec; aliases point
   at hosts of the same zone with fewer / as many / more labels), asked through Catalog, and the
   response -- negative, wildcard or positive -- is judged by verify_nsec and by DnssecDnsHandle.
   Fault layer: a wildcard's authentic NSEC + RRSIG renamed to an expanded owner that sorts before
   the wildcard is offered as an NXDOMAIN proof to DnssecDnsHandle (real signatures).
T: seeded random larger zones (longer labels): the server's own responses and perturbed proofs.
   Every event (and every R disagreement) is judged by the TLA+ monitor Trace_Nsec, which also says
   which dropped clause of the RFC reading would explain an unsound acceptance.
"""
import json
import os

import vlib

BINS = ["drive_nsec"]

COMMON = ["Apex <- MC_Apex", "PlainKinds <- MC_PlainKinds", "WildKinds <- MC_WildKinds", "ParentSide <- MC_ParentSide"]

# (name, Universe, QNames, QTypes, MaxOwners, GenK)
GEN_QUICK = [("Gq", "Q_Universe6", "Q_QNames10", "Q_QTypes", 2, 3)]
GEN_THOROUGH = [
    ("Gt9", "Q_Universe", "Q_QNames", "Q_QTypes", 2, 3),
    ("Gt6x3", "Q_Universe6", "Q_QNames10", "S_QTypes", 3, 2),
    ("Gstar", "S_Universe", "S_QNames", "S_QTypes", 2, 2),
]

# fixed order in which alternative explanations are attributed
PRIORITY = ["wildcard-expanded-nsec-used", "rfc6840-type-at-delegation", "rfc6840-below-delegation", "ent-taken-as-absent", "next-is-soa-taken-as-last",
            "wildcard-expansion-intermediate-names-unchecked", "no-soa-parent-taken-as-closest-encloser",
            "closest-encloser-unproven", "last-nsec-spans-other-zones", "cname-bit-ignored"]


def interior_star(e):
    """a "*" label that is not the leftmost label of its name (RFC 4592 2.1.3) occurs in the event"""
    names = [e["q"]] + [r["owner"] for r in e["proof"]] + [r["next"] for r in e["proof"]]
    return any(l == [42] for n in names for l in n[1:])


def nm(n):
    return ".".join(bytes(l).decode("latin1") for l in n) + "."


def rec_str(r):
    return f"{nm(r['owner'])} NSEC {nm(r['next'])} {' '.join(r['types'])}"


def ev_key(e):
    return json.dumps([e["origin"], e["q"], e["t"], e["kind"], e["ce"], e["soa"],
                       sorted(json.dumps(p, sort_keys=True) for p in e["proof"]), e["verdict"],
                       sorted(json.dumps(r, sort_keys=True) for r in e.get("riders", []))])


def describe(e):
    return {"q": nm(e["q"]), "t": e["t"], "claim": e["kind"] + (" from *." + nm(e["ce"]) if e["kind"] == "wild" else ""),
            "soa": nm(e["soa"]) if e["soa"] else None, "proof": [rec_str(r) for r in e["proof"]],
            "answer_riders": [r["t"] + " expanded from *." + nm(r["ce"]) for r in e.get("riders", [])],
            "verdict": e["verdict"], "full_validator": e.get("full"), "origin": e["origin"]}


def classify(m):
    """Deterministic: (class, match fields) for every way the event failed."""
    e, j = m["event"], m["judge"]
    out = []
    if e["verdict"] == "PANIC":
        out.append(("panic", {"kind": e["kind"]}))
    if not j["sound"]:
        singles = [r for r in PRIORITY if r in j["explainedBy"]]
        pairs = sorted((tuple(sorted(p, key=PRIORITY.index)) for p in j["explainedByPairs"]),
                       key=lambda p: [PRIORITY.index(x) for x in p])
        if singles:
            rules = [singles[0]]
        elif pairs:
            rules = list(pairs[0])
        elif j["explainedByAll"]:
            rules = ["three-or-more-clauses"]
        else:
            rules = []
        if not rules:
            out.append(("unclassified:" + vlib.digest(describe(e)), {"kind": e["kind"]}))
        for r in rules:
            out.append(("unsound-accept", {"explained_by": r, "kind": e["kind"], "interior_star": interior_star(e),
                                           "riders": bool(e.get("riders"))}))
    if not j["complete"]:
        common = {"ent": j["ent"], "q_child_of_ce": j["qChildOfCe"], "uses_last": j["usesLast"], "soa": bool(e["soa"]),
                  "q_absent_proven": j["qAbsentProven"], "interior_star": interior_star(e)}
        if e["origin"] == "prescribed":
            out.append(("prescribed-proof-rejected", dict(common, lookup=j["lookup"], kind=e["kind"])))
        else:
            out.append(("server-response-rejected",
                        dict(common, expected=j["lookup"], got=e["kind"], proof_entails=j["entails"], no_proof=j["noProof"],
                             answer_expanded=bool(e.get("ans_expanded", False)))))
    return out


def run(res, tier, seed):
    res.rule = ("case = (zone, question, claim, offered record subset, SOA context); non-trivial = the offered subset is "
                "non-empty and at least one NSEC spans or matches the query name or a wildcard of one of its ancestors "
                "(counted by the driver as cases with >= 1 accepted or entailed subset), plus every end-to-end "
                "negative/wildcard response; distinct by content hash")
    res.assumptions = [
        "verify_nsec is reached through hook H1 (hickory_net::dnssec::verif::verify_nsec), a thin wrapper",
        "abstract types {A,NS,DS,CNAME,TXT,SOA}; RRSIG/NSEC bits are always set in concrete records and not represented",
        "signatures are not forged: every offered NSEC is taken as genuine (owner validated Secure); the answer of a "
        "wildcard claim carries a Secure RRSIG with the Labels field of the claimed wildcard",
        "end to end: Ed25519 keys generated per zone, real clock; the zone's own DNSKEY is the trust anchor",
        "TLC 1.8.0 and the JSON projection of records in harness/src/bin/drive_nsec are trusted",
    ]
    wd = vlib.workdir("c08")
    thorough = tier == "thorough"
    mc_tla = os.path.join(vlib.SPEC, "MC_Nsec.tla")
    # ---- D
    cfgs = ["MC_Nsec", "MC_Nsec_lemmas"] + (["MC_Nsec_thorough", "MC_Nsec_star", "MC_Nsec_deep"] if thorough else [])
    for cfg in cfgs:
        st = vlib.mc(mc_tla, os.path.join(vlib.SPEC, cfg + ".cfg"), wd, workers=6, timeout=2400)
        res.add_mc(cfg, st)
    # anti-vacuity: both verdicts are reachable for forged responses (expected-to-fail configurations)
    for wit in ["W_SecureForged", "W_BogusTrue"]:
        with open(os.path.join(vlib.SPEC, "MC_Nsec_lemmas.cfg")) as f:
            lines = [("INVARIANTS " + wit) if ln.startswith("INVARIANTS") else ln.rstrip("\n") for ln in f]
        cfgp = os.path.join(wd, wit + ".cfg")
        with open(cfgp, "w") as f:
            f.write("\n".join(lines) + "\n")
        rc, out = vlib.tlc(mc_tla, cfgp, wd, workers=4, timeout=600)
        if f"Invariant {wit} is violated" not in out:
            raise vlib.ToolError(f"vacuous model: witness {wit} not reachable")
    # ---- R (+ end to end)
    gens = GEN_THOROUGH if thorough else GEN_QUICK
    traces = []
    r_forged_keys = set()
    total_cases = 0
    n_rider_units = 0
    e2e_kinds = {}
    for (name, uni, qn, qt, mo, k) in gens:
        cfg_lines = ["SPECIFICATION GenSpec", "CONSTANTS"] + ["  " + c for c in COMMON] + [
            f"  Universe <- {uni}", f"  QNames <- {qn}", f"  QTypes <- {qt}", f"  MaxOwners = {mo}", "  MaxProof = 2",
            f"  GenK = {k}", "INVARIANT Emit", "CHECK_DEADLOCK FALSE"]
        tla, cfg = vlib.wrapper(wd, name, "Gen_Nsec, NsecScopes", {}, cfg_lines)
        rc, out = vlib.tlc(tla, cfg, wd, workers=6, timeout=3000, heap="12g")
        if rc != 0 or "No error has been found" not in out:
            vlib.log(out[-3000:])
            raise vlib.ToolError(f"generator {name} failed rc={rc}")
        st = vlib.stats(out)
        cpath = os.path.join(wd, f"{name}.cases.ndjson")
        n_cases = 0
        with open(cpath, "w") as f:
            for c in vlib.replays(os.path.join(wd, f"{name}.out"), from_file=True):
                f.write(json.dumps(c, separators=(",", ":")) + "\n")
                n_cases += 1
        os.remove(os.path.join(wd, f"{name}.out"))
        vlib.log(f"[c08] {name}: {n_cases} cases (zones x questions)")
        if not n_cases:
            raise vlib.ToolError(f"generator {name} produced no cases")
        res.states += st["distinct"]
        res.transitions += st["generated"]
        tpath = os.path.join(wd, f"{name}.trace.ndjson")
        vpath = os.path.join(wd, f"{name}.verdicts.ndjson")
        vlib.run_driver("drive_nsec", ["replay", "--e2e", "--threads", "8", "--trace", tpath, "--max-bad", "4000"],
                        stdin_path=cpath, stdout_path=vpath, timeout=3000)
        n = 0
        for v in vlib.read_ndjson(vpath):
            n += 1
            res.evaluations += v["evals"]
            n_rider_units += v["rider_units"]
            if v["secure_sets"] or v["entailed_sets"]:
                res.nontrivial.add(vlib.digest(v["input"]))
            if v["nbad"] > len(v["bad"]):
                raise vlib.ToolError("driver truncated its list of disagreements; raise --max-bad")
            e2 = v["observed"]["e2e"]
            if "error" in e2:
                raise vlib.ToolError(f"end-to-end query failed: {e2['error']}")
            kk = f"{v['input']['lookup']}->{e2['kind']}:{e2['hook']}/{e2['full']}"
            e2e_kinds[kk] = e2e_kinds.get(kk, 0) + 1
            if v["secure_sets"] > 1:
                res.sample({"zone": {nm(z["n"]): z["ty"] for z in v["input"]["zone"]}, "q": nm(v["input"]["q"]), "t": v["input"]["t"],
                            "rfc1034_lookup": v["input"]["lookup"], "subsets_x_orders_x_soa_offered": v["evals"],
                            "accepted_subsets": v["secure_sets"], "entailed_subsets": v["entailed_sets"],
                            "end_to_end": e2}, cap=2)
        if n != n_cases:
            raise vlib.ToolError("driver lost cases")
        total_cases += n
        res.traces += n
        traces.append(("R", tpath))
        os.remove(cpath)
    res.exhaustive = True
    # ---- T: random larger zones
    n_zones, per_zone = (400, 60) if thorough else (40, 40)
    rpath = os.path.join(wd, "random.trace.ndjson")
    vlib.run_driver("drive_nsec", ["record", "--trace", rpath, "--n", str(n_zones), "--per-zone", str(per_zone), "--seed", str(seed)],
                    stdout_path=os.path.join(wd, "random.out"), timeout=3000)
    n_rand_events = 0
    for v in vlib.read_ndjson(os.path.join(wd, "random.out")):
        if "error" in v:
            raise vlib.ToolError(f"record: {v['error']}")
        n_rand_events += v["events"]
        if v["secure"]:
            res.nontrivial.add("r" + str(v["case"]))
    traces.append(("T", rpath))
    # ---- the monitor judges: all server / prescribed events; forged events once per distinct content
    all_trace = os.path.join(wd, "all.trace.ndjson")
    seen = set()
    forged = []
    n_server = n_prescribed = n_forged_total = n_forged_full = n_chain = 0
    apex = None
    with open(all_trace, "w") as out:
        for src, t in traces:
            pending = None
            for e in vlib.read_ndjson(t):
                if e["ev"] == "reset":
                    pending = e
                    apex = e["apex"]
                    continue
                if e["ev"] == "chain":
                    n_chain += 1
                    if pending is not None:
                        out.write(json.dumps(pending, separators=(",", ":")) + "\n")
                        pending = None
                    out.write(json.dumps(e, separators=(",", ":")) + "\n")
                    continue
                if e["origin"] in ("forged", "forged-full"):
                    n_forged_total += 1
                    n_forged_full += e["origin"] == "forged-full"
                    k = ev_key(e)
                    if src == "R" and e["origin"] == "forged":
                        r_forged_keys.add(k)
                    if k not in seen:
                        seen.add(k)
                        forged.append(e)
                    continue
                n_server += e["origin"] == "server"
                n_prescribed += e["origin"] == "prescribed"
                if pending is not None:
                    out.write(json.dumps(pending, separators=(",", ":")) + "\n")
                    pending = None
                out.write(json.dumps(e, separators=(",", ":")) + "\n")
        # zone-less cases of forged events (a soundness judgement needs no zone), in chunks
        for i in range(0, len(forged), 500):
            out.write(json.dumps({"ev": "reset", "case": f"forged-{i // 500}", "apex": apex, "zone": []}, separators=(",", ":")) + "\n")
            for e in forged[i:i + 500]:
                out.write(json.dumps(e, separators=(",", ":")) + "\n")
    mism, tst = vlib.trace_check_parallel(os.path.join(vlib.SPEC, "Trace_Nsec.tla"), os.path.join(vlib.SPEC, "Trace_Nsec.cfg"),
                                          wd, all_trace, shards=8 if thorough else 6, timeout=3000)
    res.traces += tst["cases"]
    res.evaluations += n_rand_events
    res.extra.update({
        "generated_cases_replayed": total_cases,
        "end_to_end_responses_judged": n_server,
        "end_to_end_matrix(rfc_lookup->server_kind:verify_nsec/validator)": e2e_kinds,
        "random_zone_events": n_rand_events,
        "trace_events_validated": tst["distinct"],
        "forged_events_recorded": n_forged_total,
        "forged_responses_through_whole_validator(expanded wildcard NSEC + real RRSIG)": n_forged_full,
        "forged_events_distinct": len(forged),
    })
    # every disagreement the driver found against Gen's families must be confirmed by the monitor
    res.extra["wildcard_claims_offered_with_riders(claim x rider option)"] = n_rider_units
    if not n_rider_units:
        raise vlib.ToolError("no wildcard claim was offered with a rider RRset (no zone with nested wildcards)")
    res.extra["published_chains_audited"] = n_chain
    if not n_chain:
        raise vlib.ToolError("no published NSEC chain was audited")
    if not n_forged_full:
        raise vlib.ToolError("the expanded-NSEC fault was never injected (no zone with a wildcard reached the whole validator)")
    confirmed = {ev_key(m["event"]) for m in mism if m["event"]["origin"] == "forged"}
    missing = r_forged_keys - confirmed
    if missing:
        raise vlib.ToolError(f"Gen_Nsec and Trace_Nsec disagree on {len(missing)} offered proofs, e.g. {sorted(missing)[0][:400]}")
    examples = {}
    for m in mism:
        if m["event"]["ev"] == "chain":
            j = m["judge"]
            rs = lambda xs: sorted(rec_str(x) for x in xs)
            mo, eo = {nm(x["owner"]) for x in j["missing"]}, {nm(x["owner"]) for x in j["extra"]}
            fields = {"what": "record-differs" if mo & eo else "names"}
            detail = {"missing(expected, not published)": rs(j["missing"]), "extra(published, not expected)": rs(j["extra"])}
            res.mismatch("published-chain-wrong", fields, {"chain": detail, "case": m["case"]})
            examples.setdefault("published-chain-wrong:" + fields["what"], detail)
            continue
        cl = classify(m)
        if not cl:
            raise vlib.ToolError("monitor rejected an event without a reason: " + json.dumps(m)[:600])
        for cls, fields in cl:
            res.mismatch(cls, fields, {"event": describe(m["event"]), "judge": m["judge"], "case": m["case"]})
            k = cls + ":" + str(fields.get("explained_by", fields.get("expected", fields.get("lookup", ""))) ) + (
                "->" + str(fields["got"]) if "got" in fields else "")
            if k not in examples and len(examples) < 40:
                examples[k] = describe(m["event"])
    res.extra["disagreement_examples(one per class)"] = examples


def replay(res, path):
    d = json.load(open(path))
    print(json.dumps(d, indent=1)[:6000])
    return 0
