"""C15 -- cached answers expire on time and TTLs only count down.

D: Cache.tla (insert/get/advance/evict with an explicit clock) satisfies C15_* for all
   histories over a small universe (TLC, exhaustive).
R: Gen_Cache histories (exhaustive short + seeded -simulate long) carry, for every get, what
   the specification allows; replayed through the real hickory_resolver::ResponseCache on a
   virtual clock.
T: seeded random histories over random TTL configurations are recorded from the real cache and
   validated event by event by the TLA+ monitor Trace_Cache (operators of CacheOps); the same for
   CachingClient over a scripted upstream on tokio's paused clock (hook H6), where the negative
   TTL of an upstream NXDOMAIN/NODATA is derived by the specification from its SOA (RFC 2308 5).
"""
import os

import vlib
from checks import c15_resolver

BINS = ["drive_cache", "drive_stub"]

B = "[pmin |-> {}, pmax |-> {}, nmin |-> {}, nmax |-> {}]"
R = '[sec |-> "{}", type |-> "{}", ttl |-> {}]'


def b(*a):
    return B.format(*a)


def r(*a):
    return R.format(*a)


QUERIES = '{[name |-> "a", type |-> "A"], [name |-> "a", type |-> "TXT"], [name |-> "b", type |-> "A"]}'
MESSAGES = "{" + ", ".join([
    f"<<{r('an', 'A', 1)}>>",
    f"<<{r('an', 'A', 9)}, {r('an', 'A', 4)}>>",
    f"<<{r('an', 'CNAME', 5)}, {r('an', 'A', 7)}, {r('ns', 'NS', 10)}>>",
    f"<<{r('an', 'TXT', 0)}, {r('ad', 'A', 3)}>>",
    f"<<{r('an', 'TXT', 6)}, {r('ns', 'NS', 2)}, {r('ad', 'AAAA', 30)}>>",
    f"<<{r('ns', 'NS', 1)}>>",
]) + "}"
# TTL configurations: none, min>ttl, max<ttl, min=max, 0, per-type overrides
CFGS = [
    f"[def |-> {b(0, 86400, 0, 86400)}, byType |-> [x \\in {{}} |-> 0]]",
    f"[def |-> {b(5, 86400, 3, 86400)}, byType |-> [x \\in {{}} |-> 0]]",
    f"[def |-> {b(0, 3, 0, 2)}, byType |-> [x \\in {{}} |-> 0]]",
    f"[def |-> {b(4, 4, 2, 2)}, byType |-> [x \\in {{}} |-> 0]]",
    f"[def |-> {b(0, 0, 0, 0)}, byType |-> [x \\in {{}} |-> 0]]",
    f"[def |-> {b(2, 6, 1, 4)}, byType |-> [CNAME |-> {b(0, 3, 0, 86400)}, A |-> {b(3, 5, 2, 3)}]]",
    f"[def |-> {b(0, 8, 0, 8)}, byType |-> [CNAME |-> {b(6, 20, 0, 5)}, NS |-> {b(0, 1, 0, 1)}, TXT |-> {b(1, 86400, 7, 9)}]]",
]
GEN_CFG = ["SPECIFICATION GSpec", "CONSTANTS", "  Queries <- P_Queries", "  Cfg <- P_Cfg", "  Messages <- P_Messages",
           "  NegTtls <- P_Neg", "  ErrClasses <- P_Err", "  Steps <- P_Steps", "  MaxLen = {maxlen}", "  Horizon = 0",
           "INVARIANT Emit", "CHECK_DEADLOCK FALSE"]


def run(res, tier, seed):
    res.rule = ("case = one history of insert/get/advance over one TTL configuration; non-trivial = at least one get "
                "answered from the cache (hit) and at least one get at or after the entry's expiry; distinct by content hash")
    res.assumptions = ["virtual clock = base Instant + ticks of 500 ms passed to insert/get (the API takes `now`)",
                       "moka's own real-clock expiry can only turn a hit into a miss (always allowed)",
                       "positive_min_ttl <= positive_max_ttl in every configuration (Ord::clamp panics otherwise; "
                       "not in the property's quantifier)"]
    wd = vlib.workdir("c15")
    # ---- D
    mc_cfg = os.path.join(wd, "MC_Cache_run.cfg")
    with open(os.path.join(vlib.SPEC, "MC_Cache.cfg")) as f:
        txt = f.read()
    maxnow = 14 if tier == "thorough" else 7
    txt = txt.replace("MaxNow = 14", f"MaxNow = {maxnow}")
    with open(mc_cfg, "w") as f:
        f.write(txt)
    st = vlib.mc(os.path.join(vlib.SPEC, "MC_Cache.tla"), mc_cfg, wd, workers=8, timeout=1500)
    res.add_mc(f"MC_Cache(MaxNow={maxnow})", st)
    # ---- R
    n_sim = 400 if tier == "thorough" else 50
    depth = 40
    total = hits = gets = umiss = 0
    for ci, cfg in enumerate(CFGS):
        name = f"GC{ci}"
        tla, cfgp = vlib.wrapper(wd, name, "Gen_Cache",
                                 {"P_Queries": QUERIES, "P_Cfg": cfg, "P_Messages": MESSAGES, "P_Neg": "{0 - 1, 0, 1, 5, 12}",
                                  "P_Err": '{"timeout", "io", "busy"}', "P_Steps": "{1, 2, 3, 7, 11}"},
                                 [l.format(maxlen=depth) for l in GEN_CFG])
        cases, st = vlib.gen(tla, cfgp, wd, simulate=(n_sim, depth + 1), seed=seed + ci, timeout=600)
        if len(cases) < n_sim:
            raise vlib.ToolError(f"generator {name}: only {len(cases)} behaviours")
        cpath = os.path.join(wd, f"{name}.cases.ndjson")
        vlib.write_ndjson(cpath, cases)
        vpath = os.path.join(wd, f"{name}.verdicts.ndjson")
        vlib.run_driver("drive_cache", ["replay"], stdin_path=cpath, stdout_path=vpath)
        n = 0
        for v in vlib.read_ndjson(vpath):
            n += 1
            res.evaluations += 1
            hits += v["hits"]
            gets += v["gets"]
            umiss += v["unexpected_miss"]
            if v["hits"] > 0 and v["gets"] > v["hits"]:
                res.nontrivial.add(vlib.digest(v["digest_src"]))
            if not v["ok"]:
                bad = v["bad"]
                res.mismatch(bad["class"], {"cfg": ci, "qtype": bad["event"]["q"]["type"]},
                             {"generator": name, "bad": bad, "case": v["input"]})
            elif n <= 1 and ci in (0, 5):
                res.sample({"cfg": cfg, "history": v["digest_src"][:12]})
        if n != len(cases):
            raise vlib.ToolError("driver lost cases")
        total += n
    res.traces += total
    if hits == 0:
        raise vlib.ToolError("vacuous replay: the cache never answered a get")
    res.extra["replay_gets"] = gets
    res.extra["replay_hits"] = hits
    res.extra["replay_misses_where_hit_was_allowed"] = umiss
    # ---- T
    n_rand = 1500 if tier == "thorough" else 200
    tpath = os.path.join(wd, "random.trace.ndjson")
    vlib.run_driver("drive_cache", ["record", "--trace", tpath, "--n", str(n_rand), "--ops", "150", "--seed", str(seed)],
                    stdout_path=os.path.join(wd, "random.out"))
    # caching-client layer (CachingClient over a scripted upstream, tokio's paused clock, hook H6):
    # the same monitor, with the negative TTL derived by the specification from the SOA
    n_client = 500 if tier == "thorough" else 60
    cpath2 = os.path.join(wd, "client.trace.ndjson")
    vlib.run_driver("drive_cache", ["record-client", "--trace", cpath2, "--n", str(n_client), "--ops", "150", "--seed", str(seed)],
                    stdout_path=os.path.join(wd, "client.out"))
    with open(tpath, "a") as out, open(cpath2) as f:
        for line in f:
            out.write(line)
    mism, tst = vlib.trace_check_parallel(os.path.join(vlib.SPEC, "Trace_Cache.tla"), os.path.join(vlib.SPEC, "Trace_Cache.cfg"),
                                          wd, tpath, shards=12 if tier == "thorough" else 6, timeout=3000)
    thits = 0
    cur = None
    case_hits = {}
    for e in vlib.read_ndjson(tpath):
        if e["ev"] == "reset":
            cur = e["case"]
        elif e["ev"] == "get" and e["res"] != "miss":
            thits += 1
            case_hits[cur] = case_hits.get(cur, 0) + 1
    if thits == 0:
        raise vlib.ToolError("vacuous trace: no hits recorded")
    res.traces += n_rand + n_client
    res.evaluations += n_rand + n_client
    res.extra["caching_client_cases"] = n_client
    for c in case_hits:
        res.nontrivial.add("t" + c)
    res.extra["trace_events_validated"] = tst["distinct"]
    res.extra["trace_hits"] = thits
    for m in mism:
        ev = m["event"]
        exp = m.get("expected", {})
        if ev.get("res") == "PANIC":
            cls = "panic"
        elif ev.get("ev") == "get" and ev.get("res") == "pos" and exp.get("kind") == "pos":
            cls = "ttl-wrong" if ev.get("ttls") != exp.get("ttls") else "served-late"
        elif ev.get("ev") == "get" and ev.get("res") == "pos" and exp.get("kind") in ("chain", "pchain"):
            late = (ev["t"] - exp["at"]) > exp["lifeHi"] * 2
            cls = "alias-chain-served-late" if late else "alias-chain-ttl-wrong"
        elif ev.get("ev") == "get" and ev.get("res") == "neg":
            cls = "negative-served-late-or-grew"
        elif ev.get("ev") == "get":
            cls = "hit-without-entry"
        else:
            cls = "trace-rejected:" + str(ev.get("ev"))
        res.mismatch(cls, {"qtype": ev.get("q", {}).get("type", "?"), "case": str(m["case"])}, m)
    # ---- resolver API level: TTLs and valid_until of typed lookups and lookup_ip under every strategy
    # (real Resolver over a scripted connection provider; monitor Trace_LookupTtl on CacheOps)
    c15_resolver.run(res, tier, seed)


def replay(res, path):
    import json
    print(json.dumps(json.load(open(path)), indent=1)[:6000])
    return 0
