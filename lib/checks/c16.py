"""C16 -- only the queried server's matching reply completes a query.

Datagram half (spec/UdpMatchOps.tla, UdpMatch.tla):
  D: UdpMatch machine satisfies C16_AcceptOnlyMatching / C16_AtMostThree / C16_NoAcceptAfterCap /
     C16_OutcomeAllowed under every arrival order (TLC, exhaustive; one and two transmissions).
  R: Gen_UdpMatch enumerates every arrival schedule over the forgery catalogue (genuine reply at
     every position or absent, case randomisation on/off) with the outcome set the property
     allows; the real UdpClientStream is run on each over a scripted socket provider (every
     third case through the public DnsExchange handle).  Gen_UdpRetx does the same for two
     sockets (one retransmission, late arrivals on the first socket).
  T: the tx/dgram/done events of those runs and of seeded random runs (up to 50 planned
     datagrams, multi-field forgeries, 1-4 transmissions, IPv4/IPv6) are validated by the
     monitor Trace_UdpMatch, which derives each datagram's view from its concrete fields.
Stream half (spec/Mux.tla):
  D: Mux machine satisfies C16_DistinctIds / C16_RoutedById / C16_Reaches / C16_NoOther /
     C16_UnknownDropped / C16_CloseFailsAll (TLC, exhaustive, 3-4 requests, 3 wire IDs, symmetry).
  R: Gen_Mux enumerates interleavings of sends, deliveries (first, duplicate, stale, unknown,
     undecodable), cancels, clock ticks and close with the reference observation per step; the
     real DnsMultiplexer is stepped through each on a paused clock, polled exactly when its task
     would be woken.  A run that differs from the reference but is accepted by the monitor used
     a freedom the property leaves (counted, not reported).
  T: the events of those runs and of seeded random runs (up to 40 requests, batches, ID reuse
     possible), of runs with 400 requests in flight (freshness of IDs), of same-ID bursts and of
     floods of > 100 arrivals are validated by the monitor Trace_Mux on the real wire IDs.
"""
import os

import vlib

BINS = ["drive_c16"]

S = vlib.SPEC

UDP_GEN_CFG = ["SPECIFICATION GSpec", "CONSTANTS", "  GKinds <- P_Kinds", "  MaxLen = {ml}", "  NQ = {nq}",
               "  MaxGenuine = {mg}", "INVARIANT Emit", "CHECK_DEADLOCK FALSE"]
NINE = '{"genuine", "srcIp", "srcPort", "id", "qname", "qcase", "qtype", "extraQ", "garbage", "noQ"}'
ALL1 = ('{"genuine", "srcIp", "srcPort", "id", "qname", "qcase", "qtype", "qclass", "extraQ", "garbage", "noQ", '
        '"garbageOff", "queryPort"}')
TWOQ = '{"genuine", "id", "qname", "qcase", "extraQ", "noQ", "subsetQ"}'
SIX = '{"genuine", "srcPort", "id", "qcase", "extraQ", "garbage"}'
# (kinds, max schedule length, questions in the request, copies of the genuine reply)
# "not a DNS response" shapes (undecodable, too short, the request reflected with QR = 0) from the
# server, from another address and from another port, before / around the genuine reply
NOTRESP = ('{"genuine", "id", "garbage", "garbageOff", "garbagePort", "short", "shortOff", "shortPort", '
           '"queryCopy", "queryOff", "queryPort"}')
UDP_GEN_QUICK = [(NINE, 4, 1, 1), (TWOQ, 3, 2, 2), (NOTRESP, 3, 1, 1)]
UDP_GEN_THOROUGH = [(ALL1, 4, 1, 2), (NINE, 5, 1, 1), (TWOQ, 4, 2, 2), (NOTRESP, 4, 1, 1)]

RETX_GEN_CFG = ["SPECIFICATION GSpec", "CONSTANTS", "  GKinds <- P_Kinds", "  L1 = {l1}", "  L2 = {l2}", "  L3 = {l3}",
                "  NQ = {nq}", "INVARIANT Emit", "CHECK_DEADLOCK FALSE"]
FIVE = '{"genuine", "id", "srcPort", "qcase", "extraQ"}'
# (kinds, arrivals on socket 1 before / on socket 2 after / on socket 1 after the retransmission, questions)
RETX_GEN_QUICK = [(FIVE, 2, 2, 1, 1)]
RETX_GEN_THOROUGH = [(SIX, 3, 2, 1, 1), ('{"genuine", "id", "qcase", "extraQ", "subsetQ"}', 2, 2, 1, 2)]

MUX_GEN_CFG = ["SPECIFICATION GSpec", "CONSTANTS", "  N = {n}", "  Reqs <- G_Reqs", "  Ids <- G_Ids", "  Cap = {cap}",
               "  MaxTag = 99", "  MaxSteps = {steps}", "  TO = 3", "  MaxTicks = {ticks}", "  MaxNoise = {noise}",
               "INVARIANT Emit", "CHECK_DEADLOCK FALSE"]
# (requests, in-flight cap, schedule length, tick budget, unknown+garbage budget)
MUX_GEN_QUICK = [(3, 2, 6, 4, 1), (2, 2, 7, 5, 2)]
MUX_GEN_THOROUGH = [(3, 2, 8, 4, 1), (2, 2, 8, 5, 2), (4, 3, 7, 3, 1)]


def _req_of(why):
    return why.split(":", 1)[0].strip()


def _run_gen(wd, name, extends, defs, cfg):
    tla, cfgp = vlib.wrapper(wd, name, extends, defs, cfg)
    cases, st = vlib.gen(tla, cfgp, wd, workers=6, timeout=1500)
    if not cases or st is None:
        raise vlib.ToolError(f"generator {name} produced no cases")
    vlib.log(f"[c16] {name}: {len(cases)} cases")
    return cases, st


def _monitor(res, wd, sub, module, trace_files, shards, half):
    """Concatenate traces, validate with the monitor; returns {case id: mismatch}."""
    d = os.path.join(wd, sub)
    os.makedirs(os.path.join(d, "tmp"), exist_ok=True)
    allp = os.path.join(d, "all.trace.ndjson")
    with open(allp, "w") as out:
        for t in trace_files:
            with open(t) as f:
                for line in f:
                    out.write(line)
    mism, st = vlib.trace_check_parallel(os.path.join(S, module + ".tla"), os.path.join(S, module + ".cfg"), d, allp,
                                         shards=shards, timeout=3000)
    res.states += st["distinct"]
    res.transitions += st["distinct"]
    res.extra[f"{half}_trace_events_validated"] = st["distinct"]
    res.extra[f"{half}_trace_cases_validated"] = st["cases"]
    by_case = {}
    for m in mism:
        if m["why"].startswith("ADAPTER"):
            raise vlib.ToolError(f"harness inconsistency in {module}: case {m['case']} line {m['line']}: {m['why']}")
        by_case.setdefault(str(m["case"]), m)
    # cut the recorded events of (a few of) the rejected cases out, for --replay
    want, per_key = set(), {}
    for cid, m in by_case.items():
        key = (_req_of(m["why"]), m["event"].get("ev"), cid.split(":")[0] if ":" in cid else cid[:2])
        per_key[key] = per_key.get(key, 0) + 1
        if per_key[key] <= 3 and len(want) < 200:
            want.add(cid)
    if want:
        cur = None
        with open(allp) as f:
            for line in f:
                if '"ev":"reset"' in line:
                    cid = str(__import__("json").loads(line)["case"])
                    cur = cid if cid in want else None
                    if cur:
                        by_case[cur]["trace"] = []
                        by_case[cur]["monitor"] = module
                if cur:
                    by_case[cur]["trace"].append(line.rstrip("\n"))
    return by_case


def run(res, tier, seed):
    thorough = tier == "thorough"
    res.rule = ("UDP case = (case randomisation, questions asked, arrival schedule of forged/genuine datagrams [+ "
                "transmissions and arrival times in random runs]); non-trivial = at least one forged datagram was "
                "actually examined by the resolver. Mux case = interleaving of sends, arrivals (first/duplicate/stale/"
                "unknown/undecodable), cancels, clock steps, close; non-trivial = >= 2 requests sent and >= 1 arrival. "
                "Distinct by content hash of the schedule (generated) or by seeded case id (random).")
    res.assumptions = [
        "scripted RuntimeProvider/DnsUdpSocket and scripted DnsClientStream (harness/src/bin/drive_c16) are the only "
        "source of datagrams, stream items and time (tokio paused clock, single thread)",
        "the hand-written wire encoder/parser of the driver describes its own datagrams correctly (cross-checked: the "
        "monitor recomputes every generated datagram's view from the concrete fields and compares it with the "
        "generator's)",
        "entropy of IDs / ports / letter case is not judged; TSIG-verified responses are out of scope",
        "TLC and the JSON projection of events are trusted",
    ]
    wd = vlib.workdir("c16")

    # ------------------------------------------------------------------ D
    mcs = [("MC_UdpMatch", "MC_UdpMatch.cfg"), ("MC_UdpMatch", "MC_UdpMatch_retx.cfg"), ("MC_Mux", "MC_Mux.cfg")]
    if thorough:
        mcs += [("MC_UdpMatch", "MC_UdpMatch_retx6.cfg"), ("MC_Mux", "MC_Mux_big.cfg")]
    for mod, cfg in mcs:
        # the one-transmission configuration cannot retransmit by construction
        st = vlib.mc(os.path.join(S, mod + ".tla"), os.path.join(S, cfg), wd, workers=6, timeout=1500,
                     allow_zero=("Retransmit",) if cfg == "MC_UdpMatch.cfg" else ())
        res.add_mc(cfg[:-4], st)

    # ------------------------------------------------------------------ R + T, datagram half
    udp_traces = []
    n_udp = n_prompt = n_accept_prompt = 0
    udp_verdicts = {}
    for gi, (kinds, ml, nq, mg) in enumerate(UDP_GEN_THOROUGH if thorough else UDP_GEN_QUICK):
        name = f"GU{gi}"
        cases, st = _run_gen(wd, name, "Gen_UdpMatch", {"P_Kinds": kinds},
                             [l.format(ml=ml, nq=nq, mg=mg) for l in UDP_GEN_CFG])
        res.states += st["distinct"]
        res.transitions += st["generated"]
        cpath, tpath, vpath = (os.path.join(wd, f"{name}.{x}.ndjson") for x in ("cases", "trace", "verdicts"))
        vlib.write_ndjson(cpath, cases)
        vlib.run_driver("drive_c16", ["udp-replay", "--trace", tpath], stdin_path=cpath, stdout_path=vpath)
        udp_traces.append(tpath)
        n = 0
        for v in vlib.read_ndjson(vpath):
            n += 1
            v["case"] = f"{name}:{v['case']}"
            if v["adapter"]:
                raise vlib.ToolError(f"udp harness inconsistency: {v['adapter']}")
            if v.get("nontrivial"):
                res.nontrivial.add(vlib.digest(v["input"]))
            if v["prompt"]:
                n_prompt += 1
                if v["observed"]["o"] == "accept":
                    n_accept_prompt += 1
            if not v["ok"]:
                res.mismatch("udp-replay:" + v["class"],
                             {"kind": v["kind"], "cr": v["input"]["cr"], "nq": v["input"]["nq"],
                              "outcome": v["observed"]["o"], "pos": v["observed"]["pos"]},
                             {"generator": name, "case": v["input"], "allowed": v["expected"], "observed": v["observed"],
                              "err": v["err"], "mode": "udp-replay", "gen": v.get("gen")})
            elif v.get("nontrivial") and v["observed"]["o"] == "accept":
                res.sample({"half": "udp", "case_randomisation": v["input"]["cr"], "questions": v["input"]["nq"],
                            "schedule": v["input"]["sched"], "observed": v["observed"]}, cap=2)
        if n != len(cases):
            raise vlib.ToolError("driver lost udp cases")
        # rewrite trace case ids so that they are unique across generators
        _prefix_cases(tpath, name)
        n_udp += n
    if n_accept_prompt == 0:
        raise vlib.ToolError("vacuous: the genuine reply was never accepted in any generated schedule")
    # schedules with one retransmission (two sockets)
    n_retx = n_retx_two = 0
    for gi, (kinds, l1, l2, l3, nq) in enumerate(RETX_GEN_THOROUGH if thorough else RETX_GEN_QUICK):
        name = f"GX{gi}"
        cases, st = _run_gen(wd, name, "Gen_UdpRetx", {"P_Kinds": kinds},
                             [l.format(l1=l1, l2=l2, l3=l3, nq=nq) for l in RETX_GEN_CFG])
        res.states += st["distinct"]
        res.transitions += st["generated"]
        cpath, tpath, vpath = (os.path.join(wd, f"{name}.{x}.ndjson") for x in ("cases", "trace", "verdicts"))
        vlib.write_ndjson(cpath, cases)
        vlib.run_driver("drive_c16", ["udp-replay-retx", "--trace", tpath], stdin_path=cpath, stdout_path=vpath)
        udp_traces.append(tpath)
        n = 0
        for v in vlib.read_ndjson(vpath):
            n += 1
            if v["adapter"]:
                raise vlib.ToolError(f"udp harness inconsistency: {v['adapter']}")
            if v.get("nontrivial"):
                res.nontrivial.add(vlib.digest(v["input"]))
            if v["observed"]["txs"] == 2:
                n_retx_two += 1
            if not v["ok"]:
                res.mismatch("udp-replay:" + v["class"],
                             {"kind": v["kind"], "cr": v["input"]["cr"], "nq": v["input"]["nq"],
                              "outcome": v["observed"]["o"], "retransmission": True},
                             {"generator": name, "case": v["input"], "permitted": v["expected"], "observed": v["observed"],
                              "err": v["err"], "mode": "udp-replay-retx", "gen": v.get("gen")})
            elif v.get("nontrivial") and v["observed"]["o"] == "accept":
                res.sample({"half": "udp", "case_randomisation": v["input"]["cr"], "socket1": v["input"]["s1"],
                            "socket2_after_retransmission": v["input"]["s2"], "socket1_late": v["input"]["s1b"],
                            "observed": v["observed"]}, cap=3)
        if n != len(cases):
            raise vlib.ToolError("driver lost udp retransmission cases")
        _prefix_cases(tpath, name)
        n_retx += n
    if n_retx_two == 0:
        raise vlib.ToolError("vacuous: no generated schedule reached the retransmission")
    n_udp += n_retx
    res.extra["udp_generated_schedules_with_retransmission"] = n_retx
    res.extra["udp_generated_schedules_that_retransmitted"] = n_retx_two
    n_ur = 4000 if thorough else 600
    ur_trace, ur_out = os.path.join(wd, "UR.trace.ndjson"), os.path.join(wd, "UR.out.ndjson")
    vlib.run_driver("drive_c16", ["udp-record", "--trace", ur_trace, "--n", str(n_ur), "--seed", str(seed),
                                  "--max-dgrams", "50"], stdout_path=ur_out)
    udp_traces.append(ur_trace)
    ur_info = {}
    for v in vlib.read_ndjson(ur_out):
        if v["adapter"]:
            raise vlib.ToolError(f"udp harness inconsistency: {v['adapter']}")
        ur_info[v["case"]] = v
        if v["forgeries_examined"] >= 1:
            res.nontrivial.add("ur:" + v["case"])
    bad = _monitor(res, wd, "udp", "Trace_UdpMatch", udp_traces, 10 if thorough else 6, "udp")
    for cid, m in bad.items():
        ev = m["event"]
        acc = (m.get("accepted") or [{}])[0]
        v = acc.get("v", {})
        fields = {"requirement": _req_of(m["why"]), "event": ev.get("ev"), "cr": m.get("cr"),
                  "kind": ev.get("kind", ""), "src_ip_ok": v.get("ip"), "src_port_ok": v.get("port"),
                  "id_ok": v.get("id"), "decodable": v.get("dec")}
        res.mismatch("udp-trace:" + _req_of(m["why"]), fields, m)
    res.traces += n_udp + n_ur
    res.evaluations += n_udp + n_ur
    res.extra["udp_generated_schedules_replayed"] = n_udp
    res.extra["udp_single_transmission_replays_with_prompt_outcome"] = n_prompt
    res.extra["udp_random_queries_recorded"] = n_ur
    res.extra["udp_random_outcomes"] = {o: sum(1 for v in ur_info.values() if v["o"] == o)
                                        for o in ("accept", "error", "timeout")}
    res.extra["udp_random_queries_with_retransmission"] = sum(1 for v in ur_info.values() if v["txs"] > 1)
    res.extra["udp_random_queries_via_dns_exchange"] = sum(1 for v in ur_info.values() if v.get("via_exchange"))

    # ------------------------------------------------------------------ R + T, stream half
    mux_traces = []
    n_mux = 0
    deviations = []
    for gi, (n_req, cap, steps, ticks, noise) in enumerate(MUX_GEN_THOROUGH if thorough else MUX_GEN_QUICK):
        name = f"GM{gi}"
        cases, st = _run_gen(wd, name, "Gen_Mux", {},
                             [l.format(n=n_req, cap=cap, steps=steps, ticks=ticks, noise=noise) for l in MUX_GEN_CFG])
        res.states += st["distinct"]
        res.transitions += st["generated"]
        cpath, tpath, vpath = (os.path.join(wd, f"{name}.{x}.ndjson") for x in ("cases", "trace", "verdicts"))
        vlib.write_ndjson(cpath, cases)
        vlib.run_driver("drive_c16", ["mux-replay", "--trace", tpath], stdin_path=cpath, stdout_path=vpath)
        mux_traces.append(tpath)
        n = 0
        for v in vlib.read_ndjson(vpath):
            n += 1
            cid = f"{name}:{v['case']}"
            if v.get("nontrivial"):
                res.nontrivial.add(vlib.digest(v["input"]))
            if not v["ok"]:
                deviations.append((cid, v))
            elif v.get("nontrivial") and len(v["input"]["log"]) >= 6:
                res.sample({"half": "mux", "requests": v["input"]["n"], "cap": v["input"]["cap"],
                            "schedule": [[s["op"], s["r"] or s["how"]] for s in v["input"]["log"]],
                            "observed_per_step": v["observed"]}, cap=4)
        if n != len(cases):
            raise vlib.ToolError("driver lost mux cases")
        _prefix_cases(tpath, name)
        n_mux += n
    n_mr = 500 if thorough else 50
    mr_trace, mr_out = os.path.join(wd, "MR.trace.ndjson"), os.path.join(wd, "MR.out.ndjson")
    vlib.run_driver("drive_c16", ["mux-record", "--trace", mr_trace, "--n", str(n_mr), "--seed", str(seed),
                                  "--max-reqs", "40", "--steps", "200"], stdout_path=mr_out)
    mux_traces.append(mr_trace)
    for v in vlib.read_ndjson(mr_out):
        if v["sent"] >= 2 and v["delivered"] >= 1:
            res.nontrivial.add("mr:" + v["case"])
    bad = _monitor(res, wd, "mux", "Trace_Mux", mux_traces, 10 if thorough else 6, "mux")
    scenario = {}   # case id -> description of the input family (labels the input; decides nothing)
    # many requests in flight at once (freshness of wire IDs): own monitor run, one case per shard
    n_ms = 12 if thorough else 6
    ms_trace, ms_out = os.path.join(wd, "MS.trace.ndjson"), os.path.join(wd, "MS.out.ndjson")
    vlib.run_driver("drive_c16", ["mux-stress", "--trace", ms_trace, "--n", str(n_ms), "--seed", str(seed),
                                  "--max-reqs", "400"], stdout_path=ms_out)
    for v in vlib.read_ndjson(ms_out):
        res.nontrivial.add("ms:" + v["case"])
        scenario[v["case"]] = {"scenario": "many-in-flight"}
    bad.update(_monitor(res, wd, "muxstress", "Trace_Mux", [ms_trace], n_ms, "mux_stress"))
    # bursts: k responses with one in-flight ID back to back; f arrivals for nobody followed by the
    # responses of the pending requests, all readable in one poll
    n_mb = 16 if thorough else 8
    mb_trace, mb_out = os.path.join(wd, "MB.trace.ndjson"), os.path.join(wd, "MB.out.ndjson")
    vlib.run_driver("drive_c16", ["mux-bursts", "--trace", mb_trace, "--n", str(n_mb), "--seed", str(seed)],
                    stdout_path=mb_out)
    for v in vlib.read_ndjson(mb_out):
        res.nontrivial.add("mb:" + v["case"])
        kind, _, k = v["scenario"].rpartition("-")
        if kind == "same-id-burst":
            scenario[v["case"]] = {"scenario": "same-id-burst", "responses_in_one_poll_over_9": int(k) > 9}
        else:
            scenario[v["case"]] = {"scenario": "flood", "arrivals_in_one_poll_100_or_more": int(k) + v["n"] >= 100}
    bad.update(_monitor(res, wd, "muxbursts", "Trace_Mux", [mb_trace], 4, "mux_bursts"))
    n_mr += n_ms + 2 * n_mb
    for cid, m in bad.items():
        ev = m["event"]
        fields = {"requirement": _req_of(m["why"]), "event": ev.get("ev"), "how": ev.get("how", ""),
                  "scenario": "generated" if cid.startswith("GM") else "random"}
        fields.update(scenario.get(cid, {}))
        res.mismatch("mux-trace:" + _req_of(m["why"]), fields, m)
    # a replay that differs from the reference behaviour but is accepted by the monitor used a
    # freedom the property leaves (duplicates dropped, other admission / expiry policy)
    permitted = [d for d in deviations if d[0] not in bad]
    if n_mux and len(permitted) == n_mux:
        raise vlib.ToolError("vacuous: no generated mux behaviour was reproduced by the implementation")
    for cid, v in permitted[:3]:
        vlib.log(f"[c16] permitted deviation from the reference behaviour in {cid}: {v['class']}")
    res.traces += n_mux + n_mr
    res.evaluations += n_mux + n_mr
    res.extra["mux_generated_behaviours_replayed"] = n_mux
    res.extra["mux_replays_equal_to_reference"] = n_mux - len(deviations)
    res.extra["mux_permitted_deviations"] = len(permitted)
    res.extra["mux_random_cases_recorded"] = n_mr
    res.extra["mux_stress_cases_400_in_flight"] = n_ms
    res.extra["mux_burst_and_flood_cases"] = 2 * n_mb
    # observations only (not judged here): same-ID burst through the manual driver; flood under tokio's own
    # executor through the public DnsExchange API
    probe = vlib.run_driver("drive_c16", ["mux-probe"])
    res.extra["mux_observation_undrained_burst"] = [__import__("json").loads(l) for l in probe.splitlines() if l.strip()]
    res.exhaustive = True
    res.extra["exhaustive_scope"] = ("the Gen_UdpMatch / Gen_Mux configurations listed in lib/checks/c16.py were "
                                     "enumerated completely; the seeded random runs are not exhaustive")


def _prefix_cases(path, prefix):
    """Make case ids unique across generator runs (`reset` events only)."""
    tmp = path + ".tmp"
    with open(path) as f, open(tmp, "w") as out:
        for line in f:
            if line.startswith('{"case":"'):
                line = '{"case":"' + prefix + ":" + line[len('{"case":"'):]
            out.write(line)
    os.replace(tmp, path)


def replay(res, path):
    """Re-runs a case written by a failing run: a generated case goes through the real code again
    (driver) and its events through the monitor; a recorded trace goes through the monitor again.
    Exit 1 if it still fails, 0 if it does not."""
    import json
    d = json.load(open(path))
    det = d.get("detail", {})
    print(json.dumps({k: d[k] for k in ("property", "class", "fields")}, indent=1))
    vlib.build_harness(BINS)
    wd = vlib.workdir("c16replay")
    rc = 0
    trace = None
    monitor = det.get("monitor")
    if det.get("gen"):
        mode = det["mode"]
        cpath, trace, vpath = (os.path.join(wd, f"case.{x}.ndjson") for x in ("cases", "trace", "verdicts"))
        vlib.write_ndjson(cpath, [det["gen"]])
        vlib.run_driver("drive_c16", [mode, "--trace", trace], stdin_path=cpath, stdout_path=vpath)
        for v in vlib.read_ndjson(vpath):
            print("verdict:", json.dumps({k: v[k] for k in ("ok", "observed", "class")}))
            print("expected:", json.dumps(v["expected"])[:1500])
            if not v["ok"]:
                rc = 1
        monitor = "Trace_Mux" if mode == "mux-replay" else "Trace_UdpMatch"
    elif det.get("trace"):
        trace = os.path.join(wd, "case.trace.ndjson")
        with open(trace, "w") as f:
            f.write("\n".join(det["trace"]) + "\n")
    if trace and monitor:
        mism, _ = vlib.trace_check(os.path.join(S, monitor + ".tla"), os.path.join(S, monitor + ".cfg"), wd, trace)
        for m in mism:
            print("monitor:", m["why"])
            print(json.dumps({k: m[k] for k in m if k not in ("trace",)}, indent=1)[:3000])
            rc = 1
        if not mism:
            print("monitor: trace accepted")
    print("still failing" if rc else "not failing (any more)")
    return rc
