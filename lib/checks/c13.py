"""C13 -- updates and signed-only transfers require a valid, timely TSIG.

D: Tsig.tla (RFC 8945 5.2 procedure: policy / find key / check MAC / check time / apply / sign
   reply) satisfies the declarative requirements of TsigOps for every request description x
   policy (TLC, exhaustive).
R: Gen_Tsig prints every applicable (request description, policy) with mayEffect; the driver signs
   with the client-side code, tampers the bytes, sends them through the real Catalog +
   SqliteZoneHandler on a virtual server clock, observes zone/serial/answers, and feeds the reply
   (and its single-bit-flipped copies) to the TSigVerifier.
T: for a corpus of authentic UPDATE/AXFR requests EVERY single-bit flip, single-byte deletion and
   insertion is sent; each is classified into a message region by an independent wire walker and
   judged by the TLA+ monitor Trace_Tsig.  Client side: signed AXFR / UPDATE requests go through the
   real DnsMultiplexer (drive_c16 mux-tsig); replies of 1-4 chained messages, one of which may have a
   flipped bit, a garbage MAC or another key's MAC, are judged per message by the same monitor.
"""
import json
import os

import vlib

BINS = ["drive_tsig", "drive_c16"]
TAMPERS = ('{"none", "msgId", "appended", "flags", "count", "zone", "prereq", "update", "tsigTime", "tsigFudge", '
           '"tsigOrigId", "tsigError", "tsigOther", "macBit"}')
GEN_CFG = ["SPECIFICATION Spec", "CONSTANTS", "  Fudge = 300", "  Dts <- P_Dts", "  Tampers <- P_Tampers",
           "INVARIANT Emit", "CHECK_DEADLOCK FALSE"]


def run(res, tier, seed):
    res.rule = ("case = (request description: op, signed, key name, MAC secret, algorithm, MAC length, clock offset, tamper "
                "region; zone policy); non-trivial = signed request that is not the plain authentic one; distinct by content")
    res.assumptions = ["HMAC primitives (ring) trusted", "server clock = SimTime (T: Time parameter of handle_request)",
                       "the harness wire walker classifies mutated offsets into regions; msgId is the only region the MAC "
                       "does not cover by design (RFC 8945 4.3.3); bytes appended behind the TSIG record: either outcome",
                       "|time - now| = fudge: either outcome"]
    wd = vlib.workdir("c13")
    st = vlib.mc(os.path.join(vlib.SPEC, "MC_Tsig.tla"), os.path.join(vlib.SPEC, "MC_Tsig.cfg"), wd, workers=8)
    res.add_mc("MC_Tsig", st)
    # ---- R
    # around the fudge window, and around multiples of 2^16 seconds (a skew computed in 16 bits wraps there)
    dts = ("{0 - 131072, 0 - 65836, 0 - 65636, 0 - 65536, 0 - 65436, 0 - 301, 0 - 300, 0 - 299, 0 - 150, 0 - 1, 0, 1, 150, 299, 300, "
           "301, 65436, 65536, 65636, 65836, 131072, 131172}" if tier == "thorough"
           else "{0 - 65536, 0 - 301, 0 - 299, 0, 300, 301, 65536, 65636}")
    tla, cfg = vlib.wrapper(wd, "GT", "Gen_Tsig", {"P_Dts": dts, "P_Tampers": TAMPERS}, GEN_CFG)
    cases, gst = vlib.gen(tla, cfg, wd, workers=8, timeout=1500)
    if len(cases) < 1000:
        raise vlib.ToolError(f"generator produced only {len(cases)} cases")
    res.states += gst["distinct"]
    res.transitions += gst["generated"]
    cpath = os.path.join(wd, "cases.ndjson")
    vlib.write_ndjson(cpath, cases)
    vpath = os.path.join(wd, "verdicts.ndjson")
    t1 = os.path.join(wd, "replay.trace.ndjson")
    vlib.run_driver("drive_tsig", ["replay", "--trace", t1], stdin_path=cpath, stdout_path=vpath)
    n = hon = hon_eff = replies = 0
    for v in vlib.read_ndjson(vpath):
        n += 1
        res.evaluations += 1
        r = v["input"]["r"]
        if r["signed"] and not (v["honoured"]):
            res.nontrivial.add(vlib.digest(v["input"]))
        if v["honoured"]:
            hon += 1
            hon_eff += 1 if v["effect"] else 0
        if v["reply"]:
            replies += 1
        if not v["ok"]:
            res.mismatch(v["class"], {"op": r["op"], "tamper": r["tamper"]}, v)
        elif v["effect"] and r["signed"] and v["reply"]:
            res.sample({"request": r, "policy": v["input"]["p"], "effect": v["effect"], "reply": v["reply"]}, cap=2)
    if n != len(cases):
        raise vlib.ToolError("driver lost cases")
    if hon == 0 or hon_eff == 0 or replies == 0:
        raise vlib.ToolError(f"vacuous replay: honoured={hon} took effect={hon_eff} replies checked={replies}")
    res.traces += n
    res.exhaustive = True
    res.extra.update({"generated_cases_replayed": n, "authentic_requests": hon, "authentic_requests_that_took_effect": hon_eff,
                      "signed_replies_checked": replies})
    # ---- T
    n_corpus = 400 if tier == "thorough" else 3
    t2 = os.path.join(wd, "mut.trace.ndjson")
    vlib.run_driver("drive_tsig", ["record", "--trace", t2, "--n", str(n_corpus), "--seed", str(seed)],
                    stdout_path=os.path.join(wd, "mut.out"), timeout=3000)
    # ---- T, client side: signed requests through the real DnsMultiplexer; single- and multi-message
    # replies (RFC 8945 5.3.1 chains) with one message altered / forged on the path
    n_mux = 40 if tier == "thorough" else 12
    t3 = os.path.join(wd, "muxtsig.trace.ndjson")
    vlib.run_driver("drive_c16", ["mux-tsig", "--trace", t3, "--n", str(n_mux), "--seed", str(seed)],
                    stdout_path=os.path.join(wd, "muxtsig.out"))
    mux_events = chains_ok = forged_msgs = 0
    with open(t3) as f:
        for ln in f:
            e = json.loads(ln)
            mux_events += 1
            kinds = [m["kind"] for m in e["msgs"]]
            if e["scenario"] == "chain-genuine" and len(kinds) >= 2 and all(m["result"] == "ok" for m in e["msgs"]):
                chains_ok += 1
            if any(k != "genuine" for k in kinds):
                forged_msgs += 1
                res.nontrivial.add(e["case"])
    # (vacuity is judged at the end: a client that refuses every genuine chain is a violation, not a vacuous run)
    vacuity = []
    if chains_ok == 0 or forged_msgs == 0:
        vacuity.append(f"vacuous multiplexer run: genuine chains delivered={chains_ok}, cases with a forged message={forged_msgs}")
    res.traces += mux_events
    res.evaluations += mux_events
    res.extra.update({"multiplexer_signed_request_cases": mux_events, "multiplexer_genuine_chains_delivered": chains_ok,
                      "multiplexer_cases_with_forged_message": forged_msgs})
    # the same through the real UdpClientStream built with a signer: every forged kind (incl. a TSIG with
    # an empty MAC and an error code, which anybody can make) alone and in front of the genuine reply
    n_udp = 4 if tier == "thorough" else 1
    t4 = os.path.join(wd, "udptsig.trace.ndjson")
    vlib.run_driver("drive_c16", ["udp-tsig", "--trace", t4, "--n", str(n_udp), "--seed", str(seed)],
                    stdout_path=os.path.join(wd, "udptsig.out"))
    udp_events = udp_genuine_ok = udp_forged = 0
    with open(t4) as f:
        for ln in f:
            e = json.loads(ln)
            udp_events += 1
            if e["scenario"] == "single-genuine" and e["msgs"] and e["msgs"][0]["result"] == "ok":
                udp_genuine_ok += 1
            if any(m["kind"] != "genuine" and m["result"] != "none" for m in e["msgs"]):
                udp_forged += 1
                res.nontrivial.add(e["case"])
    if udp_genuine_ok == 0 or udp_forged == 0:
        vacuity.append(f"vacuous UDP client run: genuine replies delivered={udp_genuine_ok}, forged replies judged={udp_forged}")
    res.traces += udp_events
    res.evaluations += udp_events
    res.extra.update({"udp_client_signed_request_cases": udp_events, "udp_client_genuine_replies_delivered": udp_genuine_ok,
                      "udp_client_forged_replies_judged": udp_forged})
    lines = (open(t1).read().splitlines(keepends=True) + open(t2).read().splitlines(keepends=True)
             + open(t3).read().splitlines(keepends=True) + open(t4).read().splitlines(keepends=True))
    shards = 12 if tier == "thorough" else 6
    files = []
    for i in range(shards):
        p = os.path.join(wd, f"t{i}.ndjson")
        with open(p, "w") as f:
            f.writelines(lines[i::shards])
        files.append(p)
    from concurrent.futures import ThreadPoolExecutor
    with ThreadPoolExecutor(max_workers=shards) as ex:
        outs = list(ex.map(lambda a: vlib.trace_check(os.path.join(vlib.SPEC, "Trace_Tsig.tla"), os.path.join(vlib.SPEC, "Trace_Tsig.cfg"),
                                                      vlib.workdir(f"c13_s{a[0]}"), a[1], 3000), enumerate(files)))
    mism = [m for o in outs for m in o[0]]
    nm = 0
    genuine_eff = 0
    with open(t2) as f:
        for ln in f:
            e = json.loads(ln)
            nm += 1
            if e.get("mut") == "none":
                genuine_eff += 1 if e["effect"] else 0
            else:
                res.nontrivial.add(e["case"])
    if genuine_eff == 0:
        vacuity.append("vacuous mutation sweep: no genuine request took effect")
    res.traces += nm
    res.evaluations += nm
    res.extra.update({"mutated_requests_sent": nm, "corpus": n_corpus, "genuine_after_sweep_effective": genuine_eff})
    for m in mism:
        ev = m["event"]
        if ev.get("ev") in ("muxreply", "udpreply"):
            via = "multiplexer" if ev["ev"] == "muxreply" else "udp-client"
            bad = [i + 1 for i, x in enumerate(ev["msgs"]) if x["kind"] != "genuine" and x["result"] == "ok"]
            cls = f"modified-reply-accepted-by-{via}" if m.get("forgedAccepted") else f"genuine-signed-reply-not-delivered-by-{via}"
            res.mismatch(cls, {"scenario": ev["scenario"], "op": ev["op"],
                               "kind": ev["msgs"][bad[0] - 1]["kind"] if bad else "genuine",
                               "first_message": bool(bad) and bad[0] == 1}, m)
            continue
        r = ev["r"]
        if ev["effect"] and not m.get("mayEffect", True):
            cls = f"effect-without-valid-tsig:{r['tamper']}"
        else:
            cls = "reply-obligation-fails"
        res.mismatch(cls, {"op": r["op"], "tamper": r["tamper"]}, m)
    if vacuity and not res.violations:
        raise vlib.ToolError(vacuity[0])


def replay(res, path):
    print(json.dumps(json.load(open(path)), indent=1)[:6000])
    return 0
