"""C04 -- domain names: case-insensitive identity, canonical order, length limits.

D: NameLaws (CanonCmp / NameEq of DnsNames are a strict total order consistent with folded equality
   on a universe around both case-fold boundaries) and NameOps (constructors / combinators never
   leave the RFC 1035 2.3.4 limits) -- TLC, exhaustive.
R: Gen_Names: every ordered pair of a larger universe with CanonCmp / NameEq -> Name::cmp, ==, Hash,
   LowerName, RrKey; every operation sequence of the NameOps machine -> the public combinators.
T: seeded random names (arbitrary octets, up to 127 labels): cmp / wire round trip at many message
   offsets with and without compression / text round trip of host-style names / operations at the
   255-octet boundary, judged by the TLA+ monitor Trace_Names.
"""
import json
import os

import vlib

BINS = ["drive_names"]

OCTETS_QUICK = "{0, 42, 64, 65, 90, 91, 96, 97, 122, 123, 255}"
PAIR_LABELS_QUICK = "{<<x>> : x \\in " + OCTETS_QUICK + "} \\cup {<<97, 0>>, <<65, 65>>, <<97, 97, 97>>}"
PAIR_LABELS_THOROUGH = ("{<<x>> : x \\in " + OCTETS_QUICK + "} \\cup {<<x, y>> : x \\in {0, 65, 97, 255}, y \\in {0, 90, 122}} "
                        "\\cup {<<97, 97, 97>>, <<65, 97, 65>>}")


def run(res, tier, seed):
    res.rule = ("case = ordered pair of names, or sequence of name operations, or one random name round trip; non-trivial = "
                "pair of distinct non-root names / sequence with at least one refused operation / name with >= 2 labels; "
                "distinct by content")
    res.assumptions = ["names are built with Name::from_labels from raw octets", "SipHash via DefaultHasher for Hash",
                       "host-style generator keeps hyphens interior (RFC 1123)", "TLC and the JSON projection are trusted"]
    wd = vlib.workdir("c04")
    st = vlib.mc(os.path.join(vlib.SPEC, "MC_NameLaws.tla"), os.path.join(vlib.SPEC, "MC_NameLaws.cfg"), wd, workers=8, timeout=1800,
                 allow_zero=("Next",))
    res.add_mc("MC_NameLaws", st)
    st = vlib.mc(os.path.join(vlib.SPEC, "NameOps.tla"), os.path.join(vlib.SPEC, "MC_NameOps.cfg"), wd, workers=8, timeout=1800)
    res.add_mc("MC_NameOps", st)
    # ---- R: pairs
    tla, cfg = vlib.wrapper(wd, "GP", "Gen_NamePairs", {"P_Labels": PAIR_LABELS_THOROUGH if tier == "thorough" else PAIR_LABELS_QUICK},
                            ["SPECIFICATION PSpec", "CONSTANTS", "  PairLabels <- P_Labels", "INVARIANT PEmit", "CHECK_DEADLOCK FALSE"])
    cases, gst = vlib.gen(tla, cfg, wd, workers=8, timeout=2400, heap="12g")
    if len(cases) < 1000:
        raise vlib.ToolError("pair generator produced too few cases")
    res.states += gst["distinct"]
    res.transitions += gst["generated"]
    cpath = os.path.join(wd, "pairs.ndjson")
    vlib.write_ndjson(cpath, cases)
    vpath = os.path.join(wd, "pairs.verdicts.ndjson")
    vlib.run_driver("drive_names", ["replay-pairs"], stdin_path=cpath, stdout_path=vpath)
    n = 0
    for v in vlib.read_ndjson(vpath):
        n += 1
        res.evaluations += 1
        if v["nontrivial"]:
            res.nontrivial.add(vlib.digest([v["input"]["a"], v["input"]["b"]]))
        if not v["ok"]:
            res.mismatch(v["class"], {"a": json.dumps(v["input"]["a"]), "b": json.dumps(v["input"]["b"])}, v)
        elif n % 5000 == 7:
            res.sample({"a": v["input"]["a"], "b": v["input"]["b"], "cmp": v["input"]["cmp"], "eq": v["input"]["eq"]}, cap=2)
    if n != len(cases):
        raise vlib.ToolError("driver lost cases")
    res.traces += n
    # ---- R: ops
    maxops = 4 if tier == "thorough" else 3
    tla, cfg = vlib.wrapper(wd, "GO", "Gen_NameOps", {},
                            ["SPECIFICATION OSpec", "CONSTANTS", "  LabelLens = {0, 1, 61, 62, 63, 64}",
                             f"  MaxOps = {maxops}", "INVARIANT OEmit", "CHECK_DEADLOCK FALSE"])
    # (millions of cases in the thorough tier: streamed to the case file, never held in memory)
    cpath = os.path.join(wd, "ops.ndjson")
    ncases, gst = vlib.gen_stream(tla, cfg, wd, cpath, workers=8, timeout=2400, heap="12g")
    if ncases < 1000:
        raise vlib.ToolError("ops generator produced too few cases")
    res.states += gst["distinct"]
    res.transitions += gst["generated"]
    vpath = os.path.join(wd, "ops.verdicts.ndjson")
    vlib.run_driver("drive_names", ["replay-ops"], stdin_path=cpath, stdout_path=vpath)
    n = 0
    for v in vlib.read_ndjson(vpath):
        n += 1
        res.evaluations += 1
        if v["nontrivial"]:
            res.nontrivial.add(vlib.digest(v["digest_src"]))
        if not v["ok"]:
            res.mismatch(v["class"], {"op": v["bad"].get("op", {}).get("op", "?")}, v)
        elif n % 20000 == 11:
            res.sample({"ops": v["digest_src"]}, cap=3)
    if n != ncases:
        raise vlib.ToolError("driver lost cases")
    res.traces += n
    res.exhaustive = True
    # ---- T
    n_rand = 20000 if tier == "thorough" else 2500
    tpath = os.path.join(wd, "random.trace.ndjson")
    vlib.run_driver("drive_names", ["record", "--trace", tpath, "--n", str(n_rand), "--seed", str(seed)],
                    stdout_path=os.path.join(wd, "random.out"))
    lines = open(tpath).read().splitlines(keepends=True)
    shards = 12 if tier == "thorough" else 6
    files = []
    for i in range(shards):
        p = os.path.join(wd, f"t{i}.ndjson")
        with open(p, "w") as f:
            f.writelines(lines[i::shards])
        files.append(p)
    from concurrent.futures import ThreadPoolExecutor
    with ThreadPoolExecutor(max_workers=shards) as ex:
        outs = list(ex.map(lambda a: vlib.trace_check(os.path.join(vlib.SPEC, "Trace_Names.tla"), os.path.join(vlib.SPEC, "Trace_Names.cfg"),
                                                      vlib.workdir(f"c04_s{a[0]}"), a[1], 3000), enumerate(files)))
    mism = [m for o in outs for m in o[0]]
    kinds = {}
    for ln in lines:
        e = json.loads(ln)
        kinds[e["ev"]] = kinds.get(e["ev"], 0) + 1
        key = e.get("in") or e.get("a") or e.get("pre")
        if key and len(key) >= 2:
            res.nontrivial.add(e["ev"] + e["case"])
    if any(kinds.get(k, 0) == 0 for k in ("cmp", "wire", "text", "op")):
        raise vlib.ToolError(f"vacuous trace: {kinds}")
    res.traces += len(lines)
    res.evaluations += len(lines)
    res.extra["trace_events"] = kinds
    for m in mism:
        ev = m["event"]
        res.mismatch("names:" + ev["ev"], {"case": ev["case"]}, m)


def replay(res, path):
    print(json.dumps(json.load(open(path)), indent=1)[:6000])
    return 0
