"""C05 -- RRset signed data equals the RFC 4034/4035 canonical form.

D: Canonical.tla -- the life of a signed RRset (Sign, Publish, Swap, Duplicate, RecaseOwner,
   RecaseRdata, AgeTtl, ExpandWildcard, Verify) satisfies C05_Form, C05_OrderInvariant,
   C05_StrictOrder, C05_TotalOrder, C05_SelfVerify for every history (TLC, exhaustive, five
   universes); MC_Canonical_AsIs reproduces the sorting rule found in hickory-dns as a
   counterexample (informational).
R: Gen_Canonical enumerates finite case spaces (owner x every sequence of 1..n records over an
   RDATA universe x TTL pattern x RRSIG parameters x algorithm) with the octets the
   specification prescribes; drive_canonical builds real Records, calls TBS::from_input,
   signs the prescribed octets directly with ring and verifies with the built-in verifier,
   signs the zone form with the built-in signer and verifies the presentation.
T: seeded random RRsets of ~45 RDATA types recorded from the real code, validated against the
   monitor Trace_Canonical (SignedOutcomes / signed-data equality decide).
"""
import json
import os

import vlib

BINS = ["drive_canonical"]

LOWER_TYPES = {2, 3, 4, 5, 6, 7, 8, 9, 12, 13, 14, 15, 17, 18, 21, 24, 26, 30, 33, 35, 36, 38, 39, 46}

# --------------------------------------------------------------------------------------
# TLA+ literals


def tla(v):
    if isinstance(v, bool):
        return "TRUE" if v else "FALSE"
    if isinstance(v, int):
        return str(v)
    if isinstance(v, str):
        return v  # already TLA+
    if isinstance(v, (list, tuple)):
        return "<<" + ", ".join(tla(x) for x in v) + ">>"
    if isinstance(v, (set, frozenset)):
        return "{" + ", ".join(sorted(tla(x) for x in v)) + "}"
    if isinstance(v, dict):
        return "[" + ", ".join(f"{k} |-> {tla(x)}" for k, x in v.items()) + "]"
    raise TypeError(v)


def Bf(*octets):
    return "B(" + tla(list(octets)) + ")"


def Nf(*labels):
    return "N(" + tla([list(l.encode("latin1")) if isinstance(l, str) else list(l) for l in labels]) + ")"


def name(*labels):
    return [list(l.encode("latin1")) if isinstance(l, str) else list(l) for l in labels]


def rd(*fields):
    return "<<" + ", ".join(fields) + ">>"


def u32(n):
    return [(n >> 24) & 255, (n >> 16) & 255, (n >> 8) & 255, n & 255]


def ttlpat(*ns):
    return tla([u32(n) for n in ns])


SIG_A = {"ottl": u32(3600), "exp": u32(0x80000005), "inc": u32(0x7FFFFFFA), "tag": 4660, "signer": name("Ex", "c")}
SIG_B = {"ottl": u32(0xFFFFFFFF), "exp": u32(5), "inc": u32(0xFFFFFFF0), "tag": 65535, "signer": []}

SAME = ttlpat(3600, 3600, 3600, 3600)
DIFF = ttlpat(3600, 7, 3600, 7)
DIFF2 = ttlpat(7, 3600, 3600, 3600)

# (name, type, class, owners, universe, maxlen, ttl patterns, sig bases, algs, labels up to)
GEN_QUICK = [
    ("ns", 2, 1, [name("a", "B"), name("*", "a")],
     [rd(Nf("a")), rd(Nf("A")), rd(Nf("b")), rd(Nf("B", "a")), rd(Nf("a", "b")), rd(Nf("Z"))],
     3, [SAME, DIFF], [SIG_A], [15], 1),
    ("null", 10, 1, [name("a")],
     [rd(Bf()), rd(Bf(0)), rd(Bf(65)), rd(Bf(97)), rd(Bf(255)), rd(Bf(65, 0)), rd(Bf(97, 255)), rd(Bf(0, 0))],
     3, [SAME], [SIG_A], [15], 0),
    ("mx", 15, 1, [name("a")],
     [rd(Bf(0, 1), Nf("a")), rd(Bf(0, 1), Nf("A")), rd(Bf(0, 65), Nf("a")), rd(Bf(0, 1), Nf("b")), rd(Bf(1, 0), Nf("B"))],
     3, [SAME, DIFF2], [SIG_A], [15], 0),
    ("soa", 6, 1, [name("a")],
     [rd(Nf("a", "b"), Nf("x", "a", "b"), Bf(*([0] * 19 + [1]))), rd(Nf("a", "b"), Nf("x", "a", "c"), Bf(*([0] * 19 + [1]))),
      rd(Nf("a", "b"), Nf("x", "a", "B"), Bf(*([0] * 19 + [2]))), rd(Nf("a"), Nf("a"), Bf(*([0] * 20)))],
     2, [SAME], [SIG_A], [15], 0),
    ("nsec", 47, 1, [name("a")],
     [rd(Nf("a"), Bf(0, 1, 64)), rd(Nf("A"), Bf(0, 1, 64)), rd(Nf("b"), Bf(0, 1, 64)), rd(Nf("a"), Bf(0, 1, 96))],
     3, [SAME], [SIG_A], [15], 0),
    ("svcb", 64, 1, [name("a")],
     [rd(Bf(0, 1), Nf("a"), Bf()), rd(Bf(0, 1), Nf("A"), Bf()), rd(Bf(0, 1), Nf("b"), Bf()), rd(Bf(0, 2), Nf("a"), Bf(0, 3, 0, 2, 1, 187))],
     3, [SAME], [SIG_A], [15], 0),
    ("dname", 39, 1, [name("a")], [rd(Nf("a")), rd(Nf("A")), rd(Nf("b")), rd(Nf("B", "a"))], 2, [SAME], [SIG_A], [15], 0),
    ("private", 65280, 1, [name("a")], [rd(Bf(1), Nf("a"), Bf(2)), rd(Bf(1), Nf("A"), Bf(2)), rd(Bf(1), Nf("b"), Bf())],
     2, [SAME], [SIG_A], [15], 0),
    ("algs", 2, 1, [name("a", "B")], [rd(Nf("a")), rd(Nf("b")), rd(Nf("c", "a"))],
     2, [SAME], [SIG_A, SIG_B], [5, 8, 10, 13, 14, 15, 200], 0),
    # RFC 4592 2.1.1: an asterisk label that is not the leftmost label is an ordinary label (it counts for the
    # Labels field and for the wildcard reduction), with and without a leftmost wildcard label
    ("star", 1, 1, [name("sub", "*", "a"), name("*", "*", "a"), name("a", "sub", "*", "b"), name("*", "sub", "*", "b")],
     [rd(Bf(1, 2, 3, 4)), rd(Bf(1, 2, 3, 5))], 2, [SAME], [SIG_A], [15], 1),
    ("chaos", 1, 3, [name("A")], [rd(Bf(1, 2, 3, 4)), rd(Bf(1, 2, 3, 5)), rd(Bf(0, 255, 0, 0))], 3, [SAME], [SIG_B], [13], 1),
]
GEN_THOROUGH = GEN_QUICK + [
    ("ns4", 2, 1, [name("a", "B"), name("*", "a", "B")],
     [rd(Nf("a")), rd(Nf("A")), rd(Nf("b")), rd(Nf("B", "a")), rd(Nf("a", "b")), rd(Nf("Z")), rd(Nf()), rd(Nf("aa"))],
     4, [SAME, DIFF], [SIG_A], [15], 1),
    ("null4", 10, 1, [name("a")],
     [rd(Bf()), rd(Bf(0)), rd(Bf(65)), rd(Bf(97)), rd(Bf(255)), rd(Bf(65, 0)), rd(Bf(97, 255)), rd(Bf(0, 0)), rd(Bf(65, 0, 0))],
     4, [SAME], [SIG_A], [13], 0),
    ("srv", 33, 1, [name("_s", "_tcp", "a")],
     [rd(Bf(0, 1, 0, 1, 0, 80), Nf("a")), rd(Bf(0, 1, 0, 1, 0, 80), Nf("A")), rd(Bf(0, 1, 0, 1, 0, 80), Nf("B")),
      rd(Bf(0, 0, 0, 1, 0, 80), Nf("c")), rd(Bf(0, 1, 0, 1, 1, 187), Nf("a"))],
     3, [SAME, DIFF], [SIG_A], [14], 0),
    ("ptr", 12, 1, [name("1", "IN-ADDR", "ARPA")], [rd(Nf("a", "b")), rd(Nf("A", "b")), rd(Nf("b", "A")), rd(Nf("b"))],
     3, [SAME], [SIG_A], [8], 0),
    ("rp", 17, 1, [name("a")], [rd(Nf("a"), Nf("b")), rd(Nf("A"), Nf("b")), rd(Nf("a"), Nf("B")), rd(Nf("b"), Nf("a"))],
     3, [SAME], [SIG_A], [15], 0),
    ("https", 65, 1, [name("a")],
     [rd(Bf(0, 1), Nf("a"), Bf()), rd(Bf(0, 1), Nf("A"), Bf()), rd(Bf(0, 1), Nf("b"), Bf()), rd(Bf(0, 1), Nf(), Bf())],
     3, [SAME], [SIG_A], [10], 0),
    ("algs3", 15, 1, [name("*", "a")], [rd(Bf(0, 1), Nf("a")), rd(Bf(0, 1), Nf("B")), rd(Bf(0, 2), Nf("a"))],
     3, [SAME, DIFF], [SIG_A, SIG_B], [8, 10, 13, 14, 15], 1),
]

# static third-party RSA signatures (harness/vectors/rsa.json, produced once by
# harness/vectors/make_rsa_vectors.py): algorithm x key size acceptance matrix {5, 7, 8, 10} x {1024, 2048}
VECTORS = os.path.join(vlib.VERIF, "harness", "vectors", "rsa.json")
RSAVEC = {"owner": "www.example.", "type": 1, "class": 1, "ttl": 3600, "rdata": [[192, 0, 2, 1], [192, 0, 2, 2]],
          "labels": 2, "exp": 0x70000000, "inc": 0x60000000, "signer": "example."}


def rsavec_gen(alg_tags):
    """the generator entry for the fixed RRset of the vectors, one RRSIG parameter base per key tag"""
    sigs = [{"ottl": u32(RSAVEC["ttl"]), "exp": u32(RSAVEC["exp"]), "inc": u32(RSAVEC["inc"]), "tag": t,
             "signer": name("example")} for t in sorted({t for (_a, t) in alg_tags})]
    return ("rsavec", RSAVEC["type"], RSAVEC["class"], [name("www", "example")], [rd(Bf(*r)) for r in RSAVEC["rdata"]], 2,
            [ttlpat(3600, 3600, 3600, 3600)], sigs, sorted({a for (a, _t) in alg_tags}), 0)


def rsavec_cases(wd, alg_tags):
    (nm, typ, cls, owners, uni, maxlen, pats, sigs, algs, lup) = rsavec_gen(alg_tags)
    defs = {"P_Type": str(typ), "P_Class": str(cls), "P_Owners": tla(set(tla(o) for o in owners)),
            "P_Universe": tla(set(uni)), "P_TtlPats": tla(set(pats)), "P_SigBases": tla(set(tla(x) for x in sigs)),
            "P_Algs": tla(set(algs))}
    tla_p, cfg_p = vlib.wrapper(wd, "G_" + nm, "Gen_Canonical", defs, [l.format(maxlen=maxlen, lup=lup) for l in GEN_CFG])
    cases, _st = vlib.gen(tla_p, cfg_p, wd, workers=4, timeout=600)
    return cases


GEN_CFG = ["SPECIFICATION Spec", "CONSTANTS", "  G_Type <- P_Type", "  G_Class <- P_Class", "  G_Owners <- P_Owners",
           "  G_Universe <- P_Universe", "  G_MaxLen = {maxlen}", "  G_TtlPats <- P_TtlPats", "  G_SigBases <- P_SigBases",
           "  G_Algs <- P_Algs", "  G_LabelsUpTo = {lup}", "INVARIANT Emit", "CHECK_DEADLOCK FALSE"]

MC_CFGS = [("MC_Canonical_bytes", ("RecaseRdata", "ExpandWildcard")), ("MC_Canonical_names", ("ExpandWildcard",)),
           ("MC_Canonical_wild", ()), ("MC_Canonical_istar", ()), ("MC_Canonical_nsec", ("RecaseRdata", "ExpandWildcard")),
           ("MC_Canonical_mx", ("ExpandWildcard",))]
# thorough: the same universes with RRsets of up to 3 records and presentations of up to 4
MC_THOROUGH = [("MCB", "bytes", 3, 3, ("RecaseRdata", "ExpandWildcard")), ("MCN", "names", 3, 3, ("ExpandWildcard",)),
               ("MCW", "wild", 2, 4, ()), ("MCS", "nsec", 3, 4, ("RecaseRdata", "ExpandWildcard")),
               ("MCM", "mx", 3, 3, ("ExpandWildcard",))]

# --------------------------------------------------------------------------------------
# classification of a disagreement (never decides anything: it only names what differs)


def _walk_name(b, p):
    start = p
    while True:
        if p >= len(b):
            raise ValueError("name runs off")
        n = b[p]
        if n == 0:
            return bytes(b[start:p + 1]), p + 1
        if n > 63:
            raise ValueError("compressed or bad label")
        p += 1 + n


def parse_tbs(b):
    """-> (fixed 18 octets, signer wire, [(owner wire, type, class, ttl, rdata)])"""
    if len(b) < 19:
        raise ValueError("short")
    fixed = bytes(b[:18])
    signer, p = _walk_name(b, 18)
    rrs = []
    while p < len(b):
        o, p = _walk_name(b, p)
        if p + 10 > len(b):
            raise ValueError("short rr header")
        t = b[p] * 256 + b[p + 1]
        c = b[p + 2] * 256 + b[p + 3]
        ttl = bytes(b[p + 4:p + 8])
        n = b[p + 8] * 256 + b[p + 9]
        p += 10
        if p + n > len(b):
            raise ValueError("short rdata")
        rrs.append((o, t, c, ttl, bytes(b[p:p + n])))
        p += n
    return fixed, signer, rrs


def _lower(b):
    return bytes(x + 32 if 65 <= x <= 90 else x for x in b)


def input_traits(recs):
    upper = False
    nnames = 0
    for r in recs:
        k = 0
        for f in r["rd"]:
            if f["k"] == "n":
                k += 1
                if any(65 <= x <= 90 for l in f["v"] for x in l):
                    upper = True
        nnames = max(nnames, k)
    return {"ttl_differs": len({tuple(r["ttl"]) for r in recs}) > 1, "rdata_upper": upper, "rdata_names": nnames}


def classify_form(typ, recs, decoded_as, allowed, obs_res, obs_tbs):
    """class, fields for a TBS outcome that is not among the allowed ones"""
    base = {"type": typ, "decoded_as": decoded_as}
    oks = [a for a in allowed if a["res"] == "ok"]
    if obs_res != "ok" or not oks:
        return "tbs-result", dict(base, observed=obs_res, allowed="/".join(sorted(a["res"] for a in allowed)))
    exp = oks[0]["tbs"]
    try:
        ef, es, er = parse_tbs(exp)
        of, osg, orr = parse_tbs(obs_tbs)
    except ValueError as e:
        return "tbs-unparsable", dict(base, why=str(e))
    if ef != of:
        k = next(i for i in range(18) if ef[i] != of[i])
        fld = ["type-covered", "type-covered", "algorithm", "labels"] + ["original-ttl"] * 4 + ["expiration"] * 4 + \
              ["inception"] * 4 + ["key-tag"] * 2
        return "rrsig-rdata-field", dict(base, field=fld[k])
    if es != osg:
        return "signer-name", dict(base, kind="case-preserved" if _lower(osg) == es else "other")
    eo = er[0][0] if er else None
    for (o, t, c, ttl, _r) in orr:
        if eo is not None and o != eo:
            return "rr-owner", dict(base, kind="case-preserved" if _lower(o) == eo else "other")
        if er and (t, c) != (er[0][1], er[0][2]):
            return "rr-header", dict(base, field="type/class")
        if er and ttl != er[0][3]:
            rcv = {bytes(r["ttl"]) for r in recs}
            return "rr-header", dict(base, field="ttl", kind="received-ttl" if ttl in rcv else "other")
    el = [r[4] for r in er]
    ol = [r[4] for r in orr]
    if set(el) == set(ol):
        dedup = []
        for x in ol:
            if x not in dedup:
                dedup.append(x)
        f = dict(base, dups_kept=len(ol) > len(dedup), order=dedup != el)
        f.update(input_traits(recs))
        if not f["dups_kept"] and not f["order"]:
            return "unclassified", base
        return "rrset-sequence", f
    if {_lower(x) for x in ol} == {_lower(x) for x in el}:
        kind = "name-case-preserved" if typ in LOWER_TYPES else "name-case-folded"
        return "rdata-name-case", dict(base, kind=kind)
    return "rdata-content", base


# --------------------------------------------------------------------------------------


def run(res, tier, seed):
    res.rule = ("R: case = (type, owner, sequence of records incl. order/duplicates/TTLs, RRSIG parameters, algorithm); "
                "T: case = one recorded TBS / sign-verify event; non-trivial = the canonical RRset has >= 2 members, or a "
                "record is repeated, or Labels differs from the owner's label count; distinct by content hash")
    res.assumptions = ["cryptographic primitives (ring) are trusted: a signature verifies for exactly the octets signed",
                       "field layouts of the RDATA types (which octets are an embedded name) are the harness' "
                       "(drive_canonical.rs, written from the defining RFCs)",
                       "TLC 1.8.0 and the JSON projection of cases/events are trusted",
                       "RSASHA1 (5/7) is verify-only in hickory-dns and ring cannot sign it: not exercised as a signer"]
    wd = vlib.workdir("c05")
    thorough = tier == "thorough"
    # ---- D
    mc_tla = os.path.join(vlib.SPEC, "MC_Canonical.tla")
    for cfg, az in MC_CFGS:
        st = vlib.mc(mc_tla, os.path.join(vlib.SPEC, cfg + ".cfg"), wd, workers=6, allow_zero=az, timeout=900)
        res.add_mc(cfg, st)
    if thorough:
        for pre, nm, mz, mp, az in MC_THOROUGH:
            lines = open(os.path.join(vlib.SPEC, f"MC_Canonical_{nm}.cfg")).read().splitlines()
            lines = [f"  MaxZone = {mz}" if l.strip().startswith("MaxZone") else
                     f"  MaxPres = {mp}" if l.strip().startswith("MaxPres") else l for l in lines]
            tla_p, cfg_p = vlib.wrapper(wd, f"MC_Canonical_{nm}_big", "MC_Canonical", {}, lines)
            st = vlib.mc(tla_p, cfg_p, wd, workers=6, allow_zero=az, timeout=1500)
            res.add_mc(f"MC_Canonical_{nm}(MaxZone={mz},MaxPres={mp})", st)
    # design-level counterexample for the sorting rule found in the code (informational)
    rc, out = vlib.tlc(mc_tla, os.path.join(vlib.SPEC, "MC_Canonical_AsIs.cfg"), wd, workers=2, timeout=300)
    res.extra["asis_rule_counterexample"] = ("Invariant C05_" in out and "is violated" in out)

    # ---- R
    gens = list(GEN_THOROUGH if thorough else GEN_QUICK)
    vec_args = []
    if os.path.exists(VECTORS):
        vecs = json.load(open(VECTORS))["vectors"]
        gens.append(rsavec_gen([(v["alg"], v["tag"]) for v in vecs]))
        vec_args = ["--vectors", VECTORS]
    vector_checks = 0
    total = 0
    fail_cases = 0
    for (nm, typ, cls, owners, uni, maxlen, pats, sigs, algs, lup) in gens:
        defs = {"P_Type": str(typ), "P_Class": str(cls), "P_Owners": tla(set(tla(o) for o in owners)),
                "P_Universe": tla(set(uni)), "P_TtlPats": tla(set(pats)), "P_SigBases": tla(set(tla(s) for s in sigs)),
                "P_Algs": tla(set(algs))}
        tla_p, cfg_p = vlib.wrapper(wd, "G_" + nm, "Gen_Canonical", defs, [l.format(maxlen=maxlen, lup=lup) for l in GEN_CFG])
        cases, st = vlib.gen(tla_p, cfg_p, wd, workers=6, timeout=1200)
        if not cases:
            raise vlib.ToolError(f"generator {nm} produced no cases")
        vlib.log(f"[c05] G_{nm}: {len(cases)} cases")
        res.states += st["distinct"]
        res.transitions += st["generated"]
        cpath = os.path.join(wd, f"G_{nm}.cases.ndjson")
        vpath = os.path.join(wd, f"G_{nm}.verdicts.ndjson")
        vlib.write_ndjson(cpath, cases)
        vlib.run_driver("drive_canonical", ["replay"] + vec_args, stdin_path=cpath, stdout_path=vpath, timeout=2400)
        n = 0
        for v, c in zip(vlib.read_ndjson(vpath), cases):
            n += 1
            res.evaluations += v["checks"]
            vector_checks += v.get("vector_checks", 0)
            key = {"type": c["type"], "owner": c["owner"], "recs": c["recs"], "sig": c["sig"]}
            if v["nontrivial"]:
                res.nontrivial.add(vlib.digest(key))
            if v["ok"]:
                if v["nontrivial"] and len(c["canon"]) >= 2 and v["observed"]["res"] == "ok":
                    res.sample({"generator": nm, "type": c["type"], "owner": c["owner"], "recs": c["recs"],
                                "labels": c["sig"]["labels"], "alg": c["sig"]["alg"],
                                "signed_data_len": len(v["observed"]["tbs"]), "third_party": v["observed"]["third"],
                                "self": v["observed"]["self"]}, cap=2)
                continue
            fail_cases += 1
            form = zform = None
            for f in v["fails"]:
                if f["check"] == "form":
                    form = classify_form(c["type"], c["recs"], v["decoded_as"], c["allowed"], f["observed"]["res"],
                                         f["observed"]["tbs"])
                if f["check"] == "zform":
                    zform = classify_form(c["type"], c["zone"], v["decoded_as"], c["allowed"], f["observed"]["res"],
                                          f["observed"]["tbs"])
            for f in v["fails"]:
                detail = {"generator": nm, "case": key, "check": f["check"], "expected": f["expected"], "observed": f["observed"]}
                if f["check"] == "form":
                    cls_, fields = form
                    res.mismatch(cls_, dict(fields, check="form"), detail)
                elif f["check"] == "zform":
                    cls_, fields = zform
                    res.mismatch(cls_, dict(fields, check="form"), dict(detail, zone=c["zone"]))
                elif f["check"] == "third" and form is not None:
                    # a verification that fails because the octets differ: same cause, same fields
                    cls_, fields = form
                    res.mismatch(cls_, dict(fields, check="third"), detail)
                elif f["check"] == "self" and (form or zform) is not None:
                    # the built-in signer signed the zone form, the verifier saw the presentation
                    cls_, fields = form or zform
                    res.mismatch(cls_, dict(fields, check="self"), detail)
                else:
                    fields = {"type": c["type"], "expected": str(f["expected"]), "observed": str(f["observed"]),
                              "form": "conforming"}
                    if f["check"] == "vector":
                        fields.update(alg=c["sig"]["alg"], key_bits=f.get("bits"))
                    res.mismatch(f"{f['check']}-verify-differs", fields, detail)
        if n != len(cases):
            raise vlib.ToolError("driver lost cases")
        total += n
        res.traces += n
    res.exhaustive = True
    if vec_args and vector_checks == 0:
        raise vlib.ToolError("vacuous binding: no case met a static RSA vector")
    res.extra["static_rsa_vector_verifications"] = vector_checks
    res.extra["generated_cases_replayed"] = total
    res.extra["generated_cases_disagreeing"] = fail_cases

    # ---- T
    n_rand = 40000 if thorough else 4000
    rpath = os.path.join(wd, "random.trace.ndjson")
    o = vlib.run_driver("drive_canonical", ["record", "--trace", rpath, "--n", str(n_rand), "--seed", str(seed)])
    counts = json.loads(o.strip().splitlines()[-1])
    mism, tst = vlib.trace_check_parallel(os.path.join(vlib.SPEC, "Trace_Canonical.tla"),
                                          os.path.join(vlib.SPEC, "Trace_Canonical.cfg"), wd, rpath,
                                          shards=6, timeout=2400)
    nev = counts["tbs_events"] + counts["sv_events"]
    res.traces += nev
    res.evaluations += nev
    res.extra["trace_events_validated"] = nev
    res.extra["trace_events_rejected"] = len(mism)
    res.extra["sign_verify_events"] = counts["sv_events"]
    res.extra["sign_verify_skipped_recordset_cannot_hold"] = counts["sv_skipped"]
    bad_lines = {m["line"] for m in mism}
    for ev in vlib.read_ndjson(rpath):
        if ev.get("ev") == "tbs" and (len(ev["recs"]) >= 2 or ev["sig"]["labels"] != len(ev["owner"])):
            res.nontrivial.add(vlib.digest([ev["type"], ev["owner"], ev["recs"], ev["sig"]]))
        if ev.get("ev") == "sv" and ev["verdict"] == "accept" and ev["what"] and len(ev["precs"]) >= 2:
            res.sample({"trace_event": ev}, cap=4)
    # tbs mismatches first: they explain the sv mismatches of the same case
    cause = {}
    for m in mism:
        e = m["event"]
        if e["ev"] != "tbs":
            continue
        cls_, fields = classify_form(e["type"], e["recs"], e["decoded_as"], m["expected"]["allowed"], e["res"], e["tbs"])
        if e.get("role", "main") != "main":
            cause.setdefault(m["case"], []).append((cls_, fields))
        res.mismatch(cls_, dict(fields, check="form"),
                     {"trace_line": m["line"], "case": m["case"], "event": e, "expected": m["expected"]})
    for m in mism:
        e = m["event"]
        if e["ev"] != "sv":
            continue
        detail = {"trace_line": m["line"], "case": m["case"], "event": e, "expected": m["expected"]}
        if not m["expected"].get("signer_params_ok", True):
            res.mismatch("signer-parameters", {"type": e["type"], "labels": e["sig"]["labels"], "owner_labels": len(e["sowner"])},
                         detail)
            continue
        cs = cause.get(m["case"])
        if cs and "accept" in m["expected"]["allowed"] and e["verdict"] == "reject":
            for cls_, fields in cs[:1]:
                res.mismatch(cls_, dict(fields, check="self"), detail)
        else:
            res.mismatch("self-verify-differs", {"type": e["type"], "expected": "/".join(m["expected"]["allowed"]),
                                                 "observed": str(e["verdict"]), "form": "conforming" if not cs else "differs"},
                         detail)


def replay(res, path):
    d = json.load(open(path))
    print(json.dumps(d, indent=1)[:6000])
    return 0
