"""C18 -- a lookup succeeds if any configured server can answer, within the deadline; concurrent
identical queries share one upstream exchange.

D: the machine Pool.tla (rounds, truncation -> TCP, busy back-off, end-to-end deadline, shared in-flight
   entry; virtual time is a variable) satisfies the C18_* requirements -- operators of PoolOps.tla on the
   observable history -- for every assignment of server profiles in a small scope (TLC, exhaustive;
   liveness under fair scheduling). The two "asis" rules (deadline looked at only between rounds; UDP-only
   servers dropped after a truncated reply) are kept as expected counterexamples.
R: Gen_Pool walks the same machine over the same configurations and prints, for every completed
   behaviour, the configuration, the caller arrival times and what PoolOps prescribes for each caller
   (allowed result classes, allowed answering servers, time bound). drive_pool runs the real
   NameServerPool on each over a scripted ConnectionProvider on tokio's paused clock (hook H3).
T: the events of those runs and of seeded random runs (1-6 servers, behaviour changing between
   attempts, random caller arrival times, two distinct queries) are judged by the TLA+ monitor
   Trace_Pool with the same PoolOps operators.
"""
import json
import os

import vlib

BINS = ["drive_pool"]

MC_CFG = """SPECIFICATION {spec}
CONSTANTS
  Configs <- {configs}
  NCallers = {k}
  Gaps <- MC_Gaps
  Backoff0 = 20
  BackoffCap = 300
  DeadlineRule = "{dl}"
  UdpRule = "{udp}"
{tail}
CHECK_DEADLOCK FALSE
"""
INVS = ("INVARIANTS TypeOK C18_Deadline C18_FindsHealthy C18_TcpRetry C18_UntrustedNxContinues C18_SharedOnce "
        "C18_MapCleaned")

# the shape of the one root cause behind several give-up classes (see proposed/C18-findings.txt)
UDP_DROPPED = "udp-only-servers-dropped-after-truncated-reply"
PRIORITY = ["panic", "deadline-exceeded", "connect-timeout-not-honoured", "distinct-queries-shared-one-exchange", "requests-per-server-exceed-bound", "exchange-not-shared", "shared-result-differs", "answer-without-exchange",
            "nxdomain-without-exchange", "truncated-without-exchange", "untrusted-nx-ended-search",
            "truncated-not-retried-over-tcp", "busy-server-not-retried", "healthy-server-not-used",
            "request-for-another-query", "caller-never-completed", "unexpected-result"]


def write_cfg(wd, name, **kw):
    p = os.path.join(wd, name + ".cfg")
    with open(p, "w") as f:
        f.write(MC_CFG.format(**kw))
    return p


def classify(m):
    """monitor mismatch -> (class, match fields)"""
    probs = m["problems"]
    harness = [p for p in probs if p.startswith("harness:")]
    if harness:
        raise vlib.ToolError(f"trace inconsistent with the script ({harness[0]}): case {m['case']} line {m['line']}")
    prob = sorted(probs, key=lambda p: PRIORITY.index(p) if p in PRIORITY else 99)[0]
    det = m.get("detail", {})
    owed = det.get("owed", [])
    if prob in ("deadline-exceeded", "exchange-not-shared"):
        return prob, {"cause": det.get("cause", "none")}
    if prob in ("healthy-server-not-used", "untrusted-nx-ended-search", "busy-server-not-retried") and owed \
            and det.get("truncSeen") and all(o["udpOnly"] for o in owed):
        return UDP_DROPPED, {"problem": prob}
    return prob, {"owed": sorted({o["why"] for o in owed}), "strategy": m["cfg"]["strategy"], "nconc": m["cfg"]["nconc"]}


def run(res, tier, seed):
    thorough = tier == "thorough"
    res.rule = ("case = one pool configuration (servers, transports, per-attempt fault scripts, strategy, parallelism, "
                "timeouts) with its caller arrival times; non-trivial = at least two upstream requests were made or "
                "two callers were involved; distinct by content hash of configuration and arrival times")
    res.assumptions = [
        "scripted ConnectionProvider/DnsHandle (harness/src/bin/drive_pool/main.rs) is the only source of upstream replies; "
        "the per-attempt timeout `ta` is enforced by the scripted connection as the stock connections do",
        "all timers and the pool deadline read tokio's paused clock (hook H3); times are exact milliseconds",
        "a busy server is owed another request while less than 300 ms have passed since its first busy reply in the lookup "
        "(the back-off the pool documents: pauses of 20/40/80/160 ms between passes over the busy servers)",
        "second binding level (socket): the real ConnectionProvider impl over a scripted RuntimeProvider "
        "(harness/src/bin/drive_pool/sock.rs), i.e. real DnsExchange/DnsMultiplexer/TcpClientStream/UdpClientStream with "
        "their own request and connect timeouts; callers are sequential there and Busy cannot be scripted",
        "an answer due at exactly the deadline may win or lose against it (both accepted)",
        "SERVFAIL/REFUSED/NODATA replies are outside the statement's fault alphabet and not generated",
    ]
    wd = vlib.workdir("c18")
    mc_tla = os.path.join(vlib.SPEC, "MC_Pool.tla")
    W = 6

    # ---- D
    runs = [("MC_Pool", os.path.join(vlib.SPEC, "MC_Pool.cfg"), ("CallJoin", "Join")),
            ("MC_Pool_shared", os.path.join(vlib.SPEC, "MC_Pool_shared.cfg"), ()),
            ("MC_Pool_three", os.path.join(vlib.SPEC, "MC_Pool_three.cfg"), ("CallJoin", "Join")),
            ("MC_Pool_live", os.path.join(vlib.SPEC, "MC_Pool_live.cfg"), ("DeadlineInFlight",)),
            ("MC_Pool_busy", os.path.join(vlib.SPEC, "MC_Pool_busy.cfg"), ("CallJoin", "Join", "DeadlineInRound", "DeadlineInFlight")),
            ("MC_Pool_sock", os.path.join(vlib.SPEC, "MC_Pool_sock.cfg"), ("Backoff",)),
            ("MC_Pool_case", os.path.join(vlib.SPEC, "MC_Pool_case.cfg"), ("CallJoin", "Join", "Backoff", "DeadlineInRound"))]
    if thorough:
        runs.append(("MC_Pool_shared3", write_cfg(wd, "MC_Pool_shared3", spec="Spec", configs="MC_Shared", k=3, dl="required",
                                                  udp="required", tail=INVS), ()))
        runs.append(("MC_Pool_four", write_cfg(wd, "MC_Pool_four", spec="Spec", configs="MC_Four", k=1, dl="required",
                                               udp="required", tail=INVS), ("CallJoin", "Join")))
    for name, cfg, az in runs:
        st = vlib.mc(mc_tla, cfg, wd, workers=W, timeout=1500, allow_zero=az)
        res.add_mc(name, st)
    # the rules the code follows today, kept as documented counterexamples (never used for conformance)
    asis = {}
    for name, inv in [("MC_Pool_AsIsDeadline", "C18_Deadline"), ("MC_Pool_AsIsUdp", "C18_FindsHealthy"),
                      ("MC_Pool_ShortBackoff", "C18_FindsHealthy")]:
        rc, out = vlib.tlc(mc_tla, os.path.join(vlib.SPEC, name + ".cfg"), wd, workers=1, timeout=300)
        if f"Invariant {inv} is violated" not in out:
            vlib.log(out[-3000:])
            raise vlib.ToolError(f"{name}: the expected counterexample to {inv} was not produced")
        asis[name] = f"{inv} violated (expected)"
    res.extra["asis_counterexamples"] = asis

    # ---- R (+ T on the same runs)
    # (generator, configuration set, callers, binding level)
    gens = [("G_two", "MC_Two", 1, "connection"), ("G_shared", "MC_Shared", 2, "connection"),
            ("G_busy", "MC_Busy", 1, "connection"), ("G_sock", "MC_Sock", 2, "socket"),
            # the same arrival patterns with a second caller whose query differs from the first one's in the CD bit only
            ("G_shared_cd", "MC_Shared", 2, "connection"),
            # 0x20 on / off with servers whose UDP replies mangle the letter case
            ("G_case", "MC_Case", 1, "connection")]
    if thorough:
        gens += [("G_three", "MC_Three", 1, "connection"), ("G_shared3", "MC_Shared", 3, "connection")]
    traces = []
    verdicts = {}      # case id -> verdict
    total = 0
    stats = {"answer": 0, "nx": 0, "trunc": 0, "error": 0, "joined": 0, "agree_with_model": 0, "callers": 0}
    for gname, configs, k, level in gens:
        tla, _ = vlib.wrapper(wd, gname, "Gen_Pool, MC_Pool", {}, [])
        cfg = write_cfg(wd, gname, spec="Spec", configs=configs, k=k, dl="required", udp="required", tail="INVARIANT Emit")
        cases, st = vlib.gen(tla, cfg, wd, workers=W, timeout=1500)
        res.states += st["distinct"]
        res.transitions += st["generated"]
        seen, uniq = set(), []
        for c in cases:
            d = vlib.digest([c["cfg"], c["calls"]])
            if d not in seen:
                seen.add(d)
                uniq.append(c)
        if gname == "G_shared_cd":
            for c in uniq:
                c["calls"][1]["cd"] = 1
        if level == "socket":
            # callers come one after the other there (over TCP a request carries no trace of its caller):
            # keep the behaviours without joiners, `at` becomes the pause after the previous caller
            seq = []
            for c in uniq:
                if any(mo["joined"] for mo in c["model"]):
                    continue
                prev_done = 0
                for call, mo in zip(c["calls"], c["model"]):
                    at = call["at"]
                    call["at"] = max(at - prev_done, 0)
                    prev_done = at + mo["took"]
                seq.append(c)
            uniq = seq
        if not uniq:
            raise vlib.ToolError(f"generator {gname} produced no cases")
        vlib.log(f"[c18] {gname}: {len(uniq)} cases ({len(cases)} completed behaviours)")
        cpath = os.path.join(wd, f"{gname}.cases.ndjson")
        vlib.write_ndjson(cpath, uniq)
        tpath = os.path.join(wd, f"{gname}.trace.ndjson")
        vpath = os.path.join(wd, f"{gname}.verdicts.ndjson")
        vlib.run_driver("drive_pool", ["replay", "--level", level, "--trace", tpath], stdin_path=cpath, stdout_path=vpath)
        # case ids must be unique across generators
        pre = "k" if level == "socket" else "g"
        with open(tpath) as f:
            txt = f.read().replace(f'"case":"{pre}', f'"case":"{gname}-')
        with open(tpath, "w") as f:
            f.write(txt)
        traces.append(tpath)
        n = 0
        for v, c in zip(vlib.read_ndjson(vpath), uniq):
            n += 1
            res.evaluations += 1
            v["case"] = v["case"].replace(pre, gname + "-", 1)
            verdicts[v["case"]] = v
            if v.get("nontrivial") or len(c["calls"]) > 1:
                res.nontrivial.add(vlib.digest(v["input"]))
            for o, mo in zip(v["observed"], c["model"]):
                stats["callers"] += 1
                stats[o["class"]] = stats.get(o["class"], 0) + 1
                if o["class"] == mo["class"] and o["from"] == mo["from"] and o["took"] == mo["took"]:
                    stats["agree_with_model"] += 1
            if v["origins"] < len(c["calls"]):
                stats["joined"] += 1
            if v["ok"] and v["attempts"] >= 3:
                res.sample({"cfg": c["cfg"], "calls": c["calls"], "prescribed": c["exp"]["callers"], "observed": v["observed"]}, cap=2)
        if n != len(uniq):
            raise vlib.ToolError("driver lost cases")
        total += n
    res.traces += total
    res.exhaustive = True
    if stats["answer"] == 0 or stats["error"] == 0 or stats["joined"] == 0:
        raise vlib.ToolError(f"vacuous replay: {stats}")
    res.extra["replay_result_classes"] = stats
    res.extra["generated_cases_replayed"] = total

    # ---- T: seeded random
    n_rand = 40000 if thorough else 4000
    rpath = os.path.join(wd, "random.trace.ndjson")
    vlib.run_driver("drive_pool", ["record", "--trace", rpath, "--n", str(n_rand), "--seed", str(seed), "--max-servers", "6"],
                    stdout_path=os.path.join(wd, "random.out"))
    traces.append(rpath)
    # socket level: the real connections on scripted sockets (refused / black-holed / slow connects, idle-closed
    # connections, slow replies), callers one after the other
    n_sock = 8000 if thorough else 1200
    spath = os.path.join(wd, "random_sock.trace.ndjson")
    vlib.run_driver("drive_pool", ["record", "--level", "socket", "--trace", spath, "--n", str(n_sock), "--seed", str(seed)],
                    stdout_path=os.path.join(wd, "random_sock.out"))
    traces.append(spath)
    res.traces += n_sock
    res.evaluations += n_sock
    res.extra["random_socket_level_cases_recorded"] = n_sock
    all_trace = os.path.join(wd, "all.trace.ndjson")
    with open(all_trace, "w") as out:
        for t in traces:
            with open(t) as f:
                for line in f:
                    out.write(line)
    mism, tst = vlib.trace_check_parallel(os.path.join(vlib.SPEC, "Trace_Pool.tla"), os.path.join(vlib.SPEC, "Trace_Pool.cfg"),
                                          wd, all_trace, shards=6 if thorough else 4, timeout=3000)
    res.traces += n_rand
    res.evaluations += n_rand
    for v in vlib.read_ndjson(os.path.join(wd, "random.out")):
        if v["attempts"] >= 2 or v["callers"] > 1:
            res.nontrivial.add("r" + v["case"])
    res.extra["trace_events_validated"] = tst["distinct"]
    res.extra["random_cases_recorded"] = n_rand

    # ---- mismatches: the monitor's judgement first; a replayed case the monitor accepts but whose
    # outcome is outside the prescribed set is reported on its own
    flagged = set()
    for m in mism:
        flagged.add(m["case"])
        cls, fields = classify(m)
        res.mismatch(cls, fields, {"case": m["case"], "event": m["event"], "problems": m["problems"], "detail": m.get("detail"),
                                   "cfg": m["cfg"], "calls": m["calls"], "replay_verdict": verdicts.get(m["case"], {}).get("class")})
    for cid, v in verdicts.items():
        if not v["ok"] and cid not in flagged:
            res.mismatch("replay-outcome-not-allowed", {"why": v["class"]},
                         {"case": cid, "input": v["input"], "expected": v["expected"], "observed": v["observed"]})
    res.extra["replay_verdicts_failed"] = sum(1 for v in verdicts.values() if not v["ok"])


def replay(res, path):
    d = json.load(open(path))
    print(json.dumps(d, indent=1)[:6000])
    return 0
