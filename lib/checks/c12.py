"""C12 -- dynamic update applies RFC 2136 semantics and keeps the zone well-formed.

D: Update.tla (one action per RFC 2136 processing step) satisfies the C12_* requirements:
   (a) inductive step -- every message of the universe from EVERY well-formed zone over the
   universe; (b) histories of <= 3 messages from one zone.  Two formulations of 3.4.2 (prose /
   pseudocode) are cross-checked by TLC.
R: Gen_Update enumerates histories with the outcomes the specification allows; each is sent, as
   TSIG-signed wire bytes, through a real Catalog -> SqliteZoneHandler built by try_from_config.
T: every replayed run and seeded random long histories (12-name universe, mixed case, serials
   around 2^31 and 2^32) are recorded and judged message by message by the TLA+ monitor
   Trace_Update (Outcomes / WellFormed of UpdateOps).
"""
import glob
import json
import os
import re
from concurrent.futures import ThreadPoolExecutor

import vlib

BINS = ["drive_update"]
PROP = "C12"

INVS = ("TypeOK C12_AllOrNothing C12_Contents C12_PrereqOnCurrentZone C12_OneSOA C12_ApexNS C12_CnameAlone "
        "C12_SerialIffChanged C12_PseudoProseAgree")

GEN_CFG = ["SPECIFICATION GSpec", "CONSTANTS", "  Apex <- AP", "  InitZones <- P_Zones", "  InitSers <- P_Sers", "  Signeds <- P_Signeds",
           "  Msgs <- P_Zones", "  MsgsAt <- P_MsgsAt", "  SimPre <- P_SimPre", "  SimUpd <- P_SimUpd", "  MaxMsgs = {n}",
           "INVARIANT Emit GenSound", "CHECK_DEADLOCK FALSE"]

# name, zones, serials, MsgsAt, MaxMsgs, simulate (num, depth) or None, tiers
GENS = [
    # one message, the whole universe, three zones (plain / delegation / CNAME + apex data)
    ("one", "{Z1, Z2, Z3}", "{S10}", "<<Msgs1 \\cup Msgs2p \\cup Msgs0>>", 1, None, ("quick",)),
    ("onefull", "{Z1, Z2, Z3}", "{S10}", "<<Msgs1 \\cup Msgs2 \\cup Msgs2p \\cup Msgs0>>", 1, None, ("thorough",)),
    # serial corner cases: 2^32-1, shortly before the wrap, 2^31-2
    ("wrap", "{Z1}", "{SMax, SNear, SHalf}", "<<MsgsWrap1, MsgsWrap>>", 2, None, ("quick",)),
    ("wrapfull", "{Z1}", "{SMax, SNear, SHalf}", "<<MsgsWrap, MsgsWrap>>", 2, None, ("thorough",)),
    # the half-space boundary: SOA update RR at distance 2^31-1 / 2^31 / 2^31+1 from the zone serial, alone
    # and with a content change in the same message, then one more message
    ("half", "{Z1}", "HalfSers", "<<MsgsHalf, MsgsAfter>>", 2, None, ("quick", "thorough")),
    # types above 255 (CAA, URI 256, private use 65280): CNAME vs other data on both sides of 251..255; signed and unsigned
    ("hi1", "{Z4, Z1}", "{S10}", "<<MsgsHi1 \\cup MsgsHi2 \\cup MsgsHiP>>", 1, None, ("quick", "thorough")),
    ("hi2", "{Z4}", "{S10}", "<<MsgsHi1, MsgsHi1>>", 2, None, ("quick", "thorough")),
    # DNSSEC-signed zones (NSEC, re-signed after every update): same oracle, same universe
    ("sgn1", "{Z1, Z2, Z3}", "{S10}", "<<Msgs1u \\cup MsgsCn \\cup Msgs1p>>", 1, None, ("quick",)),
    ("sgn2", "{Z1}", "{S10}", "<<SetupLite, Msgs1u>>", 2, None, ("quick", "thorough")),
    ("sgnfull", "{Z1, Z2, Z3, Z4}", "{S10}", "<<Msgs1 \\cup Msgs2g \\cup MsgsCn>>", 1, None, ("thorough",)),
    # two messages: every well-formed single-RR update, then a prerequisite probe or another update
    ("two", "{Z1}", "{S10}", "<<Setup, Msgs1u \\cup Msgs1p>>", 2, None, ("quick",)),
    ("twofull", "{Z1, Z2, Z3}", "{S10}", "<<Setup, Msgs1u \\cup Msgs1p>>", 2, None, ("thorough",)),
    ("three", "{Z1}", "{S10}", "<<SetupLite, SetupLite, Msgs1u \\cup Msgs1p>>", 3, None, ("thorough",)),
]
# the `signed` dimension of a generator (default: unsigned zones only)
SIGNED = {"hi1": "BOOLEAN", "hi2": "BOOLEAN", "sgn1": "{TRUE}", "sgn2": "{TRUE}", "sgnfull": "{TRUE}", "sim": "BOOLEAN"}
# long histories by simulation: (num, depth)
SIM = {"quick": (1500, 90), "thorough": (20000, 90)}
SIM_DEF = ("sim", "{Z1, Z2, Z3}", "{S10, SNear, SHalf}", "[k \\in 1..6 |-> {}]", 6)


# ------------------------------------------------------------------------------------------
# classification of monitor mismatches (deterministic function of the report)

def _nm(n):
    return ".".join("".join(chr(b) for b in lab) for lab in n) + "."


def _rr(r):
    return (_nm(r[0]), r[1], r[2])


def _s32(p):
    return p[0] * 65536 + p[1]


KNOWN_CLASSES = None


# ids of the cases of this run whose zone is DNSSEC-signed (filled by monitor() from the reset events)
SIGNED_CASES = set()


def _known_classes():
    """classes of C12 that are listed as known findings: a repaired defect ("fixed:" line) must no
    longer explain anything, so only these may serve as triggers"""
    global KNOWN_CLASSES
    if KNOWN_CLASSES is None:
        KNOWN_CLASSES = {k["class"] for k in vlib.Findings().known if k["property"] == "C12"}
    return KNOWN_CLASSES


def classify(d):
    """-> (class, fields).  `d` is a MISMATCH report of Trace_Update.

    Trigger based: a known defect explains a mismatch only if its trigger (a syntactic condition
    on the message, the zone before it and the diagnostics) is present AND every requirement the
    report lists as broken is one that defect can break.  The class is the first trigger in a
    fixed priority order; the others are listed in fields["also"]."""
    if d.get("kind") == "axfr":
        ev = d.get("event", {})
        err = str(ev.get("err", ""))
        if (err.startswith("RESPPARSE") and any(r[1] in ("MAILA", "MAILB") for r in d.get("missing", []))
                and "prescan-accepts-mail-metatype" in _known_classes()):
            return "prescan-accepts-mail-metatype", {"type": "MAILA/MAILB", "effect": "axfr-unparseable"}
        return "axfr-differs-from-zone", {"err": err[:40]}
    if d.get("kind") not in ("msg", "rmsg"):
        return "unclassified:" + str(d.get("kind")), {}
    broken = set(d["broken"])
    rc = d["rc"]
    exp = set(d["exp_rcs"])
    soas = [r for r in d["pre_rrs"] if r[1] == "SOA"]
    apex = _nm(soas[0][0]) if soas else "?"
    zone = {_rr(r) for r in d["pre_rrs"]}
    missing = {_rr(r) for r in d["missing"]}
    extra = {_rr(r) for r in d["extra"]}
    pre = d["m"]["pre"]
    upd = d["m"]["upd"]
    for r in pre + upd:
        r["_o"] = _nm(r["o"])
    pre_ser = _s32(d["pre_ser"])
    ser = _s32(d["ser"])
    MAXS = 0xFFFFFFFF
    ghosts = {(_nm(g[0]), g[1]) for g in d.get("ghosts_before", [])}
    # ghosts made inside this message: a class NONE delete of the only RR of an RRset
    # (the RRset may itself come from an add earlier in the message; CNAME replaces, the rest accumulates)
    running = set(zone)
    for u in upd:
        me = (u["_o"], u["t"], u["rd"])
        mine = {z for z in running if z[0] == u["_o"] and z[1] == u["t"]}
        if u["c"] == "IN" and u["t"] not in ("SOA", "ANY") and u["rd"] != 0:
            if u["t"] == "CNAME":
                running -= mine
            running.add(me)
        elif u["c"] == "NONE":
            if mine == {me}:
                ghosts.add((u["_o"], u["t"]))
            running.discard(me)
        elif u["c"] == "ANY":
            running -= {z for z in running if z[0] == u["_o"] and (u["t"] == "ANY" or z[1] == u["t"])}
    gnames = {o for (o, _t) in ghosts}
    ALL = {"rcode", "contents", "serial", "all-or-nothing", "one-soa", "apex-ns"}
    trig = []  # (class, fields, explains)

    # serial arithmetic overflow at 2^32 - 1 (SOA::increment_serial: `self.serial += 1`)
    if rc.startswith("PANIC:attempt to add with overflow") and (pre_ser == MAXS or any(
            u["t"] == "SOA" and u["c"] == "IN" and _s32(u["ser"]) == MAXS for u in upd)):
        trig.append(("serial-increment-overflow-panic", {"serial": "4294967295", "rc": "PANIC"}, ALL))
    elif rc.startswith("PANIC"):
        return "unclassified:panic:" + rc[:40], {}

    # ANY/ANY at the apex removes SOA and NS (inverted `retain` predicate)
    if any(u["c"] == "ANY" and u["t"] == "ANY" and u["_o"] == apex for u in upd) and any(
            o == apex and t in ("SOA", "NS") for (o, t, _k) in missing):
        trig.append(("update-any-any-at-apex", {"owner": "apex", "class": "ANY", "type": "ANY"}, ALL))

    # prescan lets the obsolete QUERY meta types MAILA / MAILB through
    if d["scan_bad"] and all(upd[k - 1]["t"] in ("MAILA", "MAILB") and upd[k - 1]["_o"].endswith(apex)
                             and upd[k - 1]["c"] in ("IN", "ANY", "NONE") for k in d["scan_bad"]):
        trig.append(("prescan-accepts-mail-metatype", {"type": "MAILA/MAILB"}, {"rcode", "contents", "serial"}))

    # prerequisites judged through the query-style lookup
    def below_cut(o):
        labs = o.split(".")
        for i in range(len(labs) - 1):
            anc = ".".join(labs[i:])
            if anc != apex and anc.endswith("." + apex) and any(zo == anc and zt == "NS" for (zo, zt, _k) in zone):
                return True
        return False

    def affected(p):
        if p["c"] not in ("ANY", "NONE", "IN") or p["ttl"] != 0 or not p["_o"].endswith(apex):
            return None
        if below_cut(p["_o"]):
            return "delegation"
        if any(zo == p["_o"] and zt == "CNAME" for (zo, zt, _k) in zone) and p["t"] not in ("CNAME", "ANY"):
            return "cname"
        return None
    vias = [affected(p) for p in pre if affected(p)]
    if vias and "rcode" in broken:
        trig.append(("prereq-judged-by-query-lookup", {"via": vias[0]}, {"rcode", "contents", "serial"}))

    # empty RRset ("ghost") left in the map by a class NONE delete of the last RR
    if ghosts:
        if any(u["c"] == "ANY" and ((u["_o"], u["t"]) in ghosts or (u["t"] == "ANY" and u["_o"] in gnames)) for u in upd):
            trig.append(("empty-rrset-left-behind", {"effect": "serial-bump-on-delete"}, {"serial"}))
        if "rcode" in broken and any(p["t"] == "ANY" and p["c"] in ("ANY", "NONE") and p["_o"] in gnames for p in pre):
            trig.append(("empty-rrset-left-behind", {"effect": "name-in-use-misjudged"}, {"rcode", "contents", "serial"}))
        blocked = {(o, t, k) for (o, t, k) in missing
                   if any(u["c"] == "IN" and u["_o"] == o and u["t"] == t and u["rd"] == k for u in upd)
                   and any(go == o and ((gt == "CNAME") != (t == "CNAME")) for (go, gt) in ghosts)}
        if blocked:
            trig.append(("empty-rrset-left-behind", {"effect": "cname-exclusion"}, {"contents", "serial"}))

    # ANY/ANY at another name keeps that name's NS (same predicate as at the apex)
    kept = {(o, t, k) for (o, t, k) in extra if t in ("NS", "SOA") and o != apex
            and any(u["c"] == "ANY" and u["t"] == "ANY" and u["_o"] == o for u in upd)}
    if kept:
        trig.append(("update-any-any-keeps-ns", {"owner": "non-apex", "class": "ANY", "type": "ANY"}, {"contents", "serial"}))

    # SOA added at a name that has no SOA
    if any(u["c"] == "IN" and u["t"] == "SOA" and u["_o"] != apex and u["_o"].endswith("." + apex) for u in upd):
        trig.append(("soa-added-at-non-apex", {"class": "IN", "type": "SOA", "owner": "non-apex"},
                     {"contents", "one-soa", "serial"}))

    # SOA serials compared as plain integers instead of RFC 1982
    cur, plain_differs = pre_ser, False
    for u in upd:
        if u["c"] == "IN" and u["t"] == "SOA" and u["_o"] == apex:
            new = _s32(u["ser"])
            d32 = (new - cur) % (1 << 32)
            rfc = d32 != 0 and d32 < (1 << 31)
            if (new > cur) != rfc or d32 == (1 << 31):
                plain_differs = True
            if rfc:
                cur = new
    if plain_differs:
        trig.append(("soa-serial-compared-as-integer", {"class": "IN", "type": "SOA", "owner": "apex"}, {"serial"}))

    # identical CNAME re-added: serial moves, content does not
    if ser != pre_ser and any(u["c"] == "IN" and u["t"] == "CNAME" and (u["_o"], "CNAME", u["rd"]) in zone for u in upd):
        trig.append(("serial-bump-cname-readd", {"class": "IN", "type": "CNAME", "form": "identical-readd"}, {"serial"}))

    # signed zone: ANY/ANY at the apex also removes the DNSKEY / NSEC RRsets the server itself maintains;
    # that counts as a change (serial moves) although no RRset an update may touch changed
    if str(d.get("case")) in SIGNED_CASES and any(u["c"] == "ANY" and u["t"] == "ANY" and u["_o"] == apex for u in upd):
        trig.append(("signed-apex-any-any-deletes-dnssec-rrsets", {"owner": "apex", "class": "ANY", "type": "ANY", "zone": "signed"},
                     {"serial"}))

    trig = [t for t in trig if t[0] in _known_classes()]
    explained = set()
    for (_c, _f, ex) in trig:
        explained |= ex
    if trig and broken <= explained:
        cls, fields, _ex = trig[0]
        fields = dict(fields)
        also = sorted({c for (c, _f, _e) in trig[1:] if c != cls})
        if also:
            fields["also"] = also
        return cls, fields
    return "unclassified:" + "+".join(sorted(broken)) + ":" + rc[:24], {"expected": sorted(exp),
                                                                         "triggers": [t[0] for t in trig]}


# ------------------------------------------------------------------------------------------

def _mc(wd, tier):
    if tier == "thorough":
        cfgs = [("MC_Update_step_wrap", 1800), ("MC_Update_hist", 1800)]
    else:
        cfgs = [("MC_Update_step", 600), ("MC_Update_hist2", 600)]
    with ThreadPoolExecutor(max_workers=2) as ex:
        futs = [(c, ex.submit(vlib.mc, os.path.join(vlib.SPEC, "MC_Update.tla"), os.path.join(vlib.SPEC, c + ".cfg"),
                              wd, 4, t)) for c, t in cfgs]
        return [(c, f.result()) for c, f in futs]


def _shard(cases, n):
    n = max(1, min(n, len(cases)))
    out = [[] for _ in range(n)]
    for i, c in enumerate(cases):
        out[i % n].append(c)
    return out


def replay_cases(wd, name, cases, extra_args=(), procs=8):
    """run drive_update replay on `cases` in `procs` processes; -> (verdicts, trace files)"""
    shards = _shard(cases, procs)
    jobs = []
    for si, sh in enumerate(shards):
        cpath = os.path.join(wd, f"{name}.{si}.cases.ndjson")
        vlib.write_ndjson(cpath, sh)
        tpath = os.path.join(wd, f"{name}.{si}.trace.ndjson")
        vpath = os.path.join(wd, f"{name}.{si}.verdicts.ndjson")
        work = os.path.join(wd, "drv", f"{name}.{si}")
        os.makedirs(work, exist_ok=True)
        jobs.append((cpath, tpath, vpath, work))
    with ThreadPoolExecutor(max_workers=len(jobs)) as ex:
        futs = [ex.submit(vlib.run_driver, BINS[0], ["replay", "--trace", t, "--work", w] + list(extra_args),
                          c, v, 3000) for (c, t, v, w) in jobs]
        for f in futs:
            f.result()
    verdicts = []
    for (_c, _t, v, _w) in jobs:
        verdicts.extend(vlib.read_ndjson(v))
    return verdicts, [j[1] for j in jobs]


def generate(wd, tier, seed):
    """-> list of (name, cases, stats, exhaustive)"""
    out = []
    todo = [(g, None) for g in GENS if tier in g[6]]
    todo.append((SIM_DEF + (SIM[tier], ("quick", "thorough")), SIM[tier]))

    def one(g, sim):
        name, zones, sers, msgsat, n = g[0], g[1], g[2], g[3], g[4]
        tla, cfg = vlib.wrapper(wd, "G_" + name, "Gen_Update_U",
                                {"P_Zones": zones, "P_Sers": sers, "P_MsgsAt": msgsat, "P_Signeds": SIGNED.get(name, "{FALSE}"),
                                 "P_SimPre": "PreRRs" if sim else "{}", "P_SimUpd": "UpdRRs" if sim else "{}"},
                                [ln.format(n=n) for ln in GEN_CFG])
        cases, st = vlib.gen(tla, cfg, wd, workers=2, timeout=1500, simulate=sim, seed=seed)
        for i, c in enumerate(cases):
            c["id"] = f"{name}-{i}"
        if not cases:
            raise vlib.ToolError(f"generator {name} produced no behaviours")
        vlib.log(f"[c12] generator {name}: {len(cases)} behaviours")
        return name, cases, st, sim is None
    with ThreadPoolExecutor(max_workers=3) as ex:
        futs = [ex.submit(one, g, sim) for g, sim in todo]
        for f in futs:
            out.append(f.result())
    return out


def monitor(res, wd, traces, shards, spec="Trace_Update", chunk_events=12000):
    """Concatenate the traces, cut them at `reset` events into chunks of about chunk_events lines
    (TLC holds a whole chunk in memory) and validate `shards` chunks at a time.
    -> (mismatches, {"distinct": states}, number of message events, NOTE lines)"""
    chunks, cur, n_cur, n_msgs = [], None, 0, 0

    def new_chunk():
        p = os.path.join(wd, f"chunk{len(chunks)}.ndjson")
        chunks.append(p)
        return open(p, "w")
    for t in traces:
        with open(t) as f:
            for line in f:
                if '"ev":"reset"' in line and (cur is None or n_cur >= chunk_events):
                    if cur:
                        cur.close()
                    cur, n_cur = new_chunk(), 0
                if cur is None:
                    cur = new_chunk()
                if '"ev":"reset"' in line and '"signed":true' in line:
                    SIGNED_CASES.add(str(json.loads(line)["case"]))
                if '"ev":"msg"' in line or '"ev":"rmsg"' in line:
                    n_msgs += 1
                cur.write(line)
                n_cur += 1
    if cur:
        cur.close()
    tla, cfg = os.path.join(vlib.SPEC, spec + ".tla"), os.path.join(vlib.SPEC, spec + ".cfg")

    def one(i, p):
        swd = os.path.join(wd, f"m{i}")
        os.makedirs(os.path.join(swd, "tmp"), exist_ok=True)
        return vlib.trace_check(tla, cfg, swd, p, 3000, "3g")
    with ThreadPoolExecutor(max_workers=max(1, shards)) as ex:
        results = [f.result() for f in [ex.submit(one, i, p) for i, p in enumerate(chunks)]]
    mism = [m for r in results for m in r[0]]
    states = sum((r[1] or {}).get("distinct", 0) for r in results)
    notes = 0
    for p in glob.glob(os.path.join(wd, "m*", "*.tlc.out")):
        with open(p, errors="replace") as f:
            for line in f:
                if line.startswith('<<"NOTE"'):
                    notes += 1
    return mism, {"distinct": states, "chunks": len(chunks)}, n_msgs, notes


def run(res, tier, seed):
    res.rule = ("case = (initial zone, serial, history of UPDATE messages); non-trivial = at least one message of the "
                "history was accepted and changed the zone content; distinct by content hash of zone+messages")
    res.assumptions = [
        "the projection of hickory's record map to (owner, type, rdata index) in harness/src/bin/drive_update.rs "
        "(round-trip checked on every case: zone meant = zone loaded)",
        "TTL is not part of the abstract zone (all adds use one TTL); wildcard owners and DNSSEC-signed zones are "
        "outside the universe",
        "TLC 1.8.0; TSIG always valid (authorisation is C13)"]
    wd = vlib.workdir("c12")
    # ---- D (in the background while the generators run)
    with ThreadPoolExecutor(max_workers=1) as bg:
        mcf = bg.submit(_mc, wd, tier)
        # ---- R
        gens = generate(wd, tier, seed)
        traces = []
        verdicts_all = []
        exhaustive = True
        for name, cases, st, exh in gens:
            if st:
                res.states += st["distinct"]
                res.transitions += st["generated"]
            verdicts, tfiles = replay_cases(wd, name, cases)
            if len(verdicts) != len(cases):
                raise vlib.ToolError(f"driver lost cases of generator {name}")
            traces += tfiles
            verdicts_all += verdicts
            res.extra.setdefault("generators", {})[name] = {
                "behaviours": len(cases), "exhaustive": exh,
                "on_path": sum(1 for v in verdicts if v["status"] == "ok"),
                "off_path_but_allowed": sum(1 for v in verdicts if v["status"] == "off-path"),
                "mismatch": sum(1 for v in verdicts if v["status"] == "mismatch")}
        res.exhaustive = exhaustive
        res.extra["exhaustive_scope"] = ("the generators other than `sim` enumerate their message universe completely "
                                         "(every message / pair / triple listed in GENS from every listed zone); `sim` and "
                                         "the recorded random histories are seeded samples of longer histories")
        # ---- T: seeded random long histories
        n_rand, max_msgs = (20000, 50) if tier == "thorough" else (1500, 30)
        procs = 8
        rjobs = []
        for k in range(procs):
            tpath = os.path.join(wd, f"random.{k}.trace.ndjson")
            opath = os.path.join(wd, f"random.{k}.out")
            work = os.path.join(wd, "drv", f"random.{k}")
            os.makedirs(work, exist_ok=True)
            rjobs.append((tpath, opath, ["record", "--trace", tpath, "--n", str(n_rand // procs), "--seed",
                                         str(seed * 1000 + k), "--max-msgs", str(max_msgs), "--work", work]))
        with ThreadPoolExecutor(max_workers=procs) as ex:
            for f in [ex.submit(vlib.run_driver, BINS[0], a, None, o, 3000) for (_t, o, a) in rjobs]:
                f.result()
        traces += [j[0] for j in rjobs]
        for c, st in mcf.result():
            res.add_mc(c, st)
    mism, tst, n_msgs, notes = monitor(res, wd, traces, shards=6)
    # ---- accounting
    n_rand_cases = 0
    for (_t, o, _a) in rjobs:
        for v in vlib.read_ndjson(o):
            n_rand_cases += 1
            if v.get("error"):
                raise vlib.ToolError(f"driver could not set up case {v['case']}: {v['error']}")
            if v["changed"] > 0:
                res.nontrivial.add("r" + str(v["case"]))
    for v in verdicts_all:
        if v["status"] == "tool-error":
            raise vlib.ToolError(f"driver could not set up case {v['case']}: {v['detail']}")
        if v.get("nontrivial"):
            res.nontrivial.add(vlib.digest(v["input"]))
    res.traces = len(verdicts_all) + n_rand_cases
    res.evaluations = n_msgs
    res.extra["messages_judged_by_monitor"] = n_msgs
    res.extra["trace_events_validated"] = tst["distinct"]
    res.extra["generated_behaviours_replayed"] = len(verdicts_all)
    res.extra["random_histories_recorded"] = n_rand_cases
    res.extra["observations"] = {"prereq_subset_accepted_as_satisfied(RFC 2136 3.2.3 says NXRRSET)": notes}
    for v in verdicts_all:
        if v["status"] == "ok" and v.get("nontrivial") and len(res.samples) < 2:
            res.sample({"zone": v["input"]["zone"], "serial": v["input"]["ser"], "messages": v["input"]["msgs"],
                        "observed": v["observed"]})
    # ---- mismatches: the monitor is the judge (it saw every replayed and every random run)
    by_case = {}
    for m in mism:
        by_case.setdefault(str(m["case"]), []).append(m)
        if m.get("kind") == "reset":
            raise vlib.ToolError(f"adapter round trip failed (zone loaded != zone meant) in case {m['case']}")
        cls, fields = classify(m)
        fields = dict(fields)
        if not res.findings.lookup(res.prop, cls, fields) and len(res.violations) < 8:
            m["history"] = case_events(wd, str(m["case"]))      # so that --replay can run it again
        res.mismatch(cls, fields, m)
    # a replay verdict the monitor does not confirm would be a hole in one of the two
    for v in verdicts_all:
        if v["status"] == "mismatch" and str(v["case"]) not in by_case:
            res.mismatch("replay-mismatch-not-seen-by-monitor", {"case": str(v["case"])}, v)
    res.extra["mismatch_reports"] = len(mism)


def case_events(wd, case_id):
    """the recorded events of one case (reset ... up to the next reset), from the monitor's chunks"""
    key = '"case":' + json.dumps(case_id)
    for p in sorted(glob.glob(os.path.join(wd, "chunk*.ndjson"))):
        out, on = [], False
        with open(p) as f:
            for line in f:
                if '"ev":"reset"' in line:
                    if on:
                        return out
                    on = key in line.replace(" ", "")
                if on:
                    out.append(json.loads(line))
        if out:
            return out
    return []


def reproduce(res, path, crash=False, spec="Trace_Update", classifier=None):
    """./check Cnn --replay <file>: run the recorded history of a violation again through the real
    code and the monitor; exit 1 if a mismatch of the same class comes out again."""
    d = json.load(open(path))
    det = d.get("detail", {})
    hist = det.get("history") or []
    print(json.dumps({k: v for k, v in d.items() if k != "detail"}, indent=1))
    if not hist:
        print(json.dumps(det, indent=1)[:6000])
        print("(no recorded history in this file: nothing to run)")
        return 0
    vlib.build_harness(BINS)
    wd = vlib.workdir(res.prop.lower() + "-replay")
    reset = hist[0]

    def clean(m):
        return {"pre": [{k: v for k, v in rr.items() if not k.startswith("_")} for rr in m["pre"]],
                "upd": [{k: v for k, v in rr.items() if not k.startswith("_")} for rr in m["upd"]]}
    case = {"id": str(reset["case"]), "apex": reset["apex"], "zone": reset["want"], "ser": reset["wantser"],
            "msgs": [clean(e["m"]) for e in hist if e.get("ev") == "msg"], "exp": []}
    _verdicts, tfiles = replay_cases(wd, "replay", [case], extra_args=("--crash", "--cont", "2") if crash else (), procs=1)
    mism, _tst, n_msgs, _notes = monitor(res, wd, tfiles, shards=1, spec=spec)
    classes = set()
    for m in mism:
        cls, fields = (classifier or classify)(m)
        classes.add(cls)
        print(f"MISMATCH line={m.get('line')} kind={m.get('kind')} class={cls} fields={json.dumps(fields)}")
    print(f"{n_msgs} messages run again, {len(mism)} mismatch reports, classes: {sorted(classes)}")
    return 1 if d.get("class") in classes else 0


def replay(res, path):
    return reproduce(res, path)
