"""C06 -- a signature is accepted only for the exact RRset, key and time window (also not via
a cached verdict); accepted records never carry a TTL longer than the remaining signature
lifetime.

D: SigCheck.tla -- validator + validation cache as a machine (Call, CacheHit/Miss,
   CheckKeyState, CheckValidity in RFC 1982 arithmetic on a ring of 32, Crypto, CacheInsert /
   CacheDecline, Advance, CacheEvict) satisfies C06_SecureOnlyGenuine, C06_SecureOnlyInWindow,
   C06_TtlBound under the required cache rule; the witnesses are reachable; the cache rule
   found in hickory-dns (MC_SigCheck_AsIs) yields counterexamples (informational).
R: Gen_SigCheck enumerates histories of calls (every single-field variant of RRset / RRSIG /
   DNSKEY) and clock moves with, per call, whether Secure is allowed and the TTL bound;
   drive_sigcheck runs them on the real DnssecDnsHandle (real Ed25519 / ECDSA keys, virtual
   validator clock, cache clock via hook H2) at three placements on the 32-bit ring.
T: the events of those runs, every single-bit flip over the wire images, clocks around the
   window (incl. half-range and wrap), random histories: validated by Trace_SigCheck, which
   states the requirements on concrete data (C05 signed data, key tag, 32-bit serial arithmetic).
"""
import json
import os

import vlib

BINS = ["drive_sigcheck"]

GEN_CFG = ["SPECIFICATION GSpec", "CONSTANTS", "  M = 64", "  Inc = 8", "  Exp = 14", "  IncAlt = 5", "  ExpAlt = 19",
           "  OrigTtl = 5", "  OrigTtlAlt = 9", "  RecTtls <- P_RecTtls", "  Steps <- P_Steps", "  MaxMono = 0",
           "  MaxCalls = {maxcalls}", "  ClkStarts <- P_Starts", "  ArgSet <- P_Args", "  RRV <- P_RRV", "  SIGV <- P_SIGV",
           "  KEYV <- P_KEYV", "  NameCaseSigned = {ncs}", '  CacheRule = "required"', "  CfgMin = 0", "  CfgMax = 99",
           '  Deviation = "none"', "  Cfgs <- P_Cfgs", "  Kinds <- P_Kinds", "  MaxLog = {maxlog}",
           "  MaxVariantCalls = {maxvar}", "INVARIANT Emit", "CHECK_DEADLOCK FALSE"]

G = '[rr |-> "genuine", sig |-> "genuine", key |-> "genuine", rttl |-> {}]'
SMALL_ARGS = ("{" + ", ".join([G.format(2), G.format(5), G.format(100),
                               '[rr |-> "genuine", sig |-> "exp", key |-> "genuine", rttl |-> 100]',
                               '[rr |-> "rdataNameCase", sig |-> "genuine", key |-> "genuine", rttl |-> 5]',
                               '[rr |-> "genuine", sig |-> "genuine", key |-> "otherKey", rttl |-> 5]',
                               '[rr |-> "addOtherClass", sig |-> "genuine", key |-> "genuine", rttl |-> 5]',
                               '[rr |-> "genuine", sig |-> "forged", key |-> "childKey", rttl |-> 5]']) + "}")
# members added / reordered after a verdict was cached; a revoked trust anchor introducing a key
KEY_ARGS = ("{" + ", ".join([G.format(5), G.format(100),
                             '[rr |-> "addForgedTwice", sig |-> "genuine", key |-> "genuine", rttl |-> 5]',
                             '[rr |-> "addRecord", sig |-> "genuine", key |-> "genuine", rttl |-> 5]',
                             '[rr |-> "genuine", sig |-> "twoSigs", key |-> "genuine", rttl |-> 5]',
                             '[rr |-> "genuine", sig |-> "swapSigs", key |-> "genuine", rttl |-> 5]',
                             '[rr |-> "genuine", sig |-> "junkSignerFirst", key |-> "genuine", rttl |-> 100]',
                             '[rr |-> "genuine", sig |-> "junkSignerLast", key |-> "genuine", rttl |-> 100]',
                             '[rr |-> "addOtherClass", sig |-> "swapSigs", key |-> "genuine", rttl |-> 5]',
                             '[rr |-> "genuine", sig |-> "forged", key |-> "revokedAnchor", rttl |-> 5]',
                             '[rr |-> "genuine", sig |-> "genuine", key |-> "revokedAnchor", rttl |-> 5]']) + "}")
ALL_CFGS = '{"none", "minAbove", "maxBelow"}'
# name, defs, maxcalls, maxlog, maxvar, nameCaseSigned
GENUINE_ARGS = "{" + ", ".join([G.format(2), G.format(5), G.format(100)]) + "}"
NONE = '{"none"}'
GEN_QUICK = [
    ("single", {"P_RecTtls": "{2, 5, 100}", "P_Steps": "{1, 3, 4, 7}", "P_Starts": "{7, 8, 11, 14, 15}", "P_Cfgs": NONE,
                "P_Args": "PropertyArgs", "P_RRV": "AllRRV", "P_SIGV": "AllSIGV", "P_KEYV": "AllKEYV"}, 2, 3, 1, "TRUE"),
    ("folded", {"P_RecTtls": "{2, 100}", "P_Steps": "{1, 7}", "P_Starts": "{8, 14}", "P_Cfgs": NONE,
                "P_Args": "SingleVariantArgs", "P_RRV": '{"genuine", "rdataNameCase", "ownerCase", "rdataBit"}',
                "P_SIGV": '{"genuine", "signerCase", "exp"}', "P_KEYV": '{"genuine", "otherKey"}'}, 2, 3, 2, "FALSE"),
    ("three", {"P_RecTtls": "{2, 5, 100}", "P_Steps": "{1, 3, 7}", "P_Starts": "{8, 11, 14}", "P_Cfgs": NONE,
               "P_Args": SMALL_ARGS, "P_RRV": "AllRRV", "P_SIGV": "AllSIGV", "P_KEYV": "AllKEYV"}, 3, 5, 2, "TRUE"),
    # the validation-cache TTL configuration as a dimension: genuine objects, time passing
    ("config", {"P_RecTtls": "{2, 5, 100}", "P_Steps": "{1, 3, 7}", "P_Starts": "{8, 11, 14}", "P_Cfgs": ALL_CFGS,
                "P_Kinds": '{"data", "dnskey"}',
                "P_Args": GENUINE_ARGS, "P_RRV": "AllRRV", "P_SIGV": "AllSIGV", "P_KEYV": "AllKEYV"}, 3, 5, 0, "TRUE"),
    ("cachekey", {"P_RecTtls": "{5, 100}", "P_Steps": "{1, 7}", "P_Starts": "{8, 11}", "P_Cfgs": '{"none", "minAbove"}',
                  "P_Args": KEY_ARGS, "P_RRV": "AllRRV", "P_SIGV": "AllSIGV", "P_KEYV": "AllKEYV"}, 2, 3, 2, "TRUE"),
    ("config2", {"P_RecTtls": "{5, 100}", "P_Steps": "{3, 7}", "P_Starts": "{8, 11}", "P_Cfgs": ALL_CFGS,
                 "P_Args": SMALL_ARGS, "P_RRV": "AllRRV", "P_SIGV": "AllSIGV", "P_KEYV": "AllKEYV"}, 2, 3, 1, "TRUE"),
]
GEN_THOROUGH = GEN_QUICK + [
    ("double", {"P_RecTtls": "{2, 5, 100}", "P_Steps": "{1, 4, 7}", "P_Starts": "{8, 11, 14}", "P_Cfgs": NONE,
                "P_Args": "SingleVariantArgs \\cup ForgedArgs", "P_RRV": "AllRRV", "P_SIGV": "AllSIGV", "P_KEYV": "AllKEYV"},
     2, 3, 2, "TRUE"),
    ("four", {"P_RecTtls": "{2, 5, 100}", "P_Steps": "{1, 3, 7}", "P_Starts": "{8, 11, 14}", "P_Cfgs": NONE,
              "P_Args": "{" + ", ".join([G.format(2), G.format(5), G.format(100),
                                         '[rr |-> "genuine", sig |-> "exp", key |-> "genuine", rttl |-> 100]',
                                         '[rr |-> "rdataNameCase", sig |-> "genuine", key |-> "genuine", rttl |-> 5]',
                                         '[rr |-> "genuine", sig |-> "genuine", key |-> "otherKey", rttl |-> 5]']) + "}",
              "P_RRV": "AllRRV", "P_SIGV": "AllSIGV", "P_KEYV": "AllKEYV"}, 4, 7, 4, "TRUE"),
    ("threecfg", {"P_RecTtls": "{2, 5, 100}", "P_Steps": "{1, 3, 7}", "P_Starts": "{8, 11, 14}", "P_Cfgs": ALL_CFGS,
                      "P_Args": SMALL_ARGS, "P_RRV": "AllRRV", "P_SIGV": "AllSIGV", "P_KEYV": "AllKEYV"}, 3, 5, 3, "TRUE"),
]

MC_CFGS = [("MC_SigCheck_variants", ("CacheHit", "Advance")), ("MC_SigCheck_history", ()), ("MC_SigCheck_history_min", ())]
MC_THOROUGH = [("MC_SigCheck_history_max", ()), ("MC_SigCheck_history3", ())]
# deliberate deviations of the machine from a required rule: each must yield a counterexample
DEVIATIONS = [("clampAfterCap", "C06_SecureOnlyInWindow"), ("markGroup", "C06_StrayNeverSecure"),
              ("signerZoneOf", "C06_SecureOnlyGenuine"), ("xorKey", "C06_SecureOnlyGenuine"),
              ("xorKey", "C06_StrayNeverSecure"), ("revokedSignsKeys", "C06_SecureOnlyGenuine"),
              ("indexAfterFilter", "C06_StrayNeverSecure")]


def _alteration(note, parts=("rr", "sig", "key")):
    """a descriptive name of what differs from the genuine objects (reports only); `parts`
    selects the objects that matter for the failed condition"""
    if note.get("what") == "flip":
        r = note.get("region", "?")
        return "rdata-name-case" if r == "rr.rdata.name.letter-case" else "bit:" + r
    ps = [f"{k}:{note[k]}" for k in parts if note.get(k, "genuine") != "genuine"]
    if ps == ["rr:rdataNameCase"]:
        return "rdata-name-case"
    return ",".join(ps) or "none"


def classify(why_signed, why_window, why_key, ttl_ok, cached, note, covered=True):
    if not covered:
        # a record that is not a member of the RRset the RRSIG belongs to (owner, class, type)
        return "secure-not-allowed", {"reason": "record-not-covered", "alteration": _alteration(note, ("rr", "sig")),
                                      "cached": cached}
    if not why_signed:
        return "secure-not-allowed", {"reason": "signed-data-altered", "alteration": _alteration(note, ("rr", "sig")),
                                      "cached": cached}
    if not why_window:
        return "secure-not-allowed", {"reason": "outside-window", "cached": cached}
    if not why_key:
        return "secure-not-allowed", {"reason": "key", "alteration": _alteration(note, ("key",)), "cached": cached}
    if not ttl_ok:
        return "ttl-exceeds-lifetime", {"cached": cached}
    return "unclassified", {"cached": cached}


def run(res, tier, seed):
    res.rule = ("R: case = history of validate calls (argument variant, received TTL) and clock moves, placed at one of three "
                "bases on the 32-bit ring; T: case = history on one validator (bit flip / clock / random); non-trivial = a "
                "history with >= 2 calls or a call presenting a non-genuine object; distinct by content hash")
    res.assumptions = ["cryptographic primitives (ring) are trusted",
                       "the validation cache clock follows the validator clock through hook H2 "
                       "(CACHE_CLOCK_OFFSET_SECS); real time elapsing during a run (microseconds) only turns a cache "
                       "hit at the exact expiry instant into a miss",
                       "what is presented to the validator is re-abstracted from the wire by the harness walker "
                       "(drive_sigcheck.rs); the validator marking something Secure that the walker cannot parse is a tool error",
                       "a verdict served from the cache is attributed to the key of the call that established it "
                       "(no key is consulted on a hit); the class of the DNSKEY record is not judged",
                       "TLC 1.8.0 and the JSON projection of cases/events are trusted"]
    wd = vlib.workdir("c06")
    thorough = tier == "thorough"
    mc_tla = os.path.join(vlib.SPEC, "MC_SigCheck.tla")
    # ---- D
    for cfg, az in MC_CFGS + (MC_THOROUGH if thorough else []):
        st = vlib.mc(mc_tla, os.path.join(vlib.SPEC, cfg + ".cfg"), wd, workers=6, allow_zero=az, timeout=1500)
        res.add_mc(cfg, st)
    # witnesses must be reachable (negated invariants are expected to be violated)
    for cfg, inv in [("MC_SigCheck_witness1", "NotUnsignedBitsFree"), ("MC_SigCheck_witness2", "NotCachedSecure")]:
        rc, out = vlib.tlc(mc_tla, os.path.join(vlib.SPEC, cfg + ".cfg"), wd, workers=4, timeout=600)
        if f"Invariant {inv} is violated" not in out:
            vlib.log(out[-2000:])
            raise vlib.ToolError(f"vacuous model: witness {inv} is not reachable")
    # the cache rule found in the code, per requirement (informational)
    asis = {}
    base = open(os.path.join(vlib.SPEC, "MC_SigCheck_AsIs.cfg")).read().splitlines()
    for inv in ["C06_SecureOnlyGenuine", "C06_SecureOnlyInWindow", "C06_TtlBound"]:
        lines = [("INVARIANTS " + inv) if l.startswith("INVARIANTS") else l for l in base]
        tla_p, cfg_p = vlib.wrapper(wd, "AsIs_" + inv, "MC_SigCheck", {}, lines)
        rc, out = vlib.tlc(tla_p, cfg_p, wd, workers=4, timeout=600)
        asis[inv] = f"Invariant {inv} is violated" in out
    res.extra["asis_cache_rule_violates"] = asis
    dev = {}
    base = open(os.path.join(vlib.SPEC, "MC_SigCheck_history_min.cfg")).read().splitlines()
    for d, inv in DEVIATIONS:
        lines = [f'  Deviation = "{d}"' if l.strip().startswith("Deviation") else ("INVARIANTS " + inv) if l.startswith("INVARIANTS")
                 else l for l in base]
        tla_p, cfg_p = vlib.wrapper(wd, f"Dev_{d}_{inv}", "MC_SigCheck", {}, lines)
        rc, out = vlib.tlc(tla_p, cfg_p, wd, workers=4, timeout=600)
        dev[d + ":" + inv] = f"Invariant {inv} is violated" in out
        if not dev[d + ":" + inv]:
            raise vlib.ToolError(f"vacuous model: deviation {d} does not violate {inv}")
    res.extra["deviation_counterexamples"] = dev

    # ---- R
    traces = []
    total = 0
    witnessed = 0
    for (nm, defs, maxcalls, maxlog, maxvar, ncs) in (GEN_THOROUGH if thorough else GEN_QUICK):
        defs = dict(defs)
        defs.setdefault("P_Kinds", '{"data"}')
        tla_p, cfg_p = vlib.wrapper(wd, "G_" + nm, "Gen_SigCheck", defs,
                                    [l.format(maxcalls=maxcalls, maxlog=maxlog, maxvar=maxvar, ncs=ncs) for l in GEN_CFG])
        cases, st = vlib.gen(tla_p, cfg_p, wd, workers=6, timeout=1500)
        if not cases:
            raise vlib.ToolError(f"generator {nm} produced no histories")
        vlib.log(f"[c06] G_{nm}: {len(cases)} histories")
        res.states += st["distinct"]
        res.transitions += st["generated"]
        cpath = os.path.join(wd, f"G_{nm}.cases.ndjson")
        vpath = os.path.join(wd, f"G_{nm}.verdicts.ndjson")
        tpath = os.path.join(wd, f"G_{nm}.trace.ndjson")
        vlib.write_ndjson(cpath, cases)
        # the two largest generators of the thorough tier are judged against the case fields only; their
        # events (gigabytes) are not also given to the monitor
        monitored = nm not in ("double", "four")
        vlib.run_driver("drive_sigcheck", ["replay"] + (["--trace", tpath] if monitored else []), stdin_path=cpath,
                        stdout_path=vpath, timeout=2400)
        if monitored:
            traces.append(tpath)
        n = 0
        for v, c in zip(vlib.read_ndjson(vpath), cases):
            n += 1
            res.evaluations += len(v["observed"])
            if v["nontrivial"]:
                res.nontrivial.add(vlib.digest([c["log"], c["cfg"], c["kind"], v["placement"], v["type"], v["alg"]]))
            w = v.get("witness") or {}
            if w.get("fresh") == "Secure" and w.get("secure"):
                witnessed += 1
            for f in v["fails"]:
                detail = {"generator": nm, "history": c["log"], "placement": v["placement"], "type": v["type"], "alg": v["alg"],
                          "observed": v["observed"], "fail": f}
                if f["what"] == "projection":
                    raise vlib.ToolError("projection failed: " + f["why"])
                why = f.get("why") or {}
                note = {k: f.get(k, "genuine") for k in ("rr", "sig", "key")}
                cls_, fields = classify(why.get("signed", True), why.get("window", True), why.get("key", True),
                                        f["what"] != "ttl-exceeds-lifetime", bool(f["cached"]), note,
                                        covered=f["what"] != "stray-secure")
                fields["cfg"] = v.get("cfg", "none")
                fields["rrtype"] = v["type"]
                res.mismatch(cls_, fields, detail)
            if v["ok"] and len(v["observed"]) >= 2 and any(o["secure"] for o in v["observed"]):
                res.sample({"generator": nm, "placement": v["placement"], "history": c["log"], "observed": v["observed"]}, cap=2)
        if n != len(cases):
            raise vlib.ToolError("driver lost cases")
        total += n
        res.traces += n
    if witnessed == 0:
        raise vlib.ToolError("vacuous binding: no generated history with a genuine first call was answered Secure")
    res.exhaustive = True
    res.extra["generated_histories_replayed"] = total
    res.extra["histories_witnessing_secure"] = witnessed

    # ---- T
    rpath = os.path.join(wd, "random.trace.ndjson")
    o = vlib.run_driver("drive_sigcheck", ["record", "--trace", rpath, "--n", "4000" if thorough else "400", "--seed", str(seed),
                                           "--flip-stride", "1" if thorough else "5"], timeout=2400)
    counts = json.loads(o.strip().splitlines()[-1])
    if counts["projection_errors"]:
        raise vlib.ToolError("projection failed: " + "; ".join(counts["projection_error_samples"]))
    traces.append(rpath)
    all_trace = os.path.join(wd, "all.trace.ndjson")
    ncalls = 0
    with open(all_trace, "w") as outf:
        for t in traces:
            with open(t) as f:
                for line in f:
                    outf.write(line)
                    if '"ev":"validate"' in line:
                        ncalls += 1
    mism, tst = vlib.trace_check_parallel(os.path.join(vlib.SPEC, "Trace_SigCheck.tla"),
                                          os.path.join(vlib.SPEC, "Trace_SigCheck.cfg"), wd, all_trace,
                                          shards=6, timeout=3000, heap="4g")
    res.traces += counts["cases"]
    res.evaluations += counts["calls"]
    res.extra["trace_calls_validated"] = ncalls
    res.extra["trace_calls_rejected"] = len(mism)
    res.extra["single_bit_flips"] = counts["flips"]
    res.extra["flips_refused_by_decoder"] = counts["flips_unparsed_by_hickory"]
    res.extra["recorded_cases"] = counts["cases"]
    seen_cases = set()
    with open(rpath) as f:
        for line in f:
            if '"ev":"validate"' in line:
                e = json.loads(line)
                if e["case"] not in seen_cases:
                    seen_cases.add(e["case"])
                    res.nontrivial.add("t:" + e["case"])
                    if e["note"].get("what") == "flip" and e["note"].get("region") == "rrsig.signature":
                        res.sample({"case": e["case"], "note": e["note"], "clk": e["clk"],
                                    "verdicts": [g["verdict"] for g in e["p"]["groups"]]}, cap=4)
    for m in mism:
        cached = m["upstream_queries"] <= 1
        ws = [w for w in m["why"]["groups"] if "skip" not in w]
        if not ws:
            # a Secure RRSIG without a Secure RRset, or no RRSIG at all
            res.mismatch("secure-without-rrsig", {"alteration": _alteration(m["note"]), "cached": cached}, m)
            continue
        failing = [w for w in ws if not (w["belongs"] and w["exact"] and w["signature"] and w["window"]
                                         and (w["key"] or w["estab"]) and w["ttl"])]
        # (a Secure RRSIG whose RRset is fine is the only way for `failing` to be empty)
        for w in failing or ws:
            cls_, fields = classify(w["exact"] and w["signature"], w["window"], w["key"] or w["estab"], w["ttl"],
                                    cached, m["note"], covered=w["belongs"])
            fields["cfg"] = m.get("cfg", "?")
            res.mismatch(cls_, fields, m)


def replay(res, path):
    d = json.load(open(path))
    print(json.dumps(d, indent=1)[:6000])
    return 0
