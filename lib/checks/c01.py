"""C01 -- wire decoding is total: any bytes give Ok or Err, never a panic or hang.

D: WireName.tla (the name reader, one action per loop arm) satisfies C01_Terminates (lexicographic
   variant), C01_WorkLinear, C01_NoOOB, C01_LimitsHold and agrees with the declarative meaning of a
   name in a message (WireNameOps!DecodeName, RFC 1035 3.1 / 4.1.4) on every buffer of <= 4 (quick)
   / <= 5 (thorough) octets over an alphabet of root, label lengths, reserved forms, pointers, at
   every start offset (TLC, exhaustive).
R: Gen_WireName prints every (buffer, start) with that meaning; Name::read must agree on ok/err,
   labels (case-exact) and the offset behind the name.
R2: GrammarOps.tla holds the wire grammar of 41 record types as data (fields, boundary variants of
   every field incl. EDNS options and SVCB parameters, well-formed or not); Gen_Grammar unfolds it
   into records in every message context (opcode x section x class x RDLENGTH policy x position);
   the driver serialises primitives only; Message::from_vec, server Request::from_bytes,
   Record::read and RData::read are judged by Trace_Grammar: no panic, no hang, CPU budget linear
   in the length, name limits.
T: a corpus of valid messages of every RDATA type the library can build, mutated (bit flips, length
   and count edits, truncation, splices, deletions, insertions), random bytes and adversarial
   64 KiB packets (30,000-hop pointer chains, pointer loops, 255/256-octet names, 65,535 claimed
   records) through every network entry point (Message, server-side Request, Record, Name, RData
   of 34 types clamped to chosen lengths) under catch_unwind and a watchdog; the TLA+ monitor
   Trace_Wire judges every call (outcome, bounds, name limits, time budget).
"""
import json
import os

import vlib
from checks import grammar_common

BINS = ["drive_wire"]
LEVEL = "model_checking"


def run(res, tier, seed):
    res.rule = ("case = (buffer, start offset) for the name reader, or one hostile input x entry point; non-trivial = buffer "
                "with a compression pointer / input derived from a valid message by mutation; distinct by content or case id")
    res.assumptions = ["totality beyond the exhaustive small scope is sampled (seeded mutation / random / adversarial inputs)",
                       "time: absolute budget of 2 s per input of <= 65,535 octets for all entry points together",
                       "memory consumption (Vec::with_capacity from header counts) is not judged",
                       "release profile with debug-assertions and overflow-checks on: arithmetic overflow panics are data"]
    wd = vlib.workdir("c01")
    cfg = "MC_WireName.cfg" if tier == "thorough" else "MC_WireName_quick.cfg"
    st = vlib.mc(os.path.join(vlib.SPEC, "MC_WireName.tla"), os.path.join(vlib.SPEC, cfg), wd, workers=6, timeout=2400)
    res.add_mc(cfg, st)
    # ---- R
    bufs = "MC_Bufs5" if tier == "thorough" else "MC_Bufs4"
    tla, gcfg = vlib.wrapper(wd, "GW", "Gen_WireName, MC_WireName_defs", {},
                             ["SPECIFICATION Spec", "CONSTANTS", f"  Bufs <- {bufs}", "  Starts <- MC_Starts", "INVARIANT Emit",
                              "CHECK_DEADLOCK FALSE"])
    cases, gst = vlib.gen(tla, gcfg, wd, workers=6, timeout=2400, heap="12g")
    if len(cases) < 10000:
        raise vlib.ToolError(f"name generator produced only {len(cases)} cases")
    res.states += gst["distinct"]
    res.transitions += gst["generated"]
    cpath = os.path.join(wd, "names.ndjson")
    vlib.write_ndjson(cpath, cases)
    vpath = os.path.join(wd, "names.verdicts.ndjson")
    vlib.run_driver("drive_wire", ["replay-names"], stdin_path=cpath, stdout_path=vpath)
    n = ok_names = lenient = refused_valid = hung = 0
    for v in vlib.read_ndjson(vpath):
        n += 1
        res.evaluations += 1
        if v["nontrivial"]:
            res.nontrivial.add(vlib.digest([v["input"]["buf"], v["input"]["start"]]))
        if v["input"]["ok"]:
            ok_names += 1
        obs = v["observed"]
        if obs.get("error") == "PANIC":
            res.mismatch("panic", {"entry": "name"}, v)
        elif obs.get("error") == "HANG":
            hung += 1
            res.mismatch("hang", {"entry": "name"}, v)
        elif obs["ok"]:
            # C01 judges totality and the limits only; whether a VALID name is decoded to the right
            # labels is C02/C04's business (lib/checks/c02.py replays the same cases strictly), and
            # accepting a terminating name the RFC would refuse (overlapping pointer target) is not
            # against the property
            labels = obs["labels"]
            wire = sum(len(l) + 1 for l in labels) + 1
            if any(len(l) > 63 or len(l) == 0 for l in labels) or wire > 255 or obs["next"] > len(v["input"]["buf"]):
                res.mismatch("limits-or-bounds", {"entry": "name"}, v)
            if not v["input"]["ok"]:
                lenient += 1
        elif v["input"]["ok"]:
            refused_valid += 1
        if v["ok"] and v["input"]["ok"] and v["nontrivial"]:
            res.sample({"buf": v["input"]["buf"], "start": v["input"]["start"], "labels": v["input"]["labels"]}, cap=2)
    if (n != len(cases) and not hung) or ok_names == 0:
        raise vlib.ToolError("name replay lost cases or has no valid name")
    res.traces += n
    res.exhaustive = True
    res.extra["names_accepted_although_spec_refuses"] = lenient
    res.extra["valid_names_refused (judged by C02)"] = refused_valid
    # ---- R2: the record grammar (every type x field x variant x message context)
    grammar_common.run(res, "C01", tier, "c01g")
    # ---- T
    n_rand = 400000 if tier == "thorough" else 6000
    tpath = os.path.join(wd, "decode.trace.ndjson")
    try:
        vlib.run_driver("drive_wire", ["record-decode", "--trace", tpath, "--n", str(n_rand), "--seed", str(seed)],
                        stdout_path=os.path.join(wd, "decode.out"), timeout=3000)
    except vlib.ToolError:
        hang = tpath + ".hang"
        if os.path.exists(hang):
            res.mismatch("hang", {"entry": "any"}, json.load(open(hang)))
            return
        raise
    info = json.loads(open(os.path.join(wd, "decode.out")).readline())
    if len(info["types"]) < 25:
        raise vlib.ToolError(f"corpus covers only {len(info['types'])} RDATA types")
    res.extra["corpus_rdata_types"] = info["types"]
    lines = open(tpath).read().splitlines(keepends=True)
    shards = 12 if tier == "thorough" else 6
    files = []
    for i in range(shards):
        p = os.path.join(wd, f"t{i}.ndjson")
        with open(p, "w") as f:
            f.writelines(lines[i::shards])
        files.append(p)
    from concurrent.futures import ThreadPoolExecutor
    with ThreadPoolExecutor(max_workers=shards) as ex:
        outs = list(ex.map(lambda a: vlib.trace_check(os.path.join(vlib.SPEC, "Trace_Wire.tla"), os.path.join(vlib.SPEC, "Trace_Wire.cfg"),
                                                      vlib.workdir(f"c01_s{a[0]}"), a[1], 3000), enumerate(files)))
    mism = [m for o in outs for m in o[0]]
    oks = {}
    for ln in lines:
        e = json.loads(ln)
        k = e["entry"].split(":")[0]
        oks.setdefault(k, [0, 0])
        oks[k][0 if e["outcome"] == "ok" else 1] += 1
        res.nontrivial.add(e["case"])
    if any(v[0] == 0 or v[1] == 0 for v in oks.values()):
        raise vlib.ToolError(f"vacuous decode trace (an entry point never accepted or never refused): {oks}")
    res.traces += len(lines)
    res.evaluations += len(lines)
    res.extra["decode_calls_by_entry_ok_err"] = oks
    for m in mism:
        ev = m["event"]
        cls = "panic" if ev["outcome"] == "PANIC" else ("too-slow" if ev["ms"] > 2000 else "limits-or-bounds")
        res.mismatch(cls, {"entry": ev["entry"], "panic": ev.get("panic", "")[:80]}, m)


def replay(res, path):
    print(json.dumps(json.load(open(path)), indent=1)[:6000])
    return 0
