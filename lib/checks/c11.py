"""C11 -- every accepted request gets exactly one matching response from the right zone.

D: FrontDoor (the request pipeline as a machine: header gate, opcode gate, question, access
   control, body, EDNS version, dispatch, zone selection, handler chain) is model-checked
   against the C11_* requirements of FrontDoorReq over all request attribute combinations x
   catalogs x chains x allow/deny lists (TLC, exhaustive; "later requests are served" as a
   liveness property under fairness).
R: Gen_FrontDoor enumerates four case families (gate / acl / catalog / route: unusual query
   names -- leading "*", "*" in the middle, upper case, a 63-octet label, the origin itself, one
   label below it -- around every origin of nested, sibling, root and single-zone catalogs) with
   what FrontDoorReq prescribes; drive_front concretises each request to bytes and sends it through hook H4
   (`verif_handle_raw_request`, the private pre-catalog gate) in front of the real Catalog with
   real in-memory zones behind instrumented handlers, UDP and TCP; a plain probe query follows
   every message.
T: drive_front record: mutated-valid and random request bytes, each followed by the probe; an
   independent reader of the bytes supplies the attributes; Trace_FrontDoor evaluates
   FrontDoorReq!Allowed per message.  The replayed cases go through the trace monitor too
   (adapter cross-check).
L: drive_front live: the REAL hickory_server::Server (UDP socket + TCP listener on 127.0.0.1:0)
   with catalogs from the generated cases; request sequences (FrontDoor request space plus
   transport-level oddities: answers of 65508..65535 octets for an EDNS payload of 65535, big
   answers for payload 512, empty / one-octet datagrams, response-flagged messages, TCP frames
   sent octet by octet, connections closed inside a frame, 3000 pipelined queries read late,
   zone transfers back to back while the records of the same zone are changed: `axfr-vs-update`,
   with ZoneLock.tla as the design-level model of the zone's reader / writer lock),
   each request followed by a canary query; Serving.tla states "after any prefix a canary gets
   exactly one matching response" (model-checked as a leads-to property), Trace_Serving judges
   every canary.  Real clock: 10 s per canary, one UDP retry.
"""
import json
import os
from concurrent.futures import ThreadPoolExecutor

import vlib

BINS = ["drive_front"]


def run_mc(wd, tier):
    cfg = "MC_FrontDoor" if tier == "thorough" else "MC_FrontDoor_quick"
    st = vlib.mc(os.path.join(vlib.SPEC, "MC_FrontDoor.tla"), os.path.join(vlib.SPEC, cfg + ".cfg"),
                 os.path.join(wd, "mc"), workers=8, timeout=2400, heap="12g")
    out = [(cfg, st)]
    if tier == "thorough":
        st2 = vlib.mc(os.path.join(vlib.SPEC, "MC_FrontDoor.tla"), os.path.join(vlib.SPEC, "MC_FrontDoor_quick.cfg"),
                      os.path.join(wd, "mc"), workers=8, timeout=1200)
        out.append(("MC_FrontDoor_quick", st2))
    return out


def run_live(res, wd, cpath, seed, thorough):
    """Live sockets: real Server on loopback, request sequences with canaries, Trace_Serving."""
    lwd = os.path.join(wd, "live")
    os.makedirs(os.path.join(lwd, "tmp"), exist_ok=True)
    st = vlib.mc(os.path.join(vlib.SPEC, "MC_Serving.tla"), os.path.join(vlib.SPEC, "MC_Serving.cfg"), lwd, workers=4,
                 timeout=600, allow_zero=("StateBound",))
    res.add_mc("MC_Serving", st)
    # the zone lock (design level): one read section per transfer is deadlock-free and every request completes;
    # the AsIs configuration (a transfer that re-acquires the read lock inside its read section) must keep
    # producing TLC's deadlock counterexample
    zl = os.path.join(vlib.SPEC, "MC_ZoneLock.tla")
    st = vlib.mc(zl, os.path.join(vlib.SPEC, "MC_ZoneLock.cfg"), lwd, workers=4, timeout=600,
                 allow_zero=("RequestNested", "ReleaseNested", "AllDone"))
    res.add_mc("MC_ZoneLock", st)
    rc, out = vlib.tlc(zl, os.path.join(vlib.SPEC, "MC_ZoneLock_AsIs.cfg"), lwd, workers=4, timeout=600)
    if "Deadlock reached" not in out:
        vlib.log(out[-2000:])
        raise vlib.ToolError("MC_ZoneLock_AsIs no longer produces the expected deadlock counterexample")
    res.extra["zone_lock_asis_counterexample"] = "deadlock (nested read acquisition behind a queued writer), as expected"
    n_seq = 150 if thorough else 30
    tpath = os.path.join(lwd, "live.trace.ndjson")
    opath = os.path.join(lwd, "live.out")
    vlib.run_driver("drive_front", ["live", "--seed", str(seed), "--n", str(n_seq), "--cases", cpath, "--trace", tpath],
                    stdout_path=opath, timeout=2400)
    mism, tst = vlib.trace_check(os.path.join(vlib.SPEC, "Trace_Serving.tla"), os.path.join(vlib.SPEC, "Trace_Serving.cfg"),
                                 lwd, tpath, timeout=900)
    for m in mism:
        o = m["obs"]
        what = "canary-unanswered" if o["replies"] == 0 else "canary-answer-wrong"
        res.mismatch("serving:" + what,
                     {"via": "live", "what": what, "after": m["after"], "proto": m["proto"], "rcode": o["rcode"],
                      "replies": o["replies"], "attempts": o["attempts"]}, m)
    seqs = canaries = 0
    for v in vlib.read_ndjson(opath):
        seqs += 1
        canaries += v["canaries"]
        res.nontrivial.add("live:" + str(v["case"]))
    if seqs == 0:
        raise vlib.ToolError("live mode played no sequence")
    res.traces += seqs
    res.evaluations += 2 * canaries
    res.extra["live_sequences"] = seqs
    res.extra["live_canaries_judged"] = canaries
    res.extra["live_trace_events_validated"] = tst["distinct"]
    with open(tpath) as f:
        for line in f:
            if '"ev":"canary"' in line and '"after":"big65535"' in line:
                e = json.loads(line)
                res.sample({"live_canary_after": e["after"], "proto": e["proto"], "qname": e["req"]["qname"],
                            "observed": {k: e["obs"][k] for k in ("replies", "attempts", "rcode", "question", "zone", "waited_ms")}}, cap=5)
                break


def run(res, tier, seed):
    res.rule = ("case = one message (request attributes concretised to bytes, or mutated / random bytes whose attributes an "
                "independent reader determines) sent through the real gate + Catalog under one configuration (zone origins, "
                "handler chains, allow / deny lists, UDP or TCP), followed by a plain probe query; non-trivial = the message "
                "is neither too short nor a response (something must come back and is judged); distinct by content")
    res.assumptions = [
        "hook H4 (verif_handle_raw_request) builds the same ServerContext as the socket front ends; TLS/HTTPS/QUIC front "
        "ends share handle_request and are not driven separately",
        "when several error conditions hold at once (e.g. unknown opcode from a denied source) any of the stated RCODEs is "
        "accepted: the property does not rank them; equal-length allow/deny prefixes: both decisions accepted",
        "QDCOUNT = 0: FORMERR or REFUSED accepted; QDCOUNT > 1: FORMERR (RFC 9619)",
        "what an UPDATE is answered with is C12's business: one reply, ID and zone section echoed",
        "T direction: whether a structurally well-formed record section parses takes a full RDATA reader (C01); for such "
        "messages FORMERR is permitted but not demanded; messages with a compression pointer in the question, or with "
        "labels other than single octets and 63-octet labels of one repeated octet, are judged on reply count, QR, ID, "
        "no panic and survival only",
        "query names compare case-insensitively (RFC 4343): the answering zone is decided on the folded name, the echoed "
        "question must still equal the request's bytes (or parse to the same name, type and class)",
        "the answering zone / handler is read off the SOA in the (negative) answer; handlers are instrumented wrappers "
        "around real InMemoryZoneHandlers",
        "a QNAME that is a compression pointer into the header is echoed byte-identically (observation, not judged)",
        "live part: real clock and loopback sockets; a canary is given 10 s (UDP: sent once more after that, another 10 s); "
        "nothing is demanded for the hostile requests themselves there; after two unanswered canaries the live run stops",
        "TLC 1.8.0 and the JSON projection are trusted",
    ]
    wd = vlib.workdir("c11")
    os.makedirs(os.path.join(wd, "mc", "tmp"), exist_ok=True)
    thorough = tier == "thorough"
    with ThreadPoolExecutor(max_workers=2) as ex:
        f_mc = ex.submit(run_mc, wd, tier)
        # ---- R
        cases, gst = vlib.gen(os.path.join(vlib.SPEC, "Gen_FrontDoor.tla"), os.path.join(vlib.SPEC, "Gen_FrontDoor.cfg"),
                              wd, workers=1, timeout=900)
        if not cases:
            raise vlib.ToolError("Gen_FrontDoor produced no cases")
        vlib.log(f"[c11] {len(cases)} generated cases")
        cpath = os.path.join(wd, "cases.ndjson")
        vlib.write_ndjson(cpath, cases)
        vpath = os.path.join(wd, "verdicts.ndjson")
        tpath = os.path.join(wd, "replay.trace.ndjson")
        vlib.run_driver("drive_front", ["replay", "--trace", tpath], stdin_path=cpath, stdout_path=vpath)
        # ---- T
        n_rand = 1500 if thorough else 150
        rpath = os.path.join(wd, "random.trace.ndjson")
        ropath = os.path.join(wd, "random.out")
        vlib.run_driver("drive_front", ["record", "--seed", str(seed), "--n", str(n_rand), "--trace", rpath], stdout_path=ropath)
        # ---- L (the driver mostly waits; it overlaps with the model check)
        run_live(res, wd, cpath, seed, thorough)
        mc_results = f_mc.result()
    for cfg, st in mc_results:
        res.add_mc(cfg, st)
    res.states += gst["distinct"]
    res.transitions += gst["generated"]

    n = 0
    fam = {}
    for v in vlib.read_ndjson(vpath):
        n += 1
        res.evaluations += 2
        fam[v["family"]] = fam.get(v["family"], 0) + 1
        if v["nontrivial"]:
            res.nontrivial.add(vlib.digest(v["input"]))
        for m in v["mismatches"]:
            req = v["input"]["req"] if m["which"] == "msg" else "probe"
            fields = {"via": "replay", "family": v["family"], "which": m["which"], "what": m["class"],
                      "rcode": m["observed"].get("rcode"), "proto": v["input"]["proto"]}
            if isinstance(req, dict):
                fields.update({"op": req["op"], "qd": req["qd"], "qok": req["qok"], "body": req["body"], "edns": req["edns"]})
            res.mismatch("front-door:" + m["class"].split(":")[0], fields,
                         {"input": v["input"], "which": m["which"], "expected": m["expected"], "observed": m["observed"],
                          "bytes": m["bytes"]})
        if v["ok"] and v["nontrivial"] and v["family"] == "gate":
            res.sample({"request": v["input"]["req"], "proto": v["input"]["proto"], "expected": v["expected"],
                        "observed": {k: v["observed"][k] for k in ("replies", "rcode", "question", "zone", "handler")}}, cap=1)
        elif v["ok"] and v["family"] == "route" and v["input"].get("ucase") and v["observed"].get("handler") and n % 97 == 0:
            res.sample({"catalog": [c["o"] for c in v["input"]["cfg"]["chains"]], "qname": v["input"]["req"]["qname"],
                        "upper_case_on_wire": True, "expected_zone": v["expected"]["zone"],
                        "observed": {k: v["observed"][k] for k in ("rcode", "zone", "handler", "question")}}, cap=3)
        elif v["ok"] and v["family"] == "catalog" and v["observed"].get("handler"):
            res.sample({"catalog": v["input"]["cfg"]["chains"], "qname": v["input"]["req"]["qname"],
                        "expected": v["expected"], "observed": {k: v["observed"][k] for k in ("rcode", "zone", "handler", "searched", "consulted")}}, cap=4)
    if n != len(cases):
        raise vlib.ToolError("driver lost cases")
    res.traces += n
    res.exhaustive = True
    res.extra["generated_cases_replayed"] = n
    res.extra["case_families"] = fam

    # ---- trace validation: replayed cases (cross-check) + random / mutated messages
    all_trace = os.path.join(wd, "all.trace.ndjson")
    with open(all_trace, "w") as out:
        for t in (tpath, rpath):
            with open(t) as f:
                for line in f:
                    out.write(line)
    twd = os.path.join(wd, "trace")
    os.makedirs(twd, exist_ok=True)
    shards = 8 if thorough else 4
    mism, tst = vlib.trace_check_parallel(os.path.join(vlib.SPEC, "Trace_FrontDoor.tla"),
                                          os.path.join(vlib.SPEC, "Trace_FrontDoor.cfg"), twd, all_trace, shards=shards,
                                          timeout=2400)
    for i in range(shards):
        p = os.path.join(twd, f"s{i}", f"shard{i}.ndjson.tlc.out")
        if os.path.exists(p):
            with open(p, errors="replace") as f:
                if "ADAPTER-DISAGREES" in f.read():
                    raise vlib.ToolError(f"driver matcher and trace specification disagree ({p})")
    for m in mism:
        o, r = m["obs"], m["req"]
        what = ("panic" if o["panic"] else "replies" if o["replies"] != m["replies"] else
                "rcode" if o["rcode"] not in m["permitted"] else "echo-or-zone")
        res.mismatch("front-door:" + what,
                     {"via": "trace", "probe": m["probe"], "what": what, "rcode": o["rcode"], "op": r["op"], "qd": r["qd"],
                      "qok": r["qok"], "body": r["body"], "edns": r["edns"], "short": r["short"], "qr": r["qr"]}, m)
    rand_cases = 0
    msgs = 0
    for v in vlib.read_ndjson(ropath):
        rand_cases += 1
        msgs += v["messages"] + v["probes"]
        res.nontrivial.add("r:" + str(v["case"]))
    res.traces += rand_cases
    res.evaluations += msgs
    res.extra["random_cases_recorded"] = rand_cases
    res.extra["random_messages_and_probes_validated"] = msgs
    res.extra["trace_events_validated"] = tst["distinct"]
    # observation (not judged): pointer-into-header question names that were echoed
    ptr = 0
    with open(rpath) as f:
        for line in f:
            if '"loose":true' in line and '"question":"same"' in line:
                ptr += 1
    res.extra["observation_loose_questions_echoed"] = ptr


def replay(res, path):
    d = json.load(open(path))
    print(json.dumps(d, indent=1)[:6000])
    return 0
