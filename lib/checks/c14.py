"""C14 -- journal-backed zones survive a stop at any point.

D: Journal.tla (one action per journal row / step of the write-ahead update path, Crash enabled
   everywhere, Recover = replay).  With the REQUIRED commit rule (initial dump and the rows of one
   message are one commit) every C14_* requirement holds at every crash point (MC_Journal); with
   the AS-IS rule of the code (every row its own commit) TLC finds C14_Boundary violated -- these
   two expected counterexamples are checked to exist and are the design-level basis of the findings.
R: Gen_Journal (the C12 generator over a journal-oriented universe) gives histories with the
   boundary zone/serial the specification expects after each message; the driver runs them on a
   real SqliteZoneHandler with an on-disk Journal and then stops "the process" after EVERY journal
   row: copy of the journal cut after row k -> fresh SqliteZoneHandler::try_from_config
   (recover_with_journal) -> projection; the unanswered messages are then sent to the recovered
   zone and the process is stopped again after every row of that continuation.
T: the same for seeded random long histories; every run is judged by the TLA+ monitor
   Trace_Journal (JournalOps!RecoveryOK for every cut, Trace_Update's rule for the messages sent
   after a recovery).
"""
import json
import os
from concurrent.futures import ThreadPoolExecutor

import vlib
from checks import c12

BINS = ["drive_update"]

GEN_CFG = ["SPECIFICATION GSpec", "CONSTANTS", "  Apex <- AP", "  InitZones <- P_Zones", "  InitSers <- P_Sers", "  Signeds <- P_Signeds",
           "  Msgs <- P_Zones", "  MsgsAt <- P_MsgsAt", "  SimPre <- P_SimPre", "  SimUpd <- P_SimUpd", "  MaxMsgs = {n}",
           "INVARIANT Emit GenSound", "CHECK_DEADLOCK FALSE"]

# name, zones, serials, MsgsAt, MaxMsgs, tiers
GENS = [
    ("j1", "{Z1, ZS}", "{S10}", "<<JMsgs>>", 1, ("quick", "thorough")),
    ("j2", "{ZS}", "{S10}", "<<JSmall, JSmall>>", 2, ("quick",)),
    ("j2full", "{Z1, ZS}", "{S10}", "<<JMsgs, JMsgs>>", 2, ("thorough",)),
    ("j3", "{ZS}", "{S10}", "<<JMsgs1, JRej \\cup JMsgs3, JMsgs1>>", 3, ("thorough",)),
    # a zone-class update RR with RDLENGTH 0, then another message (the journal must stay loadable whatever the reply)
    ("jempty", "{ZS}", "{S10}", "<<JEmpty, JMsgs3 \\cup JRej>>", 2, ("quick", "thorough")),
    # DS / CDS / CDNSKEY / DNSKEY as ordinary data of an unsigned zone, in the zone file (dump) and by update
    ("jsec", "{ZD}", "{S10}", "<<JSec1, JSec1>>", 2, ("quick", "thorough")),
    # a zone file with an out-of-zone owner (glue): dumped, then read back at every restart
    ("jglue", "{ZG}", "{S10}", "<<JMsgs1 \\cup JMsgs3>>", 1, ("quick", "thorough")),
    # zones the server signs itself: foreign DNSKEY by update, <apex ANY ANY>, restart (no continuation, see run())
    ("jsgn", "{ZS}", "{S10}", "<<JSg1, JSg2, JSg2>>", 3, ("quick", "thorough")),
    # the LockHeld fault on the last message of the history
    ("jlock", "{ZS}", "{S10}", "<<JMsgs3 \\cup JSoa2, JMsgs1, JMsgs3 \\cup JSoa2>>", 3, ("quick", "thorough")),
    # long journals (more than 64 / 128 rows): padded zone, rows of kind add / delete / SOA / dump swept over row 65 (130)
    ("jlong", "{ZPad(p) : p \\in {58, 59, 60, 62}}", "{S10}", "<<{JLong1}, {JLong2}, {JLong3}>>", 3, ("quick",)),
    ("jlongfull", "{ZPad(p) : p \\in (53..64) \\cup (118..126)}", "{S10}", "<<{JLong1}, {JLong2}, {JLong3}>>", 3, ("thorough",)),
    # the serial wraps inside the history (2^32 - 3 at the start)
    ("jwrap", "{ZS}", "{<<65535, 65533>>}", "<<JMsgs3 \\cup JRej, JMsgs3 \\cup JSoa2, JMsgs3, JMsgs3>>", 4, ("quick", "thorough")),
]
SIGNED = {"jsgn": "{TRUE}"}
EXTRA_DEFS = {"JSoa2": '{[pre |-> <<>>, upd |-> <<RR(NA, "IN", "A", 300, 2)>>]}'}

AS_IS = [("MC_Journal_AsIsMsg", "rows of one message committed one by one"),
         ("MC_Journal_AsIsDump", "rows of the initial dump committed one by one")]


WD = None   # work directory of the run (classify looks the history of a case up in the monitor's chunks)


def _soa_judged_against_unjournaled_serial(case_id):
    """signed zone: start-up signing moves the serial by one without journaling it, so the live zone is
    one ahead of what the journal replays from; an SOA update RR exactly 2^31 - 1 ahead of the live
    serial is installed live and is at the undefined distance 2^31 (ignored) on replay"""
    if WD is None:
        return False
    ev = c12.case_events(WD, case_id)
    if not ev or not ev[0].get("signed"):
        return False
    apex = [bytes(lab).lower() for lab in ev[0]["apex"]]
    cur = ev[0]["ser"][0] * 65536 + ev[0]["ser"][1]
    for e in ev[1:]:
        if e.get("ev") != "msg":
            continue
        for u in e["m"]["upd"]:
            if u["c"] == "IN" and u["t"] == "SOA" and [bytes(lab).lower() for lab in u["o"]] == apex:
                new = u["ser"][0] * 65536 + u["ser"][1]
                if (new - (cur - 1)) % (1 << 32) == (1 << 31):
                    return True
        cur = e["ser"][0] * 65536 + e["ser"][1]
    return False


def classify(d):
    """-> (class, fields) for a MISMATCH report of Trace_Journal (kinds cut / cut2 / rerr / rmsg)."""
    kind = d.get("kind")
    if kind in ("cut", "cut2"):
        where = d["where"]
        if not d["ok"]:
            return "recovery-failed", {"where": where, "err": str(d.get("err", ""))[:60]}
        if d["same_content"] and not d["is_boundary"]:
            effect = "content-of-a-boundary-with-an-older-serial"
        elif not d["same_content"]:
            effect = "zone-of-no-boundary"
        elif not d["serial_not_behind"]:
            effect = "serial-behind-an-answered-one"
        else:
            effect = "boundary-before-an-answered-update"
        if where == "initial-dump":
            return "crash-inside-initial-dump", {"where": where}
        if where == "inside-message":
            return "crash-between-rows-of-one-message", {"where": where, "effect": effect}
        if d["same_content"] and _soa_judged_against_unjournaled_serial(str(d["case"])):
            return "signed-startup-serial-bump-not-journaled", {"where": where, "zone": "signed"}
        return "unclassified:recovery-at-message-boundary", {"where": where, "effect": effect}
    if kind == "rerr":
        return "unclassified:recovery-paths-disagree", {"err": str(d.get("event", {}).get("err", ""))[:60]}
    return "unclassified:" + str(kind), {}


def _mc(wd):
    st = vlib.mc(os.path.join(vlib.SPEC, "MC_Journal.tla"), os.path.join(vlib.SPEC, "MC_Journal.cfg"), wd, workers=4,
                 timeout=900, allow_zero=("DumpRow", "LogRow", "SoaRow"))
    if st.get("coverage", {}).get("LockHeld", 0) == 0:
        raise vlib.ToolError("MC_Journal: the LockHeld fault action was never taken")
    asis = {}
    for cfg, what in AS_IS:
        rc, out = vlib.tlc(os.path.join(vlib.SPEC, "MC_Journal.tla"), os.path.join(vlib.SPEC, cfg + ".cfg"), wd, workers=2,
                           timeout=600)
        if "Invariant C14_Boundary is violated" not in out:
            vlib.log(out[-3000:])
            raise vlib.ToolError(f"{cfg}: the as-is commit rule is expected to violate C14_Boundary and did not")
        s = vlib.stats(out) or {"distinct": 0, "generated": 0}
        asis[cfg] = {"what": what, "result": "C14_Boundary violated (expected counterexample)",
                     "distinct": s["distinct"], "generated": s["generated"]}
    return st, asis


def run(res, tier, seed):
    res.rule = ("case = (initial zone, history of UPDATE messages) run on a journal-backed zone and then recovered from "
                "the journal cut after every row; non-trivial = the history has an accepted, zone-changing message, so "
                "that some cut lies strictly inside a message; distinct by content hash of zone+messages")
    res.assumptions = [
        "a process stop after the k-th row commit leaves exactly rows 1..k (rows are only appended, each insert is its "
        "own SQLite autocommit; SQLite's atomic commit and durability are trusted, torn writes are out of scope)",
        "PRAGMA synchronous=OFF / journal_mode=MEMORY on the driver-built journal connections (no fsync per row); "
        "recovery of every cut goes through the unmodified SqliteZoneHandler::try_from_config",
        "messages reach the zone through verify_prerequisites / pre_scan / update_records(.., true), the sequence of "
        "SqliteZoneHandler::update without the TSIG check (C12 binds the full Catalog path)",
        "TLC 1.8.0; projection as in C12"]
    global WD
    wd = WD = vlib.workdir("c14")
    with ThreadPoolExecutor(max_workers=1) as bg:
        mcf = bg.submit(_mc, wd)
        # ---- R
        todo = [g for g in GENS if tier in g[5]]

        def one(g):
            name, zones, sers, msgsat, n = g[0], g[1], g[2], g[3], g[4]
            defs = dict(EXTRA_DEFS)
            defs.update({"P_Zones": zones, "P_Sers": sers, "P_MsgsAt": msgsat, "P_SimPre": "{}", "P_SimUpd": "{}", "P_Signeds": SIGNED.get(name, "{FALSE}")})
            tla, cfg = vlib.wrapper(wd, "G_" + name, "Gen_Journal", defs, [ln.format(n=n) for ln in GEN_CFG])
            cases, st = vlib.gen(tla, cfg, wd, workers=1, timeout=1500)
            for i, c in enumerate(cases):
                c["id"] = f"{name}-{i}"
                if name == "jsgn":
                    # signed zones: the recovered zone is compared at every stop, but the history is not
                    # continued on it -- HEAD keeps every apex DNSKEY on <apex ANY ANY> in a signed zone (fix
                    # 0e6d270), which the sign-agnostic Update rule would report for every re-sent message
                    c["cont"] = 0
                if name == "jlock":
                    # fault injection by the environment, no oracle: the lock is held during the first message
                    # (two acknowledged messages follow before the stops) or during the last one
                    c["msgs"][0 if i % 3 else -1]["lock"] = True
                if name in ("j1", "jglue", "jsec") and i % 2:
                    c["relroot"] = True               # config shape: relative paths under root_dir
                if name.startswith("jlong"):
                    c["cut_tail"] = 8      # stops from 8 rows before the end of the dump on (driver control, no oracle)
            if not cases:
                raise vlib.ToolError(f"generator {name} produced no behaviours")
            vlib.log(f"[c14] generator {name}: {len(cases)} behaviours")
            return name, cases, st
        with ThreadPoolExecutor(max_workers=2) as ex:
            gens = [f.result() for f in [ex.submit(one, g) for g in todo]]
        traces, verdicts_all = [], []
        for name, cases, st in gens:
            res.states += st["distinct"]
            res.transitions += st["generated"]
            verdicts, tfiles = c12.replay_cases(wd, name, cases, extra_args=("--crash", "--cont", "2"), procs=8)
            if len(verdicts) != len(cases):
                raise vlib.ToolError(f"driver lost cases of generator {name}")
            traces += tfiles
            verdicts_all += verdicts
            res.extra.setdefault("generators", {})[name] = {
                "behaviours": len(cases),
                "on_path": sum(1 for v in verdicts if v["status"] == "ok"),
                "cuts_compared_with_expected_boundaries": sum(v["cuts"] for v in verdicts),
                "cuts_not_at_an_expected_boundary": sum(len(v["cuts_bad"]) for v in verdicts)}
        res.exhaustive = True
        # ---- T
        n_rand, max_msgs = (2400, 12) if tier == "thorough" else (240, 8)
        procs = 8
        rjobs = []
        for k in range(procs):
            tpath = os.path.join(wd, f"random.{k}.trace.ndjson")
            opath = os.path.join(wd, f"random.{k}.out")
            work = os.path.join(wd, "drv", f"random.{k}")
            os.makedirs(work, exist_ok=True)
            rjobs.append((tpath, opath, ["record", "--trace", tpath, "--n", str(n_rand // procs), "--seed",
                                         str(seed * 1000 + 500 + k), "--max-msgs", str(max_msgs), "--work", work,
                                         "--crash", "--cont", "2"]))
        # long journals: (a) large zones (padding records) with short histories, stops around and after the
        # end of the dump; (b) long histories on small zones, stops everywhere
        if tier == "thorough":
            longs = [("pad", 24, ["--pad-min", "40", "--pad-max", "130", "--max-msgs", "10", "--cut-tail", "8"]),
                     ("hist", 12, ["--min-msgs", "60", "--max-msgs", "90"])]
        else:
            longs = [("pad", 4, ["--pad-min", "52", "--pad-max", "64", "--max-msgs", "8", "--cut-tail", "8"]),
                     ("hist", 2, ["--min-msgs", "45", "--max-msgs", "60"])]
        for k, (lname, n, extra) in enumerate(longs):
            tpath = os.path.join(wd, f"long.{lname}.trace.ndjson")
            opath = os.path.join(wd, f"long.{lname}.out")
            work = os.path.join(wd, "drv", f"long.{lname}")
            os.makedirs(work, exist_ok=True)
            rjobs.append((tpath, opath, ["record", "--trace", tpath, "--n", str(n), "--seed", str(seed * 1000 + 900 + k),
                                         "--work", work, "--crash", "--cont", "1"] + extra))
        with ThreadPoolExecutor(max_workers=procs) as ex:
            for f in [ex.submit(vlib.run_driver, BINS[0], a, None, o, 3000) for (_t, o, a) in rjobs]:
                f.result()
        traces += [j[0] for j in rjobs]
        st, asis = mcf.result()
        res.add_mc("MC_Journal", st)
        res.extra["as_is_models"] = asis
    mism, tst, n_msgs, _notes = c12.monitor(res, wd, traces, shards=6, spec="Trace_Journal")
    # ---- accounting
    n_cuts = 0
    for t in traces:
        with open(t) as f:
            for line in f:
                if '"ev":"cut' in line:
                    n_cuts += 1
    n_rand_cases = 0
    for (_t, o, _a) in rjobs:
        for v in vlib.read_ndjson(o):
            n_rand_cases += 1
            if v.get("error"):
                raise vlib.ToolError(f"driver could not set up case {v['case']}: {v['error']}")
            if v["changed"] > 0:
                res.nontrivial.add("r" + str(v["case"]))
    for v in verdicts_all:
        if v["status"] == "tool-error":
            raise vlib.ToolError(f"driver could not set up case {v['case']}: {v['detail']}")
        if v.get("nontrivial"):
            res.nontrivial.add(vlib.digest(v["input"]))
    res.traces = len(verdicts_all) + n_rand_cases
    res.evaluations = n_cuts
    res.extra["recoveries_judged_by_monitor"] = n_cuts
    res.extra["messages_judged_by_monitor"] = n_msgs
    res.extra["trace_events_validated"] = tst["distinct"]
    res.extra["generated_behaviours_replayed"] = len(verdicts_all)
    res.extra["random_histories_recorded"] = n_rand_cases
    for v in verdicts_all:
        if v["status"] == "ok" and v.get("nontrivial") and v["cuts_bad"] and len(res.samples) < 2:
            res.sample({"zone": v["input"]["zone"], "serial": v["input"]["ser"], "messages": v["input"]["msgs"],
                        "journal_rows_after_each_message": v["rows_after"], "cuts": v["cuts"],
                        "cuts_not_at_an_expected_boundary": v["cuts_bad"][:4]})
    # ---- mismatches
    seen_cases = set()
    c12_seen = 0
    for m in mism:
        kind = m.get("kind")
        if kind == "reset":
            raise vlib.ToolError(f"adapter round trip failed (zone loaded != zone meant) in case {m['case']}")
        if kind == "msg":
            c12_seen += 1          # before any stop: C12's business, judged by ./check C12
            continue
        if kind == "rmsg":
            cls, fields = c12.classify(m)
            if cls.startswith("unclassified"):
                # not one of the C12 defects: the recovered zone behaves differently from the specification
                res.mismatch("update-after-recovery-differs", {"c12": cls}, m)
            else:
                c12_seen += 1
            continue
        seen_cases.add(str(m["case"]))
        cls, fields = classify(m)
        if not res.findings.lookup(res.prop, cls, dict(fields)) and len(res.violations) < 8:
            m["history"] = c12.case_events(wd, str(m["case"]))
        res.mismatch(cls, dict(fields), m)
    res.extra["c12_mismatches_seen_and_left_to_C12"] = c12_seen
    for v in verdicts_all:
        if v["cuts_bad"] and str(v["case"]) not in seen_cases:
            res.mismatch("replay-cut-mismatch-not-seen-by-monitor", {"case": str(v["case"])}, v)
    res.extra["mismatch_reports"] = len(mism)


def _classify_any(m):
    if m.get("kind") in ("msg", "rmsg", "axfr"):
        return c12.classify(m)
    return classify(m)


def replay(res, path):
    return c12.reproduce(res, path, crash=True, spec="Trace_Journal", classifier=_classify_any)
