"""C07 -- validating resolver: Secure implies an unbroken chain to a trust anchor; tampering on the
chain never yields Secure and never silently Insecure; Insecure only with a validated denial of DS
/ only unsupported algorithms; the server sets AD only for Secure data and answers SERVFAIL to CD=0
clients on Bogus.

D: Chain.tla -- an adversary tampers with up to MaxFaults items of the upstream responses, then a
   validator walks from a configured anchor down to the zone of the query (Begin, AuthAnchorKeys,
   AuthDS, AuthKeys, JudgeItem, Conclude) and a server maps the outcome for a client (Serve).  TLC
   checks that the walk satisfies the declarative requirements of ChainOps
   (C07_SecureImpliesChain, C07_InsecureOnlyProven, C07_TamperNeverDowngrades, C07_NegSecure,
   C07_AD, C07_DepthBounded) for every world, query and fault set; witnesses are reachable; the
   rules found in the code (MC_Chain_AsIs) are each refuted.
R: Gen_Chain enumerates worlds (links: DS / mixed supported+unsupported DS / no DS / unsupported
   only / phantom DS) x queries (positive, NODATA, NXDOMAIN, alias into a name next to a wildcard,
   wildcard-expanded) x fault sets (0, 1, 2 faults on any item of any upstream response, among them
   "wildSub" -- wildcard RRset substituted for an alias target --, "reorder" of a DS RRset and the
   scripted multi-response attack "foreignDs") with, per item of the final response, whether Secure / Insecure is allowed;
   drive_chain builds every world from real InMemoryZoneHandlers signed by the server's own signer
   with generated keys, answers the validator's upstream queries from the right zone's Catalog,
   applies the faults to the decoded response and runs (stage one)
   DnssecDnsHandle::with_trust_anchor(..).send in two delivery modes, (stage two) a client query
   with CD / DO bits through Catalog -> ForwardZoneHandler -> validating Resolver ->
   NameServerPool over the same simulated internet (RCODE, AD, answer items).
T: the events of those runs plus seeded random deeper worlds (2-5 zones, two-key zones, extra
   anchors, ECDSA) with up to three faults: validated by Trace_Chain with the same operators
   (ObservationOk, ServedOk).
"""
import json
import os
from concurrent.futures import ThreadPoolExecutor

import vlib

BINS = ["drive_chain"]

GEN_CFG = ["SPECIFICATION GSpec", "CONSTANTS", "  GenWorlds <- P_Worlds", "  GenQueries <- P_Queries", "  FaultCounts <- P_Counts",
           "INVARIANT Emit", "CHECK_DEADLOCK FALSE"]
WOD = ("{wd \\in [n : {@N}, signed : [1..@N -> BOOLEAN], link : [1..@N -> LinkKinds \\cup {\"none\"}], "
       "keys : [1..@N -> @KO], anchors : @AS] : ValidWorld(wd) /\\ \\A i \\in 1..@N : wd.signed[i] \\/ wd.keys[i] = 1}")


def worlds(n, keyopts="{1}", anchors="{{1}}"):
    return WOD.replace("@N", str(n)).replace("@KO", keyopts).replace("@AS", anchors)


ALLQ = "QueryKinds"
SECURE3 = '{[n |-> 3, signed |-> <<TRUE, TRUE, TRUE>>, link |-> <<"none", "ds", "ds">>, keys |-> <<1, 1, 1>>, anchors |-> {1}]}'
ISLAND3 = '{[n |-> 3, signed |-> <<TRUE, TRUE, TRUE>>, link |-> <<"none", "ds", "nods">>, keys |-> <<1, 1, 1>>, anchors |-> {1}]}'
# the zone-cut probe (DS at a name that is no apex) of the leaf zone answered from an NSEC3-signed twin
NSEC3_3 = ('{[n |-> 3, signed |-> <<TRUE, TRUE, TRUE>>, link |-> <<"none", "ds", "ds">>, keys |-> <<1, 1, 1>>, anchors |-> {1}, '
           'nsec3 |-> TRUE]}')
UNSUP3 = '{[n |-> 3, signed |-> <<TRUE, TRUE, FALSE>>, link |-> <<"none", "ds", "dsunsup">>, keys |-> <<1, 1, 1>>, anchors |-> {1}]}'
TWOKEY2 = '{[n |-> 2, signed |-> <<TRUE, TRUE>>, link |-> <<"none", "ds">>, keys |-> <<2, 2>>, anchors |-> {1}]}'
# name, worlds, queries, fault counts
GEN_QUICK = [
    ("single23", worlds(2) + " \\cup " + worlds(3, anchors="{{1}, {1, 3}}"), ALLQ, "{0, 1}"),
    ("keys2", worlds(2, "{1, 2}", "{{1}, {1, 2}}"), ALLQ, "{0, 1}"),
    ("double_core", SECURE3 + " \\cup " + ISLAND3, ALLQ, "{2}"),
    ("nsec3_probe", NSEC3_3, '{"pos", "cname"}', "{1, 2}"),
]
GEN_THOROUGH = [
    ("single23", worlds(2) + " \\cup " + worlds(3, anchors="{{1}, {1, 3}}"), ALLQ, "{0, 1}"),
    ("keys23", worlds(2, "{1, 2}", "{{1}, {1, 2}}") + " \\cup " + worlds(3, "{1, 2}"), ALLQ, "{0, 1}"),
    ("single4", worlds(4, anchors="{{1}, {1, 3}}"), ALLQ, "{0, 1}"),
    ("double3", worlds(3), ALLQ, "{2}"),
    ("double2", worlds(2, "{1, 2}", "{{1}, {1, 2}}"), ALLQ, "{2}"),
    ("double_anchor3", worlds(3, anchors="{{1, 3}}"), '{"pos", "nx"}', "{2}"),
    ("nsec3_probe", NSEC3_3, ALLQ, "{1, 2}"),
]

MC_QUICK = ["MC_Chain", "MC_Chain_keys"]
MC_THOROUGH = ["MC_Chain", "MC_Chain_keys", "MC_Chain_keys3", "MC_Chain_deep", "MC_Chain_two"]
WITNESSES = [("MC_Chain_witness1", "NeverSecure"), ("MC_Chain_witness2", "NeverInsecure"), ("MC_Chain_witness3", "NeverAD")]
ITEMS = ("data", "cname", "inj", "soa", "nsecq", "nsecw")


def kind(f):
    return f"{f['resp']}/{f['item']}/{f['op']}"


def fails_of(c, items, cls):
    """mechanical comparison of an observation with the tables TLC computed for the case"""
    out = []
    for it in items:
        x, p = it["x"], it["p"]
        al = c["allow"].get(x)
        if p == "Secure" and not (al and al["sec"]):
            out.append(("secure-not-allowed", x))
        if p == "Insecure" and not (al["ins"] if al else c["negInsecure"]):
            out.append(("insecure-not-allowed", x))
    if cls == "neg-secure" and not c["negSecure"]:
        out.append(("neg-secure-not-allowed", None))
    if cls in ("neg-insecure", "err-insecure") and not c["negInsecure"]:
        out.append(("neg-insecure-not-allowed", None))
    return out


def served_fails(c, sv):
    """ChainOps!ServedOk on the tables of the case (stage two)"""
    out = []
    ok = sv["rcode"] in ("NOERROR", "NXDOMAIN")
    al = c["allow"]
    if sv["ad"]:
        if not ok:
            out.append(("ad-not-allowed", None))
        elif sv["ans"]:
            out += [("ad-not-allowed", x) for x in sv["ans"] if not (x in al and al[x]["sec"])]
        elif not c["negSecure"]:
            out.append(("ad-not-allowed", None))
    if ok and not sv["cd"]:
        if sv["ans"]:
            out += [("served-to-cd0-not-allowed", x) for x in sv["ans"] if not (x in al and (al[x]["sec"] or al[x]["ins"]))]
        elif not (c["negSecure"] or c["negInsecure"]):
            out.append(("served-to-cd0-not-allowed", None))
    return out


def classify(what, item, c):
    """class and match fields of one failed condition.  Two classes: a verdict Secure (or an
    authenticated denial) that is not allowed, a verdict Insecure that is not allowed.  The fields
    name the whole fault set (`faults`), the faults that forbid the verdict on their own according
    to TLC's diagnosis of the case (`blamed`), what the un-faulted world allows (`world_allows`) and
    one boolean per fault kind / forging operation present, so that a finding can name the fault
    it is about.  (Every fault set of at most two faults is enumerated: a defect that does not need
    a named fault shows up in a case without it.)"""
    faults, diag = c["faults"], c["diag"]
    fields = {"verdict": what, "item": item or "response", "n_faults": len(faults), "q": c["q"],
              "faults": "+".join(sorted(kind(f) for f in faults)) or "none"}
    for f in faults:
        fields[kind(f)] = True
        if f["op"].startswith("forge") or f["op"] in ("swapKey", "childSide", "wildSub", "reorder", "foreignDs", "childKeyVouches"):
            fields["op:" + f["op"]] = True
    if what in ("secure-not-allowed", "neg-secure-not-allowed", "ad-not-allowed"):
        if item is not None and item not in ITEMS:
            return [("secure-unknown-item", fields)]
        base, blamed = ((diag["base"]["sec"][item], diag["blame"]["sec"][item]) if item is not None
                        else (diag["base"]["neg"], diag["blame"]["neg"]))
        cls_ = "secure-not-allowed"
    else:
        base, blamed = diag["base"]["ins"], diag["blame"]["ins"]
        cls_ = "insecure-not-allowed"
    fields["world_allows"] = bool(base)
    fields["blamed"] = "+".join(sorted(kind(f) for f in blamed)) if base else "world"
    return [(cls_, fields)]


def _replay_shard(args):
    i, cpath, wd = args
    vpath = os.path.join(wd, f"{os.path.basename(cpath)}.verdicts")
    tpath = os.path.join(wd, f"{os.path.basename(cpath)}.trace")
    vlib.run_driver("drive_chain", ["replay", "--trace", tpath], stdin_path=cpath, stdout_path=vpath, timeout=3000)
    return vpath, tpath


def run(res, tier, seed):
    res.rule = ("R: case = (world, query, fault set) run in three delivery modes (raw, pool, owner names in upper case); T: case = (random world of 2-5 zones, query, "
                "<= 3 faults, delivery mode); non-trivial = at least one fault, or a world with an insecure / broken link; "
                "distinct by content hash")
    res.assumptions = [
        "cryptographic primitives (ring) and the server's signer (InMemoryZoneHandler::secure_zone, used to build the worlds) "
        "are trusted; an un-faulted world that does not reach the verdict a complete validator gives is counted "
        "(unfaulted_not_best), not judged: the property is an 'only if'",
        "the adversary owns every upstream response but no zone key other than that of the unrelated zone evil.; faults are "
        "the named alterations of ChainOps on whole RRsets / RRSIGs (bit-level alterations of one RRSIG/RRset are C06)",
        "a response handed back with an error RCODE counts as an error; the additional section of the final response is not judged",
        "denial-of-existence semantics beyond 'every NSEC of the genuine proof is needed' are C08/C09; NSEC3 worlds, wildcard "
        "answers, CNAME chains, key-tag collisions and revoked keys are not generated",
        "stage two (Catalog -> ForwardZoneHandler -> validating Resolver -> NameServerPool over the same simulated internet) "
        "runs every case for CD=0/DO=1, single-fault cases for CD x DO; a fresh resolver per client query (no cache effects, C15)",
        "TLC and the JSON projection of cases/events are trusted",
    ]
    wd = vlib.workdir("c07")
    dump = open(os.path.join(wd, "mismatches.ndjson"), "w")   # every mismatch with its class (development aid)
    report = res.mismatch

    def mismatch(cls_, fields, detail):
        dump.write(json.dumps({"class": cls_, "fields": fields, "detail": detail}) + "\n")
        report(cls_, fields, detail)
    res.mismatch = mismatch
    thorough = tier == "thorough"
    mc_tla = os.path.join(vlib.SPEC, "MC_Chain.tla")
    # ---- D
    for cfg in (MC_THOROUGH if thorough else MC_QUICK):
        st = vlib.mc(mc_tla, os.path.join(vlib.SPEC, cfg + ".cfg"), wd, workers=6, timeout=2400, heap="10g")
        res.add_mc(cfg, st)
    for cfg, inv in WITNESSES:
        rc, out = vlib.tlc(mc_tla, os.path.join(vlib.SPEC, cfg + ".cfg"), wd, workers=4, timeout=900)
        if f"Invariant {inv} is violated" not in out:
            vlib.log(out[-2000:])
            raise vlib.ToolError(f"vacuous model: witness {inv} is not reachable")
    # the rules found in the code, each refuted by TLC (informational; conformance always runs against the required rules)
    asis = {}
    base = open(os.path.join(vlib.SPEC, "MC_Chain_AsIs.cfg")).read().splitlines()
    for rule in (["keys-by-ds-only", "any-signer", "ns-finds-cut"] if thorough else ["ALL"]):
        val = "MC_AsIs" if rule == "ALL" else '{"' + rule + '"}'
        tla_p, cfg_p = vlib.wrapper(wd, "AsIs_" + rule.replace("-", "_"), "MC_Chain", {"P_AsIs": val},
                                    [("  AsIs <- P_AsIs" if l.strip().startswith("AsIs") else l) for l in base])
        rc, out = vlib.tlc(tla_p, cfg_p, wd, workers=4, timeout=900)
        viol = [l.split()[2] for l in out.splitlines() if l.startswith("Error: Invariant ") and "is violated" in l]
        if not viol:
            vlib.log(out[-2000:])
            raise vlib.ToolError(f"AsIs rule {rule} is not refuted by the model (the model does not express the deviation)")
        asis[rule] = viol
    res.extra["asis_rules_refuted_by"] = asis

    # ---- R
    traces = []
    total = 0
    best_seen = {"Secure": 0, "Insecure": 0, "Bogus": 0}
    best_hit = {"Secure": 0, "Insecure": 0, "Bogus": 0}
    not_best = []
    nserved = {}
    work = {"max_upstream_queries": 0, "input": None, "panics": 0, "timeouts": 0}
    nshards = 6
    for (nm, wexpr, qexpr, counts) in (GEN_THOROUGH if thorough else GEN_QUICK):
        tla_p, cfg_p = vlib.wrapper(wd, "G_" + nm, "Gen_Chain", {"P_Worlds": wexpr, "P_Queries": qexpr, "P_Counts": counts}, GEN_CFG)
        cases, st = vlib.gen(tla_p, cfg_p, wd, workers=6, timeout=2400, heap="10g")
        if not cases:
            raise vlib.ToolError(f"generator {nm} produced no cases")
        vlib.log(f"[c07] G_{nm}: {len(cases)} cases")
        res.states += st["distinct"]
        res.transitions += st["generated"]
        shards = [cases[i::nshards] for i in range(nshards)]
        args = []
        for i, sh in enumerate(shards):
            if not sh:
                continue
            cpath = os.path.join(wd, f"G_{nm}.{i}.cases")
            vlib.write_ndjson(cpath, sh)
            args.append((i, cpath, wd))
        with ThreadPoolExecutor(max_workers=len(args)) as ex:
            outs = list(ex.map(_replay_shard, args))
        for (i, cpath, _), (vpath, tpath) in zip(args, outs):
            traces.append(tpath)
            sh = shards[i]
            n = 0
            for v, c in zip(vlib.read_ndjson(vpath), sh):
                n += 1
                if v["inapplicable"]:
                    raise vlib.ToolError(f"concretisation failed: fault found nothing to act on: {v['inapplicable'][:2]} in {v['input']}")
                inp = {"world": c["world"], "q": c["q"], "faults": sorted(kind(f) + f"@{f['z']}" for f in c["faults"])}
                if c["faults"] or c["best"] != "Secure":
                    res.nontrivial.add(vlib.digest(inp))
                for mode, obs in ((o["mode"], o) for o in v["observed"]):
                    res.evaluations += 1
                    # work done for one client query (informational: the statement does not bound it)
                    if obs["asked"] > work["max_upstream_queries"]:
                        work["max_upstream_queries"], work["input"] = obs["asked"], inp
                    work["panics"] += obs["detail"] == "PANIC"
                    work["timeouts"] += obs["detail"] == "TIMEOUT"
                    for what, item in fails_of(c, obs["items"], obs["class"]):
                        for cls_, fields in classify(what, item, c):
                            res.mismatch(cls_, fields, {"generator": nm, "mode": mode, "input": inp, "observed": obs,
                                                        "allowed": {"allow": c["allow"], "negSecure": c["negSecure"],
                                                                    "negInsecure": c["negInsecure"]}})
                    if mode == "pool":
                        for sv in v["served"]:
                            res.evaluations += 1
                            if sv["rcode"].startswith("HARNESS") or sv["rcode"] == "PANIC":
                                raise vlib.ToolError(f"stage two failed: {sv['rcode']} in {inp}")
                            nserved[(sv["rcode"], sv["ad"])] = nserved.get((sv["rcode"], sv["ad"]), 0) + 1
                            for what, item in served_fails(c, sv):
                                for cls_, fields in classify(what, item, c):
                                    res.mismatch(cls_, dict(fields, cd=sv["cd"], do=sv["do"]),
                                                 {"generator": nm, "stage": "server", "input": inp, "served": sv,
                                                  "allowed": {"allow": c["allow"], "negSecure": c["negSecure"], "negInsecure": c["negInsecure"]}})
                    if not c["faults"]:
                        # witness accounting: does the un-faulted world reach what a complete validator reports?
                        best_seen[c["best"]] += 1
                        secure = any(it["p"] == "Secure" for it in obs["items"]) and not any(it["p"] in ("Bogus", "Insecure") and it["k"] == "rr" for it in obs["items"])
                        insecure = (any(it["p"] == "Insecure" for it in obs["items"]) or obs["class"] in ("neg-insecure", "err-insecure")) and not secure
                        got = "Secure" if secure else "Insecure" if insecure else "Bogus"
                        if got == c["best"]:
                            best_hit[got] += 1
                        else:
                            not_best.append({"world": c["world"], "q": c["q"], "mode": mode, "best": c["best"], "observed": obs})
                if v["ok"] and len(c["faults"]) == 2 and c["best"] == "Secure":
                    res.sample({"generator": nm, "world": c["world"], "q": c["q"], "faults": inp["faults"],
                                "allowed": {k: c["allow"][k] for k in ("data", "soa")}, "observed": [o["class"] + ":" + ",".join(
                                    f"{it['x']}={it['p']}" for it in o["items"] if it["k"] == "rr") for o in v["observed"]]}, cap=3)
            if n != len(sh):
                raise vlib.ToolError("driver lost cases")
            total += n
            res.traces += n
    if best_hit["Secure"] == 0 or best_hit["Insecure"] == 0:
        raise vlib.ToolError(f"vacuous binding: un-faulted worlds never reached Secure / Insecure ({best_hit})")
    res.exhaustive = True
    if not nserved.get(("NOERROR", True)) or not nserved.get(("SERVFAIL", False)):
        raise vlib.ToolError(f"vacuous binding of stage two: AD / SERVFAIL never served ({nserved})")
    res.extra["served_responses_by_rcode_ad"] = {f"{k[0]}/ad={int(k[1])}": n for k, n in sorted(nserved.items())}
    res.extra["validator_work"] = work
    res.extra["generated_cases_replayed"] = total
    res.extra["unfaulted_runs_by_best_verdict"] = best_seen
    res.extra["unfaulted_runs_reaching_it"] = best_hit
    res.extra["unfaulted_not_best"] = len(not_best)
    res.extra["unfaulted_not_best_samples"] = not_best[:3]

    # ---- T
    nrec = 24000 if thorough else 2400
    rparts = []

    def _rec(i):
        p = os.path.join(wd, f"random{i}.trace")
        o = vlib.run_driver("drive_chain", ["record", "--trace", p, "--n", str(nrec // nshards), "--seed", str(seed * 1000 + i)], timeout=3000)
        return p, json.loads(o.strip().splitlines()[-1])
    with ThreadPoolExecutor(max_workers=nshards) as ex:
        for p, counts in ex.map(_rec, range(nshards)):
            if counts["inapplicable"]:
                raise vlib.ToolError("concretisation failed in record mode: " + "; ".join(counts["inapplicable_samples"]))
            rparts.append((p, counts["cases"]))
    all_trace = os.path.join(wd, "all.trace.ndjson")
    nobs = 0
    with open(all_trace, "w") as outf:
        for t in traces + [p for p, _ in rparts]:
            with open(t) as f:
                for line in f:
                    outf.write(line)
                    if '"ev":"obs"' in line or '"ev":"served"' in line:
                        nobs += 1
    for p, n in rparts:
        res.traces += n
        res.evaluations += n
        with open(p) as f:
            for line in f:
                if '"ev":"reset"' in line:
                    e = json.loads(line)
                    res.nontrivial.add("t:" + vlib.digest([e["world"], e["q"], e["faults"], e["mode"]]))
                    if len(e["faults"]) == 3 and e["world"]["n"] >= 4:
                        res.sample({"case": e["case"], "world": e["world"], "q": e["q"], "mode": e["mode"],
                                    "faults": [kind(f) + f"@{f['z']}" for f in e["faults"]]}, cap=4)
    mism, tst = vlib.trace_check_parallel(os.path.join(vlib.SPEC, "Trace_Chain.tla"), os.path.join(vlib.SPEC, "Trace_Chain.cfg"),
                                          wd, all_trace, shards=6, timeout=3000, heap="4g")
    res.extra["trace_observations_validated"] = nobs
    res.extra["trace_observations_rejected"] = len(mism)
    res.extra["recorded_random_cases"] = sum(n for _, n in rparts)
    for m in mism:
        fs = served_fails(m, m["served"]) if "served" in m else fails_of(m, m["items"], m["class"])
        if not fs:
            raise vlib.ToolError(f"monitor rejected an observation the tables accept: {m['case']}")
        inp = {"world": m["world"], "q": m["q"], "faults": sorted(kind(f) + f"@{f['z']}" for f in m["faults"])}
        for what, item in fs:
            for cls_, fields in classify(what, item, m):
                res.mismatch(cls_, fields, {"trace_case": m["case"], "input": inp,
                                            "observed": m["served"] if "served" in m else {"items": m["items"], "class": m["class"]},
                                            "allowed": {"allow": m["allow"], "negSecure": m["negSecure"], "negInsecure": m["negInsecure"]}})
    dump.close()


def replay(res, path):
    d = json.load(open(path))
    print(json.dumps(d, indent=1)[:6000])
    return 0
