"""C10 -- authoritative answers follow the RFC 1034 section 4.3.2 algorithm.

D: AuthServer (the algorithm as a top-down machine, one action per RFC step) is model-checked
   against the C10_* requirements and against the bottom-up oracle AuthAnswer!Answer on every
   zone of <= 2 nodes x every query of the configuration (TLC, exhaustive).
R: Gen_AuthServer enumerates every zone of <= N nodes over a small name universe with the
   table (qname, qtype) -> expectation computed by AuthAnswer!Answer; drive_auth loads each
   zone into the real InMemoryZoneHandler + Catalog (unsigned, NSEC-signed, NSEC3-signed) and
   sends every query as bytes through Request::from_bytes / Catalog::handle_request.
T: drive_auth record: seeded random larger zones (long CNAME chains, loops, nested cuts,
   wildcards); Trace_AuthServer evaluates Conforms(Answer(zone, q), response) per event.
   A sample of the replayed zones goes through the trace monitor too (adapter cross-check).

Mismatches: a response that does not conform is a finding.  It is attributed to the listed
deviations (spec/AuthAsIs.tla, switched on by the `deviation` lines of the findings files) only
if it is exactly what those deviations predict; otherwise it is reported unexplained.
"""
import json
import os
from concurrent.futures import ThreadPoolExecutor

import vlib

BINS = ["drive_auth"]

ALL_DEV = ["wildcard-any-ancestor", "wildcard-star-qname", "wildcard-nodata-nxdomain", "any-as-one-type",
           "referral-aa", "referral-deepest-cut", "referral-ns-in-answer", "chain-ns-in-answer",
           "dnssec-soa-no-wildcard-proof", "nsec-apex-only-no-denial"]

GEN_CFG = [
    "SPECIFICATION GSpec", "CONSTANTS", "  MaxNodes = {mx}", "  OwnerSet <- {owners}", "  HostKinds = {hk}",
    "  DelegKinds = {dk}", "  TargetSet <- {targets}", "  QRelSet <- G_QRel", "  ActiveDev <- P_Dev",
    "INVARIANT Emit", "CHECK_DEADLOCK FALSE",
]
ALLH, ALLD = '{"A", "TXT", "MULTI"}', '{"NS", "NSG", "NSD"}'
# (name, max nodes, owners, targets, host kinds, deleg kinds)
GEN_QUICK = [("G2q", 2, "Q_Owners", "Q_Targets", ALLH, ALLD)]
GEN_THOROUGH = [("G2", 2, "G_Owners", "G_Targets", ALLH, ALLD),
                ("G3", 3, "T3_Owners", "T3_Targets", '{"A", "TXT"}', '{"NS", "NSG"}')]
SIGN_MODES = ["none", "nsec", "nsec3"]
# the same zones once more, stored in upper case (quick and thorough)
REPLAY_MODES = SIGN_MODES + [m + "+mixed" for m in SIGN_MODES]
RECORD_MODES = SIGN_MODES + ["none+mixed", "nsec+mixed"]


def active_deviations(res):
    devs = []
    for k in res.findings.known:
        if k["property"] == "C10" and k["class"] == "deviation" and k["match"].get("dev") in ALL_DEV:
            devs.append(k["match"]["dev"])
    # developer facility (never used by registered commands): check a proposed fix without
    # editing the findings file, e.g. VERIF_C10_DROP_DEV=referral-aa with VERIF_REPO=<patched tree>
    drop = set(filter(None, os.environ.get("VERIF_C10_DROP_DEV", "").split(",")))
    return sorted(set(devs) - drop)


def tla_set(strs):
    return "{" + ", ".join('"%s"' % s for s in strs) + "}"


def name_txt(n):
    return ".".join(chr(x) if x < 256 else "#" for x in n) + "." if n else "."


def zone_txt(zone):
    out = []
    for r in zone:
        d = name_txt(r["d"]) if r["t"] in ("CNAME", "NS", "MX") else str(r["d"][0] if r["d"] else "")
        out.append(f"{name_txt(r['o'])} {r['t']} {d}")
    return sorted(out)


def run_mc(wd, tier):
    out = []
    cfgs = ["MC_AuthServer" if tier == "thorough" else "MC_AuthServer_quick", "MC_AuthServer_live"]
    for cfg in cfgs:
        st = vlib.mc(os.path.join(vlib.SPEC, "MC_AuthServer.tla"), os.path.join(vlib.SPEC, cfg + ".cfg"),
                     os.path.join(wd, "mc"), workers=6, timeout=1500)
        out.append((cfg, st))
    return out


def run_gen(wd, spec, devs):
    """TLC enumerates the zones; the REPLAY lines are streamed into shard files."""
    name, mx, owners, targets, hk, dk = spec
    gwd = os.path.join(wd, name)
    os.makedirs(os.path.join(gwd, "tmp"), exist_ok=True)
    tla, cfg = vlib.wrapper(gwd, name, "Gen_AuthServer", {"P_Dev": tla_set(devs)},
                            [l.format(mx=mx, owners=owners, targets=targets, hk=hk, dk=dk) for l in GEN_CFG])
    out_file = os.path.join(gwd, name + ".out")
    rc, out = vlib.tlc(tla, cfg, gwd, workers=8, timeout=2400, out_file=out_file)
    st = vlib.stats(out)
    if rc != 0 or st is None or "No error has been found" not in out:
        i = out.find("Error:")
        vlib.log(out[i:i + 3000] if i >= 0 else out[-3000:])
        raise vlib.ToolError(f"generator failed: {name} rc={rc}")
    del out
    nshards = 6
    files = [open(os.path.join(gwd, f"cases{i}.ndjson"), "w") for i in range(nshards)]
    n = 0
    for c in vlib.replays(out_file, from_file=True):
        files[n % nshards].write(json.dumps(c, separators=(",", ":")) + "\n")
        n += 1
    for f in files:
        f.close()
    os.remove(out_file)
    if n == 0:
        raise vlib.ToolError(f"generator {name} produced no zones")
    vlib.log(f"[c10] {name}: {n} zones")
    return name, gwd, nshards, n, st


def mode_args(mode):
    """mode = sign mode, optionally with "+mixed": stored case of the zone (metamorphic dimension: the letters of the
    owner and RDATA names in the zone are upper case, half of the query names too; every response must be the same
    up to letter case -- the projection folds case, the specification is evaluated on folded names)"""
    sign, _, stored = mode.partition("+")
    return ["--sign", sign] + (["--stored", stored] if stored else [])


def replay_shard(gwd, i, mode, trace_every):
    cases = os.path.join(gwd, f"cases{i}.ndjson")
    verdicts = os.path.join(gwd, f"verdicts{i}.{mode}.ndjson")
    args = ["replay"] + mode_args(mode)
    trace = None
    if trace_every:
        trace = os.path.join(gwd, f"trace{i}.{mode}.ndjson")
        args += ["--trace", trace, "--trace-every", str(trace_every)]
    vlib.run_driver("drive_auth", args, stdin_path=cases, stdout_path=verdicts, timeout=3000)
    return verdicts, trace


def report_explained(res, dev, n, example):
    for _ in range(n):
        res.mismatch("deviation", {"dev": dev}, example)


def trace_wrapper(wd, devs):
    return vlib.wrapper(wd, "TraceC10", "Trace_AuthServer", {"P_Dev": tla_set(devs)},
                        ["SPECIFICATION TraceSpec", "CONSTANT ActiveDev <- P_Dev", "POSTCONDITION Consumed",
                         "CHECK_DEADLOCK FALSE"])


def check_trace(res, wd, sub, trace_file, devs, shards, expect_ok_field):
    """Validate a trace with Trace_AuthServer; report mismatches; return number of events."""
    twd = os.path.join(wd, sub)
    os.makedirs(twd, exist_ok=True)
    tla, cfg = trace_wrapper(twd, devs)
    mism, tst = vlib.trace_check_parallel(tla, cfg, twd, trace_file, shards=shards, timeout=2400)
    for i in range(shards):
        p = os.path.join(twd, f"s{i}", f"shard{i}.ndjson.tlc.out")
        if os.path.exists(p):
            with open(p, errors="replace") as f:
                if "ADAPTER-DISAGREES" in f.read():
                    raise vlib.ToolError(f"driver matcher and trace specification disagree ({p})")
    for m in mism:
        detail = {"zone_case": m["case"], "query": f"{name_txt(m['qn'])} {m['qt']}", "sign": m["sign"],
                  "expected_kinds": m["kinds"], "observed": m["observed"], "expected": m["expected"]}
        if m["explained"] and m["dev"]:
            for d in m["dev"]:
                res.mismatch("deviation", {"dev": d}, detail)
        else:
            obs = m["observed"]
            res.mismatch("response-differs",
                         {"via": "trace", "expected": "|".join(sorted(m["kinds"])), "rcode": obs.get("rcode"),
                          "aa": obs.get("aa"), "qtype": m["qt"], "sign": m["sign"]}, detail)
    return tst


def run(res, tier, seed):
    res.rule = ("case = one zone (set of RRs over a small name universe, or a seeded random zone of 50-200 names) with "
                "all its queries; evaluation = one (zone, qname, qtype, DO) query sent as bytes through the real Catalog; "
                "non-trivial = a distinct (zone, expectation) pair whose expectation is not plain NXDOMAIN / not-authoritative "
                "and to which the implementation's response conformed (data, CNAME chain, referral, wildcard synthesis, "
                "NODATA incl. empty non-terminals, ANY); counted by the driver per zone")
    res.assumptions = [
        "AuthAnswer!MinChase = 8: a server may stop following a CNAME chain after 8 RRsets (the RFCs give no bound)",
        "after a CNAME chain nothing is required of the authority section and no denial for the last name; "
        "NOERROR and NXDOMAIN are both accepted for a chain ending at a missing name (RFC 1034 4.3.2 3c vs RFC 6604)",
        "QNAME = a cut with QTYPE NS/ANY: referral and NS-in-answer are both accepted; QTYPE=ANY: any non-empty subset "
        "of the RRsets at the name (RFC 8482 4.1), optionally following a CNAME",
        "additional section, TTLs, order of records: not judged; DNSSEC stage checks presence of RRSIGs per RRset and "
        "presence of NSEC/NSEC3 in negative / wildcard answers, not what the NSEC records prove (C08/C09 own that)",
        "zone shapes the RFCs leave open are not generated: NS at a wildcard owner, wildcard CNAME to itself, owners "
        "below an interior '*' label, CNAME at the apex or next to other data",
        "the response is decoded with hickory's own Message::from_vec (wire decoding is C01/C02)",
        "TLC 1.8.0 and the JSON projection are trusted",
    ]
    wd = vlib.workdir("c10")
    os.makedirs(os.path.join(wd, "mc", "tmp"), exist_ok=True)
    devs = active_deviations(res)
    res.extra["listed_deviations"] = devs
    thorough = tier == "thorough"
    gens = GEN_THOROUGH if thorough else GEN_QUICK

    with ThreadPoolExecutor(max_workers=2) as ex:
        f_mc = ex.submit(run_mc, wd, tier)
        # ---- R: generate
        gen_results = [run_gen(wd, g, devs) for g in gens]
        mc_results = f_mc.result()
    for cfg, st in mc_results:
        res.add_mc(cfg, st)

    # ---- R: replay (unsigned, NSEC, NSEC3) + T: record, in parallel
    n_rand = 80 if thorough else 30
    n_q = 200 if thorough else 120
    rec_traces = []
    jobs = []
    with ThreadPoolExecutor(max_workers=8) as ex:
        for name, gwd, nshards, n, st in gen_results:
            res.states += st["distinct"]
            res.transitions += st["generated"]
            for mode in REPLAY_MODES:
                for i in range(nshards):
                    # every 40th zone of shard 0 also goes through the trace specification
                    jobs.append((name, mode, ex.submit(replay_shard, gwd, i, mode, 40 if i == 0 else 0)))
        for mode in RECORD_MODES:
            tp = os.path.join(wd, f"random.{mode}.trace.ndjson")
            op = os.path.join(wd, f"random.{mode}.out")
            rec_traces.append((mode, tp, op))
            jobs.append(("record", mode, ex.submit(
                vlib.run_driver, "drive_auth",
                ["record", "--seed", str(seed), "--n", str(n_rand if "+" not in mode else max(4, n_rand // 3)), "--queries", str(n_q),
                 "--trace", tp] + mode_args(mode),
                None, op, 3000)))
        results = [(a, b, f.result()) for a, b, f in jobs]

    zones = 0
    queries = 0
    explained_total = {}
    cross_traces = []
    for name, mode, r in results:
        if name == "record":
            continue
        verdicts, trace = r
        if trace:
            cross_traces.append(trace)
        for v in vlib.read_ndjson(verdicts):
            if v.get("class") == "zone-not-loaded":
                raise vlib.ToolError(f"generated zone rejected by the zone handler: {v.get('error')}")
            zones += 1
            queries += v["queries"]
            cid = f"{name}:{v['case']}:{mode}"
            for i in range(v["nontrivial"]):
                res.nontrivial.add(f"{cid}:{i}")
            zt = zone_txt(v["input"]["zone"])
            for d, n in v["explained"].items():
                explained_total[d] = explained_total.get(d, 0) + n
                exs = [e for e in v["examples"] if e["dev"] == d]
                report_explained(res, d, n, {"generator": name, "zone": zt, "sign": mode,
                                             "example": exs[0] if exs else None})
            for m in v["mismatches"]:
                f = dict(m["fields"])
                f["sign"] = mode
                f["via"] = "replay"
                res.mismatch(m["class"], f, {"generator": name, "zone": zt, "sign": mode, "query": m["query"],
                                             "expected": m["expected"],
                                             "predicted_by_listed_deviations": m.get("predicted_by_listed_deviations"),
                                             "observed": m["observed"]})
            if v["ok"] and v["nontrivial"] > 3 and mode == "none":
                res.sample({"zone": zt, "queries": v["queries"], "all_conform": True}, cap=2)
    res.traces += zones
    res.evaluations += queries
    res.exhaustive = True
    res.extra["generated_zone_cases_replayed"] = zones
    res.extra["replayed_queries"] = queries
    res.extra["explained_by_listed_deviations"] = explained_total

    # ---- T: trace validation of the random zones and of the replay sample
    all_trace = os.path.join(wd, "all.trace.ndjson")
    n_events = 0
    with open(all_trace, "w") as out:
        for t in cross_traces + [tp for _m, tp, _o in rec_traces]:
            with open(t) as f:
                for line in f:
                    out.write(line)
                    n_events += 1
    tst = check_trace(res, wd, "trace", all_trace, devs, shards=8, expect_ok_field=True)
    rand_cases = 0
    rand_q = 0
    for mode, tp, op in rec_traces:
        for v in vlib.read_ndjson(op):
            rand_cases += 1
            rand_q += v["queries"]
            res.nontrivial.add("r:" + str(v["case"]))
            if mode == "none":
                res.sample({"random_zone": v["case"], "names": v["names"], "records": v["records"], "queries": v["queries"]}, cap=4)
    res.traces += rand_cases
    res.evaluations += rand_q
    res.extra["random_zone_cases_recorded"] = rand_cases
    res.extra["random_queries_validated"] = rand_q
    res.extra["trace_events_validated"] = tst["distinct"]
    res.extra["trace_lines"] = n_events


def replay(res, path):
    d = json.load(open(path))
    print(json.dumps(d, indent=1)[:6000])
    return 0
