"""C03 -- size-limited encoding truncates cleanly and never exceeds the limit.

D: Encoder.tla (header / question / per-record begin-write-overflow-rollback / OPT / TSIG /
   patch) satisfies C03_* for every message of the small universe and every limit; the
   MC_Encoder_AsIs configuration (rollback that does not truncate the physical buffer) is kept as
   the design-level counterexample of the defect fixed in /repo ("fixed:" entry).
R: Gen_Encoder prints every (message, limit) with the prescribed observation; the driver builds
   records of exactly those wire sizes and runs BinEncoder::set_max_size + Message::emit.
T: random messages with realistic compression x many limits, and server responses
   (Catalog over zones with 1..300 records at one name; UDP no-OPT / OPT payloads; TCP) are
   recorded and judged by the TLA+ monitor Trace_Encoder (operators of EncoderOps).
"""
import os

import vlib

BINS = ["drive_encoder"]
OPT, TSIG = 11, 61

GEN_CFG = ["SPECIFICATION Spec", "CONSTANTS", "  Cases <- P_Cases", f"  OptSize = {OPT}", f"  TsigSize = {TSIG}",
           "  Limits <- P_Limits", "  RollbackTruncates = TRUE", "INVARIANT Emit", "CHECK_DEADLOCK FALSE"]


def cases_expr(size_sets, qs="{0, 5}"):
    parts = []
    for an, ns, ar in size_sets:
        parts.append(f"{{[q |-> q, sizes |-> [an |-> {an}, ns |-> {ns}, ar |-> {ar}], opt |-> o, tsig |-> t, tc0 |-> tc] : "
                     f"q \\in {qs}, o \\in BOOLEAN, t \\in BOOLEAN, tc \\in BOOLEAN}}")
    return " \\cup ".join(parts)


QUICK = [("<<23, 40, 12>>", "<<40, 12>>", "<<12, 23>>"), ("<<12>>", "<<>>", "<<>>"), ("<<>>", "<<>>", "<<40>>"),
         ("<<40, 40>>", "<<12>>", "<<>>")]
THOROUGH = QUICK + [("<<12, 12, 12>>", "<<23, 23, 23>>", "<<40, 40, 40>>"), ("<<40, 23, 12>>", "<<12, 23, 40>>", "<<23>>"),
                    ("<<>>", "<<12, 40>>", "<<40, 12>>"), ("<<23>>", "<<23>>", "<<23>>"),
                    ("<<12, 23, 40, 12>>", "<<40>>", "<<12, 12, 12, 12>>"), ("<<61, 61>>", "<<61>>", "<<61, 12>>"),
                    ("<<40, 12, 40, 12>>", "<<>>", "<<>>"), ("<<>>", "<<>>", "<<12, 23, 40, 61>>")]


def run(res, tier, seed):
    res.rule = ("case = (message as record sizes per section, question, OPT, TSIG, TC-in, limit); non-trivial = at least one "
                "record (or OPT/TSIG) is dropped by the limit; distinct by content")
    res.assumptions = ["abstract record sizes are realised exactly (root owner + NULL RDATA; checked by the driver at start)",
                       "Message::read + BinDecoder::len is the independent reader for 'no bytes left over'",
                       "TLC and the JSON projection are trusted"]
    wd = vlib.workdir("c03")
    # ---- D
    st = vlib.mc(os.path.join(vlib.SPEC, "MC_Encoder.tla"), os.path.join(vlib.SPEC, "MC_Encoder.cfg"), wd, workers=8)
    res.add_mc("MC_Encoder", st)
    # the AsIs rule must fail C03_AtFinish (documents the fixed defect; guards against a vacuous invariant)
    rc, out = vlib.tlc(os.path.join(vlib.SPEC, "MC_Encoder.tla"), os.path.join(vlib.SPEC, "MC_Encoder_AsIs.cfg"), wd, workers=8,
                       timeout=600)
    if "Invariant C03_AtFinish is violated" not in out:
        raise vlib.ToolError("MC_Encoder_AsIs: expected design-level counterexample not found (vacuous C03_AtFinish?)")
    res.extra["asis_counterexample"] = "MC_Encoder_AsIs (rollback without buffer truncation) violates C03_AtFinish, as expected"
    # ---- R
    sets = THOROUGH if tier == "thorough" else QUICK
    limits = "0..420" if tier == "thorough" else "0..215"
    tla, cfg = vlib.wrapper(wd, "GE", "Gen_Encoder", {"P_Cases": cases_expr(sets), "P_Limits": limits}, GEN_CFG)
    cases, gst = vlib.gen(tla, cfg, wd, workers=8, timeout=1500)
    if not cases:
        raise vlib.ToolError("generator produced no cases")
    res.states += gst["distinct"]
    res.transitions += gst["generated"]
    cpath = os.path.join(wd, "cases.ndjson")
    vlib.write_ndjson(cpath, cases)
    vpath = os.path.join(wd, "verdicts.ndjson")
    vlib.run_driver("drive_encoder", ["replay", "--opt-size", str(OPT), "--tsig-size", str(TSIG)], stdin_path=cpath, stdout_path=vpath)
    n = 0
    for v in vlib.read_ndjson(vpath):
        n += 1
        res.evaluations += 1
        if v["nontrivial"]:
            res.nontrivial.add(vlib.digest(v["input"]))
        if not v["ok"]:
            res.mismatch(v["class"], {"opt": v["input"]["opt"], "tsig": v["input"]["tsig"]},
                         {"input": v["input"], "expected": v["expected"], "observed": v["observed"]})
        elif v["nontrivial"]:
            res.sample({"input": v["input"], "observed": v["observed"]}, cap=2)
    if n != len(cases):
        raise vlib.ToolError("driver lost cases")
    res.traces += n
    res.exhaustive = True
    # ---- T
    n_rand = 25000 if tier == "thorough" else 300
    n_srv = 1200 if tier == "thorough" else 25
    tpath = os.path.join(wd, "random.trace.ndjson")
    vlib.run_driver("drive_encoder", ["record", "--trace", tpath, "--n", str(n_rand), "--srv", str(n_srv), "--seed", str(seed)],
                    stdout_path=os.path.join(wd, "random.out"))
    shards = 12 if tier == "thorough" else 6
    # events are independent: shard by lines
    lines = open(tpath).read().splitlines(keepends=True)
    files = []
    for i in range(shards):
        p = os.path.join(wd, f"t{i}.ndjson")
        with open(p, "w") as f:
            f.writelines(lines[i::shards])
        files.append(p)
    from concurrent.futures import ThreadPoolExecutor
    with ThreadPoolExecutor(max_workers=shards) as ex:
        outs = list(ex.map(lambda a: vlib.trace_check(os.path.join(vlib.SPEC, "Trace_Encoder.tla"),
                                                      os.path.join(vlib.SPEC, "Trace_Encoder.cfg"),
                                                      vlib.workdir(f"c03_s{a[0]}"), a[1], 3000), enumerate(files)))
    mism = [m for o in outs for m in o[0]]
    nenc = nsrv = ntr = 0
    import json
    for ln in lines:
        e = json.loads(ln)
        if e["ev"] == "enc":
            nenc += 1
            if e["result"] == "ok" and (e["obs"]["hdrCounts"]["an"] < e["obs"]["inCounts"]["an"] or e["obs"]["tc"]):
                ntr += 1
                res.nontrivial.add(e["case"])
        else:
            nsrv += 1
            if e.get("tc"):
                res.nontrivial.add(e["case"] + e["proto"] + str(e["adv"]))
    if ntr == 0:
        raise vlib.ToolError("vacuous trace: no truncated encodings recorded")
    res.traces += nenc + nsrv
    res.evaluations += nenc + nsrv
    res.extra.update({"generated_cases_replayed": n, "recorded_encodings": nenc, "recorded_truncated_encodings": ntr,
                      "recorded_server_responses": nsrv})
    for m in mism:
        ev = m["event"]
        ch = m.get("checks", {})
        if ev["ev"] == "enc":
            failed = sorted(k for k, v in ch.items() if v is False)
            cls = "bytes-left-over-after-message" if failed == ["noLeftover"] and ev["obs"].get("decoded") else "requirement-fails:" + ",".join(failed)
            res.mismatch(cls, {"opt": bool(ev["obs"]["optIn"]), "tsig": bool(ev["obs"]["tsigIn"])}, m)
        else:
            if ev["len"] > ch.get("limit", 0):
                cls = "server-response-too-long"
            elif not ev.get("decoded") or ev.get("leftover", 0) != 0:
                cls = "server-response-leftover-or-undecodable"
            elif ev["ev"] == "srvtc":
                cls = "server-response-tc-changed" if ev["answers"] <= ev["given"] else "server-response-records-added"
            else:
                cls = "server-response-records-dropped-without-tc"
            res.mismatch(cls, {"proto": ev["proto"], "adv": ev["adv"]}, m)


def replay(res, path):
    import json
    print(json.dumps(json.load(open(path)), indent=1)[:6000])
    return 0
