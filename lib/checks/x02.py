"""X02 -- zone transfer (AXFR RFC 5936 / IXFR RFC 1995) message sequencing (beyond the 20 listed properties).

D: Xfer.tla -- a server that answers a transfer request one message per action under every duty
   (transfer / refusal / UDP / IXFR current / IXFR behind), capacity and chunking; a stream anybody may
   feed and that may end at any moment; a client that consumes one message per action.  TLC checks
   (exhaustively, small constants) that the server's sequence is a conforming answer (XferOps!
   WellFormedAxfr ...), that the operational client concludes exactly what the declarative
   XferOps!ClientVerdict prescribes for EVERY message sequence over the alphabet, that an honest
   transfer arrives whole, and (fair) that a closed stream is always concluded.  Five as-is
   configurations weaken the model the way the implementation was found to be weaker; each has to
   violate its requirement (design-level counterexamples of the known findings).
R: Gen_Xfer enumerates (a) zone contents x store x signing x policy x catalog x request with the duty
   the specification derives, (b) scripted message sequences -- every chunking of well-formed
   transfers and malformed ones -- with the prescribed client verdict, (c) transfer requests.
   drive_xfer runs them through the REAL Catalog + InMemory/Sqlite zone handlers (hook H4, TCP / UDP
   semantics), the REAL ClientStreamXfr over a scripted response stream, and the REAL Client
   (DnsExchange + DnsMultiplexer, time-out) over a scripted connection; (d) end to end: that client
   stack asks the in-process server -- what it reports as a successful transfer must be the whole zone.
T: seeded random zones / requests / scripts recorded from the same code; every event of R and T is
   judged by the TLA+ monitor Trace_Xfer (operators of XferOps; multiset comparison of the answer with
   the zone as stored in the handler).
"""
import json
import os
from concurrent.futures import ThreadPoolExecutor

import vlib

BINS = ["drive_xfer"]

SERVER_ACTIONS = ("Refuse", "Decline", "SendCurrentSoa", "SendWhole", "SendOpen", "SendMore", "SendClose", "SendCutOff")
# the model weakened the way the implementation was found to be weaker: each has to violate its requirement
AS_IS = [("MC_Xfer_AsIs_AnySoaCloses", "X02_ClientVerdict", "any SOA at the end of a message closes the transfer (serial not compared)"),
         ("MC_Xfer_AsIs_PlainEndIsSilent", "X02_ClientVerdict", "a plain end of the stream below ends the transfer stream without an error"),
         ("MC_Xfer_AsIs_RcodeIgnored", "X02_ClientVerdict", "an error RCODE neither ends the transfer nor is reported"),
         ("MC_Xfer_AsIs_NonSoaStartEnds", "X02_ClientVerdict", "an answer that does not start with an SOA ends the stream normally"),
         ("MC_Xfer_AsIs_SingleMessage", "X02_ServerAnswerConforms", "the whole answer is one message; what does not fit is cut off")]
GEN_CFG = ["SPECIFICATION Spec", "CONSTANTS", '  Family = "{family}"', '  Level = "{level}"', "INVARIANT Emit", "CHECK_DEADLOCK FALSE"]

# what a cut-off message explains
TRUNCATION_EXPLAINS = {"tc-clear", "all-records", "all-rrsigs", "ends-with-soa"}


def rr_type(rr):
    # "<owner> <ttl> <class> <type> <rdata>"
    p = rr.split(" ")
    return p[3] if len(p) > 3 else "?"


def dup_kinds(ev):
    """types of the records an answer carries more than once (reporting detail; that there are any is the monitor's verdict)"""
    flat = [r for m in ev["msgs"] for r in m["an"]]
    seen, dups = set(), set()
    for r in flat[1:-1]:
        if r in seen:
            dups.add(rr_type(r))
        seen.add(r)
    return ",".join(sorted(dups)) or "none"


def classify(m, event_of=None):
    """monitor mismatch -> list of (class, fields).  Classification only: the verdict is the monitor's."""
    kind = m["kind"]
    if kind == "harness":
        raise vlib.ToolError(f"harness error event: {json.dumps(m)[:600]}")
    if kind == "request":
        ev = m["event"]
        cls = "client-request:panic" if ev["obs"] == "PANIC" else "client-request:malformed"
        return [(cls, {"mode": ev["mode"], "mname": ev["mname"]})]
    if kind == "e2e":
        if m["obs"] != "ok":
            return [("e2e:" + m["obs"].lower(), {"mode": m["mode"], "policy": m["policy"]})]
        srv = m["server"]
        what = ("truncated" if any(x["tc"] for x in srv) else "refused" if any(x["rc"] == 5 for x in srv)
                else "no-answer" if sum(x["an"] for x in srv) == 0 else "other")
        return [("e2e-incomplete-zone-accepted", {"mode": m["mode"], "policy": m["policy"], "server": what})]
    if kind == "client":
        base = {"via": m["via"], "mode": m["mode"], "term": m["term"]}
        if m["obs"] != "ok":
            return [("client:" + m["obs"].lower(), dict(base, why=m["why"]))]
        if not m["inOrder"]:
            raise vlib.ToolError(f"client delivered messages out of script order: {json.dumps(m)[:600]}")
        reported = "err" in m["items"]
        if m["expected"]["verdict"] == "error":
            # no error item although the transfer is not a whole one
            cause = "stream-ended-early" if m["why"] in ("ended-early", "incremental-incomplete") else m["why"]
            cls = "client-accepts-broken-transfer" if m["ended"] else "client-hangs"
            return [(cls, dict(base, cause=cause))]
        if reported:
            return [("client-rejects-whole-transfer", dict(base, shape=m["why"]))]
        return [("client-wrong-end", dict(base, shape=m["why"]))]
    # server
    req = m["req"]
    fields = {"qtype": req["qtype"], "proto": req["proto"], "qname": req["qname"], "policy": m["policy"], "store": m["store"],
              "sign": m["sign"], "do": req["do"], "have": req["have"]}
    duty = m["duty"]
    if m["expDuty"] != duty:
        raise vlib.ToolError(f"generator and monitor disagree on the duty: {json.dumps(m)[:600]}")
    if m["obs"] != "ok":
        return [(f"server:{duty}:{m['obs'].lower()}", fields)]
    # which alternative the answer was meant to be: by its looks, else the one with the fewest failures
    alts = {f["alt"]: f for f in m["failures"]}
    if any(rc != 0 for rc in m["rcs"]) and ("error" in alts or "refusal" in alts):
        best = alts.get("error") or alts["refusal"]
    elif m["answers"] == 1 and "single-soa" in alts:
        best = alts["single-soa"]
    elif m["answers"] >= 1 and "transfer" in alts:
        best = alts["transfer"]
    else:
        best = min(m["failures"], key=lambda f: len(f["failed"]))
    failed = set(best["failed"])
    if not failed:
        # zones with a malformed stored SOA set etc.
        raise vlib.ToolError(f"monitor rejected a server event without a failed requirement: {json.dumps(m)[:600]}")
    out = []
    if duty.startswith("ixfr-") and duty != "ixfr-denied" and m["nmsgs"] == 1 and m["rcs"] == [0] and m["answers"] == 0:
        return [("server:ixfr:noerror-without-answer", fields)]
    # a whole-zone answer is judged as a transfer whatever asked for it (AXFR, or IXFR answered in full)
    scope = "transfer" if best["alt"] == "transfer" else duty
    if "tc-clear" in failed:
        out.append((f"server:{scope}:truncated", fields))
        failed -= TRUNCATION_EXPLAINS
    if "no-zone-data" in failed:
        # zone data where none is owed: how many messages it takes is not a second defect
        failed -= {"at-most-one", "one-message"}
    for f in sorted(failed):
        fl = dict(fields)
        if f == "once":
            fl["dups"] = dup_kinds(event_of(m["case"])) if event_of else "?"
        if f in ("only-zone-records", "nothing-foreign"):
            fl["foreign"] = len(m["foreignSent"])
        out.append((f"server:{scope}:{f}", fl))
    return out


def run(res, tier, seed):
    res.rule = ("case = (zone content, store, signing, policy, catalog, transfer request) or (scripted message sequence, way the "
                "stream ends, mode) or (transfer request to build); non-trivial = a transfer of a zone with more than two records, "
                "or a script of at least two messages; distinct by content")
    res.assumptions = ["the zone content an answer is judged against is what the zone handler's records() returns (the zone as stored)",
                       "records are compared as (owner lower-cased, TTL, class, type, RDATA presentation / digest)",
                       "requests are unsigned (TSIG-authorised transfers are C13's)",
                       "no version history exists in the served zones: an incremental IXFR answer cannot be right and is not generated",
                       "IXFR difference sequences are judged structurally (SOA positions, first = last), not whether the versions chain",
                       "letter case of owner names inside the transfer and name compression are not judged",
                       "serial numbers in scripts are far from wrap-around"]
    wd = vlib.workdir("x02")
    spec = vlib.SPEC
    # ---- D
    mcs = [("MC_Xfer", ("ScriptEmit", "SendCutOff")), ("MC_Xfer_script", SERVER_ACTIONS), ("MC_Xfer_live", ("SendCutOff",))]
    if tier == "thorough":
        mcs.append(("MC_Xfer_script4", SERVER_ACTIONS))
    for cfg, zero in mcs:
        st = vlib.mc(os.path.join(spec, "MC_Xfer.tla"), os.path.join(spec, cfg + ".cfg"), wd, workers=6, allow_zero=zero, timeout=1500)
        res.add_mc(cfg, st)
    asis = {}
    for cfg, inv, what in AS_IS:
        rc, out = vlib.tlc(os.path.join(spec, "MC_Xfer.tla"), os.path.join(spec, cfg + ".cfg"), wd, workers=2, timeout=600)
        if f"Invariant {inv} is violated" not in out:
            vlib.log(out[-3000:])
            raise vlib.ToolError(f"{cfg}: the as-is rule is expected to violate {inv} and did not")
        asis[cfg] = {"what": what, "result": f"{inv} violated (expected counterexample)"}
    res.extra["as_is_counterexamples"] = asis
    # ---- R
    cases = []
    for family, pfx in (("server", "s"), ("client", "c"), ("request", "q"), ("e2e", "e")):
        tla, cfg = vlib.wrapper(wd, f"G_{family}", "Gen_Xfer", {}, [l.format(family=family, level=tier) for l in GEN_CFG])
        cs, st = vlib.gen(tla, cfg, wd, workers=4, timeout=900)
        if not cs:
            raise vlib.ToolError(f"generator produced no {family} cases")
        res.states += st["distinct"]
        res.transitions += st["generated"]
        cs.sort(key=lambda c: json.dumps(c, sort_keys=True))
        for i, c in enumerate(cs):
            c["id"] = f"{pfx}{i}"
        vlib.log(f"[x02] {family}: {len(cs)} cases")
        cases += cs
    by_id = {c["id"]: c for c in cases}
    cpath = os.path.join(wd, "cases.ndjson")
    vlib.write_ndjson(cpath, cases)
    t_replay = os.path.join(wd, "replay.trace.ndjson")
    vpath = os.path.join(wd, "verdicts.ndjson")
    vlib.run_driver("drive_xfer", ["replay", "--trace", t_replay], stdin_path=cpath, stdout_path=vpath)
    n = 0
    rust_bad = set()
    whole_multi = 0
    for v in vlib.read_ndjson(vpath):
        n += 1
        if v.get("harnessError") is not None:
            raise vlib.ToolError(f"harness error in case {v['case']}: {v['harnessError']}")
        if v["kind"] == "client":
            if v["ok"] is False:
                rust_bad.add(v["case"])
            elif v["expected"]["verdict"] == "complete" and v["expected"]["k"] >= 2:
                whole_multi += 1
                res.sample({"client_case": by_id[v["case"]], "observed": v["observed"]}, cap=2)
    if n != len(cases):
        raise vlib.ToolError("driver lost cases")
    if whole_multi == 0:
        raise vlib.ToolError("vacuous replay: no multi-message transfer was delivered whole by the client")
    res.exhaustive = True
    # ---- T
    n_rand = 6000 if tier == "thorough" else 450
    t_rand = os.path.join(wd, "random.trace.ndjson")
    vlib.run_driver("drive_xfer", ["record", "--trace", t_rand, "--n", str(n_rand), "--seed", str(seed)],
                    stdout_path=os.path.join(wd, "random.out"))
    # ---- the monitor judges every event of R and T
    lines = open(t_replay).read().splitlines(keepends=True) + open(t_rand).read().splitlines(keepends=True)
    events = {}
    line_of = {}
    served = refused = conforming = e2e_whole = 0
    for li, ln in enumerate(lines):
        e = json.loads(ln)
        line_of[e["case"]] = li
        if e["ev"] == "harness-error":
            raise vlib.ToolError(f"harness error event: {ln[:500]}")
        res.evaluations += 1
        if e["ev"] == "server":
            big = len(e["zones"][max(e["target"], 1) - 1]["rest"]) > 2
            events[e["case"]] = {"ev": "server", "nmsgs": len(e["msgs"]), "answers": sum(len(m["an"]) for m in e["msgs"]),
                                 "req": e["req"], "policy": e["policy"], "sign": e["sign"], "store": e["store"],
                                 "zone_records": len(e["zones"][max(e["target"], 1) - 1]["rest"])}
            if e["msgs"] and e["msgs"][0]["rc"] == 5:
                refused += 1
            if big and e["policy"] == "all" and e["req"]["proto"] == "tcp" and e["target"] > 0:
                res.nontrivial.add(vlib.digest([e["zones"], e["req"], e["policy"], e["store"], e["sign"]]))
        elif e["ev"] == "client":
            events[e["case"]] = {"ev": "client", "script": e["script"], "mode": e["mode"], "term": e["term"], "via": e["via"], "items": e["items"]}
            if len(e["script"]) >= 2:
                res.nontrivial.add(vlib.digest([e["script"], e["mode"], e["term"], e["via"], e["have"]]))
        elif e["ev"] == "e2e":
            events[e["case"]] = {"ev": "e2e"}
            if len(e["delivered"]) >= 4 and e["ended"] and "err" not in e["items"]:
                e2e_whole += 1
            res.nontrivial.add(vlib.digest([e["zone"], e["mode"], e["have"], e["policy"], e["store"]]))
        else:
            events[e["case"]] = {"ev": e["ev"]}
    # shards of similar weight (an event with a 5000-record zone costs as much as hundreds of small ones)
    shards = 6
    buckets = [[] for _ in range(shards)]
    weight = [0] * shards
    for ln in sorted(lines, key=len, reverse=True):
        i = weight.index(min(weight))
        buckets[i].append(ln)
        weight[i] += len(ln) + 2000
    files = []
    for i in range(shards):
        p = os.path.join(wd, f"t{i}.ndjson")
        with open(p, "w") as f:
            f.writelines(buckets[i])
        files.append(p)
    with ThreadPoolExecutor(max_workers=shards) as ex:
        outs = list(ex.map(lambda a: vlib.trace_check(os.path.join(spec, "Trace_Xfer.tla"), os.path.join(spec, "Trace_Xfer.cfg"),
                                                      vlib.workdir(f"x02_s{a[0]}"), a[1], 3000), enumerate(files)))
    mism = [m for o in outs for m in o[0]]
    bad_cases = {m["case"] for m in mism}
    # against vacuity (independent of the verdicts): whole-zone answers and refusals were seen
    for cid, ev in events.items():
        if ev["ev"] == "server" and ev["answers"] >= 4 and ev["policy"] == "all" and ev["req"]["qtype"] == "AXFR":
            served += 1
            if cid not in bad_cases:
                conforming += 1
                res.sample({"server_case": {k: ev[k] for k in ("req", "policy", "sign", "store", "zone_records")},
                            "messages": ev["nmsgs"], "answer_records": ev["answers"]}, cap=2)
    if served == 0 or refused == 0 or e2e_whole == 0:
        raise vlib.ToolError(f"vacuous run: whole-zone answers={served} refusals={refused} end-to-end transfers={e2e_whole}")
    # the driver's plain comparison of client cases and the monitor must agree
    mon_bad = {m["case"] for m in mism if m["kind"] == "client" and m["case"] in by_id}
    if mon_bad != rust_bad:
        raise vlib.ToolError(f"replay comparison and monitor disagree on client cases: {sorted(mon_bad ^ rust_bad)[:10]}")
    res.traces += len(lines)
    res.extra.update({"generated_cases_replayed": len(cases), "random_cases_recorded": n_rand, "events_judged": len(lines),
                      "whole_zone_answers": served, "conforming_transfers": conforming, "refusals": refused, "whole_multi_message_transfers_delivered": whole_multi, "end_to_end_transfers_delivered": e2e_whole,
                      "events_rejected_by_monitor": len(bad_cases)})
    for m in mism:
        detail = dict(m)
        detail["input"] = by_id.get(m["case"], {"recorded": m["case"], "seed": seed})
        if isinstance(detail["input"], dict) and "zone" in detail["input"] and len(json.dumps(detail["input"]["zone"])) > 4000:
            detail["input"] = dict(detail["input"], zone="(large; regenerate from shape)")
        for cls, fields in classify(m, lambda cid: json.loads(lines[line_of[cid]])):
            res.mismatch(cls, fields, detail)


def replay(res, path):
    print(json.dumps(json.load(open(path)), indent=1)[:6000])
    return 0
