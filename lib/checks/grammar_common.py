"""Shared by C01 and C02: the record grammar (spec/GrammarOps.tla) unfolded by Gen_Grammar, serialised and
fed to every decoding entry point by `drive_wire grammar`, judged by the monitor Trace_Grammar.

Each property reports its own clauses only:
  C01  panic-or-hang, decode-too-slow, name-limits-exceeded
  C02  well-formed-record-refused, record-boundary-missed, record-dropped, reencoding-not-a-fixpoint,
       rdata-not-preserved
"""
import json
import os

import vlib

OWN = {
    "C01": {"panic-or-hang", "decode-too-slow", "name-limits-exceeded"},
    "C02": {"well-formed-record-refused", "record-boundary-missed", "record-dropped", "reencoding-not-a-fixpoint",
            "rdata-not-preserved", "type-set-differs"},
}


def run(res, prop, tier, wd_name):
    wd = vlib.workdir(wd_name)
    # D: the loop of every list-valued RDATA decoder (options, parameters, strings, windows): bounds,
    # termination, agreement with the declarative tiling -- for header sizes 4, 2 and 1
    for cfg, zero in (("MC_TlvLoop.cfg", ()), ("MC_TlvLoop_h2.cfg", ()), ("MC_TlvLoop_h1.cfg", ("Partial",))):
        st = vlib.mc(os.path.join(vlib.SPEC, "MC_TlvLoop.tla"), os.path.join(vlib.SPEC, cfg), wd, workers=4, timeout=900,
                     allow_zero=zero)
        res.add_mc(cfg, st)
    cfg = "Gen_Grammar_thorough.cfg" if tier == "thorough" else "Gen_Grammar.cfg"
    cases, gst = vlib.gen(os.path.join(vlib.SPEC, "Gen_Grammar.tla"), os.path.join(vlib.SPEC, cfg), wd,
                          workers=6, timeout=3000, heap="8g")
    if len(cases) < 5000:
        raise vlib.ToolError(f"record grammar produced only {len(cases)} cases")
    res.states += gst["distinct"]
    res.transitions += gst["generated"]
    for i, c in enumerate(cases):
        c["id"] = f"g{i}"
    cpath = os.path.join(wd, "grammar.cases.ndjson")
    vlib.write_ndjson(cpath, cases)
    tpath = os.path.join(wd, "grammar.trace.ndjson")
    vlib.run_driver("drive_wire", ["grammar", "--trace", tpath], stdin_path=cpath, stdout_path=os.path.join(wd, "grammar.out"),
                    timeout=3000, stall=300)
    info = json.loads(open(os.path.join(wd, "grammar.out")).readline())
    lines = open(tpath).read().splitlines(keepends=True)
    if (info.get("cases") != len(cases) or len(lines) != info.get("events")) and not info.get("hangs"):
        raise vlib.ToolError("grammar driver lost cases")
    shards = 6
    files = []
    for i in range(shards):
        p = os.path.join(wd, f"g{i}.ndjson")
        with open(p, "w") as f:
            f.writelines(lines[i::shards])
        files.append(p)
    from concurrent.futures import ThreadPoolExecutor
    with ThreadPoolExecutor(max_workers=shards) as ex:
        outs = list(ex.map(lambda a: vlib.trace_check(os.path.join(vlib.SPEC, "Trace_Grammar.tla"),
                                                      os.path.join(vlib.SPEC, "Trace_Grammar.cfg"),
                                                      vlib.workdir(f"{wd_name}_s{a[0]}"), a[1], 3000, "4g"), enumerate(files)))
    mism = [m for o in outs for m in o[0]]
    must = sum(1 for c in cases if c["must"])
    accepted = refused = 0
    types = set()
    for ln in lines:
        e = json.loads(ln)
        types.add(e["type"])
        if e["msg"]["out"] == "ok":
            accepted += 1
        elif e["msg"]["out"] == "err":
            refused += 1
        if e["kind"] != "context" or e["ctx"]["rdlen"] != "exact":
            res.nontrivial.add("g:" + e["case"])
    # (a run cut short by hanging decoders is judged on what it saw)
    types = {t for t in types if not t.startswith("TYPE")}
    if not info.get("hangs") and (must < 1000 or accepted == 0 or refused == 0 or len(types) < 35):
        raise vlib.ToolError(f"vacuous grammar run: must={must} accepted={accepted} refused={refused} types={len(types)}")
    res.traces += len(lines)
    res.evaluations += len(lines)
    res.extra["grammar"] = {"cases": len(cases), "well_formed_in_context": must, "record_types": len(types),
                            "accepted_by_Message_from_vec": accepted, "refused": refused,
                            "kinds": {k: sum(1 for c in cases if c["kind"] == k) for k in ("single", "context", "pair", "tlv", "trunc", "code")},
                            "events": len(lines)}
    own = OWN[prop]
    other = 0
    for m in mism:
        probs = [p for p in m["problems"] if p in own]
        if not probs:
            other += 1
            continue
        ev = m["event"]
        entry = [k for k in ("msg", "req", "rec", "rdata") if ev[k]["out"] in ("PANIC", "HANG")]
        res.mismatch(probs[0], {"type": ev["type"], "tags": ev["tags"] if ev["kind"] != "context" else "nominal",
                                "ctx": ev["ctx"] if ev["kind"] == "context" else "home", "entry": entry},
                     {"case": ev["case"], "problems": m["problems"], "must": m["must"], "event": ev})
    res.extra["grammar"]["mismatches_owned_by_the_other_property"] = other
