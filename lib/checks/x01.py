"""X01 -- name resolution strategy of the stub resolver (beyond the 20 listed properties).

What the resolver does with a name before and around the upstream exchanges: which fully qualified
names it tries and in which order (ndots, domain, search list, final dot), how the outcomes of the
candidates combine (first positive answer wins, failures move on, the last failure is shown), what
each lookup-ip strategy asks and returns in which family order, and what never reaches a server
(hosts table, localhost / invalid names, address literals).  The oracle is StubOps.tla, written from
the documentation of ResolverOpts / ResolverConfig / LookupIpStrategy / ResolveHosts / Resolver,
resolv.conf(5) and RFC 6761.

D: the machine Stub.tla (one action per upstream question / fall-back step, outcomes chosen when a
   question is asked) satisfies the X01_* requirements for every configuration of small scopes and
   every outcome (TLC, exhaustive; termination under fair scheduling).  Four named relaxations -- the
   clauses the code drops today -- are kept as expected counterexamples.
R: Gen_Stub walks the same machine and prints every completed lookup with the questions and the
   result StubOps prescribes; drive_stub runs the real hickory_resolver::Resolver on each over a
   scripted ConnectionProvider (fresh resolver per case; hosts table through the resolver's own
   parser).
T: the events of those runs and of seeded random ones (names of 1-4 labels, `*`, localhost, invalid,
   literals, over-long combinations, repeated search domains, the root as search domain, random
   hosts tables and worlds, four wire forms of failure, the system hosts file under every
   use_hosts_file setting) are judged by the TLA+ monitor Trace_Stub with the same operators; a
   disagreement is attributed to the smallest set of relaxations that explains it exactly.
"""
import json
import os

import vlib

BINS = ["drive_stub"]

INVS = ("INVARIANTS TypeOK X01_OnlyCandidates X01_ListOrder X01_FqdnAsksOneName X01_NoRepeats X01_NothingLocalAsked "
        "X01_NothingAfterSuccess X01_OnlyStrategyTypes X01_FamilyOrder X01_QuestionsAsPrescribed X01_ResultAsPrescribed "
        "X01_ErrorOfLast")
CFG = """SPECIFICATION Spec
CONSTANTS
  Cfgs <- {cfgs}
  Outcomes <- {outcomes}
  Rules <- {rules}
{tail}
CHECK_DEADLOCK FALSE
"""

# relaxation (Trace_Stub!RelaxName) -> finding class
RELAX_CLASS = {
    "hostsPerType": "hosts-name-also-resolved-via-dns",
    "hostsFirstCandidateOnly": "hosts-table-skipped-after-first-candidate",
    "dedupKeepsLast": "repeated-search-domain-keeps-last-position",
    "starLabelNotCounted": "ndots-ignores-leading-star-label",
}
PRIORITY = ["panic", "lookup-never-completed", "question-outside-candidates", "question-of-other-type", "locally-known-name-asked",
            "asked-after-positive-answer", "candidates-out-of-order", "answers-of-several-candidates", "family-order",
            "questions-not-as-prescribed", "result-not-as-prescribed"]


def write_cfg(wd, name, **kw):
    p = os.path.join(wd, name + ".cfg")
    with open(p, "w") as f:
        f.write(CFG.format(**kw))
    return p


def shape(cfg):
    return {"api": cfg["api"], "strategy": cfg["strategy"] if cfg["api"] == "ip" else "-", "hosts": bool(cfg["hosts"])}


def classify(m):
    """monitor mismatch -> list of (class, match fields)"""
    probs = m["problems"]
    harness = [p for p in probs if p.startswith("harness:")]
    if harness:
        raise vlib.ToolError(f"trace inconsistent with the script ({harness[0]}): case {m['case']} line {m['line']}")
    expl = sorted(sorted(x) for x in m.get("detail", {}).get("explainedBy", []))
    if expl:
        return [(RELAX_CLASS[r], {"explained_by": r}) for r in expl[0]]
    prob = sorted(probs, key=lambda p: PRIORITY.index(p) if p in PRIORITY else 99)[0]
    return [(prob, shape(m["cfg"]))]


def run(res, tier, seed):
    thorough = tier == "thorough"
    res.rule = ("case = one resolver configuration (name as typed, ndots, domain, search list, api / lookup-ip strategy, hosts "
                "table) with one world (upstream outcome of every name and type); non-trivial = at least two distinct "
                "questions reached the server or a hosts table was installed; distinct by content hash of configuration and world")
    res.assumptions = [
        "scripted ConnectionProvider/DnsHandle (harness/src/bin/drive_stub.rs) is the only source of upstream replies; one "
        "configured server; a fresh resolver (empty cache) per case; tokio's paused clock",
        "a question is identified by (name, type); retransmissions and repeated questions for the same pair are not judged "
        "(retry and cache behaviour belong to C18 / C15)",
        "the documentation does not mention repeated names in the search list: the list is judged without repeats (first "
        "position counts) and the failure shown may be that of the last name with or without repeats",
        "where a candidate was asked for two families and both failed, either failure may be shown",
        "the documentation does not say how the hosts table and the search list interact: consulting the table for every "
        "candidate in turn (what lookup_ip does) and consulting it for the name as typed before anything else (what the C "
        "library does) are both accepted",
        "lookup_ip of an address literal is judged for ndots <= 4 only; relative localhost / invalid names are only looked "
        "up through address lookups; SERVFAIL, REFUSED, connection reset and timeout all count as `fail`",
        "hosts table installed with Resolver::set_hosts from text read by Hosts::read_hosts_conf; the system file "
        "/etc/hosts is used only by the recorded use_hosts_file cases (skipped if it names no host besides localhost)",
        "CNAME chains, caching across lookups, several servers, DNSSEC and onion names are outside this check",
    ]
    wd = vlib.workdir("x01")
    mc_tla = os.path.join(vlib.SPEC, "MC_Stub.tla")
    W = 6

    # ---- D
    # configuration sets about candidate lists have no literals, local answers or second families
    NAMES_ONLY = ("AnswerLiteral", "AnswerHostsAsTyped", "AnswerLocally", "FallbackFamily")
    runs = [("MC_Stub", os.path.join(vlib.SPEC, "MC_Stub.cfg"), ()),
            ("MC_Stub_names", os.path.join(vlib.SPEC, "MC_Stub_names.cfg"), NAMES_ONLY),
            ("MC_Stub_live", os.path.join(vlib.SPEC, "MC_Stub_live.cfg"), ())]
    if thorough:
        runs.append(("MC_Stub_namesBig", write_cfg(wd, "MC_Stub_namesBig", cfgs="MC_CfgsNamesBig", outcomes="AllOutcomes",
                                                   rules="Strict", tail=INVS), NAMES_ONLY))
        runs.append(("MC_Stub_strategyBig", write_cfg(wd, "MC_Stub_strategyBig", cfgs="MC_CfgsStrategyBig", outcomes="AllOutcomes",
                                                      rules="Strict", tail=INVS), ("AnswerLiteral", "AnswerHostsAsTyped", "AnswerLocally")))
        runs.append(("MC_Stub_hostsBig", write_cfg(wd, "MC_Stub_hostsBig", cfgs="MC_CfgsHostsBig", outcomes="AllOutcomes",
                                                   rules="Strict", tail=INVS), ("AnswerLiteral",)))
    for name, cfg, az in runs:
        st = vlib.mc(mc_tla, cfg, wd, workers=W, timeout=1500, allow_zero=az)
        res.add_mc(name, st)
    # the rules the code follows today, kept as documented counterexamples (never used for conformance)
    asis = {}
    for name in ["MC_Stub_AsIsHostsPerType", "MC_Stub_AsIsHostsFirstOnly", "MC_Stub_AsIsDedupLast", "MC_Stub_AsIsStarIgnored"]:
        rc, out = vlib.tlc(mc_tla, os.path.join(vlib.SPEC, name + ".cfg"), wd, workers=1, timeout=300)
        hit = [ln for ln in out.splitlines() if ln.startswith("Error: Invariant X01_") and ln.endswith("is violated.")]
        if not hit:
            vlib.log(out[-3000:])
            raise vlib.ToolError(f"{name}: the expected counterexample was not produced")
        asis[name] = hit[0][len("Error: "):] + " (expected)"
    res.extra["asis_counterexamples"] = asis

    # ---- R (+ T on the same runs)
    gens = [("G_names", "MC_CfgsNames", "TwoOutcomes", ["servfail"]),
            ("G_strategy", "MC_CfgsStrategy", "AllOutcomes", ["servfail", "io", "timeout"]),
            ("G_hosts", "MC_CfgsHosts", "TwoOutcomes", ["servfail"]),
            ("G_special", "MC_CfgsSpecial", "TwoOutcomes", ["servfail"])]
    if thorough:
        gens = [("G_names", "MC_CfgsNamesBig", "TwoOutcomes", ["servfail"]),
                ("G_names4", "MC_CfgsNames", "AllOutcomes", ["servfail", "timeout"]),
                ("G_strategy", "MC_CfgsStrategyBig", "AllOutcomes", ["servfail", "io", "timeout", "refused"]),
                ("G_hosts", "MC_CfgsHostsBig", "AllOutcomes", ["servfail", "io"]),
                ("G_special", "MC_CfgsSpecial", "AllOutcomes", ["servfail", "refused"])]
    traces = []
    verdicts = {}
    total = 0
    stats = {"ok": 0, "err": 0, "local_only": 0, "fallback_family": 0, "later_candidate_won": 0, "agree": 0}
    for gname, cfgs, outcomes, fks in gens:
        tla, _ = vlib.wrapper(wd, gname, "Gen_Stub, MC_Stub", {}, [])
        cfg = write_cfg(wd, gname, cfgs=cfgs, outcomes=outcomes, rules="Strict", tail="INVARIANT Emit")
        cases, st = vlib.gen(tla, cfg, wd, workers=W, timeout=1500)
        res.states += st["distinct"]
        res.transitions += st["generated"]
        seen, uniq = set(), []
        for c in cases:
            c["world"]["tab"].sort(key=lambda e: (e["n"], e["t"]))
            d = vlib.digest([c["cfg"], c["world"]])
            if d not in seen:
                seen.add(d)
                uniq.append(c)
        if not uniq:
            raise vlib.ToolError(f"generator {gname} produced no cases")
        vlib.log(f"[x01] {gname}: {len(uniq)} cases ({len(cases)} completed behaviours)")
        cpath = os.path.join(wd, f"{gname}.cases.ndjson")
        vlib.write_ndjson(cpath, uniq)
        for fk in fks:
            # a world without a failing question looks the same whatever a failure looks like
            if fk != fks[0]:
                sub = [c for c in uniq if any(e["o"] == "fail" for e in c["world"]["tab"])]
                cpath_fk = os.path.join(wd, f"{gname}.{fk}.cases.ndjson")
                vlib.write_ndjson(cpath_fk, sub)
            else:
                sub, cpath_fk = uniq, cpath
            if not sub:
                continue
            pre = f"{gname}-{fk}-"
            tpath = os.path.join(wd, f"{gname}.{fk}.trace.ndjson")
            vpath = os.path.join(wd, f"{gname}.{fk}.verdicts.ndjson")
            vlib.run_driver("drive_stub", ["replay", "--trace", tpath, "--fail-kind", fk, "--prefix", pre], stdin_path=cpath_fk,
                            stdout_path=vpath)
            traces.append(tpath)
            n = 0
            for v, c in zip(vlib.read_ndjson(vpath), sub):
                n += 1
                res.evaluations += 1
                verdicts[v["case"]] = v
                if v.get("nontrivial"):
                    res.nontrivial.add(vlib.digest(v["input"]))
                er = c["exp"]["result"]
                stats[er["kind"]] += 1
                if v["ok"]:
                    stats["agree"] += 1
                if not c["exp"]["steps"]:
                    stats["local_only"] += 1
                names = [s["n"] for s in c["exp"]["steps"]]
                if any(a == b for a, b in zip(names, names[1:])):
                    stats["fallback_family"] += 1
                if er["kind"] == "ok" and er["groups"][0]["n"] and er["groups"][0]["n"] != c["exp"]["cands"][0]:
                    stats["later_candidate_won"] += 1
                if v["ok"] and len(c["exp"]["steps"]) >= 3:
                    res.sample({"cfg": c["cfg"], "world": c["world"], "prescribed": c["exp"], "observed": v["observed"]}, cap=2)
            if n != len(sub):
                raise vlib.ToolError("driver lost cases")
            total += n
    res.traces += total
    res.exhaustive = True
    if min(stats["ok"], stats["err"], stats["local_only"], stats["fallback_family"], stats["later_candidate_won"]) == 0:
        raise vlib.ToolError(f"vacuous replay: {stats}")
    res.extra["replay_shapes"] = stats
    res.extra["generated_cases_replayed"] = total

    # ---- T: seeded random + the system hosts file
    n_rand = 60000 if thorough else 10000
    rpath = os.path.join(wd, "random.trace.ndjson")
    vlib.run_driver("drive_stub", ["record", "--trace", rpath, "--n", str(n_rand), "--seed", str(seed)],
                    stdout_path=os.path.join(wd, "random.out"))
    traces.append(rpath)
    all_trace = os.path.join(wd, "all.trace.ndjson")
    with open(all_trace, "w") as out:
        for t in traces:
            with open(t) as f:
                for line in f:
                    out.write(line)
    mism, tst = vlib.trace_check_parallel(os.path.join(vlib.SPEC, "Trace_Stub.tla"), os.path.join(vlib.SPEC, "Trace_Stub.cfg"),
                                          wd, all_trace, shards=6 if thorough else 4, timeout=3000)
    rec = {"cases": 0, "system_hosts_cases": 0, "ok": 0, "err": 0}
    for v in vlib.read_ndjson(os.path.join(wd, "random.out")):
        rec["cases"] += 1
        rec["system_hosts_cases"] += 1 if v["sys"] else 0
        if v["kind"] in ("ok", "err"):
            rec[v["kind"]] += 1
        if v["asked"] >= 2 or v["hosts"] > 0:
            res.nontrivial.add("r" + v["case"])
    res.traces += rec["cases"]
    res.evaluations += rec["cases"]
    res.extra["trace_events_validated"] = tst["distinct"]
    res.extra["recorded_cases"] = rec

    # ---- mismatches: the monitor's judgement first; a replayed case the monitor accepts but whose
    # outcome is outside the prescription is reported on its own
    flagged = set()
    for m in mism:
        flagged.add(m["case"])
        for cls, fields in classify(m):
            res.mismatch(cls, fields, {"case": m["case"], "problems": m["problems"], "detail": m.get("detail"), "event": m["event"],
                                       "cfg": m["cfg"], "world": m["world"],
                                       "replay_verdict": verdicts.get(m["case"], {}).get("class")})
    for cid, v in verdicts.items():
        if not v["ok"] and cid not in flagged:
            res.mismatch("replay-outcome-not-allowed", {"why": v["class"]},
                         {"case": cid, "input": v["input"], "expected": v["expected"], "observed": v["observed"]})
    res.extra["replay_verdicts_failed"] = sum(1 for v in verdicts.values() if not v["ok"])
    res.extra["monitor_mismatches"] = len(mism)


def replay(res, path):
    d = json.load(open(path))
    print(json.dumps(d, indent=1)[:6000])
    return 0
