"""C19 -- recursive resolution ignores out-of-bailiwick data and always terminates.

D: the resolver model Recursor.tla (RFC 1034 5.3.3: goal stack, learnt server addresses per zone cut, one action
   per upstream query, depth consumed by alias hops and glueless nameserver names) satisfies C19_NoPoison,
   C19_Filters, C19_Terminates (and ends, under fair scheduling) on every simulated internet of a small family
   (delegation shapes incl. glueless cycles, lame and self-referential delegations, alias loops of length 1-3,
   hostile servers adding out-of-bailiwick records to any section, server / answer filters). The rule the code
   follows today on the glueless path is kept as an expected counterexample.
R: Gen_Recursor prints every internet of the family with the sets RecursorOps prescribes (records that may be
   handed out, addresses that may be contacted, bound on upstream queries). drive_recursor realises it with plain
   per-address tables behind a scripted ConnectionProvider, runs the real Recursor, then silences the network and
   asks again for every name a hostile server mentioned (what is still answered comes from the caches).
T: the events of those runs and of seeded random internets (3-5 levels, up to 30 zones) are judged by the TLA+
   monitor Trace_Recursor with the same RecursorOps operators.
"""
import json
import os
import re

import vlib

BINS = ["drive_recursor"]

CFG = """SPECIFICATION {spec}
CONSTANTS
  NetParams <- {params}
  MkNet <- NetOfParams
  Questions <- TheQuestions
  NsLimit = {ns}
  RecLimit = {rec}
  MaxCname = {cn}
  BailiwickRule = "{rule}"
{tail}
CHECK_DEADLOCK FALSE
"""
INVS = "INVARIANTS TypeOK C19_NoPoison C19_Filters C19_Terminates\nPROPERTY C19_Ends"
PRIORITY = ["did-not-terminate", "too-many-upstream-queries", "alias-lookups-exceed-limit", "alias-chase-deeper-than-recursion-limit", "address-from-out-of-bailiwick-record-contacted",
            "unknown-address-contacted", "denied-address-contacted", "out-of-bailiwick-record-returned",
            "out-of-bailiwick-record-served-from-cache", "negative-answer-kept-on-out-of-bailiwick-soa",
            "denied-address-returned", "denied-address-served-from-cache"]


def write_cfg(wd, name, **kw):
    p = os.path.join(wd, name + ".cfg")
    with open(p, "w") as f:
        f.write(CFG.format(**kw))
    return p


def classify(m):
    """monitor mismatch -> (class, match fields): the fields say through which door the record came in"""
    probs = m["problems"]
    if any(p.startswith("harness:") for p in probs):
        raise vlib.ToolError(f"trace inconsistent: case {m['case']} line {m['line']} {probs}")
    prob = sorted(probs, key=lambda p: PRIORITY.index(p) if p in PRIORITY else 99)[0]
    ev, det = m["event"], m.get("detail", {})
    if prob in ("out-of-bailiwick-record-returned", "out-of-bailiwick-record-served-from-cache"):
        # what kind of result carried it, and from which section types
        return prob, {"result": ev.get("kind", "?")}
    if prob == "address-from-out-of-bailiwick-record-contacted":
        # the question whose response named the address: an address lookup for a nameserver name, or something else
        named = det.get("namedBy", [])
        if any(n["qt"] in ("A", "AAAA") for n in named):
            return prob, {"via": "address-lookup"}
        return prob, {"via": ",".join(sorted({"question:" + n["qt"] for n in named})) or "?"}
    return prob, {"event": ev.get("ev", "?")}


def run(res, tier, seed):
    thorough = tier == "thorough"
    res.rule = ("case = one simulated internet (zones, delegation shapes, aliases, hostile additions, filters) with one "
                "question and the depth limits; non-trivial = at least four upstream queries were needed; distinct by "
                "content hash")
    res.assumptions = [
        "scripted ConnectionProvider/DnsHandle with plain per-address tables (harness/src/bin/drive_recursor.rs) is the "
        "only source of upstream responses; every response is logged as sent",
        "the zone an address 'was delegated' is read off the internet's own delegation data (static): hostile servers "
        "add only records owned outside every zone they are delegated, never in-bailiwick re-delegations",
        "DNSSEC policy off (validating recursion is C07's subject); no truncation, no timeouts in this check (C18)",
        "the bound on upstream queries (RecursorOps!Bound) is generous by design: it tells 'bounded by the limits' from "
        "'runs away'; the largest count observed is reported",
        "alias chasing of the stub resolver (CachingClient) is bound in the T direction only: chains of 0..12 aliases, "
        "1/2/3/all links per upstream response, ending in an address, NXDOMAIN or a loop back to any link; plus hostile "
        "answer shapes per hop x supplies of names x preserve_intermediates (scripted upstream capped at 60 queries)",
    ]
    wd = vlib.workdir("c19")
    mc_tla = os.path.join(vlib.SPEC, "MC_Recursor.tla")
    W = 6

    # ---- D
    st = vlib.mc(mc_tla, os.path.join(vlib.SPEC, "MC_Recursor.cfg"), wd, workers=W, timeout=1500)
    res.add_mc("MC_Recursor(quick family, limits 4/4)", st)
    if thorough:
        cfg = write_cfg(wd, "MC_Recursor_all", spec="FairSpec", params="MC_All", ns=5, rec=5, cn=4, rule="required", tail=INVS)
        st = vlib.mc(mc_tla, cfg, wd, workers=W, timeout=2400)
        res.add_mc("MC_Recursor(all, limits 5/5)", st)
    rc, out = vlib.tlc(mc_tla, os.path.join(vlib.SPEC, "MC_Recursor_AsIs.cfg"), wd, workers=1, timeout=300)
    if "Invariant C19_NoPoison is violated" not in out:
        vlib.log(out[-3000:])
        raise vlib.ToolError("MC_Recursor_AsIs: the expected counterexample to C19_NoPoison was not produced")
    res.extra["asis_counterexamples"] = {"MC_Recursor_AsIs": "C19_NoPoison violated (expected)"}

    # ---- R (+ T on the same runs)
    params = "MC_All" if thorough else "MC_Gen"
    tla, _ = vlib.wrapper(wd, "G_rec", "Gen_Recursor, RecursorNets",
                          {"MC_All": "HostileParams(LModes, MModes, TModes) \\cup FilterParams(LModes, MModes, TModes) \\cup V6Params "
                                     "\\cup TreeParams(TreeModes) \\cup SoaParams \\cup DsParams \\cup LimParams \\cup NsqParams",
                           "MC_Gen": 'HostileParams({"in", "sib", "sib-noglue", "out", "lame", "self"}, MModes, {"a", "cname-sib", "loop2", "loop3", "none"}) '
                                     '\\cup FilterParams({"in", "sib", "out", "lame"}, {"in", "sib-noglue"}, {"a", "cname-in", "cname-out"}) '
                                     '\\cup V6Params \\cup TreeParams(TreeModes) \\cup SoaParams \\cup DsParams \\cup LimParams \\cup NsqParams'}, [])
    cfg = write_cfg(wd, "G_rec", spec="Spec", params=params, ns=24, rec=24, cn=64, rule="required", tail="INVARIANT Emit")
    cases, st = vlib.gen(tla, cfg, wd, workers=W, timeout=2400)
    res.states += st["distinct"]
    res.transitions += st["generated"]
    seen, uniq = set(), []
    for c in cases:
        d = vlib.digest([c["net"], c["q"]])
        if d not in seen:
            seen.add(d)
            uniq.append(c)
    if not uniq:
        raise vlib.ToolError("generator produced no cases")
    vlib.log(f"[c19] G_rec: {len(uniq)} internets")
    cpath = os.path.join(wd, "G_rec.cases.ndjson")
    vlib.write_ndjson(cpath, uniq)
    tpath = os.path.join(wd, "G_rec.trace.ndjson")
    vpath = os.path.join(wd, "G_rec.verdicts.ndjson")
    vlib.run_driver("drive_recursor", ["replay", "--trace", tpath], stdin_path=cpath, stdout_path=vpath)
    verdicts = {}
    stats = {"pos": 0, "neg": 0, "err": 0, "agree_with_model": 0, "cached_hits": 0, "max_asked": 0, "hostile_pos": 0}
    n = 0
    for v, c in zip(vlib.read_ndjson(vpath), uniq):
        n += 1
        res.evaluations += 1
        verdicts[v["case"]] = v
        o = v["observed"]
        stats[o["kind"]] = stats.get(o["kind"], 0) + 1
        stats["cached_hits"] += o["cached_hits"]
        stats["max_asked"] = max(stats["max_asked"], o["asked"])
        if {"pos": "pos", "neg": "neg", "fail": "err"}.get(v["model"]) == o["kind"]:
            stats["agree_with_model"] += 1
        if o["kind"] == "pos" and c["net"]["inj"]:
            stats["hostile_pos"] += 1
        if v.get("nontrivial"):
            res.nontrivial.add(vlib.digest(v["input"]))
        if v["ok"] and o["asked"] >= 8 and c["net"]["inj"]:
            res.sample({"internet": v["input"], "question": c["q"], "limits": c["lim"], "bound": c["exp"]["bound"],
                        "observed": o}, cap=2)
    if n != len(uniq):
        raise vlib.ToolError("driver lost cases")
    res.traces += n
    res.exhaustive = True
    if stats["pos"] == 0 or stats["hostile_pos"] == 0 or stats["err"] == 0 or stats["cached_hits"] == 0:
        raise vlib.ToolError(f"vacuous replay: {stats}")
    res.extra["replay_outcomes"] = stats
    res.extra["generated_cases_replayed"] = n

    # ---- the address filter itself: exhaustive (address x deny list x allow list) cases with the prescribed verdict,
    # replayed against AccessControlSet::denied; its events join the monitored trace
    acfg = os.path.join(wd, "G_acs.cfg")
    with open(acfg, "w") as f:
        f.write(f"SPECIFICATION Spec\nCONSTANTS\n  MaxDeny = {3 if thorough else 2}\n  MaxAllow = 1\nINVARIANT Emit\nCHECK_DEADLOCK FALSE\n")
    acases, ast = vlib.gen(os.path.join(vlib.SPEC, "Gen_Access.tla"), acfg, wd, workers=W, timeout=1500)
    res.states += ast["distinct"]
    res.transitions += ast["generated"]
    apath = os.path.join(wd, "G_acs.cases.ndjson")
    vlib.write_ndjson(apath, acases)
    atrace = os.path.join(wd, "G_acs.trace.ndjson")
    avp = os.path.join(wd, "G_acs.verdicts.ndjson")
    vlib.run_driver("drive_recursor", ["acs", "--trace", atrace], stdin_path=apath, stdout_path=avp)
    averd = list(vlib.read_ndjson(avp))
    if len(averd) != len(acases) or not any(c["denied"] for c in acases) or not any(not c["denied"] and c["acs"]["deny"] for c in acases):
        raise vlib.ToolError("address filter layer: cases lost or vacuous")
    res.traces += len(averd)
    res.evaluations += len(averd)
    res.extra["address_filter_cases"] = len(averd)
    for v in averd:
        if v["observed"] is True:
            res.nontrivial.add("f" + vlib.digest(v["input"]))
        if not v["ok"]:
            res.mismatch("address-filter-verdict-wrong", {"expected": v["expected"]}, v)
    vlib.log(f"[c19] G_acs: {len(averd)} filter cases")

    # ---- T: seeded random internets
    n_rand = 20000 if thorough else 2500
    rpath = os.path.join(wd, "random.trace.ndjson")
    vlib.run_driver("drive_recursor", ["record", "--trace", rpath, "--n", str(n_rand), "--seed", str(seed)],
                    stdout_path=os.path.join(wd, "random.out"))
    # stub resolver layer: alias chains of every length 0..12, ending in an address / nothing / a loop
    spath = os.path.join(wd, "stub.trace.ndjson")
    vlib.run_driver("drive_recursor", ["stub", "--trace", spath], stdout_path=os.path.join(wd, "stub.out"))
    stub = [v["stub"] for v in vlib.read_ndjson(os.path.join(wd, "stub.out"))]
    # ... and hostile answer shapes (alias only / alias + target address / alias + unrelated address / two aliases per
    # response; endless, cyclic and finite supplies of names; preserve_intermediates on and off); the scripted upstream
    # gives up after 60 queries, so a chase that does not stop ends as a count, not as a crash
    shpath = os.path.join(wd, "stubshapes.trace.ndjson")
    vlib.run_driver("drive_recursor", ["stubshapes", "--trace", shpath], stdout_path=os.path.join(wd, "stubshapes.out"))
    shapes = [v["stub"] for v in vlib.read_ndjson(os.path.join(wd, "stubshapes.out"))]
    if len(shapes) < 200 or not any(v["kind"] == "pos" and v["asked"] >= 4 for v in shapes):
        raise vlib.ToolError("vacuous stub shape layer")
    with open(spath, "a") as out, open(shpath) as f:
        out.write(f.read())
    stub += shapes
    if not any(v["kind"] == "pos" and v["asked"] >= 5 for v in stub) or not any(v["end"] == "loop" for v in stub):
        raise vlib.ToolError("vacuous stub layer")
    res.traces += len(stub)
    res.evaluations += len(stub)
    res.extra["stub_cases"] = len(stub)
    res.extra["stub_max_upstream_queries"] = max(v["asked"] for v in stub)
    all_trace = os.path.join(wd, "all.trace.ndjson")
    with open(all_trace, "w") as out:
        for t in (tpath, rpath, spath, atrace):
            with open(t) as f:
                for line in f:
                    out.write(line)
    mism, tst = vlib.trace_check_parallel(os.path.join(vlib.SPEC, "Trace_Recursor.tla"), os.path.join(vlib.SPEC, "Trace_Recursor.cfg"),
                                          wd, all_trace, shards=6, timeout=3000)
    res.traces += n_rand
    res.evaluations += n_rand
    rmax = 0
    rkinds = {}
    for v in vlib.read_ndjson(os.path.join(wd, "random.out")):
        rmax = max(rmax, v["asked"])
        rkinds[v["kind"]] = rkinds.get(v["kind"], 0) + 1
        if v["asked"] >= 4:
            res.nontrivial.add("r" + v["case"])
    res.extra["trace_events_validated"] = tst["distinct"]
    res.extra["random_cases_recorded"] = n_rand
    res.extra["random_outcomes"] = rkinds
    res.extra["random_max_upstream_queries"] = rmax

    # ---- mismatches: the monitor's judgement first; a replayed case the monitor accepts but whose
    # outcome leaves the prescribed sets is reported on its own
    flagged = set()
    for m in mism:
        if m["event"].get("ev") == "acs":
            continue            # reported through the replay verdict of the same case above
        flagged.add(m["case"])
        cls, fields = classify(m)
        res.mismatch(cls, fields, {"case": m["case"], "event": m["event"], "problems": m["problems"], "detail": m.get("detail"),
                                   "hostile": m.get("inj"), "replay_verdict": verdicts.get(m["case"], {}).get("class")})
    for cid, v in verdicts.items():
        if not v["ok"] and cid not in flagged:
            res.mismatch("replay-outcome-not-allowed", {"why": re.sub(r"\{.*?\}", "{}", v["class"])[:80]},
                         {"case": cid, "input": v["input"], "expected": v["expected"], "observed": v["observed"], "why": v["class"]})
    res.extra["replay_verdicts_failed"] = sum(1 for v in verdicts.values() if not v["ok"])


def replay(res, path):
    d = json.load(open(path))
    print(json.dumps(d, indent=1)[:6000])
    return 0
