"""C17 -- stream framing is independent of how the bytes are chunked.

D: TcpFraming machine satisfies the C17_* requirements under every schedule (TLC, exhaustive,
   safety + liveness under a fair socket).
R: Gen_TcpFraming enumerates complete schedules with the prescribed outcome; the real
   hickory_net::tcp::TcpStream is stepped through each over a scripted socket.
   A subset of the schedules is replayed a second and third time through the wrappers the
   client (TcpClientStream) and the server (TimeoutStream) put around the stream.
T: the socket-call / yield events of those runs and of seeded random runs are validated
   against the requirement-level monitor Trace_TcpFraming.
"""
import os

import vlib

BINS = ["drive_tcp"]

MC_ACTIONS = ["Enqueue", "Poll", "PopOutbound", "OutboundEmpty", "WriteVectored", "WriteBody", "WritePending",
              "FlushOk", "FlushPending", "ReadLen", "ReadBody", "ReadPending", "ReadEof"]

GEN_CFG = [
    "SPECIFICATION GSpec", "CONSTANTS", "  InLens <- P_InLens", "  OutLens <- P_OutLens", "  InMsgs <- G_InMsgs",
    "  OutMsgs <- G_OutMsgs", "  ChunkSet <- P_Chunk", "  CloseSet <- P_Close", "  MaxPending = {mp}", "  MaxSplit = {ms}",
    "INVARIANT Emit", "ACTION_CONSTRAINT Bound", "CHECK_DEADLOCK FALSE",
]

# (in lens, out lens, chunk set, close set, max pendings, max partial transfers)
EDGE = "{1, 2, 3, 254, 255, 256, 257, 258, 299, 300, 301, 302}"
GEN_QUICK = [
    ("<<1, 2>>", "<<1>>", "1..3", "G_CloseSet", 1, 99),
    ("<<3, 1>>", "<<>>", "1..5", "G_CloseSet", 2, 99),
    ("<<>>", "<<2, 3>>", "1..5", "{Never}", 2, 99),
    ("<<2, 0, 1>>", "<<>>", "1..4", "G_CloseSet", 1, 99),
    ("<<255>>", "<<256>>", EDGE, "{Never, 0, 1, 2, 3, 256, 257}", 1, 2),
    ("<<256, 1>>", "<<>>", EDGE, "{Never, 1, 2, 257, 258, 259, 260, 261}", 1, 2),
    ("<<>>", "<<300, 2>>", EDGE, "{Never}", 1, 3),
]
WRAPPED = {0, 3, 4}   # generators whose schedules are also replayed through the wrappers
GEN_THOROUGH = GEN_QUICK + [
    ("<<1, 2, 3>>", "<<>>", "1..5", "G_CloseSet", 2, 99),
    ("<<>>", "<<1, 2, 3>>", "1..5", "{Never}", 2, 99),
    ("<<2, 1>>", "<<1, 2>>", "1..3", "G_CloseSet", 1, 99),
    ("<<300, 255>>", "<<1>>", EDGE, "{Never, 301, 302, 303, 304, 558, 559}", 1, 3),
    ("<<2>>", "<<255, 256>>", EDGE, "{Never}", 2, 3),
]


def run(res, tier, seed):
    res.rule = ("case = (peer messages, local messages, close position, schedule of socket results); non-trivial = "
                "the schedule splits a frame across >= 2 socket calls or contains a would-block; distinct by content hash")
    res.assumptions = ["scripted socket (harness/src/bin/drive_tcp.rs) is the only source of socket results",
                       "TLC 1.8.0 and the JSON projection of events are trusted"]
    wd = vlib.workdir("c17")
    # ---- D
    for cfg in ["MC_TcpFraming", "MC_TcpFraming_zero"]:
        st = vlib.mc(os.path.join(vlib.SPEC, "MC_TcpFraming.tla"), os.path.join(vlib.SPEC, cfg + ".cfg"), wd,
                     workers=8, allow_zero=("ReadZeroFrame",) if cfg == "MC_TcpFraming" else ())
        res.add_mc(cfg, st)
    # the server-side wrapper's idle timer (re-armed by every delivery); bound through VERIF_TCP_WRAP=timeout
    st = vlib.mc(os.path.join(vlib.SPEC, "IdleTimer.tla"), os.path.join(vlib.SPEC, "MC_IdleTimer.cfg"), wd, workers=2)
    res.add_mc("MC_IdleTimer", st)
    # the real TimeoutStream with time: whole frames ready or nothing there, clock moved before every poll;
    # judged by the monitor Trace_IdleTimer (ready work wins over an expired timer; idle >= T ends the stream)
    ipath = os.path.join(wd, "idle.trace.ndjson")
    vlib.run_driver("drive_tcp", ["idle-probe", "--trace", ipath], stdout_path=os.path.join(wd, "idle.out"))
    imism, ist = vlib.trace_check(os.path.join(vlib.SPEC, "Trace_IdleTimer.tla"), os.path.join(vlib.SPEC, "Trace_IdleTimer.cfg"),
                                  vlib.workdir("c17_idle"), ipath, 600)
    nidle = sum(1 for _ in open(ipath))
    if nidle < 100:
        raise vlib.ToolError("idle probe produced too few events")
    res.traces += nidle
    res.evaluations += nidle
    res.extra["idle_timer_probe_events"] = nidle
    for m in imism:
        res.mismatch("idle-timer:" + str(m["event"].get("got")) + "-instead-of-" + str(m["expected"]),
                     {"inner": m["event"].get("inner")}, m)
    # ---- R (+ T on the same runs)
    gens = GEN_THOROUGH if tier == "thorough" else GEN_QUICK
    traces = []
    total_cases = 0
    for gi, (inl, outl, chunk, close, mp, ms) in enumerate(gens):
        name = f"G{gi}"
        tla, cfg = vlib.wrapper(wd, name, "Gen_TcpFraming",
                                {"P_InLens": inl, "P_OutLens": outl, "P_Chunk": chunk, "P_Close": close},
                                [l.format(mp=mp, ms=ms) for l in GEN_CFG])
        cases, st = vlib.gen(tla, cfg, wd, workers=8, timeout=600)
        vlib.log(f"[c17] {name}: {len(cases)} behaviours")
        if not cases:
            raise vlib.ToolError(f"generator {name} produced no behaviours")
        res.states += st["distinct"]
        res.transitions += st["generated"]
        cpath = os.path.join(wd, f"{name}.cases.ndjson")
        vlib.write_ndjson(cpath, cases)
        tpath = os.path.join(wd, f"{name}.trace.ndjson")
        vpath = os.path.join(wd, f"{name}.verdicts.ndjson")
        vlib.run_driver("drive_tcp", ["replay", "--trace", tpath], stdin_path=cpath, stdout_path=vpath)
        traces.append(tpath)
        # the same schedules through the wrappers the client and the server put around the stream
        # (TcpClientStream; TimeoutStream with a timeout that never fires on the paused clock)
        wrapped_verdicts = []
        if gi in WRAPPED:
            for wrap in ("client", "timeout", "adapters"):
                wt = os.path.join(wd, f"{name}.{wrap}.trace.ndjson")
                wv = os.path.join(wd, f"{name}.{wrap}.verdicts.ndjson")
                vlib.run_driver("drive_tcp", ["replay", "--trace", wt], stdin_path=cpath, stdout_path=wv, env={"VERIF_TCP_WRAP": wrap})
                traces.append(wt)
                wrapped_verdicts.append((wrap, wv))
        for wrap, wv in wrapped_verdicts:
            for v in vlib.read_ndjson(wv):
                res.evaluations += 1
                res.traces += 1
                if not v["ok"]:
                    res.mismatch("replay-outcome-differs", {"in_lens": inl, "out_lens": outl, "wrap": wrap},
                                 {"generator": name, "wrap": wrap, "case": v["input"], "expected": v["expected"], "observed": v["observed"]})
        n = 0
        for v in vlib.read_ndjson(vpath):
            n += 1
            res.evaluations += 1
            if v.get("nontrivial"):
                res.nontrivial.add(vlib.digest(v["input"]))
            if not v["ok"]:
                res.mismatch("replay-outcome-differs", {"in_lens": inl, "out_lens": outl},
                             {"generator": name, "case": v["input"], "expected": v["expected"], "observed": v["observed"]})
            elif v.get("nontrivial"):
                res.sample({"schedule": v["input"]["log"], "close": v["input"]["close"],
                            "in_lens": [len(m) for m in v["input"]["in"]], "out_lens": [len(m) for m in v["input"]["out"]],
                            "outcome": {"status": v["observed"]["status"], "delivered": len(v["observed"]["delivered"])}}, cap=2)
        if n != len(cases):
            raise vlib.ToolError("driver lost cases")
        total_cases += n
        res.traces += n
    res.exhaustive = True
    # ---- T: seeded random
    n_rand = 3000 if tier == "thorough" else 300
    rpath = os.path.join(wd, "random.trace.ndjson")
    vlib.run_driver("drive_tcp", ["record", "--trace", rpath, "--n", str(n_rand), "--seed", str(seed),
                                  "--max-len", "600"], stdout_path=os.path.join(wd, "random.out"))
    traces.append(rpath)
    all_trace = os.path.join(wd, "all.trace.ndjson")
    with open(all_trace, "w") as out:
        for t in traces:
            with open(t) as f:
                for line in f:
                    out.write(line)
    mism, tst = vlib.trace_check_parallel(os.path.join(vlib.SPEC, "Trace_TcpFraming.tla"),
                                          os.path.join(vlib.SPEC, "Trace_TcpFraming.cfg"), wd, all_trace,
                                          shards=12 if tier == "thorough" else 6, timeout=3000)
    res.traces += n_rand
    res.evaluations += n_rand
    for i, v in enumerate(vlib.read_ndjson(os.path.join(wd, "random.out"))):
        if v["events"] > 12:
            res.nontrivial.add("r" + str(v["case"]))
    res.extra["trace_events_validated"] = tst["distinct"]
    res.extra["generated_behaviours_replayed"] = total_cases
    res.extra["random_cases_recorded"] = n_rand
    for m in mism:
        ev = m["event"]
        cls = "trace-rejected:" + ev.get("ev", "?") + ":" + str(ev.get("kind", ev.get("res", "")))
        res.mismatch(cls, {"case": str(m["case"])}, m)


def replay(res, path):
    import json
    d = json.load(open(path))
    print(json.dumps(d, indent=1)[:4000])
    return 0
