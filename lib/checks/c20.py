"""C20 -- zone files load to exactly the records they denote.

D: MC_ZoneLex     the reference lexical reading of RFC 1035 5.1 is total and layout-independent on
                  every string up to n characters over one representative per character class;
   MC_ZoneFile_*  the master-file printer (all layout choices) against the independent reading:
                  every file the printer can write denotes exactly the records it was written
                  from (C20_Denotes) and the same records as the canonical layout
                  (C20_LayoutIndependent), exhaustively in two small scopes.
R: Gen_ZoneFile   TLC walks the printer (-simulate, seeded) over a universe of records of all
                  parser-supported types; Gen_ZoneLex enumerates every short string in lexical
                  contexts; each case = text + the records the specification says it denotes.
                  drive_zone replay runs the real Parser (and the file-store zone loading) on the
                  text and compares the projected records.
T: drive_zone record: mutated / garbage / re-laid-out / very long texts, a systematic sweep of
                  single-item substitutions in the RDATA of every type, and $INCLUDE situations,
                  through the real Parser (panics via catch_unwind, hangs via watchdog);
                  Trace_ZoneFile reads every text with the specification's Read and checks the
                  recorded outcome against it (exact records where the text is a master file,
                  error where it is malformed beyond doubt, ok-or-error elsewhere, never a panic
                  or hang).
"""
import json
import os
from concurrent.futures import ThreadPoolExecutor

import vlib

BINS = ["drive_zone"]

# Layout features that are legal RFC 1035 section 5.1 but are kept apart: the core generator
# configuration uses none of them, and each has its own configuration that adds just that one.
# A mismatch is attributed to the first feature of this list found in the case (the features of a
# case are computed by the specification's reading of the text, not here).
FEATURES = [
    # (feature name used in findings, tags produced by ZoneFile!Read / ZoneLex that indicate it, printer switch)
    ("quoted-string-inside-parentheses", ["str-quoted-in-paren", "lex-quote-in-paren"], "str-quoted-in-paren"),
    ("escape-in-unquoted-string", ["str-unquoted-escape", "lex-escape-in-word"], "str-unquoted-escape"),
    ("unquoted-string-starting-with-dollar", ["str-unquoted-dollar", "lex-dollar-word"], "str-unquoted-dollar"),
    ("unquoted-string-starting-with-at", ["str-unquoted-at"], None),
    ("at-sign-as-rdata-name", ["rdname-at", "lex-at-word"], "rdname-at"),
    ("parenthesis-before-type", ["paren-before-type", "paren-directive"], "paren-before-type"),
    ("relative-origin-directive", ["$ORIGIN-rel"], "$ORIGIN-rel"),
    ("relative-svcb-target", ["rdname-rel:SVCB", "rdname-rel:HTTPS"], "rdname-rel-svcb"),
    ("interior-underscore-in-label", ["name-interior-underscore"], None),
    ("text-ends-inside-parentheses", ["lex-err: unclosed ( at the end of the text, directly after a word",
                                      "lex-err: unclosed ( at the end of the text, inside a comment"], None),
]
# tags that indicate a feature only when the specification could not read the text as a master file
LEX_ONLY = {"lex-quote-in-paren", "lex-escape-in-word", "lex-dollar-word", "lex-at-word"}

# where several kept-apart features occur in one text, the error message of the implementation decides
# between those that are present (it never introduces a feature the text does not have)
HINTS = [
    ("unrecognized token in stream: List(", ["parenthesis-before-type"]),
    ("unrecognized token in stream: At", ["at-sign-as-rdata-name", "unquoted-string-starting-with-at"]),
    ("unrecognized dollar content", ["unquoted-string-starting-with-dollar"]),
    ("Label contains invalid characters", ["interior-underscore-in-label"]),
]


def feature_of(tags, exp_st, observed=None):
    tags = set(tags or [])
    present = []
    for name, ind, _sw in FEATURES:
        if any(t in tags and (t not in LEX_ONLY or exp_st != "ok") for t in ind):
            present.append(name)
    if not present:
        return "none"
    msg = (observed or {}).get("msg") or ""
    if len(present) > 1 and msg:
        for needle, feats in HINTS:
            if needle in msg:
                for f in feats:
                    if f in present:
                        return f
    return present[0]


def _report(res, kind, tags, exp_st, path, observed, detail):
    """One disagreement between specification and implementation.  kind: records-differ |
    valid-file-rejected | malformed-text-accepted | panic | hang.  Panics and hangs are classified by
    where they happen, everything else by the kept-apart layout feature the text uses (if any)."""
    feat = feature_of(tags, exp_st, observed)
    fields = {"feature": feat, "kind": kind, "path": path}
    if kind in ("panic", "hang"):
        # file + the constant head of the panic message (the tail of an expect() message is the Debug form
        # of the inner error and varies with the input)
        msg = observed.get("msg", "")
        f, _, rest = msg.partition(": ")
        fields["where"] = msg if rest.startswith("assertion failed") else f + ": " + rest.split(": ")[0]
        cls = kind
    elif feat != "none":
        cls = "layout:" + feat
    else:
        cls = kind
    res.mismatch(cls, fields, detail)


GEN_CFG = [
    "SPECIFICATION PSpec", "CONSTANTS", "  Origin0 <- Apex", "  Records <- {records}", "  Origins <- G_Origins",
    "  TtlDirs <- G_TtlDirs", "  Seps <- G_Seps", "  PSeps <- G_PSeps", "  Comments <- G_Comments", "  Eols <- G_Eols",
    "  MaxRR = {maxrr}", "  MinRR = {minrr}", "  MaxDir = 4", "  MaxBlank = 4", "  MaxEntries = {maxent}",
    "  FirstRR <- {first}", "  Opt <- P_Opt", "INVARIANT Emit", "CHECK_DEADLOCK FALSE",
]
LEX_CFG = [
    "SPECIFICATION GSpec", "CONSTANTS", "  Alphabet <- {alpha}", "  MaxLen = {maxlen}", "  MinLen = {minlen}",
    "  Templates <- {tpl}", "  Origin0 <- G_Origin", "INVARIANT Emit", "CHECK_DEADLOCK FALSE",
]


def _mc(res, wd, name, tla, cfg, allow_zero, seen_actions, workers=6, timeout=1500):
    st = vlib.mc(os.path.join(vlib.SPEC, tla), cfg, wd, workers=workers, allow_zero=allow_zero, timeout=timeout)
    res.add_mc(name, st)
    for a, n in st["coverage"].items():
        seen_actions[a] = seen_actions.get(a, 0) + n
    return st


def _patched_cfg(wd, src, name, subs):
    with open(os.path.join(vlib.SPEC, src)) as f:
        t = f.read()
    for a, b in subs:
        if a not in t:
            raise vlib.ToolError(f"cannot patch {src}: {a}")
        t = t.replace(a, b)
    p = os.path.join(wd, name + ".cfg")
    with open(p, "w") as f:
        f.write(t)
    return p


def _judge_verdicts(res, vpath, source, counts):
    n = 0
    for v in vlib.read_ndjson(vpath):
        n += 1
        res.evaluations += 1
        exp_st = v["expected"]["st"]
        tags = v.get("tags") or []
        counts["by_expectation"][exp_st] = counts["by_expectation"].get(exp_st, 0) + 1
        if v["path"] == "zone-load":
            counts["zone_loads"] += 1
        for t in tags:
            if not t.startswith("type-") and ":" not in t:
                counts["features"][t] = counts["features"].get(t, 0) + 1
            elif t.startswith("type-") and exp_st == "ok":
                counts["types"][t[5:]] = counts["types"].get(t[5:], 0) + 1
        if exp_st == "ok" and v.get("nrec", 0) > 0:
            res.nontrivial.add(vlib.digest(v["text"]))
        if v["ok"]:
            if exp_st == "ok" and v.get("nrec", 0) >= 3 and source == "printer":
                res.sample({"text": v["text"], "denotes": v["expected"]["recs"], "loaded": "equal", "path": v["path"]}, cap=2)
            continue
        _report(res, v["class"], tags, exp_st, v["path"], v["observed"],
                {"source": source, "text": v["text"], "origin": v["origin"], "expected": v["expected"],
                 "observed": v["observed"], "tags": tags})
    return n


def _replay(res, wd, name, cases, source, counts, zone=True):
    cpath = os.path.join(wd, f"{name}.cases.ndjson")
    vpath = os.path.join(wd, f"{name}.verdicts.ndjson")
    vlib.write_ndjson(cpath, cases)
    zd = os.path.join(wd, "zones")
    os.makedirs(zd, exist_ok=True)
    vlib.run_driver("drive_zone", ["replay"] + (["--zone-dir", zd] if zone else []), stdin_path=cpath, stdout_path=vpath)
    n = _judge_verdicts(res, vpath, source, counts)
    if n < len(cases):
        raise vlib.ToolError("driver lost cases")
    res.traces += len(cases)
    return cpath


def _trace_parallel(wd, tpath, shards):
    """Every event is its own case: deal the events round-robin onto `shards` files and validate each with
    its own TLC process (vlib.shard_trace splits at reset events, which this trace does not have)."""
    with open(tpath) as f:
        lines = f.readlines()
    # longest texts first, then dealt round-robin, so that the shards are of similar weight
    lines.sort(key=len, reverse=True)
    shards = max(1, min(shards, len(lines)))
    files = []
    for i in range(shards):
        p = os.path.join(wd, f"tshard{i}.ndjson")
        with open(p, "w") as f:
            f.writelines(lines[i::shards])
        files.append(p)

    def one(i_p):
        i, p = i_p
        swd = os.path.join(wd, f"ts{i}")
        os.makedirs(os.path.join(swd, "tmp"), exist_ok=True)
        return vlib.trace_check(os.path.join(vlib.SPEC, "Trace_ZoneFile.tla"), os.path.join(vlib.SPEC, "Trace_ZoneFile.cfg"),
                                swd, p, 2700, "3g")

    with ThreadPoolExecutor(max_workers=len(files)) as ex:
        rs = list(ex.map(one, enumerate(files)))
    return [m for r in rs for m in r[0]], {"distinct": sum((r[1] or {}).get("distinct", 0) for r in rs)}


def run(res, tier, seed):
    thorough = tier == "thorough"
    res.rule = ("case = one zone-file text with the record set the specification says it denotes; non-trivial = the "
                "specification reads it as a master file with at least one record; distinct by text hash")
    res.assumptions = [
        "field-value formats inside RDATA (address, hex, base64, SvcParam spellings) come from a fixed table of "
        "spellings in ZoneFile.tla (AtomTable); they are driven, not decided",
        "\\DDD escapes, IDNA / non-host-style labels, $INCLUDE, unknown types, numbers near field limits and everything "
        "else RFC 1035 5.1 leaves open are read as `unspec` by the specification: only totality is judged there",
        "the projection of loaded records (drive_zone.rs) uses std's address formatting and, for fixed-layout types, "
        "hickory's wire encoding of the RDATA",
        "the harness is built with debug assertions on (harness/Cargo.toml), so debug_assert! failures count as panics",
        "TLC 1.8.0, CommunityModules (FoldLeft, Json) are trusted",
    ]
    wd = vlib.workdir("c20")
    counts = {"by_expectation": {}, "features": {}, "types": {}, "zone_loads": 0}

    # ---------------------------------------------------------------- D
    seen = {}
    _mc(res, wd, "MC_ZoneLex", "MC_ZoneLex.tla",
        _patched_cfg(wd, "MC_ZoneLex.cfg", "MC_ZoneLex", [("MaxLen = 4", "MaxLen = 5")] if thorough else []),
        (), seen)
    _mc(res, wd, "MC_ZoneFile_inherit", "MC_ZoneFile.tla",
        _patched_cfg(wd, "MC_ZoneFile_inherit.cfg", "MC_ZoneFile_inherit", [] if thorough else [("MaxEntries = 4", "MaxEntries = 3")]),
        ("CloseLate",), seen)
    _mc(res, wd, "MC_ZoneFile_rdata", "MC_ZoneFile.tla",
        _patched_cfg(wd, "MC_ZoneFile_rdata.cfg", "MC_ZoneFile_rdata",
                     [("Seps <- R_Seps", "Seps <- R_Seps2")] if thorough else []),
        ("PutBlankLine", "AOrigin", "ATtl", "PutOrigin", "PutTtl"), seen)
    never = [a for a in ("PutOrigin", "PutTtl", "PutBlankLine", "StartRR", "PutHead", "AField", "CloseLate", "EndRR", "Finish")
             if seen.get(a, 0) == 0]
    if never:
        raise vlib.ToolError(f"vacuous model: printer actions never taken in any configuration: {never}")

    # ---------------------------------------------------------------- R (i): whole files
    per = 120 if not thorough else 500
    runs = [("core", "{}", "G_Core", "G_None", 10), ("core2", "{}", "G_All", "G_None", 14),
            ("zone", "{}", "G_Zone", "G_Soa", 10), ("zone2", "{}", "G_ZoneB", "G_Soa", 14),
            # classes other than IN (class inherited from the previous entry), <character-string> and label
            # boundary values, and (kept apart) interior underscores
            ("nonin", "{}", "G_NonIN", "G_None", 9), ("bounds", "{}", "G_BL", "G_None", 8),
            ("label_und", "{}", "G_AllUnd", "G_None", 8)]
    for _name, _ind, sw in FEATURES:
        if sw:
            runs.append((sw.replace("$", "").replace("-", "_"), '{"%s"}' % sw, "G_All", "G_None", 8))
    if thorough:
        runs += [("core3", "{}", "G_All", "G_None", 20), ("core4", "{}", "G_All", "G_None", 6),
                 ("zone3", "{}", "G_Zone", "G_Soa", 20), ("zone4", "{}", "G_Zone", "G_Soa", 6)]

    def one_gen(i_run):
        i, (name, opt, records, first, maxrr) = i_run
        gname = f"GF_{name}"
        swd = os.path.join(wd, gname)
        os.makedirs(os.path.join(swd, "tmp"), exist_ok=True)
        tla, cfg = vlib.wrapper(swd, gname, "Gen_ZoneFile", {"P_Opt": opt},
                                [l.format(records=records, first=first, maxrr=maxrr, minrr=maxrr // 2, maxent=maxrr + 8)
                                 for l in GEN_CFG])
        n = per if "core" in name or "zone" in name else max(per // 2, 60)
        if name in ("label_und", "bounds"):
            n = max(per // 4, 30)
        elif name in ("core2", "zone2"):
            n = per * 2 // 3
        cases, _st = vlib.gen(tla, cfg, swd, timeout=1200 if thorough else 400, simulate=(n, 400), seed=seed * 1000 + i + 1,
                              heap="2g")
        return name, cases

    all_cases = []
    with ThreadPoolExecutor(max_workers=6) as ex:
        for name, cases in ex.map(one_gen, list(enumerate(runs))):
            vlib.log(f"[c20] Gen_ZoneFile {name}: {len(cases)} files")
            if not cases:
                raise vlib.ToolError(f"generator {name} produced no files")
            for c in cases:
                c["gen"] = name
            all_cases += cases
    corpus = _replay(res, wd, "files", all_cases, "printer", counts)
    res.extra["generated_files_replayed"] = len(all_cases)

    # ---------------------------------------------------------------- R (ii): lexical level, exhaustive
    lex_runs = [("L3", "G_Alphabet", 0, 3, "G_Templates")]
    if thorough:
        lex_runs.append(("L4", "G_Alphabet", 4, 4, "G_Templates"))
    else:
        lex_runs.append(("L4s", "G_Alphabet", 4, 4, "G_Templates1"))
    nlex = 0
    for name, alpha, minlen, maxlen, tpl in lex_runs:
        tla, cfg = vlib.wrapper(wd, name, "Gen_ZoneLex", {},
                                [l.format(alpha=alpha, minlen=minlen, maxlen=maxlen, tpl=tpl) for l in LEX_CFG])
        cases, st = vlib.gen(tla, cfg, wd, workers=6, timeout=1500, heap="6g")
        vlib.log(f"[c20] Gen_ZoneLex {name}: {len(cases)} texts")
        if not cases:
            raise vlib.ToolError(f"generator {name} produced no cases")
        res.states += st["distinct"]
        res.transitions += st["generated"]
        _replay(res, wd, name, cases, "lexical", counts, zone=False)
        nlex += len(cases)
    res.extra["lexical_cases_replayed"] = nlex
    res.exhaustive = False  # the lexical level is exhaustive in its scope, the whole-file level is sampled

    # ---------------------------------------------------------------- T
    n_rec = 60000 if thorough else 9000
    tpath = os.path.join(wd, "record.trace.ndjson")
    opath = os.path.join(wd, "record.out.ndjson")
    vlib.run_driver("drive_zone", ["record", "--trace", tpath, "--n", str(n_rec), "--seed", str(seed), "--corpus", corpus,
                                   "--max-judged", "9000", "--inc-dir", os.path.join(wd, "include"), "--rdata-sweep"],
                    stdout_path=opath)
    kinds = {}
    outs = {}
    for v in vlib.read_ndjson(opath):
        kinds[v["kind"]] = kinds.get(v["kind"], 0) + 1
        outs[v["st"]] = outs.get(v["st"], 0) + 1
    mism, tst = _trace_parallel(wd, tpath, shards=12 if thorough else 6)
    n_rec = sum(kinds.values())          # + the RDATA sweep and the hand-written $INCLUDE situations
    res.traces += n_rec
    res.evaluations += n_rec
    res.extra["recorded_texts_validated"] = n_rec
    res.extra["recorded_kinds"] = kinds
    res.extra["recorded_outcomes"] = outs
    res.extra["trace_events_validated"] = tst["distinct"]
    for m in mism:
        obs = m["observed"]["st"]
        exp_st = m["expected"]["st"]
        if obs in ("PANIC", "HANG"):
            cls = obs.lower()
        elif exp_st == "ok" and obs == "err":
            cls = "valid-file-rejected"
        elif exp_st == "ok":
            cls = "records-differ"
        elif exp_st == "err":
            cls = "malformed-text-accepted"
        else:
            cls = "unclassified:" + vlib.digest([exp_st, obs])
        text = m.get("text", "")
        _report(res, cls, m.get("tags"), exp_st, "parser", m["observed"],
                {"source": "recorded:" + str(m.get("kind")), "case": m["case"],
                 "text": text if len(text) < 2000 else text[:300] + f"...[{len(text)} chars]",
                 "expected": m["expected"], "observed": m["observed"], "tags": m.get("tags")})
    res.extra["cases_by_expectation"] = counts["by_expectation"]
    res.extra["layout_features_exercised"] = dict(sorted(counts["features"].items()))
    res.extra["record_types_exercised"] = dict(sorted(counts["types"].items()))
    res.extra["zone_loads_through_file_store"] = counts["zone_loads"]
    missing = [t for t in ("A", "AAAA", "NS", "CNAME", "MX", "SOA", "TXT", "SRV", "PTR", "CAA", "NAPTR", "HINFO", "SSHFP",
                           "TLSA", "SVCB", "HTTPS", "DS") if counts["types"].get(t, 0) == 0]
    if missing:
        raise vlib.ToolError(f"record types never generated: {missing}")


def replay(res, path):
    """Re-run one stored mismatch against the real code."""
    d = json.load(open(path))
    det = d.get("detail", {})
    print(json.dumps({k: det.get(k) for k in ("source", "text", "expected", "tags")}, indent=1)[:3000])
    if "text" in det and "expected" in det and "..." not in det["text"][-30:] and det["expected"].get("st") in ("ok", "err", "unspec"):
        vlib.build_harness(BINS)
        wd = vlib.workdir("c20_replay")
        c = {"text": det["text"], "origin": det.get("origin", ["example", "com"]), "exp": det["expected"],
             "tags": det.get("tags", []), "zone": False}
        cp = os.path.join(wd, "case.ndjson")
        vlib.write_ndjson(cp, [c])
        out = vlib.run_driver("drive_zone", ["replay"], stdin_path=cp)
        v = json.loads(out.splitlines()[0])
        print("observed now:", json.dumps(v["observed"])[:2000])
        print("verdict:", "ok" if v["ok"] else v["class"])
        return 0 if v["ok"] else 1
    return 0
