"""C15 through the resolver -- TTLs and valid_until() of what Resolver::lookup / lookup_ip return.

Called from c15.py: `c15_resolver.run(res, tier, seed)` (the caller lists "drive_stub" in BINS; nothing
is built here).  `drive_stub ttl` runs sequences of lookups of one name on a fresh real Resolver over a
scripted upstream while tokio's paused clock advances in steps of 0.5 s (first answers, cache hits,
re-lookups after expiry; typed lookups and lookup_ip under every LookupIpStrategy; upstream TTLs drawn
around positive_min_ttl / positive_max_ttl, also unset) and records one event per lookup.  The TLA+
monitor Trace_LookupTtl judges every event with the operators of CacheOps.
"""
import os

import vlib

# monitor problem -> finding class
CLASS = {"ttl-wrong": "lookup-ttl-wrong", "ttl-increased": "lookup-ttl-wrong", "served-late": "served-late",
         "valid-until-too-late": "valid-until-too-late", "valid-until-in-the-past": "valid-until-in-the-past", "panic": "panic"}
PRIORITY = ["panic", "served-late", "ttl-wrong", "ttl-increased", "valid-until-too-late", "valid-until-in-the-past"]


def run(res, tier, seed):
    thorough = tier == "thorough"
    wd = vlib.workdir("c15_resolver")
    n_rand = 3000 if thorough else 30
    tpath = os.path.join(wd, "ttl.trace.ndjson")
    opath = os.path.join(wd, "ttl.out")
    vlib.run_driver("drive_stub", ["ttl", "--trace", tpath, "--n", str(n_rand), "--seed", str(seed)], stdout_path=opath)
    tot = {"cases": 0, "lookups": 0, "hits": 0, "refetches": 0, "dual": 0}
    for v in vlib.read_ndjson(opath):
        tot["cases"] += 1
        for k in ("lookups", "hits", "refetches", "dual"):
            tot[k] += v[k]
        if v["hits"] > 0 and v["refetches"] > 0:
            res.nontrivial.add("ttl-" + v["case"])
    if min(tot.values()) == 0:
        raise vlib.ToolError(f"vacuous resolver TTL run: {tot}")
    tla = os.path.join(vlib.SPEC, "Trace_LookupTtl.tla")
    cfg = os.path.join(vlib.SPEC, "Trace_LookupTtl.cfg")
    if thorough:
        mism, tst = vlib.trace_check_parallel(tla, cfg, wd, tpath, shards=4, timeout=1500)
    else:
        mism, tst = vlib.trace_check(tla, cfg, wd, tpath, timeout=600)
    res.traces += tot["cases"]
    res.evaluations += tot["lookups"]
    res.extra["resolver_ttl"] = dict(tot, trace_events_validated=(tst or {}).get("distinct", 0), monitor_mismatches=len(mism))
    res.assumptions.append(
        "resolver TTL run (drive_stub ttl): valid_until() is compared with the remaining lifetime counted in whole seconds "
        "elapsed, like the TTLs (a deadline built from a reported TTL may lie up to the fraction of the current second "
        "beyond the entry's expiry); one pair of positive bounds for all types (ResolverOpts), no aliases, no latency")
    for m in mism:
        harness = [p for p in m["problems"] if p.startswith("harness:")]
        if harness:
            raise vlib.ToolError(f"resolver TTL trace inconsistent ({harness[0]}): case {m['case']} line {m['line']}")
        e = m["event"]
        for prob in sorted(m["problems"], key=lambda p: PRIORITY.index(p) if p in PRIORITY else 99):
            res.mismatch(CLASS.get(prob, prob), {"via": "resolver", "problem": prob, "api": e["api"],
                                                  "strategy": e["strategy"] if e["api"] == "ip" else "-"},
                         {"case": m["case"], "line": m["line"], "event": e, "detail": m.get("detail"),
                          "rerun": f"drive_stub ttl --n {n_rand} --seed {seed}"})
