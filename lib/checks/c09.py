"""C09 -- NSEC3 denial of existence is sound, complete and iteration-bounded.

D: Nsec3.tla model-checked: the declarative reading of NSEC3 records (Nsec3Ops.Entails3, RFC 5155 8 +
   RFC 6840 4 + RFC 9276 3.2) accepts the proof RFC 5155 7.2 prescribes and nothing that is false of
   the name space, for every zone, Opt-Out setting, several hash orders, every question and every
   mixture of genuine records (this zone, child zone, parent zone, an older chain with other
   parameters); iteration limits and same-parameters / same-zone requirements as invariants.
R: the driver computes REAL hashes (SHA-1, real salts and iteration counts) of the name universe;
   they become the constant hash table of Gen_Nsec3, which enumerates zones x Opt-Out x parameter sets
   x questions with the families of record subsets Entails3 accepts.  drive_nsec3 concretises the
   records with the same hashes, offers every subset to the real verify_nsec3 (hook H1) and
   compares; records over the limits must give Bogus / not Secure; the prescribed proof must be
   accepted.  End to end: the zone signed by InMemoryZoneHandler (NxProofKind::Nsec3) behind Catalog,
   judged by verify_nsec3 and DnssecDnsHandle.
T: seeded random larger zones, random salts / iterations / Opt-Out / limits, perturbed proofs incl.
   records of a second chain with other parameters.  Every event is judged by Trace_Nsec3.
"""
import json
import os
import subprocess

import vlib

BINS = ["drive_nsec3"]

EX = [101, 120, 97, 109, 112, 108, 101]
SOFT, HARD = 5, 10
# real parameter sets behind the model's ids: iteration counts at / above the limits included
REAL_PARAMS = {
    "p0": {"salt": "", "iter": 0},
    "p1": {"salt": "ab", "iter": SOFT},
    "p2": {"salt": "cdef01", "iter": SOFT + 1},
    "p3": {"salt": "ff", "iter": HARD + 1},
    "p4": {"salt": "5a", "iter": 0},       # an older chain of the same zone
    "p5": {"salt": "0102030405060708", "iter": 1},
    "p6": {"salt": "", "iter": HARD},
}

COMMON = ["Apex <- MC_Apex", "PlainKinds <- MC_PlainKinds", "WildKinds <- MC_WildKinds", "ParentZone <- MC_ParentZone",
          "HT <- G_HT", f"Soft = {SOFT}", f"Hard = {HARD}"]

# (name, Universe, QNames, QTypes, MaxOwners, GenK, zone params, stale params, OptOuts)
GEN_QUICK = [
    ("G3q", "Q_Universe6", "Q_QNames10", "S3_QTypes", 1, 3, ["p1", "p2", "p3"], ["p4"], "{FALSE, TRUE}"),
]
GEN_THOROUGH = [
    ("G3a", "Q_Universe6", "Q_QNames10", "Q_QTypes", 1, 3, ["p0", "p1", "p2", "p3", "p5", "p6"], ["p4"], "{FALSE, TRUE}"),
    ("G3b", "Q_Universe6", "Q_QNames10", "S3_QTypes", 2, 3, ["p0", "p5"], [], "{FALSE, TRUE}"),
    ("G3c", "Q_Universe", "Q_QNames", "S3_QTypes", 2, 3, ["p4"], [], "{FALSE}"),
]

# fixed order in which alternative explanations are attributed: Opt-Out first (where an Opt-Out record is
# involved that is the likeliest route), then from the narrowest clause to the broadest
PRIORITY = ["optout-cover-for-any-claim", "rfc6840-type-at-delegation", "nodata-at-apex-unproven",
            "wildcard-answer-judged-as-nodata", "ds-optout-encloser-unproven", "encloser-may-be-delegation-or-dname",
            "zone-unchecked-without-soa", "last-nsec3-covers-everything"]


def nm(n):
    return ".".join(bytes(l).decode("latin1") for l in n) + "."


def tla_name(n):
    return "<<" + ", ".join("<<" + ", ".join(str(b) for b in l) + ">>" for l in n) + ">>"


def universe_names():
    """every name the model may hash: labels {*, a, b}, depth <= 4 below example., example. itself, the root,
    the sibling delegation d. -- a superset of Nsec3Scopes.Closure(...)"""
    labels = [[42], [97], [98]]
    level = [[EX]]
    names = [[], [EX], [[100]], [[42]], [[42], [100]], [[97], [100]], [[42], [97], [100]]]
    for _ in range(4):
        level = [[l] + n for n in level for l in labels]
        names += level
    return names


def rec_str(r):
    return (f"h={r['oh']} next={r['nh']} [{' '.join(r['types'])}]{' optout' if r['optout'] else ''} "
            f"{r['params']['id']}/it{r['params']['iter']} zone={nm(r['zone'])}")


def ev_key(e):
    return json.dumps([e["q"], e["t"], e["kind"], e["ce"], e["zn"], e["soft"], e["hard"],
                       sorted(json.dumps(p, sort_keys=True) for p in e["proof"]), e["verdict"], e["origin"]])


def describe(e):
    return {"q": nm(e["q"]), "t": e["t"], "claim": e["kind"] + (" from *." + nm(e["ce"]) if e["kind"] == "wild" else ""),
            "zone_named": nm(e["zn"]) if e["zn"] else None, "proof": [rec_str(r) for r in e["proof"]],
            "soft": e["soft"], "hard": e["hard"], "verdict": e["verdict"], "full_validator": e.get("full"), "origin": e["origin"]}


def classify_chain(m):
    """published NSEC3 chain differs from the chain the specification derives from the zone"""
    j = m["judge"]
    miss = {nm(x["name"]): x for x in j["missing"]}
    extra = {}
    for x in j["extra"]:
        for n in x["names"]:
            extra[nm(n)] = x
    both = sorted(set(miss) & set(extra))
    bitmap = [n for n in both if sorted(miss[n]["types"]) != sorted(extra[n]["types"])]
    fields = {"what": "bitmap" if bitmap else ("next" if both else "names"),
              "published_bitmap_empty": any(not extra[n]["types"] for n in bitmap),
              "opt_out": bool(m["event"]["oo"])}
    detail = {"missing(expected, not published)": [{"name": n, "types": sorted(x["types"]), "next": nm(x["next"])} for n, x in sorted(miss.items())],
              "extra(published, not expected)": [{"names": [nm(n) for n in x["names"]], "types": sorted(x["types"]),
                                                  "next": [nm(n) for n in x["nextNames"]], "optout": x["optout"]} for x in j["extra"]]}
    return [("published-chain-wrong", fields)], detail


def classify(m):
    e, j = m["event"], m["judge"]
    out = []
    if e["verdict"] == "PANIC":
        out.append(("panic", {"kind": e["kind"]}))
    if not j["known"]:
        raise vlib.ToolError("event with a parameter set missing from its hash table: " + json.dumps(describe(e))[:400])
    if not j["limits"]:
        over_hard = any(r["params"]["iter"] > e["hard"] for r in e["proof"])
        out.append(("iteration-limit-not-enforced", {"over": "hard" if over_hard else "soft", "verdict": e["verdict"],
                                                     "full": e.get("full", "n/a")}))
    if not j["sound"]:
        cands = sorted((tuple(sorted(p, key=PRIORITY.index)) for p in j["explainedByMin"]),
                       key=lambda p: [PRIORITY.index(x) for x in p])
        rules = list(cands[0]) if cands else []
        if not rules:
            out.append(("unclassified:" + vlib.digest(describe(e)), {"kind": e["kind"]}))
        for r in rules:
            out.append(("unsound-accept", {"explained_by": r, "kind": e["kind"], "t_is_ds": e["t"] == "DS"}))
    if not j["complete"]:
        common = {"ent": j["ent"], "uses_optout": j["usesOptOut"], "t_is_ds": e["t"] == "DS"}
        if e["origin"] == "prescribed":
            out.append(("prescribed-proof-rejected", dict(common, lookup=j["lookup"], kind=e["kind"])))
        else:
            out.append(("server-response-rejected",
                        dict(common, expected=j["lookup"], got=e["kind"], proof_entails=j["entails"], no_proof=j["noProof"])))
    return out


def hash_table_tla(params):
    """real hashes of the universe under the given parameter sets -> TLA+ function literal"""
    inp = json.dumps({"names": universe_names(), "params": {k: REAL_PARAMS[k] for k in params}})
    p = subprocess.run([os.path.join(vlib.BIN, "drive_nsec3"), "hashes"], input=inp, capture_output=True, text=True, timeout=600)
    if p.returncode != 0:
        vlib.log(p.stderr[-2000:])
        raise vlib.ToolError("drive_nsec3 hashes failed")
    ht = json.loads(p.stdout)
    parts = []
    for pid in sorted(ht):
        rows = " @@ ".join(f"({tla_name(n)} :> <<{h[0]}, {h[1]}>>)" for n, h in ht[pid])
        parts.append(f"{pid} |-> ({rows})")
    return "[" + ", ".join(parts) + "]"


def pset(ids):
    return "{" + ", ".join(f'[id |-> "{i}", iter |-> {REAL_PARAMS[i]["iter"]}]' for i in ids) + "}"


def run(res, tier, seed):
    res.rule = ("case = (zone, Opt-Out, parameter set, question, claim, offered NSEC3 subset); non-trivial = at least one "
                "offered subset is accepted or entailed or carries a record over an iteration limit (counted by the "
                "driver), plus every end-to-end negative/wildcard response; distinct by content hash")
    res.assumptions = [
        "verify_nsec3 is reached through hook H1 (hickory_net::dnssec::verif::verify_nsec3), a thin wrapper",
        "SHA-1 (the only NSEC3 hash algorithm); hashes computed by the driver with ring and cross-checked against "
        "hickory's Nsec3HashAlgorithm::hash (a disagreement aborts the run); the specification sees the first 60 bits",
        "signatures are not forged: every offered NSEC3 is genuine (a record of some signed chain); wildcard answers "
        "carry a Secure RRSIG with the Labels field and signer of the claim",
        "abstract types {A,NS,DS,CNAME,TXT,SOA}; the RRSIG bit is set in concrete records of non-empty names",
        "TLC 1.8.0 and the JSON projection in harness/src/bin/drive_nsec3 are trusted",
    ]
    wd = vlib.workdir("c09")
    thorough = tier == "thorough"
    mc_tla = os.path.join(vlib.SPEC, "MC_Nsec3.tla")
    # ---- D
    cfgs = ["MC_Nsec3", "MC_Nsec3_limits"] + (["MC_Nsec3_two", "MC_Nsec3_orders"] if thorough else [])
    for cfg in cfgs:
        st = vlib.mc(mc_tla, os.path.join(vlib.SPEC, cfg + ".cfg"), wd, workers=6, timeout=2400)
        res.add_mc(cfg, st)
    for wit in ["W_SecureForged", "W_BogusTrue", "W_Insecure"]:
        with open(os.path.join(vlib.SPEC, "MC_Nsec3_limits.cfg")) as f:
            lines = [("INVARIANTS " + wit) if ln.startswith("INVARIANTS") else ln.rstrip("\n") for ln in f]
        cfgp = os.path.join(wd, wit + ".cfg")
        with open(cfgp, "w") as f:
            f.write("\n".join(lines) + "\n")
        rc, out = vlib.tlc(mc_tla, cfgp, wd, workers=4, timeout=600)
        if f"Invariant {wit} is violated" not in out:
            raise vlib.ToolError(f"vacuous model: witness {wit} not reachable")
    # ---- R (+ end to end)
    gens = GEN_THOROUGH if thorough else GEN_QUICK
    traces = []
    r_keys = set()
    total_cases = 0
    e2e_kinds = {}
    orders = set()
    for (name, uni, qn, qt, mo, k, zp, sp, oos) in gens:
        ht = hash_table_tla(zp + sp)
        cfg_lines = ["SPECIFICATION GenSpec", "CONSTANTS"] + ["  " + c for c in COMMON] + [
            f"  Universe <- {uni}", f"  QNames <- {qn}", f"  QTypes <- {qt}", f"  MaxOwners = {mo}", "  MaxProof = 3",
            "  Params <- G_Params", "  StaleParams <- G_Stale", f"  OptOuts = {oos}", f"  GenK = {k}",
            "INVARIANT Emit", "CHECK_DEADLOCK FALSE"]
        tla, cfg = vlib.wrapper(wd, name, "Gen_Nsec3, Nsec3Scopes", {"G_HT": ht, "G_Params": pset(zp), "G_Stale": pset(sp)}, cfg_lines)
        rc, out = vlib.tlc(tla, cfg, wd, workers=6, timeout=3000, heap="12g")
        if rc != 0 or "No error has been found" not in out:
            i = out.find("Error:")
            vlib.log(out[i:i + 3000] if i >= 0 else out[-3000:])
            raise vlib.ToolError(f"generator {name} failed rc={rc}")
        st = vlib.stats(out)
        cpath = os.path.join(wd, f"{name}.cases.ndjson")
        n_cases = 0
        with open(cpath, "w") as f:
            for c in vlib.replays(os.path.join(wd, f"{name}.out"), from_file=True):
                f.write(json.dumps(c, separators=(",", ":")) + "\n")
                n_cases += 1
        os.remove(os.path.join(wd, f"{name}.out"))
        vlib.log(f"[c09] {name}: {n_cases} cases (zones x opt-out x parameter sets x questions)")
        if not n_cases:
            raise vlib.ToolError(f"generator {name} produced no cases")
        res.states += st["distinct"]
        res.transitions += st["generated"]
        tpath = os.path.join(wd, f"{name}.trace.ndjson")
        vpath = os.path.join(wd, f"{name}.verdicts.ndjson")
        vlib.run_driver("drive_nsec3", ["replay", "--e2e", "--threads", "8", "--trace", tpath, "--max-bad", "4000",
                                        "--params", json.dumps({k_: REAL_PARAMS[k_] for k_ in zp + sp})],
                        stdin_path=cpath, stdout_path=vpath, timeout=3000)
        n = 0
        for v in vlib.read_ndjson(vpath):
            n += 1
            res.evaluations += v["evals"]
            if v["secure_sets"] or v["entailed_sets"] or v["limit_sets"]:
                res.nontrivial.add(vlib.digest(v["input"]))
            if v["nbad"] > len(v["bad"]):
                raise vlib.ToolError("driver truncated its list of disagreements; raise --max-bad")
            e2 = v["observed"]["e2e"]
            if "error" in e2:
                raise vlib.ToolError(f"end-to-end query failed: {e2['error']}")
            kk = f"{v['input']['lookup']}->{e2['kind']}:{e2['hook']}/{e2['full']}"
            e2e_kinds[kk] = e2e_kinds.get(kk, 0) + 1
            orders.add((v["input"]["par"]["id"], json.dumps(v["input"]["zone"], sort_keys=True), v["input"]["oo"]))
            if v["secure_sets"] > 1:
                res.sample({"zone": {nm(z["n"]): z["ty"] for z in v["input"]["zone"]}, "opt_out": v["input"]["oo"],
                            "params": REAL_PARAMS[v["input"]["par"]["id"]], "q": nm(v["input"]["q"]), "t": v["input"]["t"],
                            "rfc1034_lookup": v["input"]["lookup"], "subsets_x_orders_offered": v["evals"],
                            "accepted_subsets": v["secure_sets"], "entailed_subsets": v["entailed_sets"],
                            "end_to_end": e2}, cap=2)
        if n != n_cases:
            raise vlib.ToolError("driver lost cases")
        total_cases += n
        res.traces += n
        traces.append(("R", tpath))
        os.remove(cpath)
    res.exhaustive = True
    # ---- T
    n_zones, per_zone = (300, 40) if thorough else (40, 25)
    rpath = os.path.join(wd, "random.trace.ndjson")
    vlib.run_driver("drive_nsec3", ["record", "--trace", rpath, "--n", str(n_zones), "--per-zone", str(per_zone), "--seed", str(seed)],
                    stdout_path=os.path.join(wd, "random.out"), timeout=3000)
    n_rand_events = 0
    for v in vlib.read_ndjson(os.path.join(wd, "random.out")):
        if "error" in v:
            raise vlib.ToolError(f"record: {v['error']}")
        n_rand_events += v["events"]
        if v["secure"]:
            res.nontrivial.add("r" + str(v["case"]))
    traces.append(("T", rpath))
    # ---- the monitor judges
    all_trace = os.path.join(wd, "all.trace.ndjson")
    seen = set()
    n_server = n_events = n_chain = 0
    with open(all_trace, "w") as out:
        for src, t in traces:
            pending = None
            for e in vlib.read_ndjson(t):
                if e["ev"] == "reset":
                    pending = e
                    continue
                if e["ev"] == "chain":
                    n_chain += 1
                    if pending is not None:
                        out.write(json.dumps(pending, separators=(",", ":")) + "\n")
                        pending = None
                    out.write(json.dumps(e, separators=(",", ":")) + "\n")
                    continue
                n_events += 1
                k = ev_key(e)
                if src == "R" and e["origin"] != "server":
                    r_keys.add(k)
                if e["origin"] == "forged":
                    if k in seen:
                        continue
                    seen.add(k)
                n_server += e["origin"] == "server"
                if pending is not None:
                    out.write(json.dumps(pending, separators=(",", ":")) + "\n")
                    pending = None
                out.write(json.dumps(e, separators=(",", ":")) + "\n")
    mism, tst = vlib.trace_check_parallel(os.path.join(vlib.SPEC, "Trace_Nsec3.tla"), os.path.join(vlib.SPEC, "Trace_Nsec3.cfg"),
                                          wd, all_trace, shards=8 if thorough else 6, timeout=3000)
    res.traces += tst["cases"]
    res.evaluations += n_rand_events
    res.extra.update({
        "generated_cases_replayed": total_cases,
        "real_hash_orders_exercised(zone x parameter set x opt-out)": len(orders),
        "end_to_end_responses_judged": n_server,
        "end_to_end_matrix(rfc_lookup->server_kind:verify_nsec3/validator)": e2e_kinds,
        "random_zone_events": n_rand_events,
        "trace_events_validated": tst["distinct"],
        "events_recorded": n_events,
        "iteration_limits": {"soft": SOFT, "hard": HARD, "parameter_sets": REAL_PARAMS},
    })
    res.extra["published_chains_audited"] = n_chain
    if not n_chain:
        raise vlib.ToolError("no published NSEC3 chain was audited")
    confirmed = {ev_key(dict(m["event"], ht=None)) for m in mism if m["event"]["ev"] != "chain"}
    missing = r_keys - confirmed
    if missing:
        raise vlib.ToolError(f"Gen_Nsec3 and Trace_Nsec3 disagree on {len(missing)} offered proofs, e.g. {sorted(missing)[0][:500]}")
    examples = {}
    for m in mism:
        if m["event"]["ev"] == "chain":
            cl, detail = classify_chain(m)
            for cls, fields in cl:
                res.mismatch(cls, fields, {"chain": detail, "case": m["case"]})
                examples.setdefault(cls + ":" + fields["what"], detail)
            continue
        cl = classify(m)
        if not cl:
            raise vlib.ToolError("monitor rejected an event without a reason: " + json.dumps(m)[:600])
        for cls, fields in cl:
            res.mismatch(cls, fields, {"event": describe(m["event"]), "judge": m["judge"], "case": m["case"]})
            k = cls + ":" + str(fields.get("explained_by", fields.get("expected", fields.get("lookup", ""))) ) + (
                "->" + str(fields["got"]) if "got" in fields else "")
            if k not in examples and len(examples) < 40:
                examples[k] = describe(m["event"])
    res.extra["disagreement_examples(one per class)"] = examples


def replay(res, path):
    d = json.load(open(path))
    print(json.dumps(d, indent=1)[:6000])
    return 0
