"""Shared machinery for /verif/check: TLC runner, REPLAY/MISMATCH parsing, harness build,
findings classification, evidence writer.

Exit code convention for checks: 0 held, 1 VIOLATION printed, 2 tool error / timeout.
"""
import hashlib
import json
import os
import re
import shutil
import subprocess
import sys
import time

VERIF = os.path.dirname(os.path.dirname(os.path.abspath(__file__)))
SPEC = os.path.join(VERIF, "spec")
HARNESS = os.path.join(VERIF, "harness")
WORK = os.path.join(VERIF, "work")
OUT = VERIF  # evidence/ and replays/ live here
REPO = "/repo"

# Developer facility (never used by registered commands): VERIF_REPO=<scratch worktree> runs a
# check against another copy of the repository without touching /repo. The harness manifest is
# copied with its path dependencies re-pointed, sources are shared by symlink, and build
# output, TLC scratch, evidence and replays all go under <worktree>/.verif-alt so that they
# disappear together with the worktree.
_alt = os.environ.get("VERIF_REPO")
if _alt and os.path.realpath(_alt) != "/repo":
    REPO = os.path.realpath(_alt)
    _root = os.path.join(REPO, ".verif-alt")
    os.makedirs(os.path.join(_root, "harness", ".cargo"), exist_ok=True)
    with open(os.path.join(HARNESS, "Cargo.toml")) as _f:
        _t = _f.read().replace('"/repo/', '"' + REPO + "/")
    with open(os.path.join(_root, "harness", "Cargo.toml"), "w") as _f:
        _f.write(_t)
    for _n in ("Cargo.lock", ".cargo/config.toml"):
        shutil.copy(os.path.join(HARNESS, _n), os.path.join(_root, "harness", _n))
    _src = os.path.join(_root, "harness", "src")
    if not os.path.islink(_src):
        os.symlink(os.path.join(HARNESS, "src"), _src)
    HARNESS = os.path.join(_root, "harness")
    WORK = os.path.join(_root, "work")
    OUT = _root
BIN = os.path.join(HARNESS, "target", "release")
TLC_CP = "/opt/veriftools/tla/tla2tools.jar:/opt/veriftools/tla/CommunityModules-deps.jar"


class ToolError(Exception):
    """Something in the machinery failed (build, TLC crash, timeout). Never a violation."""


def log(*a):
    print(*a, file=sys.stderr, flush=True)


# --------------------------------------------------------------------------------------
# harness build


def build_harness(bins=None):
    """cargo build --release --offline of the harness; rebuilds the hickory crates from
    /repo's working tree (path dependencies)."""
    t0 = time.time()
    cmd = ["cargo", "build", "--release", "--offline"]
    for b in bins or []:
        cmd += ["--bin", b]
    env = dict(os.environ, CARGO_NET_OFFLINE="true")
    p = subprocess.run(cmd, cwd=HARNESS, env=env, stdout=subprocess.PIPE, stderr=subprocess.STDOUT, text=True)
    if p.returncode != 0:
        log(p.stdout[-6000:])
        raise ToolError("harness build failed")
    log(f"[build] ok in {time.time() - t0:.1f}s")


# --------------------------------------------------------------------------------------
# TLC


_WORKDIRS = []


def workdir(name):
    d = os.path.join(WORK, name)
    shutil.rmtree(d, ignore_errors=True)
    os.makedirs(d, exist_ok=True)
    os.makedirs(os.path.join(d, "tmp"), exist_ok=True)
    _WORKDIRS.append(d)
    return d


def prune_workdirs(limit=8 << 20):
    """Disk is limited and a thorough tier writes tens of GB of cases / traces / TLC output: after a run
    without violations keep only the small files (configs, summaries); VERIF_KEEP_WORK=1 keeps all."""
    if os.environ.get("VERIF_KEEP_WORK"):
        return
    for d in _WORKDIRS:
        for root, _dirs, files in os.walk(d):
            for f in files:
                p = os.path.join(root, f)
                try:
                    if os.path.getsize(p) > limit:
                        os.remove(p)
                except OSError:
                    pass


def wrapper(wd, name, extends, defs, cfg_lines):
    """Write <wd>/<name>.tla (EXTENDS <extends>, plus constant definitions) and <name>.cfg.
    cfg files cannot hold sequences, so constants live in the wrapper and are substituted
    with `<-`."""
    tla = [f"---- MODULE {name} ----", f"EXTENDS {extends}"]
    for k, v in defs.items():
        tla.append(f"{k} == {v}")
    tla.append("====")
    with open(os.path.join(wd, name + ".tla"), "w") as f:
        f.write("\n".join(tla) + "\n")
    with open(os.path.join(wd, name + ".cfg"), "w") as f:
        f.write("\n".join(cfg_lines) + "\n")
    return os.path.join(wd, name + ".tla"), os.path.join(wd, name + ".cfg")


def tlc(tla, cfg, wd, workers=8, timeout=600, extra=None, env=None, heap="8g", trace_mode=False, out_file=None):
    """Run TLC; returns the full output text. Raises ToolError on timeout."""
    java = ["java", "-XX:+UseParallelGC", f"-Xmx{heap}", f"-Djava.io.tmpdir={os.path.join(wd, 'tmp')}",
            f"-DTLA-Library={SPEC}"]
    if trace_mode:
        java += ["-Xss1g", "-Dtlc2.tool.queue.IStateQueue=StateDeque"]
    md = os.path.join(wd, "md_" + os.path.basename(cfg).replace(".cfg", ""))
    cmd = java + ["-cp", TLC_CP, "tlc2.TLC", "-workers", str(workers), "-metadir", md, "-cleanup",
                  "-noGenerateSpecTE", "-config", cfg] + (extra or []) + [tla]
    e = dict(os.environ)
    e.pop("JAVA_TOOL_OPTIONS", None)
    if env:
        e.update(env)
    t0 = time.time()
    of = out_file or os.path.join(wd, os.path.basename(cfg).replace(".cfg", "") + ".out")
    try:
        with open(of, "w") as fh:
            p = subprocess.run(cmd, cwd=wd, env=e, stdout=fh, stderr=subprocess.STDOUT, timeout=timeout)
    except subprocess.TimeoutExpired:
        raise ToolError(f"TLC timeout after {timeout}s: {cfg}")
    finally:
        shutil.rmtree(md, ignore_errors=True)
    with open(of, errors="replace") as fh:
        out = fh.read()
    log(f"[tlc] {os.path.basename(cfg)} rc={p.returncode} {time.time() - t0:.1f}s")
    return p.returncode, out


_STATS = re.compile(r"(\d+) states generated, (\d+) distinct states found, (\d+) states left on queue")
_DEPTH = re.compile(r"The depth of the complete state graph search is (\d+)")
_COV = re.compile(r"^<(\w+) line \d+, col \d+ to line \d+, col \d+ of module (\w+)(?: \((\d+) \d+ \d+ \d+\))?>: (\d+):(\d+)", re.M)


def stats(out):
    m = None
    for m in _STATS.finditer(out):
        pass
    if not m:
        return None
    d = _DEPTH.search(out)
    return {"generated": int(m.group(1)), "distinct": int(m.group(2)), "left": int(m.group(3)),
            "depth": int(d.group(1)) if d else None}


def coverage(out):
    """per-action (distinct, generated) from `-coverage 1` output (last report wins)."""
    cov = {}
    for m in _COV.finditer(out):
        name = m.group(1) + (("@" + m.group(3)) if m.group(3) else "")
        cov[name] = (int(m.group(4)), int(m.group(5)))
    return cov


def mc(tla, cfg, wd, workers=8, timeout=900, allow_zero=(), heap="8g", extra=None):
    """Exhaustive model check. Any invariant/property violation or TLC error is a ToolError
    here (a broken *design* model is a defect of the machinery, not of hickory-dns, unless a
    check handles it itself). Returns stats dict incl. coverage."""
    rc, out = tlc(tla, cfg, wd, workers=workers, timeout=timeout, extra=["-coverage", "1"] + (extra or []), heap=heap)
    st = stats(out)
    if rc != 0 or st is None or "No error has been found" not in out:
        i = out.find("Error:")
        log(out[i:i + 3000] if i >= 0 else out[-3000:])
        raise ToolError(f"model check failed: {os.path.basename(cfg)} rc={rc}")
    cov = coverage(out)
    st["coverage"] = {k: v[1] for k, v in cov.items()}
    if len(cov) < 2:
        raise ToolError(f"no per-action coverage in {os.path.basename(cfg)}")
    for a, (_d, g) in cov.items():
        if g == 0 and a.split("@")[0] not in allow_zero:
            raise ToolError(f"vacuous model: action {a} never taken in {os.path.basename(cfg)}")
    return st


_REPLAY = re.compile(r'^<<"REPLAY", "(.*)">>\s*$')


def _unescape(s):
    return s.replace('\\"', '"').replace("\\\\", "\\")


def replays(out_text_or_path, from_file=False):
    """Yield the JSON objects printed as <<"REPLAY", "<json>">> by a Gen configuration."""
    it = open(out_text_or_path, errors="replace") if from_file else out_text_or_path.splitlines()
    for line in it:
        m = _REPLAY.match(line.rstrip("\n"))
        if m:
            yield json.loads(_unescape(m.group(1)))
    if from_file:
        it.close()


def gen(tla, cfg, wd, workers=8, timeout=900, simulate=None, seed=0, heap="8g"):
    """Run a Gen configuration; returns (list of case dicts, stats)."""
    extra = []
    if simulate:
        extra = ["-simulate", f"num={simulate[0]}", "-depth", str(simulate[1]), "-seed", str(seed)]
        workers = 1
    rc, out = tlc(tla, cfg, wd, workers=workers, timeout=timeout, extra=extra, heap=heap)
    if rc != 0 and "No error has been found" not in out and not simulate:
        log(out[-4000:])
        raise ToolError(f"generator failed: {os.path.basename(cfg)} rc={rc}")
    if simulate and rc not in (0,):
        # -simulate ends normally after num behaviours
        if "Error:" in out:
            log(out[-4000:])
            raise ToolError(f"generator failed: {os.path.basename(cfg)} rc={rc}")
    cases = list(replays(out))
    return cases, stats(out)


def gen_stream(tla, cfg, wd, out_path, workers=8, timeout=900, heap="8g"):
    """Like gen(), for generators with millions of cases: the REPLAY lines are streamed from TLC's output
    file into `out_path` (NDJSON) without being held in memory.  Returns (number of cases, stats)."""
    java = ["java", "-XX:+UseParallelGC", f"-Xmx{heap}", f"-Djava.io.tmpdir={os.path.join(wd, 'tmp')}", f"-DTLA-Library={SPEC}"]
    md = os.path.join(wd, "md_" + os.path.basename(cfg).replace(".cfg", ""))
    cmd = java + ["-cp", TLC_CP, "tlc2.TLC", "-workers", str(workers), "-metadir", md, "-cleanup", "-noGenerateSpecTE",
                  "-config", cfg, tla]
    e = dict(os.environ)
    e.pop("JAVA_TOOL_OPTIONS", None)
    of = os.path.join(wd, os.path.basename(cfg).replace(".cfg", "") + ".out")
    t0 = time.time()
    try:
        with open(of, "w") as fh:
            p = subprocess.run(cmd, cwd=wd, env=e, stdout=fh, stderr=subprocess.STDOUT, timeout=timeout)
    except subprocess.TimeoutExpired:
        raise ToolError(f"TLC timeout after {timeout}s: {cfg}")
    finally:
        shutil.rmtree(md, ignore_errors=True)
    log(f"[tlc] {os.path.basename(cfg)} rc={p.returncode} {time.time() - t0:.1f}s")
    n = 0
    tail = []
    ok = False
    with open(of, errors="replace") as fh, open(out_path, "w") as out:
        for line in fh:
            m = _REPLAY.match(line)
            if m:
                out.write(_unescape(m.group(1)) + "\n")
                n += 1
            else:
                if "No error has been found" in line:
                    ok = True
                tail.append(line)
                if len(tail) > 400:
                    del tail[:200]
    text = "".join(tail)
    if p.returncode != 0 and not ok:
        log(text[-4000:])
        raise ToolError(f"generator failed: {os.path.basename(cfg)} rc={p.returncode}")
    os.remove(of)
    return n, stats(text)


_MISMATCH = re.compile(r'^<<"MISMATCH", "(.*)">>\s*$')


def trace_check(trace_tla, cfg, wd, trace_file, timeout=900, heap="4g", env=None):
    """Validate an NDJSON trace against a monitor-style trace spec.
    Returns (mismatches:list of dict, stats). Raises ToolError if the trace was not consumed."""
    e = {"TRACE": trace_file}
    e.update(env or {})
    rc, out = tlc(trace_tla, cfg, wd, workers=1, timeout=timeout, env=e, heap=heap, trace_mode=True,
                  out_file=os.path.join(wd, os.path.basename(trace_file) + ".tlc.out"))
    mism = []
    for line in out.splitlines():
        m = _MISMATCH.match(line)
        if m:
            mism.append(json.loads(_unescape(m.group(1))))
    if "TRACE-CONSUMED" not in out or rc != 0:
        log(out[-4000:])
        raise ToolError(f"trace not consumed: {os.path.basename(trace_file)} rc={rc}")
    return mism, stats(out)


def shard_trace(path, n, wd, is_reset=lambda o: o.get("ev") == "reset"):
    """Split an NDJSON trace at `reset` events into at most n files of similar size."""
    with open(path) as f:
        lines = f.readlines()
    cases, cur = [], []
    for ln in lines:
        if cur and '"ev":"reset"' in ln:
            cases.append(cur)
            cur = []
        cur.append(ln)
    if cur:
        cases.append(cur)
    n = max(1, min(n, len(cases)))
    shards = [[] for _ in range(n)]
    sizes = [0] * n
    for c in cases:
        i = sizes.index(min(sizes))
        shards[i].extend(c)
        sizes[i] += len(c)
    out = []
    for i, s in enumerate(shards):
        p = os.path.join(wd, f"shard{i}.ndjson")
        with open(p, "w") as f:
            f.writelines(s)
        out.append(p)
    return out, len(cases)


def trace_check_parallel(trace_tla, cfg, wd, trace_file, shards=8, timeout=900, heap="3g"):
    from concurrent.futures import ThreadPoolExecutor
    files, ncases = shard_trace(trace_file, shards, wd)
    res = []
    with ThreadPoolExecutor(max_workers=len(files)) as ex:
        futs = []
        for i, f in enumerate(files):
            swd = os.path.join(wd, f"s{i}")
            os.makedirs(os.path.join(swd, "tmp"), exist_ok=True)
            futs.append(ex.submit(trace_check, trace_tla, cfg, swd, f, timeout, heap))
        for fu in futs:
            res.append(fu.result())
    mism = [m for r in res for m in r[0]]
    states = sum((r[1] or {}).get("distinct", 0) for r in res)
    return mism, {"distinct": states, "cases": ncases}


class DriverCrash(ToolError):
    """The driver process (the code under test runs inside it) died of a signal or stopped making
    progress.  That is data about the implementation, not a tool error: `check` narrows it to an
    input and reports it as a violation (see narrow_crash)."""

    def __init__(self, kind, binary, args, rc, stderr, stdin_path, env, stall):
        super().__init__(f"driver {kind} rc={rc}: {binary} {' '.join(args)}")
        self.kind, self.binary, self.args, self.rc = kind, binary, args, rc
        self.stderr, self.stdin_path, self.env, self.stall = stderr, stdin_path, env, stall


def _sizes(paths):
    t = 0
    for p in paths:
        try:
            t += os.path.getsize(p)
        except OSError:
            pass
    return t


def _spawn(binary, args, stdin_path, stdout_path, timeout, env, stall):
    """Run the driver; returns (kind, rc, stdout, stderr) with kind in ok|exit|signal|timeout|stalled.
    `stall`: seconds without growth of any watched output file (stdout file, --trace file) after which
    a still-running driver is taken for hung; None = only the overall timeout."""
    import signal as _sig
    import tempfile
    import time as _t
    cmd = [os.path.join(BIN, binary)] + args
    e = dict(os.environ)
    e.update(env or {})
    watched = [stdout_path] if stdout_path else []
    for i, a in enumerate(args):
        if a in ("--trace", "--out") and i + 1 < len(args):
            watched.append(args[i + 1])
    fin = open(stdin_path) if stdin_path else subprocess.DEVNULL
    fout = open(stdout_path, "w") if stdout_path else tempfile.TemporaryFile("w+")
    ferr = tempfile.TemporaryFile("w+")
    kind = "ok"
    try:
        # a runaway implementation (unbounded allocation in a loop) must not take the machine down with it:
        # the driver's address space is capped, the allocation failure aborts the driver (SIGABRT) and is
        # reported like any other death of the driver process
        cap = int(os.environ.get("VERIF_DRIVER_AS_GB", "24")) << 30

        def _limit():
            import resource
            resource.setrlimit(resource.RLIMIT_AS, (cap, cap))

        p = subprocess.Popen(cmd, stdin=fin, stdout=fout, stderr=ferr, env=e, text=True, preexec_fn=_limit)
        t0 = _t.time()
        last_size, last_change = -1, t0
        while True:
            try:
                p.wait(timeout=2)
                break
            except subprocess.TimeoutExpired:
                pass
            now = _t.time()
            if now - t0 > timeout:
                kind = "timeout"
            elif stall and watched:
                sz = _sizes(watched)
                if sz != last_size:
                    last_size, last_change = sz, now
                elif now - last_change > stall:
                    kind = "stalled"
            if kind != "ok":
                p.kill()
                p.wait()
                break
        rc = p.returncode
        if kind == "ok" and rc != 0:
            kind = "signal" if rc < 0 else "exit"
        ferr.seek(0)
        err = ferr.read()[-6000:]
        out = None
        if not stdout_path:
            fout.seek(0)
            out = fout.read()
        return kind, rc, out, err
    finally:
        if stdin_path:
            fin.close()
        fout.close()
        ferr.close()


# a driver that is alive but has not extended any of its output files for this long is taken for hung
# (cases take milliseconds; the slowest silent phase of any driver on the unchanged tree is well under
# a minute even on a loaded machine).  A hang only becomes a violation after narrow_crash reproduced it.
STALL = int(os.environ.get("VERIF_STALL", "900"))


def run_driver(binary, args, stdin_path=None, stdout_path=None, timeout=1800, env=None, stall=None):
    kind, rc, out, err = _spawn(binary, args, stdin_path, stdout_path, timeout, env, stall or STALL)
    if kind == "ok":
        return out if not stdout_path else None
    log(err[-4000:])
    if kind == "exit":
        # a Rust panic outside catch_unwind exits 101; stack overflow / abort / segfault is a signal
        raise ToolError(f"driver failed rc={rc}: {binary} {' '.join(args)}")
    raise DriverCrash(kind, binary, args, rc, err, stdin_path, env, stall or STALL)


def narrow_crash(c, outdir, probe_stall=90):
    """Reproduce a driver death/hang and narrow it to the shortest failing prefix of its input (and to
    the single last case if that fails alone).  Returns (confirmed, detail).  A death by signal is
    reported even if it cannot be narrowed; a hang only if a re-run shows it again."""
    import signal as _sig
    import shutil
    os.makedirs(outdir, exist_ok=True)
    try:
        signame = _sig.Signals(-c.rc).name if c.rc and c.rc < 0 else ""
    except ValueError:
        signame = str(c.rc)
    detail = {"driver": c.binary, "args": c.args, "kind": c.kind, "signal": signame, "stderr_tail": c.stderr[-1500:],
              "env": c.env or {}}
    scratch = os.path.join(outdir, "narrow")
    os.makedirs(scratch, exist_ok=True)

    def args_for(tag):
        a = list(c.args)
        for i, x in enumerate(a):
            if x in ("--trace", "--out") and i + 1 < len(a):
                a[i + 1] = os.path.join(scratch, f"{tag}.trace")
        return a

    import time as _t

    def fails(lines, tag, stall=probe_stall, timeout=None):
        ip = os.path.join(scratch, f"{tag}.in")
        with open(ip, "w") as f:
            f.writelines(lines)
        t0 = _t.time()
        kind, rc, _o, _e = _spawn(c.binary, args_for(tag), ip, os.path.join(scratch, f"{tag}.out"),
                                  timeout or (c.stall * 2 + 600), c.env, stall)
        return kind in ("signal", "timeout", "stalled"), _t.time() - t0

    if not c.stdin_path:
        # a recording run: deterministic in its arguments; run it once more
        kind, rc, _o, _e = _spawn(c.binary, args_for("rerun"), None, os.path.join(scratch, "rerun.out"),
                                  c.stall * 2 + 600, c.env, c.stall)
        again = kind in ("signal", "timeout", "stalled")
        detail["reproduced"] = again
        shutil.rmtree(scratch, ignore_errors=True)
        return (again or c.kind == "signal"), detail

    lines = open(c.stdin_path).readlines()
    bad, _k = fails(lines, "all", stall=c.stall)
    detail["reproduced"] = bad
    if not bad:
        shutil.rmtree(scratch, ignore_errors=True)
        return c.kind == "signal", detail
    lo, hi = 1, len(lines)          # shortest failing prefix length in [lo, hi]
    while lo < hi:
        mid = (lo + hi) // 2
        b, _k = fails(lines[:mid], f"p{mid}")
        if b:
            hi = mid
        else:
            lo = mid + 1
    single, _k = fails(lines[hi - 1:hi], "single")
    culprit = lines[hi - 1:hi] if single else lines[:hi]
    if c.kind != "signal":
        # a hang counts only if it is out of all proportion: the input without its last case completes
        # in t, the input with it does not complete in 4t + 2 min (no output-stall heuristics here)
        ok_prev, t_prev = (False, 0.0) if len(culprit) == 1 else fails(culprit[:-1], "prev", stall=None)
        if len(culprit) > 1 and ok_prev:
            detail["reproduced"] = False
            shutil.rmtree(scratch, ignore_errors=True)
            return False, detail
        still, t_bad = fails(culprit, "confirm", stall=None, timeout=4 * t_prev + 120)
        detail["confirm"] = {"without_last_case_s": round(t_prev, 1), "with_last_case_gave_up_after_s": round(t_bad, 1)}
        if not still:
            detail["reproduced"] = False
            shutil.rmtree(scratch, ignore_errors=True)
            return False, detail
    cp = os.path.join(outdir, "crash_input.ndjson")
    with open(cp, "w") as f:
        f.writelines(culprit)
    detail.update({"input": cp, "input_cases": len(culprit), "prefix_length": hi,
                   "replay_cmd": f"{os.path.join(BIN, c.binary)} {' '.join(c.args)} < {cp}"})
    try:
        detail["case"] = json.loads(culprit[-1])
    except Exception:
        detail["case"] = culprit[-1][:2000]
    shutil.rmtree(scratch, ignore_errors=True)
    return True, detail


def write_ndjson(path, objs):
    with open(path, "w") as f:
        for o in objs:
            f.write(json.dumps(o, separators=(",", ":")) + "\n")


def read_ndjson(path):
    with open(path) as f:
        for line in f:
            line = line.strip()
            if line:
                yield json.loads(line)


# --------------------------------------------------------------------------------------
# findings


class Findings:
    """KNOWN_FINDINGS.txt: lines `known: property=Cnn class=<c> match=<json> :: text` and
    `fixed: property=Cnn <commit> <text>`. Read-only at run time."""

    def __init__(self, path=os.path.join(VERIF, "KNOWN_FINDINGS.txt")):
        import glob
        self.known = []
        # proposed/*-findings.txt: findings under adjudication while a check is being developed
        paths = [path] + sorted(glob.glob(os.path.join(VERIF, "proposed", "*-findings.txt")))
        for pth in paths:
            if not os.path.exists(pth):
                continue
            for line in open(pth):
                line = line.strip()
                if not line.startswith("known:"):
                    continue
                m = re.match(r"known:\s+property=(\S+)\s+class=(\S+)\s+match=(\{.*?\})\s+::\s*(.*)$", line)
                if not m:
                    raise ToolError(f"bad findings line: {line}")
                self.known.append({"property": m.group(1), "class": m.group(2), "match": json.loads(m.group(3)),
                                   "text": m.group(4)})

    def lookup(self, prop, cls, fields):
        for k in self.known:
            if k["property"] == prop and k["class"] == cls and all(fields.get(f) == v for f, v in k["match"].items()):
                return k
        return None


# --------------------------------------------------------------------------------------
# result collection / evidence


class Result:
    def __init__(self, prop, tier, seed, level="model_checking"):
        self.prop, self.tier, self.seed, self.level = prop, tier, seed, level
        self.t0 = time.time()
        self.states = 0
        self.transitions = 0
        self.traces = 0
        self.evaluations = 0
        self.nontrivial = set()
        self.samples = []
        self.violations = []  # (class, fields, detail)
        self.known_hits = {}
        self.assumptions = []
        self.extra = {}
        self.exhaustive = False
        self.mc_runs = []
        self.findings = Findings()
        self.rule = ""

    def add_mc(self, name, st):
        self.states += st["distinct"]
        self.transitions += st["generated"]
        self.mc_runs.append({"config": name, "distinct": st["distinct"], "generated": st["generated"],
                             "depth": st.get("depth"), "actions": st.get("coverage", {})})

    def sample(self, s, cap=4):
        if len(self.samples) < cap:
            self.samples.append(s)

    def mismatch(self, cls, fields, detail):
        """A disagreement between specification and implementation. Classified against the
        known-findings file; anything not listed is a violation."""
        k = self.findings.lookup(self.prop, cls, fields)
        if k:
            key = (k["class"], json.dumps(k["match"], sort_keys=True))
            self.known_hits.setdefault(key, [k, 0])[1] += 1
        else:
            self.violations.append((cls, fields, detail))

    def finish(self):
        wall = time.time() - self.t0
        for (cls, _m), (k, n) in self.known_hits.items():
            print(f"KNOWN-FINDING: property={self.prop} class={cls} match={json.dumps(k['match'], sort_keys=True)} hits={n} :: {k['text']}")
        rc = 0
        rdir = os.path.join(OUT, "replays", self.prop)
        seen = set()
        for cls, fields, detail in self.violations:
            h = hashlib.sha1(json.dumps([cls, fields], sort_keys=True).encode()).hexdigest()[:12]
            if h in seen:
                continue
            seen.add(h)
            if len(seen) > 8:
                break
            os.makedirs(rdir, exist_ok=True)
            path = os.path.join(rdir, f"{h}.json")
            with open(path, "w") as f:
                json.dump({"property": self.prop, "class": cls, "fields": fields, "detail": detail}, f, indent=1)
            print(f"violation-class: property={self.prop} class={cls} fields={json.dumps(fields, sort_keys=True)[:300]}")
            print(f"VIOLATION property={self.prop} replay={path}")
            rc = 1
        cov = {
            "states": self.states,
            "transitions": self.transitions,
            "traces_validated_against_impl": self.traces,
            "samples": self.samples or ["(no sample recorded)"],
            "evaluations": self.evaluations,
            "distinct_nontrivial": len(self.nontrivial),
            "rule": self.rule,
            "exhaustive": self.exhaustive,
            "model_checks": self.mc_runs,
            "known_findings_hit": [{"class": c, "match": json.loads(m), "hits": v[1]} for (c, m), v in self.known_hits.items()],
        }
        cov.update(self.extra)
        ev = {
            "property_id": self.prop,
            "tier": self.tier,
            "seed": self.seed,
            "level": self.level,
            "coverage": cov,
            "assumptions": self.assumptions,
            "wall_s": round(wall, 2),
            "violations": len(seen),
        }
        os.makedirs(os.path.join(OUT, "evidence"), exist_ok=True)
        with open(os.path.join(OUT, "evidence", f"{self.prop}.json"), "w") as f:
            json.dump(ev, f, indent=1)
        log(f"[{self.prop}] {self.tier} done in {wall:.1f}s: states={self.states} transitions={self.transitions} "
            f"traces={self.traces} evaluations={self.evaluations} nontrivial={len(self.nontrivial)} "
            f"violations={len(seen)} known={len(self.known_hits)}")
        if rc == 0 and self.tier == "thorough":
            prune_workdirs()
        return rc


def digest(obj):
    return hashlib.sha1(json.dumps(obj, sort_keys=True).encode()).hexdigest()[:16]
