SPECIFICATION Spec
CONSTANTS
  Worlds <- MC_WorldsSmall
  Queries <- MC_Queries
  MaxFaults = 1
  FaultsOf <- MC_FaultsOf
  AsIs = {}
INVARIANTS NeverAD
CHECK_DEADLOCK FALSE
