\* C09 obligation D: iteration counts at and above the soft (5) and hard (10) limit, and an older chain of the
\* same zone (other parameters, over the hard limit) mixed into the offered records
SPECIFICATION Spec
CONSTANTS
  Apex <- MC_Apex
  Universe <- Q_Universe6
  PlainKinds <- MC_PlainKinds
  WildKinds <- MC_WildKinds
  MaxOwners = 1
  QNames <- Q_QNames10
  QTypes <- T3_QTypes
  MaxProof = 2
  HT <- Q3_HT
  Params <- L3_Params
  StaleParams <- L3_Stale
  OptOuts = {FALSE}
  ParentZone <- MC_ParentZone
  Soft <- MC_Soft
  Hard <- MC_Hard
INVARIANTS TypeOK C09_Complete C09_CompleteOptOut C09_Sound C09_IterationLimits C09_SameParamsSameZone C09_Monotone
CHECK_DEADLOCK FALSE
