------------------------------ MODULE ZoneFile ------------------------------
(* C20 -- the entry level of RFC 1035 section 5.1 master files (+ RFC 2308   *)
(* section 4 $TTL), written from the RFC text.  Constant-free operator       *)
(* module: Read(text, origin) is the denotation of a text -- the set of      *)
(* records it stands for --, three-valued like ZoneLex:                      *)
(*    [st |-> "ok", recs |-> {...}]   the text is a master file denoting recs *)
(*    [st |-> "err"]                  malformed beyond doubt                  *)
(*    [st |-> "unspec"]               the RFC / property C20 is silent        *)
(* A record is [o |-> owner, c |-> class, t |-> type, ttl |-> ttl, rd |-> rd] *)
(* with owner an absolute name = sequence of lower-case label strings,        *)
(* class/type mnemonics, ttl a decimal string, rd a sequence of field values, *)
(* every field value a sequence of strings (a name = its labels, anything     *)
(* else a singleton) so that all values are comparable.                       *)
(*                                                                           *)
(* Entries (RFC 1035 5.1):  <blank>[<comment>] | $ORIGIN <domain-name> |      *)
(* $INCLUDE ... | <domain-name><rr> | <blank><rr>, <rr> = [<TTL>] [<class>]   *)
(* <type> <RDATA> or [<class>] [<TTL>] <type> <RDATA>; "omitted class and TTL *)
(* values are default to the last explicitly stated values"; an RR beginning  *)
(* with a blank is owned by the last stated owner; names not ending in a dot  *)
(* are relative to the current origin; a free-standing @ denotes the current  *)
(* origin; \X quotes X.  RFC 2308 section 4: $TTL sets the default TTL for    *)
(* the records after it that state no TTL.                                    *)
EXTENDS ZoneLex, FiniteSets

Cat(cs) == FoldLeft(LAMBDA a, c : a \o c, "", cs)     \* characters (or strings) -> string, by a loop

UpperS == "ABCDEFGHIJKLMNOPQRSTUVWXYZ"
LowerS == "abcdefghijklmnopqrstuvwxyz"
LowerOf == [c \in RangeOf(Chars(UpperS)) |-> LET i == CHOOSE i \in 1..26 : SubSeq(UpperS, i, i) = c IN SubSeq(LowerS, i, i)]
Low(c) == IF c \in DOMAIN LowerOf THEN LowerOf[c] ELSE c

AllDigits(cs) == cs # <<>> /\ \A i \in DOMAIN cs : cs[i] \in DigitCh
\* a decimal number in the shortest spelling, at most maxlen digits (so that it is certainly in
\* range of the field: 2 digits for 8 bit, 4 for 16 bit, 9 for 31/32 bit quantities)
IsNumber(cs, maxlen) == AllDigits(cs) /\ Len(cs) <= maxlen /\ (cs[1] = "0" => Len(cs) = 1)

\* ---------------------------------------------------------------------------
\* domain names.  raw = the characters of an unquoted item.
\* Result [st, abs, labels]: labels are lower-cased label *values* (a label may contain a dot
\* if it was written \. ).  Decisive only for host-style labels: letters, digits, interior
\* hyphen, leading underscore, escaped dot, and the wildcard label "*"; label <= 63, name <= 255.
NameInit == [labels |-> <<>>, cur |-> <<>>, esc |-> FALSE, dot |-> FALSE, st |-> "ok"]
NameChar(S, c) ==
    IF S.st # "ok" THEN S
    ELSE IF S.esc THEN
        IF c = "." THEN [S EXCEPT !.cur = Append(@, c), !.esc = FALSE, !.dot = FALSE]
        ELSE [S EXCEPT !.st = "unspec"]      \* \DDD, and escapes other than the dot, are not judged by C20
    ELSE CASE c = "\\" -> [S EXCEPT !.esc = TRUE]
           [] c = "."  -> IF S.cur = <<>> THEN [S EXCEPT !.st = "unspec"]     \* empty label
                          ELSE [S EXCEPT !.labels = Append(@, S.cur), !.cur = <<>>, !.dot = TRUE]
           [] OTHER    -> [S EXCEPT !.cur = Append(@, Low(c)), !.dot = FALSE]

\* Labels the reading is decisive for (RFC 2181 11: any octets are legal in a label; judged here
\* is what Name::from_ascii takes as well): letters, digits, hyphen (anywhere but in the first
\* position: interior, LAST, doubled, also in positions 3-4 as in r3---sn), underscore, escaped
\* dot (interior, not doubled), the wildcard label.  Not judged: a leading hyphen (left open),
\* anything containing "xn--" (IDNA decoding), length > 63.
HasXn(l) == \E i \in 1..(Len(l) - 3) : l[i] = "x" /\ l[i + 1] = "n" /\ l[i + 2] = "-" /\ l[i + 3] = "-"
HostLabel(l) ==
    /\ Len(l) \in 1..63
    /\ \/ l = <<"*">>
       \/ /\ \A i \in DOMAIN l : l[i] \in LetterCh \cup DigitCh \cup {"-", "_", "."}
          /\ l[1] # "-"
          /\ ~HasXn(l)
          /\ l[1] # "." /\ l[Len(l)] # "."                        \* dot at the edge of a label: not judged
          /\ \A i \in 1..(Len(l) - 1) : ~(l[i] = "." /\ l[i + 1] = ".")
\* an underscore anywhere but in a label that starts with one (the SRV style)
Underscored(l) == l[1] # "_" /\ \E i \in DOMAIN l : l[i] = "_"

NameLen(labels) == FoldLeft(LAMBDA a, l : a + 1 + Len(l), 1, labels)

\* origin: sequence of label strings (absolute).  Result name: sequence of label strings.
\* (Helper operators take intermediate results as parameters instead of LET definitions: TLC's
\* coverage instrumentation expands every LET reference, parameters are expanded once.)
NoName == [st |-> "unspec", name |-> <<>>, form |-> "", und |-> FALSE]
OriginLen(origin) == FoldLeft(LAMBDA a, l : a + 1 + Len(l), 0, origin)
NameDone(labs, abs, origin) ==
    IF labs = <<>> \/ \E i \in DOMAIN labs : ~HostLabel(labs[i]) THEN NoName
    ELSE IF NameLen(labs) + (IF abs THEN 0 ELSE OriginLen(origin)) > 255 THEN NoName
    ELSE [st |-> "ok", name |-> [i \in DOMAIN labs |-> Cat(labs[i])] \o (IF abs THEN <<>> ELSE origin),
          form |-> IF abs THEN "abs" ELSE "rel", und |-> \E i \in DOMAIN labs : Underscored(labs[i])]
NameScanned(S, origin) ==
    IF S.st # "ok" \/ S.esc THEN NoName
    ELSE NameDone(IF S.cur = <<>> THEN S.labels ELSE Append(S.labels, S.cur), S.cur = <<>> /\ S.dot, origin)
ParseName(raw, origin) ==
    IF raw = <<"@">> THEN [st |-> "ok", name |-> origin, form |-> "at", und |-> FALSE]
    ELSE IF raw = <<".">> THEN [st |-> "ok", name |-> <<>>, form |-> "abs", und |-> FALSE]
    ELSE NameScanned(FoldLeft(NameChar, NameInit, raw), origin)

HasEscDot(raw) == \E i \in 1..(Len(raw) - 1) : raw[i] = "\\" /\ raw[i + 1] = "."

\* ---------------------------------------------------------------------------
\* character strings.  Quoted: the lexer has applied the escapes.  Unquoted: "a contiguous set
\* of characters without interior spaces"; \X applies (RFC 1035 5.1 does not restrict it to
\* quoted strings).
UnescInit == [out |-> <<>>, esc |-> FALSE, st |-> "ok", any |-> FALSE]
UnescChar(S, c) ==
    IF S.st # "ok" THEN S
    ELSE IF S.esc THEN IF c \in DigitCh THEN [S EXCEPT !.st = "unspec"]
                       ELSE [S EXCEPT !.out = Append(@, c), !.esc = FALSE]
    ELSE IF c = "\\" THEN [S EXCEPT !.esc = TRUE, !.any = TRUE]
    ELSE [S EXCEPT !.out = Append(@, c)]

NoStr == [st |-> "unspec", val |-> "", esc |-> FALSE]
StrScanned(S, it) ==
    IF S.st # "ok" \/ S.esc \/ it.v = <<"@">> \/ Len(S.out) > 255 THEN NoStr
    ELSE [st |-> "ok", val |-> Cat(S.out), esc |-> S.any]
ParseStr(it) ==
    IF it.q THEN IF Len(it.v) <= 255 THEN [st |-> "ok", val |-> Cat(it.v), esc |-> FALSE] ELSE NoStr
    ELSE StrScanned(FoldLeft(UnescChar, UnescInit, it.v), it)

\* ---------------------------------------------------------------------------
\* field values whose text format is outside RFC 1035 5.1 (addresses, hex, base64, parameter
\* lists): the spelling is looked up in a table of spellings -> normal form; anything else is
\* not judged.  <<kind, spelling, normal form>>
AtomTable == {
    <<"a4", "192.0.2.1", "192.0.2.1">>, <<"a4", "198.51.100.77", "198.51.100.77">>, <<"a4", "10.0.0.255", "10.0.0.255">>,
    <<"a4", "203.0.113.9", "203.0.113.9">>,
    <<"a6", "2001:db8::1", "2001:db8::1">>, <<"a6", "2001:0db8:0:0:0:0:0:1", "2001:db8::1">>, <<"a6", "2001:DB8::1", "2001:db8::1">>,
    <<"a6", "::1", "::1">>, <<"a6", "fe80::a:b:c:d", "fe80::a:b:c:d">>, <<"a6", "2001:db8:85a3::8a2e:370:7334", "2001:db8:85a3::8a2e:370:7334">>,
    <<"hex", "0123456789abcdef", "0123456789abcdef">>, <<"hex", "0123456789ABCDEF", "0123456789abcdef">>,
    <<"hex", "deadbeef", "deadbeef">>, <<"hex", "00", "00">>,
    <<"hex", "2bb183af5f22588179a53b0a98631fad1a292118", "2bb183af5f22588179a53b0a98631fad1a292118">>,
    <<"b64", "AQID", "AQID">>, <<"b64", "dHJ1c3RfZG5zIGlzIGF3ZXNvbWU=", "dHJ1c3RfZG5zIGlzIGF3ZXNvbWU=">>,
    <<"tag", "issue", "issue">>, <<"tag", "issuewild", "issuewild">>, <<"tag", "iodef", "iodef">>,
    <<"par", "alpn=h2", "alpn=h2">>, <<"par", "alpn=h2,h3", "alpn=h2,h3">>, <<"par", "port=8443", "port=8443">>,
    <<"par", "ipv4hint=192.0.2.1", "ipv4hint=192.0.2.1">>, <<"par", "no-default-alpn", "no-default-alpn">> }
AtomKey == {<<a[1], a[2]>> : a \in AtomTable}
AtomNormal(kind, s) == (CHOOSE a \in AtomTable : a[1] = kind /\ a[2] = s)[3]

\* ---------------------------------------------------------------------------
\* RDATA shapes: fixed field kinds, then `rest` repeated at least `min` times.
\* kinds: name str flags u8 u16 u32 i32 and the atom kinds a4 a6 hex b64 tag par
Shape(fix, rest, min) == [fix |-> fix, rest |-> rest, min |-> min]
TypeShape == [
    A     |-> Shape(<<"a4">>, "", 0),
    AAAA  |-> Shape(<<"a6">>, "", 0),
    NS    |-> Shape(<<"name">>, "", 0),
    CNAME |-> Shape(<<"name">>, "", 0),
    PTR   |-> Shape(<<"name">>, "", 0),
    ANAME |-> Shape(<<"name">>, "", 0),
    MX    |-> Shape(<<"u16", "name">>, "", 0),
    SOA   |-> Shape(<<"name", "name", "u32", "i32", "i32", "i32", "u32">>, "", 0),
    TXT   |-> Shape(<<>>, "str", 1),
    SRV   |-> Shape(<<"u16", "u16", "u16", "name">>, "", 0),
    HINFO |-> Shape(<<"str", "str">>, "", 0),
    NAPTR |-> Shape(<<"u16", "u16", "flags", "str", "str", "name">>, "", 0),
    CAA   |-> Shape(<<"u8", "tag", "str">>, "", 0),
    SSHFP |-> Shape(<<"u8", "u8", "hex">>, "", 0),
    TLSA  |-> Shape(<<"u8", "u8", "u8", "hex">>, "", 0),
    SMIMEA |-> Shape(<<"u8", "u8", "u8", "hex">>, "", 0),
    DS    |-> Shape(<<"u16", "u8", "u8", "hex">>, "", 0),
    OPENPGPKEY |-> Shape(<<"b64">>, "", 0),
    CERT  |-> Shape(<<"u16", "u16", "u8", "b64">>, "", 0),
    SVCB  |-> Shape(<<"u16", "name">>, "par", 0),
    HTTPS |-> Shape(<<"u16", "name">>, "par", 0) ]
TypeNames  == DOMAIN TypeShape
ClassNames == {"IN", "CH", "HS"}
SingletonTypes == {"SOA", "CNAME", "ANAME"}     \* at most one RR per owner (RFC 1034 3.6.2, RFC 1035 5.2)

KindAt(sh, i) == IF i <= Len(sh.fix) THEN sh.fix[i] ELSE sh.rest

\* one RDATA field.  Result [st, val, tags]
NoField == [st |-> "unspec", val |-> <<>>, tags |-> {}]
NameField(r, it, type) ==
    [st |-> r.st, val |-> r.name,
     tags |-> {"rdname-" \o r.form, "rdname-" \o r.form \o ":" \o type}
              \cup (IF HasEscDot(it.v) THEN {"name-escdot"} ELSE {})
              \cup (IF r.und THEN {"name-interior-underscore"} ELSE {})]
StrField(r, it) ==
    [st |-> r.st, val |-> <<r.val>>,
     tags |-> (IF it.q THEN {"str-quoted"} \cup (IF it.p THEN {"str-quoted-in-paren"} ELSE {})
               ELSE {"str-unquoted"} \cup (IF r.esc THEN {"str-unquoted-escape"} ELSE {})
                                     \cup (IF it.v[1] = "$" THEN {"str-unquoted-dollar"} ELSE {})
                                     \cup (IF it.v[1] = "@" THEN {"str-unquoted-at"} ELSE {}))]
\* a number certainly in range of its field (so that no arithmetic on strings is needed):
\* up to 2/4/9 digits, or one digit more with a leading digit that keeps it below the limit
AlnumOnly(f) ==
    IF f.st = "ok" /\ \A i \in 1..Len(f.val[1]) : SubSeq(f.val[1], i, i) \in LetterCh \cup DigitCh THEN f ELSE NoField
NumOK(kind, cs) ==
    /\ AllDigits(cs) /\ (cs[1] = "0" => Len(cs) = 1)
    /\ CASE kind = "u8"  -> Len(cs) <= 2 \/ (Len(cs) = 3 /\ cs[1] = "1")
         [] kind = "u16" -> Len(cs) <= 4 \/ (Len(cs) = 5 /\ cs[1] \in {"1", "2", "3", "4", "5"})
         [] kind = "u32" -> Len(cs) <= 9 \/ (Len(cs) = 10 /\ cs[1] \in {"1", "2", "3"})
         [] OTHER        -> Len(cs) <= 9 \/ (Len(cs) = 10 /\ cs[1] = "1")      \* i32, ttl
AtomField(kind, s) ==
    IF <<kind, s>> \in AtomKey THEN [st |-> "ok", val |-> <<AtomNormal(kind, s)>>, tags |-> {}] ELSE NoField
ParseField(kind, it, origin, type) ==
    CASE kind = "name" -> IF it.q THEN NoField ELSE NameField(ParseName(it.v, origin), it, type)
      [] kind = "str"  -> StrField(ParseStr(it), it)
      [] kind = "flags" -> AlnumOnly(StrField(ParseStr(it), it))          \* RFC 3403 4.1: flags are A-Z, 0-9
      [] kind \in {"u8", "u16", "u32", "i32"} ->
            IF ~it.q /\ NumOK(kind, it.v) THEN [st |-> "ok", val |-> <<Cat(it.v)>>, tags |-> {}] ELSE NoField
      [] OTHER -> IF it.q THEN NoField ELSE AtomField(kind, Cat(it.v))

\* all RDATA items of one RR.  Result [st, rd, tags]
NoRData == [st |-> "unspec", rd |-> <<>>, tags |-> {}]
RDataCollect(fs) ==
    IF \E i \in DOMAIN fs : fs[i].st # "ok" THEN NoRData
    ELSE [st |-> "ok", rd |-> [i \in DOMAIN fs |-> fs[i].val], tags |-> UNION {fs[i].tags : i \in DOMAIN fs}]
RDataShaped(sh, its, origin, type) ==
    IF Len(its) < Len(sh.fix) + sh.min \/ (Len(its) > Len(sh.fix) /\ sh.rest = "") THEN NoRData
    ELSE RDataCollect([i \in 1..Len(its) |-> ParseField(KindAt(sh, i), its[i], origin, type)])
ParseRData(type, its, origin) == RDataShaped(TypeShape[type], its, origin, type)

\* ---------------------------------------------------------------------------
\* the entry machine.  Context: what the next entry inherits.
\*   origin                  current origin (absolute name)
\*   hasOwner, owner         last stated owner
\*   class   ("" = none stated yet)      ttlDef ($TTL, "" = none)      ttlLast (last explicit, "" = none)
\*   recs    records so far (a sequence: duplicates matter for the single-RR types)
CtxInit(origin) == [origin |-> origin, hasOwner |-> FALSE, owner |-> <<>>, class |-> "", ttlDef |-> "", ttlLast |-> "",
                    recs |-> <<>>, tags |-> {}, st |-> "ok", why |-> ""]
Fail(C, st, why) == [C EXCEPT !.st = st, !.why = why]

Word(it) == Cat(it.v)
Plain(it) == ~it.q /\ \A i \in DOMAIN it.v : it.v[i] # "\\"

\* [<TTL>] [<class>] <type> in either order: scan items from index i; ti, ci = positions of the
\* TTL and class items (0 = omitted).  Result [st, ttl, class, type, next, ti, ci]
RECURSIVE RRHead(_, _, _, _, _, _)
RRHead(its, i, ttl, class, ti, ci) ==
    IF i > Len(its) THEN [st |-> "unspec", why |-> "no type"]
    ELSE LET it == its[i] w == Word(it) IN
         IF ~Plain(it) THEN [st |-> "unspec", why |-> "quoted or escaped item before the type"]
         ELSE IF AllDigits(it.v) THEN
                 IF ti # 0 \/ ~NumOK("ttl", it.v) THEN [st |-> "unspec", why |-> "ttl"] ELSE RRHead(its, i + 1, w, class, i, ci)
         ELSE IF w \in ClassNames THEN
                 IF ci # 0 THEN [st |-> "unspec", why |-> "two classes"] ELSE RRHead(its, i + 1, ttl, w, ti, i)
         ELSE IF w \in TypeNames THEN [st |-> "ok", ttl |-> ttl, class |-> class, type |-> w, next |-> i + 1, ti |-> ti, ci |-> ci]
         ELSE [st |-> "unspec", why |-> "unknown mnemonic"]

RRTags(C, ln, own, h, rd) ==
    rd.tags
    \cup {"owner-" \o own.form}
    \cup (IF ~ln.bl /\ HasEscDot(ln.items[1].v) THEN {"name-escdot"} ELSE {})
    \cup (IF own.und THEN {"name-interior-underscore"} ELSE {})
    \cup {IF h.ttl = "" THEN (IF C.ttlDef # "" THEN "ttl-from-$TTL" ELSE "ttl-from-last") ELSE "ttl-explicit"}
    \cup {IF h.class = "" THEN "class-inherited" ELSE "class-explicit"}
    \cup (IF h.ti # 0 /\ h.ci # 0 THEN {IF h.ti < h.ci THEN "order-ttl-class" ELSE "order-class-ttl"} ELSE {})
    \cup (IF ln.items[h.next - 1].pb \/ ln.items[h.next - 1].p THEN {"paren-before-type"} ELSE {})
    \cup (IF \E i \in h.next..Len(ln.items) : ln.items[i].p THEN {"paren-rdata"} ELSE {})
    \cup {"type-" \o h.type}

RRLine4(C, ln, own, h, ttl, cls, rd) ==
    IF ttl = "" THEN Fail(C, "unspec", "no ttl to inherit")
    ELSE IF cls = "" THEN Fail(C, "unspec", "no class to inherit")
    ELSE IF rd.st # "ok" THEN Fail(C, "unspec", "rdata")
    ELSE [C EXCEPT !.hasOwner = TRUE, !.owner = own.name,
                   !.class = cls, !.ttlLast = IF h.ttl # "" THEN h.ttl ELSE @,
                   !.recs = Append(@, [o |-> own.name, c |-> cls, t |-> h.type, ttl |-> ttl, rd |-> rd.rd]),
                   !.tags = @ \cup RRTags(C, ln, own, h, rd)]
RRLine3(C, ln, own, h) ==
    IF h.st # "ok" THEN Fail(C, "unspec", h.why)
    ELSE RRLine4(C, ln, own, h,
                 IF h.ttl # "" THEN h.ttl ELSE IF C.ttlDef # "" THEN C.ttlDef ELSE C.ttlLast,
                 IF h.class # "" THEN h.class ELSE C.class,
                 ParseRData(h.type, SubSeq(ln.items, h.next, Len(ln.items)), C.origin))
RRLine2(C, ln, own) ==
    IF own.st # "ok" THEN Fail(C, "unspec", "owner")
    ELSE RRLine3(C, ln, own, RRHead(ln.items, IF ln.bl THEN 1 ELSE 2, "", "", 0, 0))
RRLine(C, ln) ==
    RRLine2(C, ln,
            IF ln.bl THEN [st |-> IF C.hasOwner THEN "ok" ELSE "unspec", name |-> C.owner, form |-> "blank", und |-> FALSE]
            ELSE IF ln.items[1].q THEN NoName
            ELSE ParseName(ln.items[1].v, C.origin))

DirParen(ln) == IF \E i \in 1..2 : ln.items[i].p \/ ln.items[i].pb THEN {"paren-directive"} ELSE {}
OriginLine(C, ln, r) ==
    IF r.st # "ok" THEN Fail(C, "unspec", "$ORIGIN name")
    ELSE [C EXCEPT !.origin = r.name, !.tags = @ \cup {"$ORIGIN-" \o r.form} \cup DirParen(ln)
                                            \cup (IF r.und THEN {"name-interior-underscore"} ELSE {})]
Directive(C, ln, d) ==
    CASE d = "$ORIGIN" ->
            IF Len(ln.items) # 2 \/ ln.items[2].q \/ ln.items[2].v = <<"@">> THEN Fail(C, "unspec", "$ORIGIN arguments")
            ELSE OriginLine(C, ln, ParseName(ln.items[2].v, C.origin))
      [] d = "$TTL" ->
            IF Len(ln.items) # 2 \/ ln.items[2].q \/ ~NumOK("ttl", ln.items[2].v) THEN Fail(C, "unspec", "$TTL arguments")
            ELSE [C EXCEPT !.ttlDef = Word(ln.items[2]), !.tags = @ \cup {"$TTL"} \cup DirParen(ln)]
      [] OTHER -> Fail(C, "unspec", "$INCLUDE or unknown directive")
Line(C, ln) ==
    IF C.st # "ok" THEN C
    ELSE IF ~ln.bl /\ ~ln.items[1].q /\ ln.items[1].v[1] = "$" THEN Directive(C, ln, Word(ln.items[1]))
    ELSE RRLine(C, ln)

\* RFC 2181 5.2: the TTLs of an RRset are equal; single-RR types; one class per RRset
WellFormed(rs) ==
    \A i, j \in DOMAIN rs :
        (i # j /\ rs[i].o = rs[j].o /\ rs[i].t = rs[j].t) =>
            /\ rs[i].ttl = rs[j].ttl /\ rs[i].c = rs[j].c
            /\ rs[i].t \notin SingletonTypes

\* what hickory's zone loading additionally demands of a zone (not of a master file): class IN,
\* SOA at the apex, a CNAME alone at its owner.  Used only to decide whether a generated file is
\* also pushed through the file-store loader.
ZoneLoadable(rs, apex) ==
    /\ \A i \in DOMAIN rs : rs[i].c = "IN"
    /\ \E i \in DOMAIN rs : rs[i].t = "SOA" /\ rs[i].o = apex
    /\ \A i, j \in DOMAIN rs : (rs[i].t = "CNAME" /\ rs[j].o = rs[i].o) => rs[j].t = "CNAME"

AnyParen(lines) == \E i \in DOMAIN lines : \E k \in DOMAIN lines[i].items : lines[i].items[k].p
ReadDone(C, lx) ==
    IF C.st # "ok" THEN [st |-> C.st, why |-> C.why, recs |-> {}, tags |-> lx.tags, ctx |-> C]
    ELSE IF ~WellFormed(C.recs) THEN [st |-> "unspec", why |-> "record set not well-formed", recs |-> {}, tags |-> lx.tags, ctx |-> C]
    ELSE [st |-> "ok", why |-> "", recs |-> RangeOf(C.recs),
          tags |-> C.tags \cup (IF AnyParen(lx.lines) THEN {"paren"} ELSE {}), ctx |-> C]
ReadLines(lx, origin) ==
    IF lx.st # "ok" THEN [st |-> lx.st, why |-> lx.why, recs |-> {}, tags |-> lx.tags, ctx |-> CtxInit(origin)]
    ELSE ReadDone(FoldLeft(Line, CtxInit(origin), lx.lines), lx)

ReadChars(cs, origin) == ReadLines(LexChars(cs), origin)
Read(text, origin)    == ReadChars(Chars(text), origin)
=============================================================================
