----------------------------- MODULE EncoderOps -----------------------------
(* Requirement-level operators for size-limited message encoding (C03).        *)
(* Constant-free; shared by the Encoder machine and the trace monitor.         *)
EXTENDS Naturals, Sequences, FiniteSets

MaxOf(a, b) == IF a > b THEN a ELSE b

\* the size limit the server must apply to a response (RFC 1035 4.2.1, RFC 6891 6.2.3/6.2.5)
\* adv < 0: the request carried no OPT record
ServerLimit(proto, adv) ==
    IF proto = "udp" THEN (IF adv < 0 THEN 512 ELSE MaxOf(512, adv)) ELSE 65535

\* out is a prefix of the identifiers 1..n of the original section
IsIdPrefix(out, n) == Len(out) <= n /\ \A i \in 1..Len(out) : out[i] = i

(* What must hold of a successful size-limited encoding.  An observation o has *)
(*   limit, len (bytes returned), leftover (bytes not consumed by decoding),    *)
(*   decoded (BOOLEAN), tc0, tc, inCounts / hdrCounts / outIds per section     *)
(*   an, ns, ar (ar WITHOUT opt/tsig), optIn, optOut, tsigIn, tsigOut (0/1).   *)
Dropped(o) ==
    \/ Len(o.outIds.an) < o.inCounts.an \/ Len(o.outIds.ns) < o.inCounts.ns
    \/ Len(o.outIds.ar) < o.inCounts.ar \/ o.optOut < o.optIn \/ o.tsigOut < o.tsigIn

C03_WithinLimit(o) == o.len <= o.limit
C03_NoLeftover(o)  == o.decoded /\ o.leftover = 0
C03_Counts(o) ==
    /\ o.hdrCounts.an = Len(o.outIds.an) /\ o.hdrCounts.ns = Len(o.outIds.ns)
    /\ o.hdrCounts.ar = Len(o.outIds.ar) + o.optOut + o.tsigOut
C03_Prefix(o) ==
    /\ IsIdPrefix(o.outIds.an, o.inCounts.an) /\ IsIdPrefix(o.outIds.ns, o.inCounts.ns)
    /\ IsIdPrefix(o.outIds.ar, o.inCounts.ar) /\ o.optOut <= o.optIn /\ o.tsigOut <= o.tsigIn
C03_TC(o) == o.tc = (o.tc0 \/ Dropped(o))

C03_Ok(o) == C03_WithinLimit(o) /\ C03_NoLeftover(o) /\ C03_Counts(o) /\ C03_Prefix(o) /\ C03_TC(o)
=============================================================================
