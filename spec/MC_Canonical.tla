--------------------------- MODULE MC_Canonical ---------------------------
(* Exhaustive configurations for Canonical (C05, obligation D).            *)
(* Constants with sequences cannot be written in a cfg file, so they are   *)
(* defined here and substituted with `<-`.                                 *)
EXTENDS Canonical

a == 97
A == 65
b == 98

MC_Class   == 1
MC_SigBase == [alg |-> 15, ottl |-> <<0, 0, 14, 16>>, exp |-> <<128, 0, 0, 5>>, inc |-> <<127, 255, 255, 250>>,
               tag |-> 4660, signer |-> <<<<69, 120>>, <<99>>>>]
MC_TtlSet  == {<<0, 0, 14, 16>>, <<0, 0, 0, 7>>}
MC_Expand  == {<<120>>, <<88>>}

\* --- opaque RDATA (type NULL): octet strings of length 0..2 over {00, 'A', 'a', FF}
Oct == {0, A, a, 255}
OctStrings == {<<>>} \cup {<<x>> : x \in Oct} \cup {<<x, y>> : x, y \in Oct}
MCB_Type     == 10
MCB_Universe == {<<B(s)>> : s \in OctStrings}
MCB_Owner    == <<<<a>>, <<66>>>>

\* --- one embedded name (type NS, lower-cased): names of 1..2 labels over {a, A, b}
Lab   == {<<a>>, <<A>>, <<b>>}
Names == {<<x>> : x \in Lab} \cup {<<<<a>>, <<b>>>>, <<<<A>>, <<b>>>>, <<<<b>>, <<a>>>>}
MCN_Type     == 2
MCN_Universe == {<<N(n)>> : n \in Names}
MCN_Owner    == <<<<a>>>>

\* --- a wildcard owner, expanded on the way (type NS)
MCW_Type     == 2
MCW_Universe == {<<N(<<x>>)>> : x \in {<<a>>, <<b>>}}
MCW_Owner    == <<STAR, <<a>>>>

\* --- a wildcard owner below an asterisk label that is not a wildcard (RFC 4592 2.1.1: "*.s.*.a")
MCI_Type     == 2
MCI_Universe == {<<N(<<x>>)>> : x \in {<<a>>, <<b>>}}
MCI_Owner    == <<STAR, <<115>>, STAR, <<a>>>>

\* --- a name whose case is significant (type NSEC, RFC 6840 5.1), followed by octets
MCS_Type     == 47
MCS_Universe == {<<N(n), B(<<0, 1, x>>)>> : n \in {<<x>> : x \in Lab}, x \in {0, 64}}
MCS_Owner    == <<<<a>>>>

\* --- octets, then a name (type MX)
MCM_Type     == 15
MCM_Universe == {<<B(<<0, p>>), N(n)>> : p \in {1, 65}, n \in {<<x>> : x \in Lab}}
MCM_Owner    == <<<<a>>>>
=============================================================================
