-------------------------------- MODULE Stub --------------------------------
(* X01 -- the stub resolver's name resolution as a machine: one lookup       *)
(* (lookup_ip or a typed lookup) of one configuration, one action per        *)
(* upstream question and per fall-back step.  Upstream outcomes are chosen   *)
(* when a question is asked, so every world is covered without enumerating   *)
(* worlds.  The requirements X01_* look at the observable history only (the  *)
(* questions asked with their outcomes, and the result) and are phrased      *)
(* with the declarative operators of StubOps: the machine -- an operational  *)
(* reading of the documentation -- is checked against the functional one.    *)
(* `Rules` = StubOps!Strict is the specification; the MC_Stub_AsIs*.cfg set  *)
(* it to one of the named relaxations and expect a requirement to fail.      *)
EXTENDS StubOps, TLC

CONSTANTS Cfgs,      \* configurations (see StubOps for the record)
          Outcomes,  \* upstream outcomes available: subset of {"data", "nodata", "nx", "fail"}
          Rules

VARIABLES cfg, st, cands, idx, stage, got, fails, asked, result
vars == <<cfg, st, cands, idx, stage, got, fails, asked, result>>

AllTypes == {"A", "AAAA", "TXT"}
Nothing == [t \in AllTypes |-> NotLocal]
NoResult == [kind |-> "none", groups |-> <<>>, errs |-> {}]

Init ==
    /\ cfg \in Cfgs
    /\ st = "start" /\ cands = <<>> /\ idx = 0 /\ stage = 1 /\ got = Nothing /\ fails = <<>>
    /\ asked = <<>> /\ result = NoResult

Ty == TypesOf(cfg)
Mode == ModeOf(cfg)
Cur == cands[idx]
\* the types whose answer is wanted now
Wanted == IF Mode = "then" THEN {Ty[stage]} ELSE SeqRange(Ty)
Open(t) == st = "work" /\ t \in Wanted /\ got[t] = NotLocal
Local(t) == LocalSrc(cfg, Rules, Cur, idx, t)

\* [lit] an address literal is returned as it is
AnswerLiteral ==
    /\ st = "start" /\ IsLiteral(cfg)
    /\ result' = [kind |-> "ok", groups |-> <<LiteralGroup(cfg)>>, errs |-> {}]
    /\ st' = "done"
    /\ UNCHANGED <<cfg, cands, idx, stage, got, fails, asked>>

\* [hosts] the name as typed is in the hosts table (the reading that consults the table before the
\* search list is applied; see StubOps!PlanTypedFirst -- either reading is accepted)
AnswerHostsAsTyped ==
    /\ st = "start" /\ HostsAsTyped(cfg) # <<>>
    /\ result' = [kind |-> "ok", groups |-> HostsAsTyped(cfg), errs |-> {}]
    /\ st' = "done"
    /\ UNCHANGED <<cfg, cands, idx, stage, got, fails, asked>>

\* [ndots] [fqdn] [domain] the list of names to try
BuildCandidates ==
    /\ st = "start" /\ ~IsLiteral(cfg)
    /\ cands' = CandidatesOf(cfg, Rules)
    /\ st' = "pick"
    /\ UNCHANGED <<cfg, idx, stage, got, fails, asked, result>>

\* [next] the next name of the list
NextCandidate ==
    /\ st = "pick" /\ idx < Len(cands)
    /\ idx' = idx + 1 /\ stage' = 1 /\ got' = Nothing /\ st' = "work"
    /\ UNCHANGED <<cfg, cands, fails, asked, result>>

\* [hosts] [6761] answered from the hosts table / as a special-use name: no question is sent
AnswerLocally ==
    \E t \in AllTypes :
        /\ Open(t) /\ Local(t).src # "none"
        /\ got' = [got EXCEPT ![t] = Local(t)]
        /\ UNCHANGED <<cfg, st, cands, idx, stage, fails, asked, result>>

\* one question to the configured servers and its outcome
AskUpstream ==
    \E t \in AllTypes, o \in Outcomes :
        /\ Open(t) /\ Local(t).src = "none"
        /\ got' = [got EXCEPT ![t] = [src |-> "dns", o |-> o]]
        /\ asked' = Append(asked, [n |-> Cur, t |-> t, o |-> o])
        /\ UNCHANGED <<cfg, st, cands, idx, stage, fails, result>>

\* [strat] "if that fails, query for" the other family
FallbackFamily ==
    /\ st = "work" /\ Mode = "then" /\ stage = 1
    /\ got[Ty[1]] # NotLocal /\ got[Ty[1]].o # "data"
    /\ stage' = 2
    /\ UNCHANGED <<cfg, st, cands, idx, got, fails, asked, result>>

Answered ==
    IF Mode = "then" THEN (stage = 1 /\ got[Ty[1]].o = "data") \/ (stage = 2 /\ got[Ty[2]] # NotLocal)
    ELSE \A t \in SeqRange(Ty) : got[t] # NotLocal
GroupsNow ==
    LET g(t) == IF got[t].o = "data" THEN <<Group(t, got[t], Cur)>> ELSE <<>> IN
    IF Len(Ty) = 1 THEN g(Ty[1]) ELSE g(Ty[1]) \o g(Ty[2])
ErrsNow == {got[t].o : t \in {u \in SeqRange(Ty) : got[u] # NotLocal /\ got[u].o # "data"}}

\* [next] a non-empty lookup is returned; the names after it are not tried
CandidateSucceeds ==
    /\ st = "work" /\ Answered /\ GroupsNow # <<>>
    /\ result' = [kind |-> "ok", groups |-> GroupsNow, errs |-> {}]
    /\ st' = "done"
    /\ UNCHANGED <<cfg, cands, idx, stage, got, fails, asked>>

\* [next] "upon each failure, the next will be attempted"
CandidateFails ==
    /\ st = "work" /\ Answered /\ GroupsNow = <<>>
    /\ fails' = Append(fails, ErrsNow)
    /\ st' = "pick"
    /\ UNCHANGED <<cfg, cands, idx, stage, got, asked, result>>

\* [next] names exhausted: "the last error we saw" -- of the last name of the list; where the list
\* as configured repeats an earlier name at its end, of that name too (it may have been tried again)
LastRepeated == Pos(cands, LastWithRepeats(cfg, Rules))
GiveUp ==
    /\ st = "pick" /\ idx = Len(cands)
    /\ result' = [kind |-> "err", groups |-> <<>>, errs |-> fails[Len(cands)] \cup fails[LastRepeated]]
    /\ st' = "done"
    /\ UNCHANGED <<cfg, cands, idx, stage, got, fails, asked>>

Next ==
    \/ AnswerLiteral
    \/ AnswerHostsAsTyped
    \/ BuildCandidates
    \/ NextCandidate
    \/ AnswerLocally
    \/ AskUpstream
    \/ FallbackFamily
    \/ CandidateSucceeds
    \/ CandidateFails
    \/ GiveUp

Spec == Init /\ [][Next]_vars
FairSpec == Spec /\ WF_vars(Next)

----------------------------------------------------------------------------
\* requirements (observable history only; always against the Strict reading)

Done == st = "done"
\* the world as far as the questions revealed it; anything else must not matter
Revealed == [tab |-> asked, dflt |-> "unasked"]
Prescribed == Plan(cfg, Revealed, Strict)
Accepted == Plans(cfg, Revealed)
\* the machine's result carries the set of admissible error classes
SameResult(p) == result.kind = p.result.kind /\ result.groups = p.result.groups /\ result.errs = p.result.errs

TypeOK ==
    /\ st \in {"start", "pick", "work", "done"}
    /\ idx \in 0..Len(cands) /\ stage \in {1, 2}
    /\ result.kind \in {"none", "ok", "err"}
    /\ (st = "done") = (result.kind # "none")

\* 1. candidate names
X01_OnlyCandidates == OnlyCandidates(cfg, asked)
X01_ListOrder == InListOrder(cfg, asked)
X01_FqdnAsksOneName == cfg.name.fqdn => Cardinality({asked[j].n : j \in DOMAIN asked}) <= 1
X01_NoRepeats == \A j, k \in DOMAIN asked : (asked[j].n = asked[k].n /\ asked[j].t = asked[k].t) => j = k
\* hosts table, special-use names, literals
X01_NothingLocalAsked == NothingLocalAsked(cfg, asked)
\* 2. first positive answer wins
X01_NothingAfterSuccess == NothingAfterSuccess(cfg, asked) /\ (Done => OneCandidate(result))
\* 3. strategy
X01_OnlyStrategyTypes == OnlyStrategyTypes(cfg, asked)
X01_FamilyOrder == Done => FamilyOrder(cfg, result)
\* 1 + 2 + 3 together: exactly the prescribed questions, exactly the prescribed result
X01_QuestionsAsPrescribed == Done => \E p \in Accepted : MatchesSteps(Questions(asked), p.steps)
X01_ResultAsPrescribed == Done => \E p \in Accepted : MatchesSteps(Questions(asked), p.steps) /\ SameResult(p)
\* 2. the error shown is a failure of the last candidate tried
X01_ErrorOfLast ==
    (Done /\ result.kind = "err") =>
        /\ result.errs # {}
        /\ LET lasts == {cands[Len(cands)], LastWithRepeats(cfg, Strict)}
               seen == {asked[j].o : j \in {k \in DOMAIN asked : asked[k].n \in lasts}}
               known == {LocalSrc(cfg, Strict, c, Pos(cands, c), t).o : c \in lasts, t \in SeqRange(Ty)}
           IN result.errs \subseteq ((seen \cup known) \ {"none", "data"})

\* every lookup ends
X01_Terminates == <>(st = "done")
=============================================================================
