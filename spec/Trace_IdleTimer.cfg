SPECIFICATION TraceSpec
POSTCONDITION Consumed
CHECK_DEADLOCK FALSE
