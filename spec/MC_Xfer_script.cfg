\* any sender: every sequence of up to MaxScript messages of the alphabet, every way the stream ends
SPECIFICATION Spec
CONSTANTS
  Rest <- MC_Rest
  Serial <- MC_Serial
  Caps <- MC_OneCap
  Policies <- MC_OnePolicy
  Reqs <- MC_ScriptReqs
  Sources <- MC_ScriptOnly
  ScriptMsgs <- MC_ScriptMsgs
  MaxScript = 3
  Flaws <- MC_NoFlaws
INVARIANTS TypeOK X02_ClientCompleteIsWhole X02_ClientVerdict X02_Delivery
CHECK_DEADLOCK FALSE
