------------------------------ MODULE StubOps ------------------------------
(* X01 -- name resolution strategy of the stub resolver: pure operators.     *)
(*                                                                           *)
(* Sources (the oracle is written from these, not from the decision code):   *)
(*  [ndots]  ResolverOpts::ndots: "the number of dots that must appear       *)
(*           (unless it's a final dot representing the root) before a query  *)
(*           is assumed to include the TLD.  The default is one, which means *)
(*           that `www` would never be assumed to be a TLD, and would always *)
(*           be appended to either the search"; resolv.conf(5) ndots:n --    *)
(*           "a threshold for the number of dots which must appear in a name *)
(*           before an initial absolute query will be made".                 *)
(*  [fqdn]   Resolver::lookup_ip: "a fully-qualified-domain-name, which ends *)
(*           in a final `.`, will only issue one query.  Anything else will  *)
(*           always incur the cost of querying the ResolverConfig::domain    *)
(*           and ResolverConfig::search."                                    *)
(*  [domain] ResolverConfig::from_parts: "domain ... is the first part       *)
(*           appended to attempt a lookup"; "search - additional search      *)
(*           domains that are attempted if the Name is not found in domain"; *)
(*           ResolverConfig::search(): "queried after any local domain and   *)
(*           then in the order of the set of search domains".                *)
(*  [next]   LookupFuture::lookup: "they will be attempted in queue order    *)
(*           ... Upon each failure, the next will be attempted";  poll():    *)
(*           a successful non-empty lookup is returned, otherwise "this will *)
(*           return the last query result -- either an empty lookup or the   *)
(*           last error we saw".                                             *)
(*  [strat]  LookupIpStrategy: "Only query for A", "Only query for AAAA",    *)
(*           "Query for A and AAAA in parallel, ordering A before AAAA",     *)
(*           "Query for AAAA and A in parallel, ordering AAAA before A",     *)
(*           "Query for Ipv6 if that fails, query for Ipv4", "Query for Ipv4 *)
(*           if that fails, query for Ipv6".                                 *)
(*  [hosts]  ResolveHosts::Always: "Always attempt to look up IP addresses   *)
(*           from the system hosts file.  If the hostname cannot be found,   *)
(*           query the DNS."  Never: "The DNS will always be queried."       *)
(*           LookupFuture::lookup_with_hosts: "the records inside it will be *)
(*           prioritized over the upstream DNS server".                      *)
(*  [6761]   RFC 6761 6.3 (quoted in caching_client.rs): localhost names     *)
(*           "SHOULD always return the IP loopback address for address       *)
(*           queries and negative responses for all other query types" and   *)
(*           are not sent to the configured servers; 6.4: "invalid" names    *)
(*           get immediate negative responses and are not sent either.       *)
(*  [lit]    Resolver::lookup_ip: "if host is a ip address, return directly" *)
(*                                                                           *)
(* Alphabet.  A domain name is a sequence of labels (lower-case strings).    *)
(* A query name is [labels, fqdn, lit]: `fqdn` = written with a final dot,   *)
(* `lit` = "v4"/"v6" if the text is an IP address literal (then labels is    *)
(* immaterial), else "".  A configuration is                                 *)
(*   [name, ndots, domain (sequence of 0 or 1 names), search (sequence of    *)
(*    names), api ("ip" | "A" | "AAAA" | "TXT"), strategy, hosts (sequence   *)
(*    of [n, t]), sys (hosts is the system file, read only if uh allows),    *)
(*    uh ("always" | "auto" | "never")].                                     *)
(* A world assigns every (name, type) an upstream outcome: "data" |          *)
(* "nodata" | "nx" | "fail"; it is [tab |-> sequence of [n, t, o], dflt].    *)
(*                                                                           *)
(* `rules` selects, per documented requirement, the required reading or a    *)
(* named relaxation of it.  Strict is the specification; the relaxations     *)
(* exist so that a disagreement of the implementation can be attributed to   *)
(* the one clause it drops (Trace_Stub) and so that each of them can be      *)
(* shown to violate the requirements (MC_Stub_AsIs*.cfg).                    *)
EXTENDS Naturals, Sequences, FiniteSets

Strict == [hostsIp |-> "name", hostsGen |-> "every", dedup |-> "first", star |-> "counted"]

SeqRange(s) == {s[i] : i \in DOMAIN s}
Rev(s) == [i \in 1..Len(s) |-> s[Len(s) + 1 - i]]

\* first occurrences, in order
DedupFirst(s) ==
    LET F[i \in 0..Len(s)] ==
            IF i = 0 THEN <<>>
            ELSE IF \E j \in 1..(i - 1) : s[j] = s[i] THEN F[i - 1] ELSE Append(F[i - 1], s[i])
    IN F[Len(s)]
\* last occurrences, in order (relaxation "dedup = last")
DedupLast(s) == Rev(DedupFirst(Rev(s)))

\* length of the name on the wire: one length octet per label plus the root
WireLen(l) ==
    LET F[i \in 0..Len(l)] == IF i = 0 THEN 1 ELSE F[i - 1] + 1 + Len(l[i]) IN F[Len(l)]
Representable(l) == WireLen(l) <= 255 /\ \A i \in DOMAIN l : Len(l[i]) \in 1..63

EndsWith(l, lab) == Len(l) > 0 /\ l[Len(l)] = lab
LocalhostName(l) == EndsWith(l, "localhost")
InvalidName(l) == EndsWith(l, "invalid")

----------------------------------------------------------------------------
\* 1. candidate names

\* dots written inside the name (a final dot does not count)
DotsIn(n, rules) ==
    Len(n.labels) - 1 - (IF rules.star = "ignored" /\ Len(n.labels) > 0 /\ n.labels[1] = "*" THEN 1 ELSE 0)

\* [ndots]: enough dots -> the name as written is tried first.  [6761]: a localhost name always
\* yields the loopback address, i.e. it is resolved as written whatever the search list says.
AsIsFirst(n, ndots, rules) == DotsIn(n, rules) + 1 > ndots \/ LocalhostName(n.labels)

\* [domain]: the domain, then the search domains in their order; combinations that are not
\* domain names (longer than 255 octets) cannot be asked and are left out
Suffixed(n, domain, search) ==
    LET sfx == domain \o search
        all == [i \in 1..Len(sfx) |-> n.labels \o sfx[i]]
    IN SelectSeq(all, Representable)

\* the ordered list of fully qualified names to try.  The documentation does not mention
\* duplicates; asking a name again yields the same answer, so the list is given without them
\* (first position counts) and observers ignore repeated questions (for the one thing a
\* repeated try can change -- which failure is seen last -- see Plan).
Candidates(n, ndots, domain, search, rules) ==
    IF n.fqdn THEN <<n.labels>>
    ELSE LET asis == <<n.labels>>
             sfxd == Suffixed(n, domain, search)
         IN IF rules.dedup = "first"
            THEN DedupFirst(IF AsIsFirst(n, ndots, rules) THEN asis \o sfxd ELSE sfxd \o asis)
            ELSE \* relaxation: of equal names the last position counts (the name as written,
                 \* when tried first, stays first)
                 IF AsIsFirst(n, ndots, rules) THEN DedupFirst(asis \o DedupLast(sfxd))
                 ELSE DedupLast(sfxd \o asis)

CandidatesOf(cfg, rules) == Candidates(cfg.name, cfg.ndots, cfg.domain, cfg.search, rules)

\* the last name of the list when repeated names are kept (see Plan)
LastWithRepeats(cfg, rules) ==
    LET n == cfg.name
        sfxd == Suffixed(n, cfg.domain, cfg.search)
    IN IF n.fqdn \/ sfxd = <<>> \/ ~AsIsFirst(n, cfg.ndots, rules) THEN n.labels ELSE sfxd[Len(sfxd)]

----------------------------------------------------------------------------
\* 3. strategy: which record types, combined how

TypesOf(cfg) ==
    IF cfg.api # "ip" THEN <<cfg.api>>
    ELSE CASE cfg.strategy = "Ipv4Only"     -> <<"A">>
           [] cfg.strategy = "Ipv6Only"     -> <<"AAAA">>
           [] cfg.strategy = "Ipv4AndIpv6"  -> <<"A", "AAAA">>
           [] cfg.strategy = "Ipv6AndIpv4"  -> <<"AAAA", "A">>
           [] cfg.strategy = "Ipv4thenIpv6" -> <<"A", "AAAA">>
           [] cfg.strategy = "Ipv6thenIpv4" -> <<"AAAA", "A">>

\* "only": one type.  "and": both asked whatever the other yields, results joined in this
\* order.  "then": the second is asked only if the first has nothing.
ModeOf(cfg) ==
    IF cfg.api # "ip" THEN "only"
    ELSE IF cfg.strategy \in {"Ipv4Only", "Ipv6Only"} THEN "only"
    ELSE IF cfg.strategy \in {"Ipv4AndIpv6", "Ipv6AndIpv4"} THEN "and"
    ELSE "then"

Strategies == {"Ipv4Only", "Ipv6Only", "Ipv4AndIpv6", "Ipv6AndIpv4", "Ipv4thenIpv6", "Ipv6thenIpv4"}

----------------------------------------------------------------------------
\* answers that never reach a server

EffHosts(cfg) == IF cfg.sys /\ cfg.uh = "never" THEN <<>> ELSE cfg.hosts
HasHost(h, c, t) == \E i \in DOMAIN h : h[i].n = c /\ h[i].t = t

NotLocal == [src |-> "none", o |-> "none"]

\* what is known about (c, t) -- the i-th candidate -- without asking a server
\*   hosts/data    an entry of the hosts table                                         [hosts]
\*   hosts/absent  lookup_ip: the host name is in the hosts table, but not with this
\*                 family: "if the hostname cannot be found, query the DNS" -- it was
\*                 found, the DNS is not asked                                         [hosts]
\*   loopback, special: localhost and invalid names                                    [6761]
LocalSrc(cfg, rules, c, i, t) ==
    LET h == EffHosts(cfg)
        addr == t \in {"A", "AAAA"}
        consulted == cfg.api = "ip" \/ rules.hostsGen = "every" \/ i = 1
        known == cfg.api = "ip" /\ rules.hostsIp = "name" /\ \E u \in SeqRange(TypesOf(cfg)) : HasHost(h, c, u)
    IN IF addr /\ consulted /\ HasHost(h, c, t) THEN [src |-> "hosts", o |-> "data"]
       ELSE IF known THEN [src |-> "hosts", o |-> "absent"]
       ELSE IF LocalhostName(c) THEN (IF addr THEN [src |-> "loopback", o |-> "data"] ELSE [src |-> "special", o |-> "nodata"])
       ELSE IF InvalidName(c) THEN [src |-> "special", o |-> "nx"]
       ELSE NotLocal

IsLocal(cfg, rules, c, i, t) == LocalSrc(cfg, rules, c, i, t).src # "none"

----------------------------------------------------------------------------
\* worlds

Out(w, c, t) ==
    IF \E i \in DOMAIN w.tab : w.tab[i].n = c /\ w.tab[i].t = t
    THEN w.tab[CHOOSE i \in DOMAIN w.tab : w.tab[i].n = c /\ w.tab[i].t = t].o
    ELSE w.dflt

\* the answer for (c, t): local knowledge first, else the server's
Ans(cfg, w, rules, c, i, t) ==
    LET l == LocalSrc(cfg, rules, c, i, t) IN IF l.src # "none" THEN l ELSE [src |-> "dns", o |-> Out(w, c, t)]

\* what the caller sees of a positive answer: one group per RRset (family, where it came from,
\* owner, number of addresses).  Order inside an RRset is not prescribed.
Count(src) == IF src = "dns" THEN 2 ELSE 1
Group(t, a, c) == [fam |-> t, src |-> a.src, n |-> c, cnt |-> Count(a.src)]
Step(c, ts) == [n |-> c, ts |-> ts]

----------------------------------------------------------------------------
\* 2 + 3. the plan for one candidate and for the whole lookup

\* [strat] for candidate c: the questions sent (steps: the types of one step are asked in
\* parallel, steps one after the other), the groups returned (<<>> = no positive answer) and
\* the error classes a caller may see if this candidate is the last one tried
CandPlan(cfg, w, rules, c, i) ==
    LET ty == TypesOf(cfg)
        a(t) == Ans(cfg, w, rules, c, i, t)
        up(ts) == {t \in ts : ~IsLocal(cfg, rules, c, i, t)}
        st(ts) == IF up(ts) = {} THEN <<>> ELSE <<Step(c, up(ts))>>
        g(t) == IF a(t).o = "data" THEN <<Group(t, a(t), c)>> ELSE <<>>
        er(ts) == {a(t).o : t \in {u \in ts : a(u).o # "data"}}
    IN IF ModeOf(cfg) = "only"
       THEN [steps |-> st({ty[1]}), groups |-> g(ty[1]), errs |-> er({ty[1]})]
       ELSE IF ModeOf(cfg) = "and"
       THEN [steps |-> st({ty[1], ty[2]}), groups |-> g(ty[1]) \o g(ty[2]), errs |-> er({ty[1], ty[2]})]
       ELSE IF a(ty[1]).o = "data"
            THEN [steps |-> st({ty[1]}), groups |-> g(ty[1]), errs |-> {}]
            ELSE [steps |-> st({ty[1]}) \o st({ty[2]}), groups |-> g(ty[2]), errs |-> er({ty[1], ty[2]})]

\* [next]: candidates in order; the first positive answer wins and nothing after it is asked;
\* when every candidate failed the caller sees the failure of the last one.  (Where a candidate
\* was asked for two types the documentation does not say which of the two failures is shown.)
RECURSIVE Walk(_, _, _, _, _)
Walk(cfg, w, rules, cands, i) ==
    LET r == CandPlan(cfg, w, rules, cands[i], i) IN
    IF r.groups # <<>> THEN [steps |-> r.steps, result |-> [kind |-> "ok", groups |-> r.groups, errs |-> {}]]
    ELSE IF i >= Len(cands) THEN [steps |-> r.steps, result |-> [kind |-> "err", groups |-> <<>>, errs |-> r.errs]]
    ELSE LET rest == Walk(cfg, w, rules, cands, i + 1) IN [steps |-> r.steps \o rest.steps, result |-> rest.result]

LiteralGroup(cfg) == [fam |-> IF cfg.name.lit = "v4" THEN "A" ELSE "AAAA", src |-> "literal", n |-> <<>>, cnt |-> 1]

\* [lit]: an address literal given to lookup_ip is returned as it is; nothing is asked
IsLiteral(cfg) == cfg.api = "ip" /\ cfg.name.lit # ""

\* A resolver that tries a repeated name again (the documentation neither asks for nor forbids
\* it) sees the failure of that name last: when the list with repeats ends in another name than
\* the list without, the failure of either may be shown.
Pos(cands, c) == CHOOSE i \in DOMAIN cands : cands[i] = c

Plan(cfg, w, rules) ==
    IF IsLiteral(cfg)
    THEN [steps |-> <<>>, result |-> [kind |-> "ok", groups |-> <<LiteralGroup(cfg)>>, errs |-> {}]]
    ELSE LET cs == CandidatesOf(cfg, rules)
             wk == Walk(cfg, w, rules, cs, 1)
             lr == LastWithRepeats(cfg, rules)
         IN IF wk.result.kind = "ok" THEN wk
            ELSE [steps |-> wk.steps,
                  result |-> [kind |-> "err", groups |-> <<>>,
                              errs |-> wk.result.errs \cup CandPlan(cfg, w, rules, lr, Pos(cs, lr)).errs]]

\* [hosts] does not say how the hosts table and the search list interact.  Two readings are
\* accepted: the table is consulted for each candidate name in turn (Plan above), or -- as the
\* C library does -- for the name as typed before anything else, and only if it is not there
\* the candidates are walked.
HostsAsTyped(cfg) ==
    LET c == cfg.name.labels
        ty == TypesOf(cfg)
        g(t) == IF t \in {"A", "AAAA"} /\ HasHost(EffHosts(cfg), c, t) THEN <<Group(t, [src |-> "hosts", o |-> "data"], c)>> ELSE <<>>
    IN IF IsLiteral(cfg) THEN <<>>
       ELSE IF ModeOf(cfg) = "only" THEN g(ty[1])
       ELSE IF ModeOf(cfg) = "and" THEN g(ty[1]) \o g(ty[2])
       ELSE IF g(ty[1]) # <<>> THEN g(ty[1]) ELSE g(ty[2])

PlanTypedFirst(cfg, w, rules) ==
    IF HostsAsTyped(cfg) # <<>>
    THEN [steps |-> <<>>, result |-> [kind |-> "ok", groups |-> HostsAsTyped(cfg), errs |-> {}]]
    ELSE Plan(cfg, w, rules)

\* everything the specification accepts
Plans(cfg, w) == {Plan(cfg, w, Strict), PlanTypedFirst(cfg, w, Strict)}

----------------------------------------------------------------------------
\* comparing an observed sequence of questions <<[n, t], ...>> (repeats of a question already
\* asked removed) with prescribed steps: the types of one step may come in any order

RECURSIVE MatchesSteps(_, _)
MatchesSteps(obs, steps) ==
    IF steps = <<>> THEN obs = <<>>
    ELSE LET k == Cardinality(steps[1].ts) IN
         /\ Len(obs) >= k
         /\ \A j \in 1..k : obs[j].n = steps[1].n
         /\ {obs[j].t : j \in 1..k} = steps[1].ts
         /\ MatchesSteps(SubSeq(obs, k + 1, Len(obs)), Tail(steps))

\* observed result [kind, groups, err] against prescribed [kind, groups, errs]
ResultAgrees(obs, exp) ==
    /\ obs.kind = exp.kind
    /\ obs.kind = "ok" => obs.groups = exp.groups
    /\ obs.kind = "err" => obs.err \in exp.errs

Questions(asked) == [j \in DOMAIN asked |-> [n |-> asked[j].n, t |-> asked[j].t]]

Agrees(asked, res, p) == MatchesSteps(Questions(asked), p.steps) /\ ResultAgrees(res, p.result)
Conforms(cfg, w, asked, res) == \E p \in Plans(cfg, w) : Agrees(asked, res, p)

----------------------------------------------------------------------------
\* requirements on the observable history of one lookup: the questions `asked` (sequence of
\* [n, t, o] with the outcome each got) and, once there is one, the result

\* 1: never a name outside the candidate list
OnlyCandidates(cfg, asked) ==
    \A j \in DOMAIN asked : asked[j].n \in SeqRange(CandidatesOf(cfg, Strict))
\* 1: candidates are asked in list order (a name once left is not asked again)
InListOrder(cfg, asked) ==
    LET cs == CandidatesOf(cfg, Strict) IN
    \A j, k \in DOMAIN asked :
        (j < k /\ asked[j].n \in SeqRange(cs) /\ asked[k].n \in SeqRange(cs)) => Pos(cs, asked[j].n) <= Pos(cs, asked[k].n)
\* [hosts] [6761] [lit]: what is known locally is never asked
NothingLocalAsked(cfg, asked) ==
    /\ IsLiteral(cfg) => asked = <<>>
    /\ ~IsLiteral(cfg) =>
         LET cs == CandidatesOf(cfg, Strict) IN
         \A j \in DOMAIN asked : asked[j].n \in SeqRange(cs) => ~IsLocal(cfg, Strict, asked[j].n, Pos(cs, asked[j].n), asked[j].t)
\* only the types of the strategy
OnlyStrategyTypes(cfg, asked) == \A j \in DOMAIN asked : asked[j].t \in SeqRange(TypesOf(cfg))
\* 2: nothing is asked about a candidate after one before it gave a positive answer
\* 3 ("then"): the second family is not asked where the first one has data
\* (only the two questions of an "and" strategy about the same name can follow one another)
NothingAfterSuccess(cfg, asked) ==
    \A j, k \in DOMAIN asked :
        (j < k /\ asked[j].o = "data") => (ModeOf(cfg) = "and" /\ asked[k].n = asked[j].n)
\* 3: families in the promised order ("and": first family of the strategy before the second)
FamilyOrder(cfg, res) ==
    (res.kind = "ok" /\ ~IsLiteral(cfg)) =>
        LET ty == TypesOf(cfg)
            rank(f) == IF f = ty[1] THEN 1 ELSE 2
        IN /\ \A j \in DOMAIN res.groups : res.groups[j].fam \in SeqRange(ty)
           /\ \A j, k \in DOMAIN res.groups : j < k => rank(res.groups[j].fam) < rank(res.groups[k].fam)
           /\ ModeOf(cfg) # "and" => Len(res.groups) = 1
\* 2: a positive result consists of the answers of exactly one candidate
OneCandidate(res) == res.kind = "ok" => \A j, k \in DOMAIN res.groups : res.groups[j].n = res.groups[k].n
=============================================================================
