---------------------------- MODULE Trace_Chain ----------------------------
(* Trace validation for C07 (obligation T: impl -> spec), monitor style.    *)
(* Events recorded from the real validator (DnssecDnsHandle::send over the  *)
(* simulated internet of real authoritative servers):                       *)
(*   reset  world, q, faults, mode: a new validator, a new case             *)
(*   obs    items: <<[x, k, p]>> -- the proofs the validator put on the     *)
(*          records (k = "rr") and RRSIGs (k = "sig") of each item of the   *)
(*          final response; class: the response class (see ChainOps)        *)
(*   served cd, do, rcode, ad, ans: what a client with bits CD / DO gets    *)
(*          from a server Catalog whose forwarding zone handler resolves    *)
(*          through a validating Resolver over the same simulated internet  *)
(*          (stage two: build_forwarded_response); judged by ServedOk       *)
(* The monitor evaluates ChainOps!ObservationOk for the world and faults of *)
(* the case.  Worlds may be deeper and fault lists longer than anything the *)
(* generator enumerates: the operators are generic in both.                 *)
EXTENDS ChainOps, SequencesExt, TLC, Json, IOUtils

Rec == ndJsonDeserialize(IOEnv.TRACE)

VARIABLES l,      \* next line
          cw, cq, cF,   \* world, query, faults of the current case
          bad
tvars == <<l, cw, cq, cF, bad>>

NoWorld == [none |-> TRUE]
Init == l = 1 /\ cw = NoWorld /\ cq = "pos" /\ cF = {} /\ bad = 0

e == Rec[l]

WorldOf(j) == [n |-> j.n, signed |-> j.signed, link |-> j.link, keys |-> j.keys, anchors |-> ToSet(j.anchors)]
FaultOf(j) == [resp |-> j.resp, z |-> j.z, item |-> j.item, op |-> j.op]

Reset ==
    /\ e.ev = "reset"
    /\ cw' = WorldOf(e.world) /\ cq' = e.q /\ cF' = {FaultOf(e.faults[k]) : k \in 1..Len(e.faults)}
    /\ Assert(ValidWorld(cw'), <<"invalid world in trace", l>>)
    /\ UNCHANGED bad

Allowed == ObservationOk(cw, cF, cq, e.items, e.class)

Matched ==
    /\ e.ev = "obs" /\ Allowed
    /\ UNCHANGED <<cw, cq, cF, bad>>
Reject ==
    /\ e.ev = "obs" /\ ~Allowed
    /\ PrintT(<<"MISMATCH", ToJson([case |-> e.case, line |-> l, world |-> cw, q |-> cq, faults |-> cF,
                                     items |-> e.items, class |-> e.class,
                                     allow |-> Allow(cw, cF, cq), negSecure |-> NegSecureOk(cw, cF, cq),
                                     negInsecure |-> InsecureOk(cw, cF, cw.n), diag |-> Diagnosis(cw, cF, cq)])>>)
    /\ bad' = bad + 1 /\ UNCHANGED <<cw, cq, cF>>

ServedAllowed == ServedOk(cw, cF, cq, e.cd, e.rcode, e.ad, e.ans)
MatchedServed ==
    /\ e.ev = "served" /\ ServedAllowed
    /\ UNCHANGED <<cw, cq, cF, bad>>
RejectServed ==
    /\ e.ev = "served" /\ ~ServedAllowed
    /\ PrintT(<<"MISMATCH", ToJson([case |-> e.case, line |-> l, world |-> cw, q |-> cq, faults |-> cF,
                                     served |-> [cd |-> e.cd, do |-> e.do, rcode |-> e.rcode, ad |-> e.ad, ans |-> e.ans],
                                     allow |-> Allow(cw, cF, cq), negSecure |-> NegSecureOk(cw, cF, cq),
                                     negInsecure |-> InsecureOk(cw, cF, cw.n), diag |-> Diagnosis(cw, cF, cq)])>>)
    /\ bad' = bad + 1 /\ UNCHANGED <<cw, cq, cF>>

Next == l <= Len(Rec) /\ l' = l + 1 /\ (Reset \/ Matched \/ Reject \/ MatchedServed \/ RejectServed)

TraceSpec == Init /\ [][Next]_tvars

Consumed ==
    LET d == TLCGet("stats").diameter IN
    IF d - 1 = Len(Rec) THEN PrintT(<<"TRACE-CONSUMED", Len(Rec)>>)
    ELSE PrintT(<<"TRACE-STUCK", d, Len(Rec)>>) /\ FALSE
=============================================================================
