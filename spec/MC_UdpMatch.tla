--------------------------- MODULE MC_UdpMatch ---------------------------
(* Exhaustive configurations for UdpMatch (C16, obligation D).            *)
EXTENDS UdpMatch, TLC

\* every kind of the forgery catalogue against a one-question request, plus the kinds whose
\* view depends on the number of questions against a two-question request
MC_AllViews == {KindView(k, 1) : k \in Kinds}
               \cup {KindView(k, 2) : k \in {"genuine", "qcase", "extraQ", "subsetQ"}}

\* representative subsets for the two-transmission configurations (matching; matching only
\* without case randomisation; wrong port; undecodable; extra question; empty question section)
MC_FewViews  == {KindView(k, 1) : k \in {"genuine", "qcase", "srcPort", "garbage", "garbageOff"}}
MC_SomeViews == {KindView(k, 1) : k \in {"genuine", "qcase", "srcPort", "extraQ", "garbage", "garbageOff"}}
=============================================================================
