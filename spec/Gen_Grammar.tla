----------------------------- MODULE Gen_Grammar -----------------------------
(* Case generator for C01/C02 (records, obligation R): the record grammar of  *)
(* GrammarOps unfolded into concrete records.                                 *)
(*   single   every variant of every field of every type, the other fields    *)
(*            nominal, at home and followed by another record                 *)
(*   context  the nominal record of every type in every message context       *)
(*            (opcode x section x class x RDLENGTH policy x position)         *)
(*   pairs    (Pairs = TRUE) every pair of non-nominal variants of two fields *)
(*   trunc    the nominal record of every type cut after every octet of its   *)
(*            RDATA (never well-formed; safety only)                          *)
(*   code     every TYPE code 0..300 (and some high ones) with opaque RDATA   *)
(*   tlv      the item lists of the loop machine TlvLoop for its four         *)
(*            carriers (options, parameters, strings, windows)                *)
EXTENDS GrammarOps, TLC, Json

CONSTANTS GClasses, Pairs, TlvMaxItems, TlvLens, TlvDeltas

MC_TlvDeltas == {0, 1, 0 - 1, 6}

VARIABLE c
vars == <<c>>

Home(code) == [NomCtx EXCEPT !.sec = IF code \in {41, 250} THEN "ar" ELSE "an", !.class = IF code = 250 THEN 255 ELSE 1]

TIx == 1..Len(Types)
NF(t) == Len(Types[t].fields)
NV(t, i) == Len(Types[t].fields[i])

Single ==
    UNION {UNION {{[kind |-> "single", t |-> t, pick |-> [Nominal(t) EXCEPT ![i] = v],
                    ctx |-> [Home(Types[t].code) EXCEPT !.follow = f]] : v \in 1..NV(t, i), f \in Follows}
                  : i \in 1..NF(t)} : t \in TIx}

Context ==
    {[kind |-> "context", t |-> t, pick |-> Nominal(t),
      ctx |-> [opcode |-> o, sec |-> s, class |-> k, rdlen |-> r, follow |-> f]] :
        t \in TIx, o \in OpCodes, s \in Sections, k \in GClasses, r \in RdLens, f \in Follows}

PairSet ==
    IF ~Pairs THEN {}
    ELSE UNION {UNION {UNION {{[kind |-> "pair", t |-> t, pick |-> [Nominal(t) EXCEPT ![i] = v, ![j] = w],
                                ctx |-> Home(Types[t].code)] : v \in 2..NV(t, i), w \in 2..NV(t, j)}
                              : j \in (i + 1)..NF(t)} : i \in 1..NF(t)} : t \in TIx}

\* the inputs of TlvLoop (only the last header may lie), for every carrier
TlvLists ==
    UNION {{s \in [1..n -> [len : TlvLens, d : TlvDeltas]] : \A i \in 1..(n - 1) : s[i].d = 0} : n \in 0..TlvMaxItems}
Tlv ==
    {[kind |-> "tlv", carrier |-> k, items |-> s, stray |-> y, ctx |-> [Home(CarrierCode(k)) EXCEPT !.follow = f]] :
        k \in Carriers, s \in TlvLists, y \in 0..3, f \in Follows}

NoTlv == [carrier |-> "none", items |-> <<>>, stray |-> 0]

\* every proper prefix of the nominal RDATA of every type (the driver unfolds the prefixes; RDLENGTH = prefix length)
Trunc == {[kind |-> "trunc", t |-> t, pick |-> Nominal(t), ctx |-> Home(Types[t].code)] : t \in TIx}

\* every TYPE code of the assigned range and a few beyond, with an opaque 9-octet RDATA (and with none):
\* whatever a code means to the decoder, it must not take it down
CodeSweep == {[kind |-> "code", code |-> k, n |-> n] :
                 k \in (0..300) \cup {32768, 32769, 32770, 65279, 65280, 65281, 65534, 65535}, n \in {0, 1, 9}}

Cases == Single \cup Context \cup PairSet \cup Trunc

Init == c \in Cases \cup {x \in Tlv : x.stray < CarrierHdr(x.carrier)} \cup CodeSweep
Next == UNCHANGED c
Spec == Init /\ [][Next]_vars

Case ==
    IF c.kind = "code"
    THEN [kind |-> "code", type |-> "TYPE" \o ToString(c.code), code |-> c.code, tags |-> <<"opaque">>, ctx |-> NomCtx,
          prims |-> IF c.n = 0 THEN <<>> ELSE <<B(c.n, 7)>>, must |-> FALSE, bytePreserved |-> FALSE, tlv |-> NoTlv]
    ELSE IF c.kind = "tlv"
    THEN [kind |-> "tlv", type |-> Types[TypeIx(CarrierCode(c.carrier))].name, code |-> CarrierCode(c.carrier), tags |-> <<"tlv">>,
          ctx |-> c.ctx, prims |-> TlvPrims(c.carrier, c.items, c.stray), must |-> TlvMust(c.carrier, c.items, c.stray, c.ctx),
          bytePreserved |-> BytePreserved(CarrierCode(c.carrier)),
          tlv |-> [carrier |-> c.carrier, items |-> c.items, stray |-> c.stray]]
    ELSE [kind |-> c.kind, type |-> Types[c.t].name, code |-> Types[c.t].code, tags |-> Tags(c.t, c.pick), ctx |-> c.ctx,
          prims |-> Prims(c.t, c.pick), must |-> c.kind # "trunc" /\ Must(c.t, c.pick, c.ctx),
          bytePreserved |-> BytePreserved(Types[c.t].code) /\ ~HasPtr(Prims(c.t, c.pick)), tlv |-> NoTlv]
Emit == PrintT(<<"REPLAY", ToJson(Case)>>)
=============================================================================
