------------------------------ MODULE Serving ------------------------------
(* C11, last sentence: "No request content makes the handler panic or stop   *)
(* serving later requests" -- for the server as it really runs, behind real  *)
(* UDP and TCP sockets.  One action per request sent and per response seen.  *)
(*                                                                           *)
(* The environment sends anything it likes (Hostile): requests from the      *)
(* FrontDoor request space and transport-level oddities (answers too large   *)
(* for a datagram, empty and one-octet datagrams, response-flagged messages, *)
(* TCP frames split octet by octet, connections closed inside a frame, many  *)
(* pipelined queries read late).  Nothing is demanded for those here (what   *)
(* each of them is owed is FrontDoorReq's business).  After ANY prefix of    *)
(* such requests a canary -- an ordinary query that must be answered -- is   *)
(* sent; it gets exactly one matching response: QR set, same ID, the same    *)
(* question, an RCODE FrontDoorReq permits, from the zone FrontDoorReq names.*)
(* Over UDP the canary may be sent a second time if nothing came back (a     *)
(* datagram may be lost), hence "between one response and one per attempt".  *)
EXTENDS FrontDoorReq, Sequences, TLC

CONSTANTS HostileKinds,   \* what the environment may send
          Canaries,       \* canary requests (attribute records of FrontDoorReq)
          Config,         \* the configuration [origins, chain, allow, deny]
          MaxHostile      \* bound on the prefix length (model checking only)

VARIABLES prefix,     \* kinds of the hostile requests sent so far
          pending,    \* the canary waiting for its response, or NoCanary
          attempts,   \* how often it has been sent
          lastObs,    \* what came back for the last canary
          answered    \* canaries answered so far

svars == <<prefix, pending, attempts, lastObs, answered>>

NoCanary == [short |-> TRUE]
NoObs == [replies |-> 0]

\* what is owed to a canary (r is answered: neither short nor a response)
CanaryOk(r, cfg, obs) ==
    /\ obs.replies >= 1 /\ obs.replies <= obs.attempts
    /\ obs.qrset /\ obs.idok /\ obs.question = "same"
    /\ obs.rcode \in PermittedRcodes(r, cfg)
    /\ (Plain(r, cfg.allow, cfg.deny) /\ obs.rcode \in ZoneRcodes /\ "deny" \notin AclDecisions(cfg.allow, cfg.deny, r.src)) =>
          LET z == AnsweringZone(cfg.origins, r.qname) IN
          /\ z # NoZone /\ obs.zone \in {z, NoZone}
          /\ obs.handler \in {0, FirstActive(cfg.chain[z])}

\* the response the design gives to a canary
DesignObs(r, a) ==
    LET rcs == PermittedRcodes(r, Config)
        z   == AnsweringZone(Config.origins, r.qname)
    IN  {[replies |-> 1, attempts |-> a, qrset |-> TRUE, idok |-> TRUE, question |-> "same", rcode |-> rc,
          zone |-> IF rc \in ZoneRcodes THEN z ELSE NoZone,
          handler |-> IF rc \in ZoneRcodes /\ z # NoZone THEN FirstActive(Config.chain[z]) ELSE 0] : rc \in rcs}

Init == prefix = <<>> /\ pending = NoCanary /\ attempts = 0 /\ lastObs = NoObs /\ answered = 0

\* anything may be sent at any time; the server may or may not answer it -- it stays a server
Hostile ==
    /\ Len(prefix) < MaxHostile
    /\ \E k \in HostileKinds : prefix' = Append(prefix, k)
    /\ UNCHANGED <<pending, attempts, lastObs, answered>>

SendCanary ==
    /\ pending = NoCanary
    /\ \E c \in Canaries : pending' = c
    /\ attempts' = 1 /\ UNCHANGED <<prefix, lastObs, answered>>

\* UDP: nothing came back, the canary is sent once more
RetryCanary ==
    /\ pending # NoCanary /\ attempts = 1
    /\ attempts' = 2 /\ UNCHANGED <<prefix, pending, lastObs, answered>>

AnswerCanary ==
    /\ pending # NoCanary
    /\ \E o \in DesignObs(pending, attempts) : lastObs' = o
    /\ pending' = NoCanary /\ answered' = answered + 1 /\ UNCHANGED <<prefix, attempts>>

Next == Hostile \/ SendCanary \/ RetryCanary \/ AnswerCanary
Spec == Init /\ [][Next]_svars
\* the server is live: a canary that is waiting is answered
FairSpec == Spec /\ WF_svars(AnswerCanary)

C11_CanaryAnswered == lastObs = NoObs \/ \E c \in Canaries : CanaryOk(c, Config, lastObs)
\* serving continues: whatever was sent before, a canary that has been sent gets its response
C11_ServingContinues == (pending # NoCanary) ~> (pending = NoCanary)
StateBound == answered <= 2
=============================================================================
