------------------------------- MODULE Trace_Wire -------------------------------
(* Trace validation for C01 (obligation T).  One event per decoding call on     *)
(* hostile input:                                                               *)
(*   decode  entry (message | request | name | record | rdata:<type>) len       *)
(*           outcome (ok | err | PANIC) consumed maxLabel maxNameWire ms        *)
(* Requirements of the property, evaluated per event: the call returned a value *)
(* or an error (no panic; a hang is caught by the driver's watchdog and makes   *)
(* the run fail), it stayed inside the input, every decoded name respects the   *)
(* 63 / 255 limits, and the time spent on the input is bounded (an absolute,    *)
(* generous budget for inputs of at most 65,535 octets).                        *)
EXTENDS Naturals, Sequences, TLC, Json, IOUtils

Rec == ndJsonDeserialize(IOEnv.TRACE)
VARIABLES l
Init == l = 1
e == Rec[l]
BudgetMs == 2000

Allowed ==
    /\ e.outcome \in {"ok", "err"}                 \* C01_Total
    /\ e.consumed <= e.len                         \* C01_NoOOB
    /\ e.maxLabel <= 63 /\ e.maxNameWire <= 255    \* C01_Limits
    /\ e.ms <= BudgetMs                            \* C01_Time
    /\ e.len <= 65535

Reject == ~Allowed /\ PrintT(<<"MISMATCH", ToJson([case |-> e.case, line |-> l, event |-> e])>>)
Next == l <= Len(Rec) /\ l' = l + 1 /\ (Allowed \/ Reject)
TraceSpec == Init /\ [][Next]_<<l>>
Consumed ==
    LET d == TLCGet("stats").diameter IN
    IF d - 1 = Len(Rec) THEN PrintT(<<"TRACE-CONSUMED", Len(Rec)>>)
    ELSE PrintT(<<"TRACE-STUCK", d, Len(Rec)>>) /\ FALSE
=============================================================================
