------------------------------ MODULE ZoneLex ------------------------------
(* C20 -- the lexical level of RFC 1035 section 5.1 master files, written   *)
(* from the RFC text (not from hickory's lexer).  Constant-free operator     *)
(* module shared by the MC, Gen and Trace configurations.                    *)
(*                                                                           *)
(* A text is a sequence of characters (one-character strings).  Reading a    *)
(* text yields the sequence of its *logical lines*; a logical line is        *)
(*     [bl |-> starts with white space, items |-> <<item, ...>>]             *)
(* and an item is                                                            *)
(*     [q |-> quoted?, v |-> <<chars>>, p |-> begins inside parentheses?,     *)
(*      pb |-> a parenthesis occurs earlier on the logical line?]            *)
(* For a quoted item v is the content with \X escapes applied; for an        *)
(* unquoted item v is the raw spelling (what an escape means depends on      *)
(* whether the item is a domain name or a character string, decided by the   *)
(* entry level, module ZoneFile).                                            *)
(*                                                                           *)
(* RFC 1035 5.1 as read here:                                                *)
(*  - any combination of tabs and spaces separates items;                    *)
(*  - ";" starts a comment that runs to the end of the line, also inside     *)
(*    parentheses;                                                           *)
(*  - "(" ... ")" : line terminations are not recognised inside;             *)
(*  - a string beginning and ending with a double quote is one item wherever *)
(*    it occurs (also inside parentheses); inside it any character can occur *)
(*    (including CRLF), a double quote must be written \" ;                  *)
(*  - \X (X not a digit) quotes X so that its special meaning does not apply;*)
(*  - lines with no items are blank lines and are allowed anywhere.          *)
(* The reading is three-valued: "ok", "err" (malformed beyond doubt: a       *)
(* quoted string or a parenthesis still open at the end of the text, a ")"   *)
(* without "("), and "unspec" wherever the RFC leaves the meaning open       *)
(* (nested parentheses, \DDD -- not judged by property C20 --, control and   *)
(* non-ASCII characters, a quote glued to a word, a lone CR ...).  For       *)
(* "unspec" texts the property only demands totality (ok or error, never a   *)
(* panic or a hang).                                                         *)
EXTENDS Naturals, Sequences, SequencesExt

Chars(s) == [i \in 1..Len(s) |-> SubSeq(s, i, i)]
RangeOf(s) == {s[i] : i \in DOMAIN s}

Blanks  == {" ", "\t"}
DigitCh == RangeOf(Chars("0123456789"))
LetterCh == RangeOf(Chars("abcdefghijklmnopqrstuvwxyzABCDEFGHIJKLMNOPQRSTUVWXYZ"))
\* printable ASCII without meaning at the lexical level
PunctCh == RangeOf(Chars("!#%&'*+,-./:<=>?[]^_`{|}~$@"))
Ordinary == LetterCh \cup DigitCh \cup PunctCh
Special  == {";", "(", ")", "\"", "\\"}
Printable == Ordinary \cup Special \cup {" "}

Item(q, v, p, pb) == [q |-> q, v |-> v, p |-> p, pb |-> pb]

\* ---------------------------------------------------------------------------
\* the machine: one character per step
\*   m     mode: bol gap word wesc quote qesc aq (after a closing quote) ap (after ")") comment cr
\*   par   TRUE inside "(" ... ")"
\*   bl    the logical line being read started with white space
\*   ip    the item being read started inside parentheses
\*   cur   characters of the item being read
\*   items items of the logical line being read;  lines: finished logical lines
\*   pn    number of items on the logical line when "(" was read (a group without items is not judged)
\*   sp    a parenthesis has occurred on the logical line being read
\*   st    "run" | "err" | "unspec"      why: first reason
\*   tags  lexical features seen (reported also when the reading fails)
LexInit == [m |-> "bol", par |-> FALSE, pn |-> 0, bl |-> FALSE, ip |-> FALSE, sp |-> FALSE, ipb |-> FALSE, cur |-> <<>>, items |-> <<>>,
            lines |-> <<>>, st |-> "run", why |-> "", n |-> 0, tags |-> {}]

Stop(L, st, why) == [L EXCEPT !.st = st, !.why = why, !.tags = @ \cup {"lex-" \o st \o ": " \o why}]

EndItem(L, q)  == [L EXCEPT !.items = Append(@, Item(q, L.cur, L.ip, L.ipb)), !.cur = <<>>]
EndLine(L) ==
    IF L.items = <<>> THEN [L EXCEPT !.m = "bol", !.bl = FALSE, !.sp = FALSE]
    ELSE [L EXCEPT !.lines = Append(@, [bl |-> L.bl, items |-> L.items]), !.items = <<>>, !.m = "bol", !.bl = FALSE, !.sp = FALSE]

\* a line terminator seen between items
Newline(L) == IF L.par THEN [L EXCEPT !.m = "gap"] ELSE EndLine(L)

\* character c seen between items (modes bol, gap, aq, ap); glued: directly after a closing quote or ")"
First(L) == L.items = <<>> /\ ~L.bl            \* the item starting now is the first of an unindented line
Between(L, c, glued) ==
    CASE c \in Blanks -> [L EXCEPT !.m = "gap"]
      [] c = "\n"     -> Newline(L)
      [] c = "\r"     -> [L EXCEPT !.m = "cr"]
      [] c = ";"      -> [L EXCEPT !.m = "comment"]
      [] c = "("      -> IF L.par THEN Stop(L, "unspec", "nested parentheses") ELSE [L EXCEPT !.par = TRUE, !.pn = Len(L.items), !.sp = TRUE, !.m = "gap"]
      [] c = ")"      -> IF ~L.par THEN Stop(L, "err", "unbalanced )")
                         ELSE IF Len(L.items) = L.pn THEN Stop(L, "unspec", "parentheses around nothing")
                         ELSE [L EXCEPT !.par = FALSE, !.m = "ap"]
      [] glued        -> Stop(L, "unspec", "item glued to a closing quote or parenthesis")
      [] c = "\""     -> [L EXCEPT !.m = "quote", !.cur = <<>>, !.ip = L.par, !.ipb = L.sp,
                                   !.tags = IF L.par THEN @ \cup {"lex-quote-in-paren"} ELSE @]
      [] c = "\\"     -> [L EXCEPT !.m = "wesc", !.cur = <<c>>, !.ip = L.par, !.ipb = L.sp, !.tags = @ \cup {"lex-escape-in-word"}]
      [] c \in Ordinary -> [L EXCEPT !.m = "word", !.cur = <<c>>, !.ip = L.par, !.ipb = L.sp,
                                     !.tags = IF c = "$" /\ ~First(L) THEN @ \cup {"lex-dollar-word"}
                                              ELSE IF c = "@" /\ ~First(L) THEN @ \cup {"lex-at-word"} ELSE @]
      [] OTHER        -> Stop(L, "unspec", "character outside printable ASCII")

LexChar(L0, c) ==
    LET L == [L0 EXCEPT !.n = @ + 1] IN
    IF L.st # "run" THEN L0
    ELSE CASE L.m = "bol"  -> Between([L EXCEPT !.bl = (c \in Blanks)], c, FALSE)
           [] L.m = "gap"  -> Between(L, c, FALSE)
           [] L.m \in {"aq", "ap"} -> Between(L, c, TRUE)
           [] L.m = "cr"   -> IF c = "\n" THEN Newline(L) ELSE Stop(L, "unspec", "CR without LF")
           [] L.m = "comment" -> IF c = "\n" THEN Newline(L)
                                 ELSE IF c = "\r" THEN [L EXCEPT !.m = "cr"] ELSE L
           [] L.m = "word" ->
                CASE c \in Ordinary -> [L EXCEPT !.cur = Append(@, c)]
                  [] c = "\\"       -> [L EXCEPT !.cur = Append(@, c), !.m = "wesc", !.tags = @ \cup {"lex-escape-in-word"}]
                  [] c \in Blanks \cup {"\n", "\r", ";", ")"} -> Between(EndItem(L, FALSE), c, FALSE)
                  [] c = "("        -> Stop(L, "unspec", "( glued to a word")
                  [] c = "\""       -> Stop(L, "unspec", "quote inside a word")
                  [] OTHER          -> Stop(L, "unspec", "character outside printable ASCII")
           [] L.m = "wesc" ->
                IF c \in Printable THEN [L EXCEPT !.cur = Append(@, c), !.m = "word"]
                ELSE Stop(L, "unspec", "escaped control character")
           [] L.m = "quote" ->
                CASE c = "\""  -> [EndItem(L, TRUE) EXCEPT !.m = "aq"]
                  [] c = "\\"  -> [L EXCEPT !.m = "qesc"]
                  [] c \in Printable \cup {"\t", "\n", "\r"} -> [L EXCEPT !.cur = Append(@, c)]
                  [] OTHER     -> Stop(L, "unspec", "character outside printable ASCII")
           [] L.m = "qesc" ->
                CASE c \in DigitCh   -> Stop(L, "unspec", "\\DDD in a quoted string")
                  [] c \in Printable -> [L EXCEPT !.cur = Append(@, c), !.m = "quote"]
                  [] OTHER           -> Stop(L, "unspec", "escaped control character")

\* end of text
LexEof(L) ==
    IF L.st # "run" THEN L
    ELSE CASE L.m \in {"quote", "qesc"} -> Stop(L, "err", "unterminated quoted string")
           [] L.m = "wesc" -> Stop(L, "unspec", "backslash at end of text")
           [] L.m = "cr"   -> Stop(L, "unspec", "CR without LF")
           [] L.par        -> Stop(L, "err", CASE L.m = "word" -> "unclosed ( at the end of the text, directly after a word"
                                                   [] L.m = "comment" -> "unclosed ( at the end of the text, inside a comment"
                                                   [] OTHER -> "unclosed (")
           [] L.m = "word" -> [EndLine(EndItem(L, FALSE)) EXCEPT !.st = "ok"]
           [] OTHER        -> [EndLine(L) EXCEPT !.st = "ok"]

\* FoldLeft is evaluated by a Java loop (CommunityModules), so long texts do not recurse
LexChars(cs) == LexEof(FoldLeft(LexChar, LexInit, cs))
Lex(text)    == LexChars(Chars(text))

\* C20_Total at this level: every character is consumed by exactly one step, whatever it is
\* (checked exhaustively over short strings by MC_ZoneLex through the step machine below).
=============================================================================
