----------------------------- MODULE AuthNames -----------------------------
(* Domain names for the authoritative-server specifications (C10, C11).     *)
(* Constant-free.  A name is a sequence of labels, leftmost label first,    *)
(* fully qualified: the root is the empty sequence.  A label is a natural   *)
(* number, the octet of a single-octet label (42 is the asterisk), so that  *)
(* identity of names is identity of sequences.  Case folding is not         *)
(* modelled here (C04 owns it); the concretiser only produces lower case.   *)
EXTENDS Naturals, Sequences, FiniteSets

STAR == 42
Root == <<>>

\* RFC 1034 section 3.1: the parent of a node is the name without its leftmost label
Parent(n) == SubSeq(n, 2, Len(n))

\* n is at or below anc in the tree (anc is a suffix of n, label-wise)
IsSubdomain(n, anc) ==
    /\ Len(anc) <= Len(n)
    /\ SubSeq(n, Len(n) - Len(anc) + 1, Len(n)) = anc

StrictlyBelow(n, anc) == n # anc /\ IsSubdomain(n, anc)

\* RFC 4592 section 2.1.1: a wildcard domain name has "*" as its leftmost label
IsWildcard(n)  == n # Root /\ n[1] = STAR
WildcardAt(n)  == <<STAR>> \o n
\* an asterisk label that is not leftmost is an ordinary label (RFC 4592 section 2.1.3)
HasInteriorStar(n) == \E i \in 2..Len(n) : n[i] = STAR

\* n and all its ancestors up to and including top (n is at or below top)
RECURSIVE UpTo(_, _)
UpTo(n, top) == IF n = top \/ n = Root THEN {n} ELSE {n} \cup UpTo(Parent(n), top)

\* RFC 4592 section 3.3.1: the closest encloser of n is the longest existing ancestor of n
\* (n itself if it exists).  `exist` must contain some name at or above n.
RECURSIVE ClosestEncloser(_, _)
ClosestEncloser(n, exist) == IF n \in exist \/ n = Root THEN n ELSE ClosestEncloser(Parent(n), exist)

\* the name with k labels that is at or above n (k <= Len(n))
SuffixOf(n, k) == SubSeq(n, Len(n) - k + 1, Len(n))
=============================================================================
