SPECIFICATION Spec
CONSTANTS
  Apex <- AP
  InitRRs <- MC_InitRRs
  InitSer <- MC_InitSer
  Msgs <- MC_Msgs
  MaxMsgs = 3
  MaxCrashes = 2
  AtomicDump = FALSE
  AtomicMsg = TRUE
INVARIANTS TypeOK C14_Boundary C14_AckedDurable C14_NoHalfApplied C14_RecoverTotal C14_SerialMonotone C14_Transparent C14_ZoneOK
CHECK_DEADLOCK FALSE
