\* thorough: longer scripts over a bigger alphabet
SPECIFICATION Spec
CONSTANTS
  Rest <- MC_Rest
  Serial <- MC_Serial
  Caps <- MC_OneCap
  Policies <- MC_OnePolicy
  Reqs <- MC_ScriptReqs
  Sources <- MC_ScriptOnly
  ScriptMsgs <- MC_ScriptMsgs4
  MaxScript = 4
  Flaws <- MC_NoFlaws
INVARIANTS TypeOK X02_ClientCompleteIsWhole X02_ClientVerdict X02_Delivery
CHECK_DEADLOCK FALSE
