----------------------------- MODULE Canonical -----------------------------
(***************************************************************************)
(* C05 -- RRset signed data equals the RFC 4034/4035 canonical form.       *)
(*                                                                         *)
(* Two layers.                                                             *)
(*  - The pure decision procedure lives in CanonicalForm (CanonRdata,      *)
(*    RdataLess, CanonSet/CanonSeq, SignedOwner, SignedData).              *)
(*  - This module is the MACHINE around it: the life of one signed RRset.  *)
(*    A signer computes the signed data of the RRset as it stands in the   *)
(*    zone (Sign).  The RRset then travels: servers, caches and forwarders *)
(*    are free to reorder the records, repeat a record, change the case of *)
(*    the owner name (0x20 mixing), change the case of embedded names of   *)
(*    the RR types whose names are compressible/case-insensitive, count    *)
(*    the TTL down, and synthesise the RRset from a wildcard (one action   *)
(*    each).  A verifier finally recomputes the signed data from what      *)
(*    arrived (Verify).                                                    *)
(*  The REQUIREMENTS C05_xxx say that this works out for every such        *)
(*  history: the canonical form is exactly what makes a signature          *)
(*  independent of the presentation.                                       *)
(*                                                                         *)
(* `Rule` selects the ordering rule used by the modelled signer and        *)
(* verifier: "rfc" (required) or "asis" (the rule of hickory-dns'          *)
(* TBS::new as found: sort by received TTL, then by the case-preserving    *)
(* RDATA octets, duplicates kept).  "asis" exists only to reproduce the    *)
(* finding as a TLC counterexample (MC_Canonical_AsIs.cfg); conformance    *)
(* always runs against "rfc".                                              *)
(***************************************************************************)
EXTENDS Naturals, Sequences, FiniteSets, SequencesExt, TLC, CanonicalForm

CONSTANTS
    Type,           \* RR type code of the RRset
    Class,          \* class code
    ZoneOwner,      \* owner name in the zone (may start with the "*" label)
    RdataUniverse,  \* set of rdata (field lists) the zone's RRset is drawn from
    MaxZone,        \* the RRset has 1..MaxZone records
    MaxPres,        \* a presentation has at most MaxPres records
    SigBase,        \* RRSIG parameters without tc/labels (the signer fills those in)
    TtlSet,         \* received TTL values (four octets each) a cache may show
    ExpandSet,      \* labels a wildcard owner may be expanded with
    Rule            \* "rfc" | "asis"

VARIABLES
    zone,       \* the RRset in the zone: a set of rdata
    sig,        \* RRSIG parameters chosen by the signer, or NoSig
    signed,     \* octets the signer handed to the crypto
    powner,     \* owner name of the presentation
    pres,       \* the presentation: sequence of [ttl, rd]
    verdict     \* "none" | "accept" | "reject"

vars == <<zone, sig, signed, powner, pres, verdict>>

NoSig == [none |-> TRUE]

Toggle(b) == IF b \in 65..90 THEN b + 32 ELSE IF b \in 97..122 THEN b - 32 ELSE b
IsLetter(b) == b \in 65..90 \/ b \in 97..122

---------------------------------------------------------------------------
\* what signer and verifier compute, by rule

\* the as-found rule: order by (received TTL, case-preserving octets), duplicates kept
AsIsLess(r1, r2) ==
    \/ OctetLess(r1.ttl, r2.ttl)
    \/ r1.ttl = r2.ttl /\ OctetLess(WireFields(r1.rd), WireFields(r2.rd))
AsIsSigned(owner, recs, s) ==
    LET srt == SortSeq(recs, AsIsLess) IN
    WireFields(SigPrefixFields(s) \o
        FlattenSeq([i \in 1..Len(srt) |-> RRFields(owner, Class, s, CanonWire(s.tc, srt[i].rd))]))

Computed(owner, recs, s) ==
    IF Rule = "rfc" THEN SignedData(owner, Class, recs, s) ELSE AsIsSigned(owner, recs, s)

---------------------------------------------------------------------------
Init ==
    /\ zone \in {z \in SUBSET RdataUniverse : Cardinality(z) \in 1..MaxZone}
    /\ sig = NoSig /\ signed = <<>>
    /\ powner = ZoneOwner /\ pres = <<>> /\ verdict = "none"

\* The signer: RFC 4034 3.1.3 Labels, the RRset type, the zone's TTL as Original TTL.
\* (A zone holds each record once: the set is enumerated in an arbitrary order.)
Sign ==
    /\ sig = NoSig
    /\ LET s == [tc |-> Type, alg |-> SigBase.alg, labels |-> SignerLabels(ZoneOwner),
                 ottl |-> SigBase.ottl, exp |-> SigBase.exp, inc |-> SigBase.inc,
                 tag |-> SigBase.tag, signer |-> SigBase.signer]
           zs == SetToSeq(zone)
           recs == [i \in 1..Len(zs) |-> [ttl |-> SigBase.ottl, rd |-> zs[i]]] IN
       /\ sig' = s
       /\ signed' = Computed(ZoneOwner, recs, s)
    /\ UNCHANGED <<zone, powner, pres, verdict>>

\* an authoritative server answers with the RRset (any order is produced by Swap below)
Publish ==
    /\ sig # NoSig /\ pres = <<>>
    /\ LET zs == SetToSeq(zone) IN
       pres' = [i \in 1..Len(zs) |-> [ttl |-> sig.ottl, rd |-> zs[i]]]
    /\ UNCHANGED <<zone, sig, signed, powner, verdict>>

Swap(i) ==
    /\ i \in 1..(Len(pres) - 1)
    /\ pres' = [pres EXCEPT ![i] = pres[i + 1], ![i + 1] = pres[i]]
    /\ UNCHANGED <<zone, sig, signed, powner, verdict>>

Duplicate(i) ==
    /\ i \in 1..Len(pres) /\ Len(pres) < MaxPres
    /\ pres' = Append(pres, pres[i])
    /\ UNCHANGED <<zone, sig, signed, powner, verdict>>

\* RFC 4343: the case of the owner name is not significant and not preserved end to end
RecaseOwner(i, j) ==
    /\ pres # <<>> /\ i \in 1..Len(powner) /\ j \in 1..Len(powner[i]) /\ IsLetter(powner[i][j])
    /\ powner' = [powner EXCEPT ![i][j] = Toggle(@)]
    /\ UNCHANGED <<zone, sig, signed, pres, verdict>>

\* only for the types of RFC 4034 6.2 item 3 may a name inside the RDATA change case on
\* the way (for all other types the RDATA is opaque to everybody on the path)
RecaseRdata(r, f, i, j) ==
    /\ Type \in LowerTypes
    /\ r \in 1..Len(pres) /\ f \in 1..Len(pres[r].rd) /\ pres[r].rd[f].k = "n"
    /\ i \in 1..Len(pres[r].rd[f].v) /\ j \in 1..Len(pres[r].rd[f].v[i])
    /\ IsLetter(pres[r].rd[f].v[i][j])
    /\ pres' = [pres EXCEPT ![r].rd[f].v[i][j] = Toggle(@)]
    /\ UNCHANGED <<zone, sig, signed, powner, verdict>>

\* a cache shows a counted-down TTL (possibly on one record only: RFC 2181 5.2 says such a
\* response is an error of the sender, the signed data does not depend on it)
AgeTtl(r, t) ==
    /\ r \in 1..Len(pres) /\ t \in TtlSet /\ pres[r].ttl # t
    /\ pres' = [pres EXCEPT ![r].ttl = t]
    /\ UNCHANGED <<zone, sig, signed, powner, verdict>>

\* RFC 4035 3.1.3.3: a wildcard RRset answers for an expanded owner name
ExpandWildcard(l) ==
    /\ pres # <<>> /\ Len(powner) > 0 /\ powner[1] = STAR /\ l \in ExpandSet
    /\ powner' = <<l>> \o Tail(powner)
    /\ UNCHANGED <<zone, sig, signed, pres, verdict>>

Verify ==
    /\ pres # <<>> /\ verdict = "none"
    /\ verdict' = IF ~LabelsTooMany(powner, sig.labels) /\ Computed(powner, pres, sig) = signed
                  THEN "accept" ELSE "reject"
    /\ UNCHANGED <<zone, sig, signed, powner, pres>>

Next ==
    \/ Sign
    \/ Publish
    \/ \E i \in 1..MaxPres : Swap(i)
    \/ \E i \in 1..MaxPres : Duplicate(i)
    \/ \E i \in 1..8, j \in 1..8 : RecaseOwner(i, j)
    \/ \E r \in 1..MaxPres, f \in 1..4, i \in 1..4, j \in 1..4 : RecaseRdata(r, f, i, j)
    \/ \E r \in 1..MaxPres, t \in TtlSet : AgeTtl(r, t)
    \/ \E l \in ExpandSet : ExpandWildcard(l)
    \/ Verify

Spec == Init /\ [][Next]_vars

(***************************************************************************)
(* Requirements                                                            *)
(***************************************************************************)

\* The octets handed to the crypto are the RFC 4035 5.3.2 signed data of the RRset
C05_Form ==
    sig # NoSig =>
        LET zs == SetToSeq(zone)
            recs == [i \in 1..Len(zs) |-> [ttl |-> sig.ottl, rd |-> zs[i]]] IN
        signed = SignedData(ZoneOwner, Class, recs, sig)

\* ... and they do not depend on how the RRset is presented: record order, repeated
\* records, owner case, case of embedded names (listed types), received TTLs, wildcard
\* expansion
C05_OrderInvariant ==
    (sig # NoSig /\ pres # <<>>) =>
        /\ ~LabelsTooMany(powner, sig.labels)
        /\ SignedData(powner, Class, pres, sig) = signed

\* RFC 4034 6.3: the RRs appear in strictly increasing canonical order, each distinct RR once
C05_StrictOrder ==
    pres # <<>> =>
        LET cs == CanonSeq(Type, pres) IN
        /\ \A i \in 1..(Len(cs) - 1) : OctetLess(cs[i], cs[i + 1])
        /\ ToSet(cs) = CanonSet(Type, pres)
        /\ Len(cs) = Cardinality(CanonSet(Type, pres))

\* the order is a strict total order on canonical RDATA (so the sort is well defined)
C05_TotalOrder ==
    \A r1, r2 \in RdataUniverse :
        LET a == CanonWire(Type, r1)
            b == CanonWire(Type, r2) IN
        /\ ~(OctetLess(a, b) /\ OctetLess(b, a))
        /\ (a = b) \/ OctetLess(a, b) \/ OctetLess(b, a)
        /\ (a = b) => ~OctetLess(a, b)

\* what the built-in signer signed, the built-in verifier accepts
C05_SelfVerify == verdict # "reject"

TypeOK ==
    /\ zone \subseteq RdataUniverse /\ Len(pres) <= MaxPres
    /\ verdict \in {"none", "accept", "reject"}
=============================================================================
