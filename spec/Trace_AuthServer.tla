------------------------- MODULE Trace_AuthServer -------------------------
(* Trace validation for C10 (obligation T: impl -> spec), monitor style.    *)
(* Events recorded by drive_auth from the real Catalog + InMemoryZoneHandler*)
(*   reset  case, apex, zone (list of RRs), sign (none | nsec | nsec3)      *)
(*   q      qn, qt, do, resp = [replies, rcode, aa, an, au, ad]             *)
(*          (optionally ok: the verdict of the driver's own matcher, which  *)
(*          must agree with this one -- adapter cross-check)                *)
(* Every query is its own case: the response must conform to                *)
(* AuthAnswer!Answer for the zone of the last reset.  A response that does  *)
(* not is printed as MISMATCH together with whether it is exactly what the  *)
(* listed deviations (AuthAsIs, constant ActiveDev) predict and which of    *)
(* them make the difference; it never stops the rest of the file from being *)
(* examined.                                                                *)
EXTENDS AuthAsIs, TLC, Json, IOUtils

CONSTANT ActiveDev

Rec == ndJsonDeserialize(IOEnv.TRACE)

VARIABLES l,      \* next line of Rec
          V,      \* view of the current zone
          cid, sign, bad

tvars == <<l, V, cid, sign, bad>>

NoView == View({}, <<>>)
Init == l = 1 /\ V = NoView /\ cid = "none" /\ sign = "none" /\ bad = 0

e == Rec[l]

RRof(r) == [o |-> r.o, t |-> r.t, d |-> r.d]

Reset ==
    /\ e.ev = "reset"
    /\ V' = View({RRof(e.zone[i]) : i \in 1..Len(e.zone)}, e.apex)
    /\ cid' = e.case /\ sign' = e.sign /\ bad' = bad

Resp == [rcode |-> e.resp.rcode, aa |-> e.resp.aa, an |-> e.resp.an, au |-> e.resp.au]
Signed == e.do /\ sign # "none"

Good(exp) ==
    /\ e.resp.replies = 1
    /\ IF Signed THEN ConformsSigned(V, exp, Resp) ELSE Conforms(V, exp, Resp)

Query ==
    /\ e.ev = "q"
    /\ LET exp == Answer(V, e.qn, e.qt)
           ok  == Good(exp)
       IN  /\ IF ok
              THEN bad' = bad
              ELSE LET x    == AnswerD(V, e.qn, e.qt, ActiveDev)
                       expl == ActiveDev # {} /\ x # exp /\ Good(x)
                   IN  /\ PrintT(<<"MISMATCH", ToJson([case |-> cid, line |-> l, qn |-> e.qn, qt |-> e.qt,
                                     sign |-> sign, explained |-> expl,
                                     dev |-> IF expl THEN BlamedFor(V, e.qn, e.qt, ActiveDev, x) ELSE {},
                                     kinds |-> {a.k : a \in exp},
                                     expected |-> exp, observed |-> e.resp])>>)
                       /\ bad' = bad + 1
           \* adapter cross-check: the driver's matcher and this one must agree
           /\ ("ok" \in DOMAIN e /\ e.ok # ok) => PrintT(<<"ADAPTER-DISAGREES", l>>)
    /\ UNCHANGED <<V, cid, sign>>

Next == l <= Len(Rec) /\ l' = l + 1 /\ (Reset \/ Query)

TraceSpec == Init /\ [][Next]_tvars

Consumed ==
    LET d == TLCGet("stats").diameter IN
    IF d - 1 = Len(Rec) THEN PrintT(<<"TRACE-CONSUMED", Len(Rec)>>)
    ELSE PrintT(<<"TRACE-STUCK", d, Len(Rec)>>) /\ FALSE
=============================================================================
