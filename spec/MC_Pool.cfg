\* two servers x all profiles x strategies x parallelism x per-attempt timeout; two callers
SPECIFICATION Spec
CONSTANTS
  Configs <- MC_Two
  NCallers = 2
  Gaps <- MC_Gaps
  Backoff0 = 20
  BackoffCap = 300
  DeadlineRule = "required"
  UdpRule = "required"
INVARIANTS TypeOK C18_Deadline C18_FindsHealthy C18_TcpRetry C18_UntrustedNxContinues C18_SharedOnce C18_MapCleaned
CHECK_DEADLOCK FALSE
