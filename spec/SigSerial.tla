----------------------------- MODULE SigSerial -----------------------------
(***************************************************************************)
(* RFC 1982 serial number arithmetic as used by RFC 4034 3.1.5 for the     *)
(* RRSIG Inception / Expiration fields.  Constant-free.                    *)
(*  - S*  : on naturals, the modulus M = 2^SERIAL_BITS is an argument (the *)
(*          model checker uses a small ring, e.g. M = 32);                 *)
(*  - P*  : on real 32-bit values written as pairs <<hi16, lo16>> (TLC     *)
(*          integers are 32-bit signed), used by the trace monitor.        *)
(* RFC 1982 3.2: s1 < s2 iff s1 # s2 and the forward distance from s1 to   *)
(* s2 is below 2^(SERIAL_BITS-1); if the distance is exactly that value    *)
(* the comparison is undefined.                                            *)
(***************************************************************************)
EXTENDS Naturals, Sequences

SDiff(M, a, b)  == (b + M - a) % M            \* steps forward from a to b
SUndef(M, a, b) == SDiff(M, a, b) = M \div 2
SLT(M, a, b)    == a # b /\ SDiff(M, a, b) < M \div 2
SLE(M, a, b)    == a = b \/ SLT(M, a, b)

\* pairs
PDiff(a, b) ==
    LET borrow == IF b[2] < a[2] THEN 1 ELSE 0
        lo == IF b[2] < a[2] THEN b[2] + 65536 - a[2] ELSE b[2] - a[2]
        hi == (b[1] + 65536 - a[1] - borrow) % 65536
    IN  <<hi, lo>>
PUndef(a, b) == PDiff(a, b) = <<32768, 0>>
PLT(a, b)    == a # b /\ PDiff(a, b)[1] < 32768
PLE(a, b)    == a = b \/ PLT(a, b)
\* plain unsigned comparison of two pairs
PNumLE(a, b) == a[1] < b[1] \/ (a[1] = b[1] /\ a[2] <= b[2])
=============================================================================
