----------------------------- MODULE AuthServer -----------------------------
(* C10 -- the authoritative lookup as a machine: RFC 1034 section 4.3.2      *)
(* taken literally, one action per step, matching DOWN from the apex label   *)
(* by label.  The closest encloser is never computed here: it is simply the  *)
(* node at which the descent cannot continue (step 3c).  This is the design  *)
(* model that TLC checks against                                             *)
(*   - the requirement-level invariants C10_* below (phrased on the response *)
(*     and on the zone only), and                                            *)
(*   - the big-step oracle AuthAnswer!Answer, which the conformance checks   *)
(*     (Gen_AuthServer, Trace_AuthServer) use and which is written           *)
(*     bottom-up from RFC 4592 (closest encloser / source of synthesis).     *)
(* Two formulations, written independently of each other and of the code,    *)
(* have to agree on every zone x query of the configuration.                 *)
EXTENDS AuthAsIs, TLC

CONSTANTS ZApex,     \* apex of the zone
          ApexData,  \* the records at the apex (SOA, NS)
          NodeData,  \* set of record sets: what a zone administrator can put at one more node
          MaxNodes,  \* how many of those a zone holds at most
          QNames, QTypes,
          MaxChain   \* bound on followed CNAMEs (the zones are small; no behaviour is cut)

VARIABLES zone, qname, qtype,  \* the request
          pc,                  \* "config" | "step2" | "step3" | "done"
          nnodes,              \* nodes added to the zone so far
          sname,               \* QNAME of the algorithm: changes when a CNAME is followed
          depth,               \* number of labels of sname matched so far (from the root)
          hops,                \* names that have been QNAME before
          answer,              \* sequence of RRsets copied to the answer section
          synth,               \* history: <<name, wildcard owner>> for every synthesis
          rcode, aa, auth, cut \* header and authority-section decisions

vars == <<zone, nnodes, qname, qtype, pc, sname, depth, hops, answer, synth, rcode, aa, auth, cut>>

VV     == View(zone, ZApex)
Node   == SuffixOf(sname, depth)                \* the node reached so far
IsCut(n) == n # ZApex /\ OfType(At(VV, n), "NS") # {}

Init ==
    /\ zone = ApexData /\ nnodes = 0 /\ qname = <<>> /\ qtype = "A"
    /\ pc = "config" /\ sname = <<>> /\ depth = 0 /\ hops = {} /\ answer = <<>> /\ synth = {}
    /\ rcode = "NOERROR" /\ aa = TRUE /\ auth = "none" /\ cut = <<>>

\* the zone administrator adds a node (one kind of data per owner name)
AddNode ==
    /\ pc = "config" /\ nnodes < MaxNodes
    /\ \E rs \in NodeData :
          /\ \A r \in rs : r.o \notin {x.o : x \in zone}
          /\ zone' = zone \cup rs
    /\ nnodes' = nnodes + 1
    /\ UNCHANGED <<qname, qtype, pc, sname, depth, hops, answer, synth, rcode, aa, auth, cut>>

\* a query arrives
Receive ==
    /\ pc = "config"
    /\ \E qn \in QNames, qt \in QTypes : qname' = qn /\ qtype' = qt /\ sname' = qn
    /\ pc' = "step2"
    /\ UNCHANGED <<zone, nnodes, depth, hops, answer, synth, rcode, aa, auth, cut>>

Done(rc, a, au, c) == pc' = "done" /\ rcode' = rc /\ aa' = a /\ auth' = au /\ cut' = c
Same(vs) == UNCHANGED vs /\ UNCHANGED nnodes
Original == hops = {}

\* step 2: "search the available zones for the zone which is the nearest ancestor to QNAME"
Step2_FindZone ==
    /\ pc = "step2" /\ IsSubdomain(sname, ZApex)
    /\ pc' = "step3" /\ depth' = Len(ZApex)
    /\ Same(<<zone, qname, qtype, sname, hops, answer, synth, rcode, aa, auth, cut>>)

\* step 2 -> 4: no such zone.  For the original name the server is simply not an authority;
\* for a name reached through a CNAME the answer collected so far stands.
Step4_NotInZone ==
    /\ pc = "step2" /\ ~IsSubdomain(sname, ZApex)
    /\ IF Original THEN Done("REFUSED", FALSE, "none", <<>>) ELSE Done("NOERROR", TRUE, "none", <<>>)
    /\ Same(<<zone, qname, qtype, sname, depth, hops, answer, synth>>)

\* step 3b: "if a match would take us out of the authoritative data, we have a referral"
\* (RFC 4035 3.1.4.1: not for DS at the cut itself, which the parent answers)
AtReferral == pc = "step3" /\ IsCut(Node) /\ ~(qtype = "DS" /\ Node = sname)
Step3b_Referral ==
    /\ AtReferral
    /\ Done("NOERROR", ~Original, "ns", Node)
    /\ Same(<<zone, qname, qtype, sname, depth, hops, answer, synth>>)

\* QNAME is the cut and QTYPE is NS (or ANY): the NS set is also data matching QTYPE at the
\* node (step 3a); the property text allows this reading
Step3a_NsAtCut ==
    /\ AtReferral /\ Node = sname /\ qtype \in {"NS", "ANY"}
    /\ answer' = Append(answer, OfType(At(VV, Node), "NS"))
    /\ Done("NOERROR", TRUE, "none", <<>>)
    /\ Same(<<zone, qname, qtype, sname, depth, hops, synth>>)

\* step 3: "start matching down, label by label"
Step3_Descend ==
    /\ pc = "step3" /\ ~AtReferral /\ depth < Len(sname)
    /\ SuffixOf(sname, depth + 1) \in VV.exist
    /\ depth' = depth + 1
    /\ Same(<<zone, qname, qtype, pc, sname, hops, answer, synth, rcode, aa, auth, cut>>)

\* change QNAME to the canonical name and go back to step 1 -- unless that name has been
\* QNAME before (a loop), or the bound on the chain is reached
Follow(target) ==
    IF target \in hops \cup {sname} \/ Len(answer) + 1 >= MaxChain
    THEN Done("NOERROR", TRUE, "none", <<>>) /\ Same(<<sname, depth, hops>>)
    ELSE /\ sname' = target /\ hops' = hops \cup {sname} /\ depth' = 0 /\ pc' = "step2"
         /\ Same(<<rcode, aa, auth, cut>>)

\* what steps 3a / 3c do with the RRs `here` found at the node or at the "*" node
\* (owners already rewritten to sname)
UseData(here) ==
    IF qtype # "ANY" /\ qtype # "CNAME" /\ OfType(here, "CNAME") # {}
    THEN \* "copy the CNAME RR into the answer section, change QNAME ..."
         /\ answer' = Append(answer, OfType(here, "CNAME"))
         /\ Follow((CHOOSE r \in OfType(here, "CNAME") : TRUE).d)
    ELSE LET match == IF qtype = "ANY" THEN here ELSE OfType(here, qtype) IN
         IF match # {}
         THEN \* "copy all RRs which match QTYPE into the answer section"
              /\ answer' = Append(answer, match)
              /\ Done("NOERROR", TRUE, "none", <<>>) /\ Same(<<sname, depth, hops>>)
         ELSE \* nothing of QTYPE: RFC 2308 2.2, NOERROR and the SOA (for the original name)
              /\ answer' = answer
              /\ Done("NOERROR", TRUE, IF Original THEN "soa" ELSE "none", <<>>) /\ Same(<<sname, depth, hops>>)

\* step 3a: "the whole of QNAME is matched, we have found the node"
Step3a_Node ==
    /\ pc = "step3" /\ ~AtReferral /\ depth = Len(sname)
    /\ UseData(At(VV, sname))
    /\ Same(<<zone, qname, qtype, synth>>)

\* step 3c: "a match is impossible ... look to see if the "*" label exists"
NoMatch == pc = "step3" /\ ~AtReferral /\ depth < Len(sname) /\ SuffixOf(sname, depth + 1) \notin VV.exist

\* "If the "*" label does not exist, check whether the name we are looking for is the
\* original QNAME ... If the name is original, set an authoritative name error"
Step3c_NameError ==
    /\ NoMatch /\ WildcardAt(Node) \notin VV.exist
    /\ IF Original THEN Done("NXDOMAIN", TRUE, "soa", <<>>) ELSE Done("NOERROR", TRUE, "none", <<>>)
    /\ Same(<<zone, qname, qtype, sname, depth, hops, answer, synth>>)

\* "If the "*" label does exist, match RRs at that node against QTYPE ... set the owner of
\* the RR to be QNAME" (RFC 4592 4.4 for CNAME at the wildcard)
Step3c_Wildcard ==
    /\ NoMatch /\ WildcardAt(Node) \in VV.exist
    /\ UseData(Synth(At(VV, WildcardAt(Node)), sname))
    /\ synth' = synth \cup {<<sname, WildcardAt(Node)>>}
    /\ Same(<<zone, qname, qtype>>)

Next ==
    \/ AddNode \/ Receive
    \/ Step2_FindZone \/ Step4_NotInZone \/ Step3b_Referral \/ Step3a_NsAtCut \/ Step3_Descend
    \/ Step3a_Node \/ Step3c_NameError \/ Step3c_Wildcard

Spec == Init /\ [][Next]_vars

---------------------------------------------------------------------------
(* The response the machine has produced, in the alphabet of the conformance *)
(* checks.                                                                   *)
Flatten(rrsets) == SetToSeq(UNION {rrsets[i] : i \in 1..Len(rrsets)})
Response ==
    [rcode |-> rcode, aa |-> aa, an |-> Flatten(answer),
     au |-> CASE auth = "soa" -> SetToSeq(OfType(At(VV, ZApex), "SOA"))
              [] auth = "ns"  -> SetToSeq(OfType(At(VV, cut), "NS"))
              [] OTHER        -> <<>>]
Finished == pc = "done"
AnswerRRs == UNION {answer[i] : i \in 1..Len(answer)}

TypeOK ==
    /\ pc \in {"config", "step2", "step3", "done"} /\ depth \in 0..Len(sname) /\ nnodes \in 0..MaxNodes
    /\ rcode \in {"NOERROR", "NXDOMAIN", "REFUSED"} /\ aa \in BOOLEAN /\ auth \in {"none", "soa", "ns"}

(* Requirements, from the property statement.                                *)

\* the machine and the oracle used for conformance agree
C10_Algorithm == Finished => Conforms(VV, Answer(VV, qname, qtype), Response)

\* "never data from below a cut": nothing in the answer section is owned by a name below a
\* cut, and at a cut only the NS / DS sets can appear
C10_NeverBelowCut ==
    Finished => \A r \in AnswerRRs : \A c \in VV.cuts :
        /\ ~StrictlyBelow(r.o, c)
        /\ r.o = c => r.t \in {"NS", "DS"}

\* "a referral at the closest enclosing zone cut": the cut named in a referral is at or above
\* the name and no other cut lies above it
C10_ReferralAtCut ==
    (Finished /\ auth = "ns") =>
        /\ cut \in VV.cuts
        /\ \A c \in VV.cuts : IsSubdomain(cut, c) => c = cut

\* "wildcard synthesis from the closest encloser only": a name is synthesized only if it does
\* not exist, and only from the "*" child of its longest existing ancestor
C10_WildcardFromClosestEncloserOnly ==
    \A p \in synth : /\ p[1] \notin VV.exist
                     /\ p[2] = WildcardAt(ClosestEncloser(p[1], VV.exist))

\* "NXDOMAIN if it does not [exist]": only for the original name, only if neither the name
\* (not even as an empty non-terminal) nor its source of synthesis exists
C10_NxdomainOnlyIfAbsent ==
    (Finished /\ rcode = "NXDOMAIN") =>
        /\ hops = {} /\ qname \notin VV.exist
        /\ SourceOfSynthesis(VV, qname) \notin VV.exist
        /\ CutsAbove(VV, qname) = {}

\* "NODATA if the name exists, including as an empty non-terminal ... with the SOA in the
\* authority section"
C10_SOAOnNegative ==
    (Finished /\ hops = {} /\ answer = <<>> /\ auth # "ns" /\ IsSubdomain(qname, ZApex)) => auth = "soa"
C10_ExistingNameNeverNxdomain ==
    (Finished /\ qname \in VV.exist) => rcode # "NXDOMAIN"

\* the deviation model is anchored: with no deviation switched on it IS the requirement
C10_AsIsAnchored ==
    (pc = "step2" /\ hops = {}) => AnswerD(VV, qname, qtype, {}) = Answer(VV, qname, qtype)

\* every request ends (the zones are finite, loops are cut): checked as a property
C10_Terminates == <>Finished
FairSpec == Spec /\ WF_vars(Next)
=============================================================================
