\* C09 obligation D, quick scope: zones with <= 1 owner besides the apex, Opt-Out on/off, three hash orders
\* (parameter sets), 10 query names x 3 types, the server's response | every claim supported by <= 3 genuine
\* records (this zone's chain, the child zone's, the parent zone's)
SPECIFICATION Spec
CONSTANTS
  Apex <- MC_Apex
  Universe <- Q_Universe6
  PlainKinds <- MC_PlainKinds
  WildKinds <- MC_WildKinds
  MaxOwners = 1
  QNames <- Q_QNames10
  QTypes <- S3_QTypes
  MaxProof = 3
  HT <- Q3_HT
  Params <- Q3_Params
  StaleParams = {}
  OptOuts = {FALSE, TRUE}
  ParentZone <- MC_ParentZone
  Soft <- MC_Soft
  Hard <- MC_Hard
INVARIANTS TypeOK C09_Complete C09_CompleteOptOut C09_Sound C09_IterationLimits C09_SameParamsSameZone
CHECK_DEADLOCK FALSE
