\* stand-alone sample; ./check C20 generates one wrapper configuration per layout switch
\* run with: tlc -simulate num=100 -depth 400 -seed 1 -config Gen_ZoneFile.cfg Gen_ZoneFile.tla
SPECIFICATION PSpec
CONSTANTS
  Origin0 <- Apex
  Records <- G_All
  Origins <- G_Origins
  TtlDirs <- G_TtlDirs
  Seps <- G_Seps
  PSeps <- G_PSeps
  Comments <- G_Comments
  Eols <- G_Eols
  MaxRR = 10
  MinRR = 5
  MaxDir = 4
  MaxBlank = 4
  MaxEntries = 18
  FirstRR <- G_None
  Opt <- G_None
INVARIANT Emit
CHECK_DEADLOCK FALSE
