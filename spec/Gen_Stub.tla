------------------------------ MODULE Gen_Stub ------------------------------
(* Case generator for Stub (X01, obligation R: spec -> impl).                *)
(* TLC walks the machine (Strict rules) over a set of configurations; every  *)
(* completed lookup is printed as one REPLAY line carrying                   *)
(*   cfg     the configuration (name as typed, ndots, domain, search list,   *)
(*           api / strategy, hosts table),                                   *)
(*   world   the upstream outcome of every question the machine asked; any   *)
(*           other question is answered with data (`dflt`), so that a        *)
(*           resolver asking more than prescribed also returns something     *)
(*           else,                                                           *)
(*   exp     what StubOps prescribes: the questions in steps (the types of   *)
(*           one step in any order) and the result (groups of addresses in   *)
(*           order, or the set of admissible error classes); `typed` =  the  *)
(*           hosts entries of the name as typed: a resolver that consults    *)
(*           the hosts table before applying the search list returns these   *)
(*           and asks nothing (accepted as well).                            *)
(* Only behaviours of the per-candidate reading are printed.                 *)
(* The driver runs the real Resolver on cfg / world; its recorded events are *)
(* additionally judged by the monitor Trace_Stub.                            *)
EXTENDS Stub, Json

SetToSeq(S) ==
    LET F[T \in SUBSET S] == IF T = {} THEN <<>> ELSE LET x == CHOOSE y \in T : TRUE IN <<x>> \o F[T \ {x}] IN F[S]

Case ==
    [cfg   |-> cfg,
     world |-> [tab |-> asked, dflt |-> "data"],
     exp   |-> [steps  |-> [i \in DOMAIN Prescribed.steps |->
                               [n |-> Prescribed.steps[i].n, ts |-> SetToSeq(Prescribed.steps[i].ts)]],
                cands  |-> CandidatesOf(cfg, Strict),
                typed  |-> HostsAsTyped(cfg),
                result |-> [kind |-> result.kind, groups |-> result.groups, errs |-> SetToSeq(result.errs)]]]

\* the shortcut AnswerHostsAsTyped ends a lookup before the candidate list exists
PerCandidate == IsLiteral(cfg) \/ cands # <<>>
Emit == (Done /\ PerCandidate) => PrintT(<<"REPLAY", ToJson(Case)>>)
=============================================================================
