SPECIFICATION Spec
CONSTANTS
  Bufs <- MC_Bufs4
  Starts <- MC_Starts
INVARIANTS C01_Terminates C01_WorkLinear C01_NoOOB C01_AgreesWithMeaning C01_LimitsHold C01_NoStuck
CHECK_DEADLOCK FALSE
