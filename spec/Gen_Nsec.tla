------------------------------ MODULE Gen_Nsec ------------------------------
(* Case generator for Nsec (C08, obligation R: spec -> impl).                 *)
(* Walks the machine up to "asked" (every zone x every question) and prints   *)
(* one REPLAY line per such state.  The line carries the zone, the question,  *)
(* every genuine NSEC record an attacker could use (Material, as an indexed   *)
(* pool), the response RFC 4035 3.1.3 prescribes (kind + record indices), and *)
(* for every claim that can be made about the question the exact family of    *)
(* record subsets (up to GenK records) that Entails accepts.  The driver      *)
(* offers every subset (in every order) to the real verify_nsec and compares. *)
(*                                                                            *)
(* Entails never needs more than two records and is monotone (both checked    *)
(* by TLC: C08_TwoSuffice / C08_Monotone in MC_Nsec_lemmas.cfg), so the       *)
(* family for sizes > 2 is the upward closure of the size <= 2 family.        *)
EXTENDS Nsec, Json, SequencesExt

CONSTANT GenK          \* largest subset offered

ZoneList == { [n |-> n, ty |-> zone[n]] : n \in DOMAIN zone }
Src(r) == IF r \in chain THEN "chain" ELSE IF r \in ParentSide THEN "parent" ELSE "child"

Case ==
    \* (expanded NSEC records are not offered here: the guard against them sits in front of verify_nsec,
    \* in the signature check; the driver replays them with their real RRSIG through DnssecDnsHandle)
    LET pool   == TLCEval(SetToSeq(Material \ Expansions))   \* TLCEval: make TLC materialise the value once
        idx    == 1..Len(pool)
        R(S)   == { pool[i] : i \in S }
        small2 == TLCEval(SmallSubsets(idx, 2))
        smallK == TLCEval(SmallSubsets(idx, GenK))
        ClaimRec(kind, ce) ==
            LET e2 == TLCEval({ S \in small2 : Entails(R(S), q, t, kind, ce) }) IN
            [kind |-> kind, ce |-> ce,
             sets |-> { S \in smallK : \E m \in e2 : m \subseteq S },
             open |-> { S \in smallK : OpenDsCase(R(S), q, t, kind) },
             true |-> WorldClaimTrue(q, t, kind, ce)]
        sk == ServerKind(zone, Apex, q, t)
        sp == ServerProof(zone, Apex, q, t)
    IN  [apex |-> Apex, zone |-> ZoneList, q |-> q, t |-> t, k |-> GenK,
         lookup |-> Lookup(zone, Apex, q, t),
         ent |-> (q \notin DOMAIN zone /\ Exists(zone, Apex, q)),
         pool |-> [i \in idx |-> [owner |-> pool[i].owner, next |-> pool[i].next,
                                  types |-> pool[i].types, src |-> Src(pool[i])]],
         server |-> [kind |-> sk, ce |-> IF sk = "wild" THEN CE(zone, Apex, q) ELSE NoName,
                     proof |-> { i \in idx : pool[i] \in sp }],
         claims |-> { ClaimRec("nxdomain", NoName), ClaimRec("nodata", NoName) }
                      \cup { ClaimRec("wild", c) : c \in WildCes(q) }]

Emit == phase = "asked" => PrintT(<<"REPLAY", ToJson(Case)>>)

\* walk only as far as "asked": zones x questions
GenNext == AddSome \/ Sign \/ AskSome
GenSpec == Init /\ [][GenNext]_vars
=============================================================================
