----------------------------- MODULE UdpMatch -----------------------------
(***************************************************************************)
(* C16, datagram half -- only the queried server's matching reply          *)
(* completes a UDP query.                                                  *)
(*                                                                         *)
(* One query = up to MaxTx transmissions of the same request (same ID,     *)
(* same question section), each on its own socket.  The ENVIRONMENT (an    *)
(* off-path attacker plus the real server) decides which datagram arrives  *)
(* next on which socket; the RESOLVER decides what to do with it.          *)
(*                                                                         *)
(* Layers:                                                                 *)
(*  - the MACHINE: one action per thing the resolver can do with a         *)
(*    datagram (Accept / Skip / Fail), plus Retransmit, GiveUp, TimeOut.   *)
(*    Wherever the property is silent the machine is nondeterministic      *)
(*    (skip vs. fail; whether a failing transmission ends the whole query  *)
(*    or only closes its socket; declining a matching datagram).           *)
(*  - the REQUIREMENTS C16_xxx on observable history only: what was        *)
(*    examined on which transmission, and how the query ended.             *)
(* Datagrams are VIEWS (UdpMatchOps): relations to the transmission.       *)
(***************************************************************************)
EXTENDS Naturals, Sequences, FiniteSets, UdpMatchOps

CONSTANTS Views,     \* the datagram views the environment may produce
          MaxTx      \* number of transmissions of one query (1 = no retransmission)

VARIABLES
    caseRand,   \* chosen initially: was the query sent with randomised letter case
    ntx,        \* transmissions made so far
    open,       \* open[t]: transmission t is still listening on its socket
    hist,       \* hist[t]: sequence of views examined on transmission t, in order
    outcome,    \* "listening" | "accepted" | "error" | "timeout"
    acc         \* [t, pos]: which examined datagram completed the query; [t |-> 0, pos |-> 0] if none

vars == <<caseRand, ntx, open, hist, outcome, acc>>

Tx == 1..MaxTx
Examined(t) == Len(hist[t])
None == [t |-> 0, pos |-> 0]

TypeOK ==
    /\ caseRand \in BOOLEAN /\ ntx \in Tx
    /\ open \in [Tx -> BOOLEAN]
    /\ \A t \in Tx : \A i \in 1..Len(hist[t]) : hist[t][i] \in Views
    /\ outcome \in {"listening", "accepted", "error", "timeout"}
    /\ acc.t \in 0..MaxTx /\ acc.pos \in Nat

Init ==
    /\ caseRand \in BOOLEAN
    /\ ntx = 1
    /\ open = [t \in Tx |-> t = 1]
    /\ hist = [t \in Tx |-> <<>>]
    /\ outcome = "listening"
    /\ acc = None

Listening(t) == outcome = "listening" /\ t <= ntx /\ open[t] /\ Examined(t) < Cap

\* the same request is sent again on a fresh socket
Retransmit ==
    /\ outcome = "listening" /\ ntx < MaxTx
    /\ ntx' = ntx + 1
    /\ open' = [open EXCEPT ![ntx + 1] = TRUE]
    /\ UNCHANGED <<caseRand, hist, outcome, acc>>

\* datagram v arrives on the socket of transmission t and completes the query
Accept(t, v) ==
    /\ Listening(t) /\ "accept" \in Verdicts(v, caseRand)
    /\ hist' = [hist EXCEPT ![t] = Append(@, v)]
    /\ outcome' = "accepted"
    /\ acc' = [t |-> t, pos |-> Examined(t) + 1]
    /\ UNCHANGED <<caseRand, ntx, open>>

\* ... is examined and skipped; the transmission keeps listening
Skip(t, v) ==
    /\ Listening(t) /\ "skip" \in Verdicts(v, caseRand)
    /\ hist' = [hist EXCEPT ![t] = Append(@, v)]
    /\ UNCHANGED <<caseRand, ntx, open, outcome, acc>>

\* ... is examined and ends the query in an error
Fail(t, v) ==
    /\ Listening(t) /\ "fail" \in Verdicts(v, caseRand)
    /\ hist' = [hist EXCEPT ![t] = Append(@, v)]
    /\ outcome' = "error"
    /\ UNCHANGED <<caseRand, ntx, open, acc>>

\* ... is examined and only this transmission stops listening (the property speaks of "the
\* query" ending; whether one failed transmission ends the others is left open)
FailTx(t, v) ==
    /\ Listening(t) /\ "fail" \in Verdicts(v, caseRand)
    /\ hist' = [hist EXCEPT ![t] = Append(@, v)]
    /\ open' = [open EXCEPT ![t] = FALSE]
    /\ UNCHANGED <<caseRand, ntx, outcome, acc>>

\* three datagrams were examined on t: "the query then ends in an error or timeout"
GiveUp(t) ==
    /\ outcome = "listening" /\ t <= ntx /\ open[t] /\ Examined(t) = Cap
    /\ \/ outcome' = "error" /\ open' = open
       \/ outcome' = outcome /\ open' = [open EXCEPT ![t] = FALSE]
    /\ UNCHANGED <<caseRand, ntx, hist, acc>>

\* the deadline passes (at any time: datagrams may simply not arrive)
TimeOut ==
    /\ outcome = "listening"
    /\ outcome' = "timeout"
    /\ UNCHANGED <<caseRand, ntx, open, hist, acc>>

\* a local failure before anything was examined (no socket, send failed ...)
Error ==
    /\ outcome = "listening" /\ \A t \in Tx : Examined(t) = 0
    /\ outcome' = "error"
    /\ UNCHANGED <<caseRand, ntx, open, hist, acc>>

Next ==
    \/ Retransmit
    \/ \E t \in Tx, v \in Views : Accept(t, v)
    \/ \E t \in Tx, v \in Views : Skip(t, v)
    \/ \E t \in Tx, v \in Views : Fail(t, v)
    \/ \E t \in Tx, v \in Views : FailTx(t, v)
    \/ \E t \in Tx : GiveUp(t)
    \/ TimeOut
    \/ Error

Spec == Init /\ [][Next]_vars

(***************************************************************************)
(* REQUIREMENTS (observable history only)                                  *)
(***************************************************************************)
\* "A UDP query completes only with a datagram that came from the queried address and port,
\*  carries the query's ID, and whose question section names only questions that were asked
\*  (with identical letter case when case randomisation is on)"
C16_AcceptOnlyMatching ==
    outcome = "accepted" =>
        /\ acc.t \in 1..ntx /\ acc.pos \in 1..Examined(acc.t)
        /\ Matches(hist[acc.t][acc.pos], caseRand)

\* "at most three datagrams are examined per transmission"
C16_AtMostThree == \A t \in Tx : Examined(t) <= 3

\* "... and the query then ends in an error or timeout rather than accepting a non-matching
\*  one": nothing beyond the third datagram of a transmission ever completes the query
C16_NoAcceptAfterCap == outcome = "accepted" => acc.pos <= 3
C16_EndsOtherwise    == outcome # "accepted" => acc = None

\* the closed form used by the case generator agrees with the machine: the result of the
\* completing / last transmission is in Allowed(what that transmission examined)
C16_OutcomeAllowed ==
    /\ outcome = "accepted" =>
         Out("accept", acc.pos, acc.pos) \in Allowed(hist[acc.t], caseRand)
    /\ outcome = "timeout" =>
         \A t \in 1..ntx : Out("timeout", Examined(t), 0) \in Allowed(hist[t], caseRand)
    /\ outcome = "error" =>
         \E t \in 1..ntx : Out("error", Examined(t), 0) \in Allowed(hist[t], caseRand)

\* "other datagrams are skipped": a datagram that did not come from the queried address and port
\* never ends the query -- an error is owed to a datagram from the server, to the cap, or to
\* nothing that was received at all
C16_ForeignIgnored ==
    outcome = "error" =>
        \/ \A t \in 1..ntx : Examined(t) = 0
        \/ \E t \in 1..ntx : Examined(t) = Cap \/ (Examined(t) > 0 /\ FromServer(hist[t][Examined(t)]))

\* sanity of the machine (not a requirement of the property): a finished query stays finished
Sanity_Final == [][outcome # "listening" => UNCHANGED vars]_vars
=============================================================================
