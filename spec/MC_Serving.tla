---------------------------- MODULE MC_Serving ----------------------------
(* Small exhaustive configuration for Serving (C11, "keeps serving").       *)
EXTENDS Serving
z == 122  a == 97  x == 120  o == 111
MC_Config == [origins |-> {<<z>>, <<a, z>>}, chain |-> [og \in {<<z>>, <<a, z>>} |-> <<"S", "C">>], allow |-> {}, deny |-> {}]
Q(qn) == [short |-> FALSE, qr |-> FALSE, op |-> 0, qd |-> 1, qok |-> TRUE, body |-> "ok", edns |-> "none",
          src |-> <<127, 0, 0, 1>>, qname |-> qn, loose |-> FALSE]
MC_Canaries == {Q(<<x, a, z>>), Q(<<42, a, z>>), Q(<<x, o>>), Q(<<z>>)}
MC_Kinds == {"frontdoor", "big65535", "big512", "zero-datagram", "one-octet", "response-flag", "tcp-bytewise",
             "tcp-close-midframe", "tcp-pipelined-late", "axfr-vs-update"}
=============================================================================
