----------------------------- MODULE AuthZones -----------------------------
(* Zone construction shared by Gen_AuthServer and MC_AuthServer.            *)
(* Constant-free.  Names use single-octet labels: apex "z."; in-zone labels *)
(* a b c n *; "o." is outside the zone.  A zone is the apex records plus    *)
(* the records of a set of nodes, one kind per owner.                       *)
EXTENDS AuthNames

la == 97  lb == 98  lc == 99  ln == 110  lm == 109  lo == 111  lt == 116  lz == 122
Apex == <<lz>>
Abs(rel) == rel \o Apex
OutName  == <<lo>>            \* not in the zone
OutTgt   == <<lt, lo>>        \* CNAME target outside the zone
NsOut1   == <<ln, lo>>        \* name servers outside the zone (no additional data)
NsOut2   == <<lm, lo>>

RR(ow, ty, d) == [o |-> ow, t |-> ty, d |-> d]
ApexRRs == {RR(Apex, "SOA", <<1>>), RR(Apex, "NS", NsOut1), RR(Apex, "NS", NsOut2)}

Node(ow, k, x) == [o |-> ow, k |-> k, x |-> x]

\* Not generated, because the RFCs leave their meaning open (DESIGN C10): NS at a wildcard
\* owner (RFC 4592 4.2), a wildcard CNAME pointing at itself (4.4), owners below an interior
\* "*" label, CNAME at the apex, CNAME next to other data (one kind per owner).
NodesOver(owners, hostKinds, delegKinds, targets) ==
    {Node(Abs(w), k, <<>>) : w \in owners, k \in hostKinds}
    \cup {Node(Abs(w), k, <<>>) : w \in {v \in owners : ~IsWildcard(v)}, k \in delegKinds}
    \cup {nd \in {Node(Abs(w), "CNAME", x) : w \in owners, x \in targets} :
             ~(IsWildcard(nd.o) /\ nd.x = nd.o)}

Records(nd) ==
    CASE nd.k = "A"     -> {RR(nd.o, "A", <<1>>)}
      [] nd.k = "TXT"   -> {RR(nd.o, "TXT", <<1>>)}
      [] nd.k = "MULTI" -> {RR(nd.o, "A", <<1>>), RR(nd.o, "A", <<2>>), RR(nd.o, "TXT", <<1>>), RR(nd.o, "MX", NsOut1)}
      [] nd.k = "CNAME" -> {RR(nd.o, "CNAME", nd.x)}
      \* delegation; with glue below the cut; with DS
      [] nd.k = "NS"    -> {RR(nd.o, "NS", NsOut1)}
      [] nd.k = "NSG"   -> {RR(nd.o, "NS", <<ln>> \o nd.o), RR(<<ln>> \o nd.o, "A", <<9>>)}
      [] nd.k = "NSD"   -> {RR(nd.o, "NS", NsOut1), RR(nd.o, "DS", <<1>>)}

ZoneOfNodes(nds) == ApexRRs \cup UNION {Records(nd) : nd \in nds}
DistinctOwnerNodes(nds) == \A x, y \in nds : x # y => x.o # y.o
=============================================================================
