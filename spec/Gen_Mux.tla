------------------------------ MODULE Gen_Mux ------------------------------
(* Behaviour generator for the stream half of C16 (obligation R: spec ->   *)
(* impl).  Walks the Mux machine and prints every complete behaviour as    *)
(* one REPLAY line: the schedule (`log`: what the user, the peer and the   *)
(* clock do, in order) and, per step, what every receiver must observe     *)
(* (`exp`).                                                                *)
(*                                                                         *)
(* The real wire IDs are random and only known at run time, so the         *)
(* schedule names IDs indirectly: "deliver r" = a response carrying the ID *)
(* that request r went out with (whether r is still pending or not),       *)
(* "unknown" = an ID no request of the case ever had.  In the generator    *)
(* request r simply has ID r (IDs never collide: the driver re-runs a case *)
(* in the 2^-16 event that the real multiplexer reuses an ID).  ID reuse   *)
(* is covered by MC_Mux and by the trace monitor on the real IDs.          *)
(*                                                                         *)
(* Where Mux is nondeterministic the generator follows the REFERENCE       *)
(* choice (duplicates are handed over; sends are refused exactly at Cap;   *)
(* a request expires TO ticks after it was sent).  A run that differs from *)
(* the reference but is accepted by Trace_Mux (which allows every choice   *)
(* of Mux) is reported as a permitted deviation, not as a violation.       *)
EXTENDS Mux, TLC, Json, SequencesExt

CONSTANTS N,          \* requests; Reqs = 1..N, Ids = 1..N+1 (ID N+1 is never used)
          MaxSteps,   \* schedule length
          TO,         \* ticks after which a pending request expires
          MaxTicks, MaxNoise   \* budget of tick steps / of unknown+garbage steps

VARIABLES log, exp, now, sentAt, nticks, noise
gvars == <<vars, log, exp, now, sentAt, nticks, noise>>

G_Reqs == 1..N
G_Ids  == 1..(N + 1)

Sent == {r \in Reqs : phase[r] # "new"}
HasWire == {r \in Reqs : wire[r] # 0}
L(op, r, how) == [op |-> op, r |-> r, how |-> how]

\* what the receivers observe in this step, ordered by request
ObsOf(r) ==
    (IF Len(inbox'[r]) > Len(inbox[r]) THEN <<[r |-> r, k |-> "ok", tag |-> Last(inbox'[r])]>> ELSE <<>>)
    \o (IF phase'[r] \in {"failed", "refused"} /\ phase[r] \notin {"failed", "refused"}
        THEN <<[r |-> r, k |-> "fail", tag |-> 0]>> ELSE <<>>)
Obs == FlattenSeq([r \in 1..N |-> ObsOf(r)])

Rec(op, r, how) == log' = Append(log, L(op, r, how)) /\ exp' = Append(exp, Obs)
Same == UNCHANGED <<now, sentAt, nticks, noise>>

GInit == Init /\ log = <<>> /\ exp = <<>> /\ now = 0 /\ sentAt = [r \in Reqs |-> 0] /\ nticks = 0 /\ noise = 0

GSend ==
    \E r \in Reqs :
        /\ r = Cardinality(Sent) + 1                    \* requests are sent in order
        /\ IF Cardinality(Pending) < Cap THEN Send(r, r) ELSE SendRefused(r)
        /\ Rec("send", r, "") /\ sentAt' = [sentAt EXCEPT ![r] = now]
        /\ UNCHANGED <<now, nticks, noise>>

GDeliver ==
    \E r \in HasWire :
        /\ \/ DeliverFirst(r)
           \/ DeliverDup(r)
           \/ r \notin Pending /\ DeliverUnknown(wire[r])     \* stale ID
        /\ Rec("deliver", r, "") /\ Same

GUnknown == /\ noise < MaxNoise /\ DeliverUnknown(N + 1) /\ Rec("unknown", 0, "")
            /\ noise' = noise + 1 /\ UNCHANGED <<now, sentAt, nticks>>
GGarbage == /\ noise < MaxNoise /\ DeliverGarbage /\ Rec("garbage", 0, "")
            /\ noise' = noise + 1 /\ UNCHANGED <<now, sentAt, nticks>>

GCancel == \E r \in Reqs : Cancel(r) /\ Rec("cancel", r, "") /\ Same

Due == {r \in Pending : now + 1 - sentAt[r] >= TO}
GTick ==
    /\ conn = "open" /\ Pending # {} /\ nticks < MaxTicks
    /\ now' = now + 1 /\ nticks' = nticks + 1
    /\ IF Due # {} THEN Expire(Due) ELSE UNCHANGED vars
    /\ Rec("tick", 0, "") /\ UNCHANGED <<sentAt, noise>>

GClose == \E how \in {"eof", "err"} : Close /\ Rec("close", 0, how) /\ Same

\* Deliver . Close as one step: a response carrying r's ID and the end of the stream become readable
\* together, the multiplexer sees both in one poll (a server that answers one of several pipelined
\* requests and closes).  The composition of Mux!DeliverFirst / DeliverDup / DeliverUnknown(stale)
\* with Mux!Close, written out because TLC has no action composition.
GDeliverClose ==
    \E r \in HasWire, how \in {"eof", "err"} :
        /\ conn = "open" /\ ntag < MaxTag
        /\ ntag' = ntag + 1 /\ rid' = Append(rid, wire[r])
        /\ inbox' = IF r \in Pending THEN [inbox EXCEPT ![r] = Append(@, ntag + 1)] ELSE inbox
        /\ conn' = "closed"
        /\ phase' = [q \in Reqs |-> IF q \in Pending THEN "failed" ELSE phase[q]]
        /\ last' = Quiet /\ UNCHANGED wire
        /\ Rec("deliverclose", r, how) /\ Same

Finished == conn = "closed" \/ Len(log) = MaxSteps

GNext == ~Finished /\ (GSend \/ GDeliver \/ GUnknown \/ GGarbage \/ GCancel \/ GTick \/ GClose \/ GDeliverClose)
GSpec == GInit /\ [][GNext]_gvars

Case == [n |-> N, cap |-> Cap, to |-> TO, log |-> log, exp |-> exp]
Emit == Finished => PrintT(<<"REPLAY", ToJson(Case)>>)
=============================================================================
