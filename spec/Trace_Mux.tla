----------------------------- MODULE Trace_Mux -----------------------------
(* Trace validation for the stream half of C16 (obligation T: impl ->     *)
(* spec), monitor style.  Events recorded from the real DnsMultiplexer     *)
(* over a scripted DnsClientStream, driven by manual polling:              *)
(*   reset    case, n             start of a case with requests 1..n       *)
(*   send     r, w, id            send_message for request r; w: a message *)
(*                                appeared on the outbound side, with ID   *)
(*                                `id` (read off its bytes)                *)
(*   deliver  id, tag             a response with this ID (content `tag`)  *)
(*                                is queued on the inbound side            *)
(*   garbage                      an undecodable message is queued         *)
(*   cancel   r                   the receiver of r is dropped             *)
(*   advance  ms                  the (paused) clock moves                 *)
(*   close    how                 the inbound side ends (eof / err)        *)
(*   poll                         the multiplexer's task ran for no other  *)
(*                                reason                                   *)
(* every event has  p  (the multiplexer was polled after it) and, if so,   *)
(* obs = what the receivers yielded afterwards, in order:                  *)
(*   [r, k = "ok", tag, rid (ID field of the response handed over)]        *)
(*   [r, k = "err"]   an error item                                        *)
(*   [r, k = "end"]   the end of r's response stream; after at least one   *)
(*                    response this is a normal completion (allowed at any *)
(*                    time), without one it is a failure like "err"        *)
(* The monitor keeps the observable state of Mux.tla with the REAL wire    *)
(* IDs and allows every choice Mux allows (a request that has been         *)
(* answered may complete at any time, refusal of a send, expiry of any     *)
(* pending request when the clock has moved).  It decides known / unknown  *)
(* IDs itself.  The multiplexer is polled exactly when its task would be   *)
(* woken (see the driver), so "did not reach it" means: the multiplexer    *)
(* went to rest without having handed the response over.                   *)
EXTENDS Naturals, Sequences, FiniteSets, TLC, Json, IOUtils

Rec == ndJsonDeserialize(IOEnv.TRACE)

VARIABLES l, c,
          n,         \* requests of the case
          st,        \* st[r]: "new" | "pending" | "cancelled" | "failed"
          wid,       \* wid[r]: wire ID (NoId if nothing went on the wire)
          got,       \* got[r]: number of responses r's receiver has yielded
          owed,      \* owed[r]: tags that arrived with r's ID while r was pending, not yet yielded
          must,      \* <<r, tag>>: responses that have to be yielded at the next poll
          canFail,   \* requests that may fail at the next poll (just sent: refusal)
          aged,      \* requests that were pending when the clock moved: they may expire at any
                     \* later poll (an implementation may notice a passed deadline lazily)
          mustFail,  \* requests that have to fail at the next poll (nothing went on the wire)
          closing,   \* the inbound side has ended, not yet polled
          garb,      \* an undecodable message has been queued since the last poll
          closed,
          skipping, bad

mvars == <<n, st, wid, got, owed, must, canFail, aged, mustFail, closing, garb, closed>>
tvars == <<l, c, mvars, skipping, bad>>

NoId == 70000
R == 1..n
PendingOf(s) == {r \in R : s[r] = "pending"}

Init ==
    /\ l = 1 /\ c = "none" /\ n = 0 /\ st = <<>> /\ wid = <<>> /\ got = <<>> /\ owed = <<>>
    /\ must = {} /\ canFail = {} /\ aged = {} /\ mustFail = {} /\ closing = FALSE /\ garb = FALSE
    /\ closed = FALSE /\ skipping = FALSE /\ bad = 0

e == Rec[l]

Reset ==
    /\ e.ev = "reset"
    /\ c' = e.case /\ n' = e.n
    /\ st' = [r \in 1..e.n |-> "new"] /\ wid' = [r \in 1..e.n |-> NoId]
    /\ got' = [r \in 1..e.n |-> 0] /\ owed' = [r \in 1..e.n |-> {}]
    /\ must' = {} /\ canFail' = {} /\ aged' = {} /\ mustFail' = {} /\ closing' = FALSE /\ garb' = FALSE
    /\ closed' = FALSE /\ skipping' = FALSE /\ bad' = bad

(***************************************************************************)
(* Step 1: the effect of the event itself on the monitor state             *)
(* (a record of the intermediate values).                                  *)
(***************************************************************************)
Cur == [st |-> st, wid |-> wid, owed |-> owed, must |-> must, canFail |-> canFail, aged |-> aged,
        mustFail |-> mustFail, closing |-> closing, garb |-> garb]

\* requests a response with this ID is for
For(id) == {r \in R : st[r] = "pending" /\ wid[r] = id}

\* C16_DistinctIds: the ID on the wire is not that of any in-flight request
DistinctOK == e.w => \A q \in PendingOf(st) : wid[q] # e.id

Pre ==
    CASE e.ev = "send"    -> e.r \in R /\ st[e.r] = "new" /\ ~closed /\ DistinctOK
      [] e.ev = "deliver" -> ~closed
      [] e.ev = "garbage" -> ~closed
      [] e.ev = "cancel"  -> e.r \in R /\ st[e.r] = "pending"
      [] e.ev = "advance" -> TRUE
      [] e.ev = "close"   -> ~closed
      [] e.ev = "poll"    -> TRUE
      [] OTHER            -> FALSE

After ==
    CASE e.ev = "send" ->
            [Cur EXCEPT !.st = [st EXCEPT ![e.r] = "pending"],
                        !.wid = [wid EXCEPT ![e.r] = IF e.w THEN e.id ELSE NoId],
                        !.canFail = canFail \cup {e.r},
                        !.mustFail = IF e.w THEN mustFail ELSE mustFail \cup {e.r}]
      [] e.ev = "deliver" ->
            [Cur EXCEPT !.owed = [r \in R |-> IF r \in For(e.id) THEN owed[r] \cup {e.tag} ELSE owed[r]],
                        \* C16_Reaches: every response that arrives with the ID of a pending request
                        !.must = must \cup {<<r, e.tag>> : r \in For(e.id)}]
      [] e.ev = "cancel" ->
            [Cur EXCEPT !.st = [st EXCEPT ![e.r] = "cancelled"],
                        !.owed = [owed EXCEPT ![e.r] = {}],
                        !.must = {m \in must : m[1] # e.r},
                        !.canFail = canFail \ {e.r},
                        !.mustFail = mustFail \ {e.r}]
      [] e.ev = "advance" -> [Cur EXCEPT !.aged = IF e.ms > 0 THEN aged \cup PendingOf(st) ELSE aged]
      [] e.ev = "close"   -> [Cur EXCEPT !.closing = TRUE]
      [] e.ev = "garbage" -> [Cur EXCEPT !.garb = TRUE]
      [] OTHER            -> Cur

\* Mux!GarbageCloses: the multiplexer may end the connection over an undecodable message; if its
\* stream has ended at this poll and such a message was among the arrivals, this is a close
AfterPolled ==
    LET a == After IN [a EXCEPT !.closing = a.closing \/ (a.garb /\ e.ended)]

(***************************************************************************)
(* Step 2: what the receivers yielded after the poll                       *)
(***************************************************************************)
FailedIn(obs) == {obs[i].r : i \in {j \in 1..Len(obs) : obs[j].k \in {"err", "end"}}}
\* r has been handed a response before item i of obs
Answered(obs, i, r) == got[r] > 0 \/ \E j \in 1..(i - 1) : obs[j].r = r /\ obs[j].k = "ok"
OkCount(obs, r) == Cardinality({i \in 1..Len(obs) : obs[i].r = r /\ obs[i].k = "ok"})
TagsOf(obs, r) == {obs[i].tag : i \in {j \in 1..Len(obs) : obs[j].r = r /\ obs[j].k = "ok"}}

\* item i of obs is acceptable given the state a after the event
ItemOK(a, obs, i) ==
    LET o == obs[i] IN
    /\ o.r \in R /\ a.st[o.r] = "pending"                          \* C16_OnlyPendingReceive
    /\ \A j \in 1..(i - 1) : obs[j].r = o.r => obs[j].k = "ok"     \* nothing after r failed
    /\ o.k = "ok" =>
         /\ o.tag \in a.owed[o.r]                  \* C16_RoutedById / C16_UnknownDropped / C16_NoOther
         /\ o.rid = a.wid[o.r]                     \* C16_RoutedById on the message handed over
         /\ \A j \in 1..(i - 1) : ~(obs[j].r = o.r /\ obs[j].k = "ok" /\ obs[j].tag = o.tag)
    \* C16_UnknownDropped: no other reason to fail
    /\ o.k = "err" => (o.r \in a.canFail \/ o.r \in a.aged \/ a.closing)
    /\ o.k = "end" => (o.r \in a.canFail \/ o.r \in a.aged \/ a.closing \/ Answered(obs, i, o.r))

ObsOK(a, obs) ==
    /\ \A i \in 1..Len(obs) : ItemOK(a, obs, i)
    \* C16_Reaches (waived if the request ends in the same poll: expired first, or regarded as complete)
    /\ \A m \in a.must : m[2] \in TagsOf(obs, m[1]) \/ m[1] \in FailedIn(obs)
    \* C16_CloseFailsAll
    /\ a.closing => PendingOf(a.st) \subseteq FailedIn(obs)
    /\ a.mustFail \subseteq FailedIn(obs)

\* evaluate a state-level condition as a value: TLC would otherwise split its disjunctions into
\* separate (identical) successor states, exponentially many for long observations
Holds(b) == b = TRUE

Allowed ==
    /\ Holds(Pre)
    /\ IF ~e.p THEN
          LET a == After IN
          /\ st' = a.st /\ wid' = a.wid /\ owed' = a.owed /\ must' = a.must /\ canFail' = a.canFail
          /\ mustFail' = a.mustFail /\ closing' = a.closing /\ garb' = a.garb /\ aged' = a.aged
          /\ UNCHANGED <<n, got, closed>>
       ELSE
          LET a == AfterPolled IN
          /\ Holds(ObsOK(a, e.obs))
          /\ st' = [r \in R |-> IF r \in FailedIn(e.obs) THEN "failed" ELSE a.st[r]]
          /\ wid' = a.wid
          /\ got' = [r \in R |-> got[r] + OkCount(e.obs, r)]
          /\ owed' = [r \in R |-> IF r \in FailedIn(e.obs) THEN {} ELSE a.owed[r] \ TagsOf(e.obs, r)]
          /\ must' = {} /\ canFail' = {} /\ mustFail' = {}
          /\ closing' = FALSE /\ garb' = FALSE /\ closed' = a.closing
          /\ aged' = a.aged \ FailedIn(e.obs)
          /\ UNCHANGED n

\* which requirement the event breaks (first that applies)
BadItems(a, obs) == {i \in 1..Len(obs) : ~ItemOK(a, obs, i)}
WhyItem(a, obs, i) ==
    LET o == obs[i] IN
    IF ~(o.r \in R /\ a.st[o.r] = "pending") THEN "C16_OnlyPendingReceive: a receiver that is not pending yielded an item"
    ELSE IF o.k = "ok" /\ o.tag \notin a.owed[o.r] THEN
        "C16_RoutedById: a receiver was handed a response that did not arrive with its ID while it was pending (misrouted, unknown ID not dropped, or handed over twice)"
    ELSE IF o.k = "ok" /\ o.rid # a.wid[o.r] THEN "C16_RoutedById: the response handed over does not carry the request's ID"
    ELSE IF o.k \in {"err", "end"} THEN "C16_UnknownDropped: a pending request failed although the connection is open and no time has passed since it was sent"
    ELSE "C16_NoOther: item repeated or yielded after the receiver failed"
Why ==
    IF ~Pre THEN
        IF e.ev = "send" /\ e.r \in R /\ st[e.r] = "new" /\ ~closed /\ ~DistinctOK
        THEN "C16_DistinctIds: the ID on the wire is that of another in-flight request"
        ELSE "ADAPTER: event not possible in this state"
    ELSE LET a == IF e.p THEN AfterPolled ELSE After IN
        IF BadItems(a, e.obs) # {} THEN WhyItem(a, e.obs, CHOOSE i \in BadItems(a, e.obs) : \A j \in BadItems(a, e.obs) : i <= j)
        ELSE IF ~(\A m \in a.must : m[2] \in TagsOf(e.obs, m[1]) \/ m[1] \in FailedIn(e.obs))
            THEN "C16_Reaches: a response that arrived with the ID of a pending request did not reach it"
        ELSE IF a.closing /\ ~(PendingOf(a.st) \subseteq FailedIn(e.obs))
            THEN "C16_CloseFailsAll: a request is still pending after the connection closed"
        ELSE "C16_SendRefused: nothing went on the wire but the request did not fail"

Matched == ~skipping /\ e.ev # "reset" /\ Allowed /\ UNCHANGED <<c, skipping, bad>>

Reject ==
    /\ ~skipping /\ e.ev # "reset" /\ ~ENABLED Allowed
    /\ PrintT(<<"MISMATCH", ToJson([case |-> c, line |-> l, event |-> e, why |-> Why,
                 state |-> [st |-> st, wid |-> wid, got |-> got, owed |-> owed, must |-> must,
                            canFail |-> canFail, closing |-> closing, closed |-> closed]])>>)
    /\ skipping' = TRUE /\ bad' = bad + 1
    /\ UNCHANGED <<c, mvars>>

Skip == skipping /\ e.ev # "reset" /\ UNCHANGED <<c, mvars, skipping, bad>>

Next == l <= Len(Rec) /\ l' = l + 1 /\ (Reset \/ Matched \/ Reject \/ Skip)

TraceSpec == Init /\ [][Next]_tvars

Consumed ==
    LET d == TLCGet("stats").diameter IN
    IF d - 1 = Len(Rec) THEN PrintT(<<"TRACE-CONSUMED", Len(Rec)>>)
    ELSE PrintT(<<"TRACE-STUCK", d, Len(Rec)>>) /\ FALSE
=============================================================================
