----------------------------- MODULE GrammarOps -----------------------------
(* The wire grammar of DNS resource records (RFC 1035 3.3/4.1, 2782, 3403,   *)
(* 4034, 5155, 6891, 7871, 7873, 8659, 8914, 8945, 9460 ...) as data:        *)
(* every record type is a sequence of FIELDS, every field has a list of      *)
(* VARIANTS (the first one nominal), every variant is a sequence of wire     *)
(* PRIMITIVES plus the verdict of the grammar on it:                         *)
(*    ok = TRUE   the variant is well-formed: a decoder MUST accept it, and  *)
(*                encode(decode(.)) must reproduce it (C02)                  *)
(*    ok = FALSE  malformed or debatable: the decoder may accept or reject,  *)
(*                but it must terminate without panic (C01) and whatever it  *)
(*                accepts must re-encode to a fixpoint (C02)                 *)
(* The module is constant-free; Gen_Grammar enumerates cases from it, the    *)
(* Rust driver only serialises primitives (it knows nothing about record     *)
(* types), and Trace_Grammar judges what the real decoders did with the      *)
(* same operators.                                                           *)
(*                                                                           *)
(* Primitives                                                                *)
(*   U(w, n)       unsigned integer of w octets, value n (n = -1: all ones)  *)
(*   B(n, f)       n octets of value f                                       *)
(*   X(bytes)      the given octets                                          *)
(*   N(v)          a domain name, by shape (see NameShapes)                  *)
(*   L(w, d, body) a w-octet length prefix holding |body| + d, then body     *)
EXTENDS Integers, Sequences, FiniteSets, TLC

U(w, n)       == [p |-> "u", w |-> w, n |-> n]
B(n, f)       == [p |-> "b", n |-> n, f |-> f]
X(bytes)      == [p |-> "x", bytes |-> bytes]
N(v)          == [p |-> "name", v |-> v]
L(w, d, body) == [p |-> "len", w |-> w, d |-> d, body |-> body]

V(tag, ok, prims) == [tag |-> tag, ok |-> ok, prims |-> prims]

Map(f(_), s) == [i \in 1..Len(s) |-> f(s[i])]
RECURSIVE Flat(_)
Flat(ss) == IF ss = <<>> THEN <<>> ELSE Head(ss) \o Flat(Tail(ss))

---------------------------------------------------------------------------
(* Field kinds *)

\* a plain number: every value is legal
Num(w, nom) == << V("nom", TRUE, <<U(w, nom)>>), V("zero", TRUE, <<U(w, 0)>>), V("max", TRUE, <<U(w, 0 - 1)>>) >>

\* an enumerated code (algorithm, digest type, ...): only the listed values are certainly legal
Enum(w, legal, other) ==
    [i \in 1..Len(legal) |-> V("v" \o ToString(legal[i]), TRUE, <<U(w, legal[i])>>)]
    \o [i \in 1..Len(other) |-> V("x" \o ToString(other[i]), FALSE, <<U(w, other[i])>>)]
    \o << V("max", FALSE, <<U(w, 0 - 1)>>) >>

Ip4 == << V("nom", TRUE, <<X(<<192, 0, 2, 1>>)>>), V("zero", TRUE, <<B(4, 0)>>), V("ones", TRUE, <<B(4, 255)>>) >>
Ip6 == << V("nom", TRUE, <<X(<<32, 1, 13, 184>>), B(11, 0), B(1, 1)>>), V("zero", TRUE, <<B(16, 0)>>), V("ones", TRUE, <<B(16, 255)>>) >>

\* domain names inside RDATA.  c = TRUE: a type of RFC 1035 whose names may be compressed.
\* The shapes are realised by the driver against the fixed question name at offset 12.
NameShapes == {"plain", "root", "upper", "sibling", "ptr", "lblptr", "long255", "toolong256", "label64", "label63", "ptrself", "ptrfwd",
               "cut", "ptrchain"}
Name(c) ==
    << V("plain", TRUE, <<N("plain")>>),        \* three short labels
       V("root", TRUE, <<N("root")>>),
       V("upper", TRUE, <<N("upper")>>),        \* mixed case
       V("sibling", TRUE, <<N("sibling")>>),    \* written out in full although it shares the question's suffix
       V("label63", TRUE, <<N("label63")>>),
       V("long255", TRUE, <<N("long255")>>),    \* exactly 255 octets on the wire
       V("ptr", c, <<N("ptr")>>),               \* a pointer to the question name
       V("lblptr", c, <<N("lblptr")>>),         \* one label, then that pointer
       V("ptrchain", FALSE, <<N("ptrchain")>>), \* pointer to a pointer (legal, but only if both were written by an encoder)
       V("toolong256", FALSE, <<N("toolong256")>>),
       V("label64", FALSE, <<N("label64")>>),   \* length octet 0x40
       V("ptrself", FALSE, <<N("ptrself")>>),   \* a pointer to itself
       V("ptrfwd", FALSE, <<N("ptrfwd")>>),     \* a pointer beyond itself
       V("cut", FALSE, <<N("cut")>>) >>         \* a label longer than what is left

\* <character-string>: one length octet
CStr ==
    << V("s3", TRUE, <<L(1, 0, <<B(3, 97)>>)>>), V("empty", TRUE, <<L(1, 0, <<>>)>>), V("s255", TRUE, <<L(1, 0, <<B(255, 98)>>)>>),
       V("bin", TRUE, <<L(1, 0, <<X(<<0, 255, 34, 92>>)>>)>>),
       V("latin1", TRUE, <<L(1, 0, <<X(<<233, 192, 181>>)>>)>>),
       V("over", FALSE, <<L(1, 3, <<B(2, 97)>>)>>) >>

\* NAPTR flags (RFC 3403 4.1): characters of [A-Z0-9] only
CStrFlags ==
    << V("s3", TRUE, <<L(1, 0, <<B(3, 83)>>)>>), V("empty", TRUE, <<L(1, 0, <<>>)>>), V("s255", TRUE, <<L(1, 0, <<B(255, 65)>>)>>),
       V("bin", FALSE, <<L(1, 0, <<X(<<0, 255, 34, 92>>)>>)>>),
       V("over", FALSE, <<L(1, 3, <<B(2, 97)>>)>>) >>

\* a blob behind a one-octet / two-octet length
Blob8(nom) ==
    << V("nom", TRUE, <<L(1, 0, <<B(nom, 171)>>)>>), V("empty", TRUE, <<L(1, 0, <<>>)>>), V("b255", TRUE, <<L(1, 0, <<B(255, 1)>>)>>),
       V("over", FALSE, <<L(1, 2, <<B(1, 1)>>)>>) >>
Blob16(nom) ==
    << V("nom", TRUE, <<L(2, 0, <<B(nom, 170)>>)>>), V("empty", TRUE, <<L(2, 0, <<>>)>>), V("b300", TRUE, <<L(2, 0, <<B(300, 2)>>)>>),
       V("over", FALSE, <<L(2, 2, <<B(1, 1)>>)>>) >>

\* the rest of the RDATA; `emptyOk`: may it be empty?
Rest(nom, emptyOk) ==
    << V("nom", TRUE, <<B(nom, 85)>>), V("one", TRUE, <<B(1, 7)>>), V("big", TRUE, <<B(600, 3)>>), V("empty", emptyOk, <<>>) >>

\* NSEC / NSEC3 / CSYNC type bit maps (RFC 4034 4.1.2): window, length 1..32, bits; windows ascending
Win(w, bytes) == <<U(1, w), L(1, 0, <<X(bytes)>>)>>
BitMaps(noneOk) ==
    << V("a", TRUE, Win(0, <<64>>)),                                      \* A
       V("a-ns-rrsig-nsec", TRUE, Win(0, <<98, 0, 0, 0, 0, 3>>)),         \* A NS SOA RRSIG NSEC
       V("two", TRUE, Win(0, <<64>>) \o Win(1, <<0, 64>>)),               \* A + TYPE265 (window 1, second octet)
       V("len32", TRUE, <<U(1, 0), L(1, 0, <<B(31, 0), B(1, 1)>>)>>),
       V("w255", TRUE, Win(0, <<64>>) \o Win(255, <<128>>)),
       V("w1bit0", TRUE, Win(0, <<64>>) \o Win(1, <<128>>)),              \* A + TYPE256 (first bit of window 1)
       V("w2bit0", TRUE, Win(2, <<192>>)),                                \* TYPE512 + TYPE513
       V("none", noneOk, <<>>),
       V("len0", FALSE, <<U(1, 0), U(1, 0)>>),
       V("len33", FALSE, <<U(1, 0), L(1, 0, <<B(33, 1)>>)>>),
       V("descending", FALSE, Win(1, <<0, 64>>) \o Win(0, <<64>>)),
       V("twice", FALSE, Win(0, <<64>>) \o Win(0, <<32>>)),
       V("cut", FALSE, <<U(1, 0), L(1, 2, <<B(2, 1)>>)>>),
       V("lonewindow", FALSE, <<U(1, 0)>>),
       V("trailingzero", FALSE, Win(0, <<64, 0>>)) >>

\* the types a well-formed bit map variant stands for (value fidelity of the decoded type set)
BitmapTypes(tag) ==
    CASE tag = "a" -> {1}
      [] tag = "a-ns-rrsig-nsec" -> {1, 2, 6, 46, 47}
      [] tag = "two" -> {1, 265}
      [] tag = "len32" -> {255}
      [] tag = "w255" -> {1, 65280}
      [] tag = "w1bit0" -> {1, 256}
      [] tag = "w2bit0" -> {512, 513}
      [] tag = "none" -> {}
      [] OTHER -> {0 - 1}          \* not prescribed
HasBitmap(code) == code \in {47, 50, 62}

Txt ==
    << V("one", TRUE, <<L(1, 0, <<B(5, 97)>>)>>), V("two", TRUE, <<L(1, 0, <<B(5, 97)>>), L(1, 0, <<B(3, 98)>>)>>),
       V("emptystr", TRUE, <<L(1, 0, <<>>)>>), V("s255s1", TRUE, <<L(1, 0, <<B(255, 99)>>), L(1, 0, <<B(1, 100)>>)>>),
       V("over", FALSE, <<L(1, 0, <<B(2, 97)>>), L(1, 4, <<B(1, 98)>>)>>) >>

---------------------------------------------------------------------------
(* EDNS options (RFC 6891 6.1.2): code, length, value *)

Opt(code, d, value) == <<U(2, code), L(2, d, value)>>
Ecs(fam, src, scope, nbytes, fill) == Opt(8, 0, <<U(2, fam), U(1, src), U(1, scope), B(nbytes, fill)>>)

OptSingles ==
    << V("ecs4-24", TRUE, Ecs(1, 24, 0, 3, 10)),
       V("ecs4-0", TRUE, Ecs(1, 0, 0, 0, 0)),
       V("ecs4-32", TRUE, Ecs(1, 32, 0, 4, 10)),
       V("ecs4-20", TRUE, Ecs(1, 20, 0, 3, 240)),       \* last octet 0xF0: no bits beyond the prefix
       V("ecs6-56", TRUE, Ecs(2, 56, 0, 7, 32)),
       V("ecs6-128", TRUE, Ecs(2, 128, 0, 16, 32)),
       V("ecs6-0", TRUE, Ecs(2, 0, 0, 0, 0)),
       V("ecs4-24-scope16", TRUE, Ecs(1, 24, 16, 3, 10)),
       V("cookie8", TRUE, Opt(10, 0, <<B(8, 17)>>)),
       V("cookie16", TRUE, Opt(10, 0, <<B(16, 17)>>)),
       V("cookie40", TRUE, Opt(10, 0, <<B(40, 17)>>)),
       V("nsid0", TRUE, Opt(3, 0, <<>>)),
       V("nsid5", TRUE, Opt(3, 0, <<B(5, 65)>>)),
       V("padding0", TRUE, Opt(12, 0, <<>>)),
       V("padding100", TRUE, Opt(12, 0, <<B(100, 0)>>)),
       V("ede", TRUE, Opt(15, 0, <<U(2, 6)>>)),
       V("ede-text", TRUE, Opt(15, 0, <<U(2, 18), B(9, 101)>>)),
       V("dau", TRUE, Opt(5, 0, <<X(<<8, 13, 15>>)>>)),
       V("dhu", TRUE, Opt(6, 0, <<X(<<1, 2>>)>>)),
       V("n3u", TRUE, Opt(7, 0, <<X(<<1>>)>>)),
       V("expire0", TRUE, Opt(9, 0, <<>>)),
       V("expire4", TRUE, Opt(9, 0, <<U(4, 3600)>>)),
       V("keepalive0", TRUE, Opt(11, 0, <<>>)),
       V("keepalive2", TRUE, Opt(11, 0, <<U(2, 100)>>)),
       V("chain", TRUE, Opt(13, 0, <<N("plain")>>)),
       V("keytag", TRUE, Opt(14, 0, <<U(2, 4711), U(2, 1)>>)),
       V("unknown3", TRUE, Opt(65001, 0, <<B(3, 9)>>)),
       V("unknown0", TRUE, Opt(65001, 0, <<>>)),
       V("llq-old", TRUE, Opt(1, 0, <<B(18, 0)>>)),
       \* malformed / debatable
       V("ecs4-33", FALSE, Ecs(1, 33, 0, 5, 10)),
       V("ecs4-128", FALSE, Ecs(1, 128, 0, 16, 10)),
       V("ecs4-255", FALSE, Ecs(1, 255, 0, 32, 10)),
       V("ecs6-129", FALSE, Ecs(2, 129, 0, 17, 32)),
       V("ecs6-255", FALSE, Ecs(2, 255, 0, 32, 32)),
       V("ecs4-24-short", FALSE, Ecs(1, 24, 0, 2, 10)),
       V("ecs4-24-long", FALSE, Ecs(1, 24, 0, 4, 10)),
       V("ecs4-25-dirty", FALSE, Ecs(1, 25, 0, 4, 255)),
       V("ecs6-56-long", FALSE, Ecs(2, 56, 0, 16, 32)),
       V("ecs4-scope33", FALSE, Ecs(1, 24, 33, 3, 10)),
       V("ecs-fam0", FALSE, Ecs(0, 0, 0, 0, 0)),
       V("ecs-fam0-bits", FALSE, Ecs(0, 8, 0, 1, 1)),
       V("ecs-fam3", FALSE, Ecs(3, 24, 0, 3, 10)),
       V("ecs-len3", FALSE, Opt(8, 0, <<U(2, 1), U(1, 24)>>)),
       V("ecs-len0", FALSE, Opt(8, 0, <<>>)),
       V("cookie7", FALSE, Opt(10, 0, <<B(7, 17)>>)),
       V("cookie9", FALSE, Opt(10, 0, <<B(9, 17)>>)),
       V("cookie41", FALSE, Opt(10, 0, <<B(41, 17)>>)),
       V("cookie0", FALSE, Opt(10, 0, <<>>)),
       V("ede1", FALSE, Opt(15, 0, <<B(1, 0)>>)),
       V("ede0", FALSE, Opt(15, 0, <<>>)),
       V("expire3", FALSE, Opt(9, 0, <<B(3, 0)>>)),
       V("keepalive1", FALSE, Opt(11, 0, <<B(1, 0)>>)),
       V("keytag-odd", FALSE, Opt(14, 0, <<B(3, 1)>>)),
       V("chain-cut", FALSE, Opt(13, 0, <<N("cut")>>)),
       V("overlen", FALSE, Opt(65001, 2, <<B(3, 9)>>)),
       V("underlen", FALSE, Opt(65001, 0 - 1, <<B(3, 9)>>)),
       V("codeonly", FALSE, <<U(2, 10)>>),
       V("halflen", FALSE, <<U(2, 10), U(1, 0)>>) >>

ByTag(s, tag) == s[CHOOSE i \in 1..Len(s) : s[i].tag = tag]
\* two options; the same option code twice is not well-formed for the single-instance options used here
Pair(a, b) == V(a.tag \o "+" \o b.tag, a.ok /\ b.ok /\ a.prims[1].n # b.prims[1].n, a.prims \o b.prims)
OptVariants ==
    OptSingles
    \o [i \in 1..Len(OptSingles) |-> Pair(OptSingles[i], ByTag(OptSingles, "unknown0"))]   \* ... followed by an empty option
    \o [i \in 1..Len(OptSingles) |-> Pair(ByTag(OptSingles, "cookie8"), OptSingles[i])]    \* a cookie, then ...
    \o << V("none", TRUE, <<>>) >>

---------------------------------------------------------------------------
(* SVCB / HTTPS parameters (RFC 9460 2.2): key, length, value; keys strictly ascending *)

Par(key, d, value) == <<U(2, key), L(2, d, value)>>
Alpn1 == Par(1, 0, <<L(1, 0, <<X(<<104, 50>>)>>)>>)                                        \* alpn=h2
Alpn2 == Par(1, 0, <<L(1, 0, <<X(<<104, 50>>)>>), L(1, 0, <<X(<<104, 51>>)>>)>>)           \* alpn=h2,h3
Nda   == Par(2, 0, <<>>)                                                                    \* no-default-alpn
Port  == Par(3, 0, <<U(2, 8443)>>)
V4(n) == Par(4, 0, <<B(4 * n, 10)>>)
Ech   == Par(5, 0, <<B(40, 77)>>)
V6(n) == Par(6, 0, <<B(16 * n, 32)>>)
Mand(keys) == Par(0, 0, Map(LAMBDA k : U(2, k), keys))
Key65000(n) == Par(65000, 0, <<B(n, 9)>>)

SvcParams ==
    << V("none", TRUE, <<>>),
       V("alpn", TRUE, Alpn1),
       V("alpn2", TRUE, Alpn2),
       V("alpn+nda", TRUE, Alpn1 \o Nda),                       \* the last parameter has an empty value
       V("port", TRUE, Port),
       V("v4", TRUE, V4(1)), V("v4x2", TRUE, V4(2)),
       V("v6", TRUE, V6(1)), V("v6x2", TRUE, V6(2)),
       V("ech", TRUE, Ech),
       V("mandatory+alpn", TRUE, Mand(<<1>>) \o Alpn1),
       V("mandatory2", TRUE, Mand(<<1, 3>>) \o Alpn1 \o Port),
       V("key65000", TRUE, Key65000(3)),
       V("key65000-empty", TRUE, Key65000(0)),
       V("port+key65000-empty", TRUE, Port \o Key65000(0)),
       V("full", TRUE, Alpn2 \o Port \o V4(1) \o Ech \o V6(1) \o Key65000(2)),
       V("alpn+nda+port", TRUE, Alpn1 \o Nda \o Port),
       \* malformed / debatable
       V("descending", FALSE, Port \o Alpn1),
       V("twice", FALSE, Port \o Port),
       V("port-len1", FALSE, Par(3, 0, <<B(1, 1)>>)),
       V("port-len3", FALSE, Par(3, 0, <<B(3, 1)>>)),
       V("port-len0", FALSE, Par(3, 0, <<>>)),
       V("v4-len5", FALSE, Par(4, 0, <<B(5, 10)>>)),
       V("v4-len0", FALSE, Par(4, 0, <<>>)),
       V("v6-len15", FALSE, Par(6, 0, <<B(15, 32)>>)),
       V("v6-len0", FALSE, Par(6, 0, <<>>)),
       V("alpn-len0", FALSE, Par(1, 0, <<>>)),
       V("alpn-id0", FALSE, Par(1, 0, <<L(1, 0, <<>>)>>)),
       V("alpn-inner-over", FALSE, Par(1, 0, <<L(1, 3, <<X(<<104>>)>>)>>)),
       V("nda-alone", FALSE, Nda),
       V("nda-nonempty", FALSE, Alpn1 \o Par(2, 0, <<B(1, 0)>>)),
       V("ech-len0", FALSE, Par(5, 0, <<>>)),
       V("mandatory-unsorted", FALSE, Mand(<<3, 1>>) \o Alpn1 \o Port),
       V("mandatory-missing", FALSE, Mand(<<3>>) \o Alpn1),
       V("mandatory-self", FALSE, Mand(<<0, 1>>) \o Alpn1),
       V("mandatory-empty", FALSE, Mand(<<>>) \o Alpn1),
       V("mandatory-odd", FALSE, Par(0, 0, <<B(3, 0)>>) \o Alpn1),
       V("mandatory-twice", FALSE, Mand(<<1, 1>>) \o Alpn1),
       V("key65535", FALSE, Par(65535, 0, <<B(1, 0)>>)),
       V("overlen", FALSE, Par(65000, 2, <<B(3, 9)>>)),
       V("underlen", FALSE, Par(65000, 0 - 1, <<B(3, 9)>>)),
       V("keyonly", FALSE, <<U(2, 3)>>),
       V("halflen", FALSE, <<U(2, 3), U(1, 0)>>) >>

\* CAA (RFC 8659): flags, tag (1..255 of [a-zA-Z0-9]), value
CaaTag ==
    << V("issue", TRUE, <<L(1, 0, <<X(<<105, 115, 115, 117, 101>>)>>)>>),
       V("iodef", TRUE, <<L(1, 0, <<X(<<105, 111, 100, 101, 102>>)>>)>>),
       V("issuewild", TRUE, <<L(1, 0, <<X(<<105, 115, 115, 117, 101, 119, 105, 108, 100>>)>>)>>),
       V("mixedcase", TRUE, <<L(1, 0, <<X(<<73, 115, 115, 117, 69>>)>>)>>),       \* IssuE: matched case-insensitively, kept as sent
       V("upperunknown", TRUE, <<L(1, 0, <<B(5, 90)>>)>>),
       V("unknowntag", TRUE, <<L(1, 0, <<B(5, 122)>>)>>),
       V("tag15", TRUE, <<L(1, 0, <<B(15, 122)>>)>>),
       V("empty", FALSE, <<L(1, 0, <<>>)>>),
       V("nonalnum", FALSE, <<L(1, 0, <<B(3, 46)>>)>>),
       V("latin1", FALSE, <<L(1, 0, <<X(<<105, 115, 115, 117, 233>>)>>)>>),      \* issu + e-acute (a letter, not ASCII)
       V("high", FALSE, <<L(1, 0, <<B(4, 255)>>)>>),
       V("over", FALSE, <<L(1, 9, <<B(2, 122)>>)>>) >>
\* values: for the nominal tag `issue` a domain with or without parameters; anything goes for unknown tags
CaaValue ==
    << V("ca", TRUE, <<X(<<99, 97, 46, 101, 120, 97, 109, 112, 108, 101>>)>>),                       \* ca.example
       V("semicolon", TRUE, <<X(<<59>>)>>),                                                           \* ;
       V("empty", TRUE, <<>>),
       V("param", TRUE, <<X(<<99, 97, 46, 101, 120, 59, 32, 97, 61, 98>>)>>),                       \* ca.ex; a=b
       V("binary", FALSE, <<X(<<0, 255, 128, 59, 61>>)>>),
       V("big", FALSE, <<B(600, 97)>>) >>

TsigAlg ==
    << V("hmac-sha256", TRUE, <<N("hmac-sha256")>>), V("hmac-sha512", TRUE, <<N("hmac-sha512")>>),
       V("other", FALSE, <<N("plain")>>), V("root", FALSE, <<N("root")>>), V("ptr", FALSE, <<N("ptr")>>),
       V("cut", FALSE, <<N("cut")>>) >>

---------------------------------------------------------------------------
(* Record types: code, fields *)

T(name, code, fields) == [name |-> name, code |-> code, fields |-> fields]

Algs == Enum(1, <<13, 8, 15>>, <<0, 1, 253>>)
Key  == Rest(32, FALSE)

Types ==
    << T("A", 1, <<Ip4>>),
       T("NS", 2, <<Name(TRUE)>>),
       T("CNAME", 5, <<Name(TRUE)>>),
       T("SOA", 6, <<Name(TRUE), Name(TRUE), Num(4, 2024010101), Num(4, 3600), Num(4, 600), Num(4, 86400), Num(4, 300)>>),
       T("NULL", 10, <<Rest(5, FALSE)>>),
       T("PTR", 12, <<Name(TRUE)>>),
       T("HINFO", 13, <<CStr, CStr>>),
       T("MX", 15, <<Num(2, 10), Name(TRUE)>>),
       T("TXT", 16, <<Txt>>),
       T("SIG", 24, <<Enum(2, <<1, 0>>, <<255>>), Algs, Num(1, 2), Num(4, 300), Num(4, 1900000000), Num(4, 1700000000), Num(2, 4711),
                      Name(FALSE), Rest(64, FALSE)>>),
       T("KEY", 25, <<Enum(2, <<256, 0>>, <<>>), Enum(1, <<3>>, <<0>>), Algs, Key>>),
       T("AAAA", 28, <<Ip6>>),
       T("SRV", 33, <<Num(2, 1), Num(2, 2), Num(2, 443), Name(FALSE)>>),
       T("NAPTR", 35, <<Num(2, 100), Num(2, 10), CStrFlags, CStr, CStr, Name(FALSE)>>),
       T("CERT", 37, <<Enum(2, <<1, 2, 3>>, <<0>>), Num(2, 12345), Algs, Rest(20, FALSE)>>),
       T("OPT", 41, <<OptVariants>>),
       T("DS", 43, <<Num(2, 4711), Algs, Enum(1, <<2, 1, 4>>, <<0, 3>>), Rest(32, FALSE)>>),
       T("SSHFP", 44, <<Enum(1, <<1, 2, 3, 4>>, <<0>>), Enum(1, <<1, 2>>, <<0>>), Rest(20, FALSE)>>),
       T("RRSIG", 46, <<Enum(2, <<1, 2, 48>>, <<0, 255>>), Algs, Num(1, 2), Num(4, 300), Num(4, 1900000000), Num(4, 1700000000),
                        Num(2, 4711), Name(FALSE), Rest(64, FALSE)>>),
       T("NSEC", 47, <<Name(FALSE), BitMaps(FALSE)>>),
       T("DNSKEY", 48, <<Enum(2, <<257, 256, 0, 128>>, <<>>), Enum(1, <<3>>, <<0>>), Algs, Key>>),
       T("NSEC3", 50, <<Enum(1, <<1>>, <<0, 2>>), Enum(1, <<0, 1>>, <<2>>), Num(2, 5), Blob8(4), Blob8(20), BitMaps(TRUE)>>),
       T("NSEC3PARAM", 51, <<Enum(1, <<1>>, <<0, 2>>), Enum(1, <<0>>, <<1>>), Num(2, 5), Blob8(4)>>),
       T("TLSA", 52, <<Enum(1, <<3, 0, 1, 2>>, <<4>>), Enum(1, <<1, 0>>, <<2>>), Enum(1, <<1, 0, 2>>, <<3>>), Rest(32, FALSE)>>),
       T("SMIMEA", 53, <<Enum(1, <<3, 0, 1, 2>>, <<4>>), Enum(1, <<1, 0>>, <<2>>), Enum(1, <<1, 0, 2>>, <<3>>), Rest(32, FALSE)>>),
       T("CDS", 59, <<Num(2, 4711), Algs, Enum(1, <<2, 1, 4>>, <<0, 3>>), Rest(32, FALSE)>>),
       T("CDNSKEY", 60, <<Enum(2, <<257, 256, 0>>, <<>>), Enum(1, <<3>>, <<0>>), Algs, Key>>),
       T("OPENPGPKEY", 61, <<Rest(40, FALSE)>>),
       T("CSYNC", 62, <<Num(4, 66), Enum(2, <<3, 0, 1, 2>>, <<4>>), BitMaps(TRUE)>>),
       T("SVCB", 64, <<Enum(2, <<1, 16>>, <<>>), Name(FALSE), SvcParams>>),
       T("HTTPS", 65, <<Enum(2, <<1, 16>>, <<>>), Name(FALSE), SvcParams>>),
       T("TSIG", 250, <<TsigAlg, Num(6, 1700000000), Num(2, 300), Blob16(32), Num(2, 7), Enum(2, <<0, 16, 17, 18>>, <<22>>), Blob16(6)>>),
       T("CAA", 257, <<Enum(1, <<0, 128>>, <<1>>), CaaTag, CaaValue>>),
       T("ANAME", 65305, <<Name(TRUE)>>),
       T("UNKNOWN", 65280, <<Rest(7, FALSE)>>),
       \* codes that are not data types: nothing is required of them but safety
       T("ZERO", 0, <<Rest(3, FALSE)>>), T("ANY", 255, <<Rest(3, FALSE)>>), T("AXFR", 252, <<Rest(3, FALSE)>>),
       T("IXFR", 251, <<Rest(3, FALSE)>>), T("NXT", 30, <<Rest(9, FALSE)>>) >>

NotData == {0, 255, 252, 251}

TypeIx(code) == CHOOSE i \in 1..Len(Types) : Types[i].code = code

---------------------------------------------------------------------------
(* A case: one record of a type, one variant chosen per field, in a message context *)

OpCodes == {0, 2, 4, 5}                      \* QUERY STATUS NOTIFY UPDATE
Sections == {"an", "ns", "ar"}
Classes == {1, 3, 254, 255}                  \* IN CH NONE ANY
RdLens == {"exact", "zero", "minus1", "plus1", "pad1"}
Follows == {"end", "more"}

NomCtx == [opcode |-> 0, sec |-> "an", class |-> 1, rdlen |-> "exact", follow |-> "end"]

Nominal(t) == [i \in 1..Len(Types[t].fields) |-> 1]

Prims(t, pick) == Flat([i \in 1..Len(pick) |-> Types[t].fields[i][pick[i]].prims])
Tags(t, pick)  == [i \in 1..Len(pick) |-> Types[t].fields[i][pick[i]].tag]
FieldsOk(t, pick) == \A i \in 1..Len(pick) : Types[t].fields[i][pick[i]].ok

\* what the message context demands of a record that the decoder MUST accept
CtxOk(code, ctx) ==
    /\ ctx.rdlen = "exact"
    /\ code \notin NotData
    \* OPT lives in the additional section (its CLASS is the payload size), TSIG is the last record
    /\ (code = 41 => ctx.sec = "ar")
    /\ (code = 250 => ctx.sec = "ar" /\ ctx.follow = "end" /\ ctx.class = 255)
    \* SIG(0) conventions are not modelled
    /\ (code = 24 => FALSE)

\* semantic cross-field conditions of a type
CrossOk(code, tags) ==
    \* SVCB alias mode (priority 0) has no parameters; we only use service mode
    /\ TRUE

Must(t, pick, ctx) == FieldsOk(t, pick) /\ CtxOk(Types[t].code, ctx) /\ CrossOk(Types[t].code, Tags(t, pick))
                      /\ Prims(t, pick) # <<>>       \* an empty RDATA is RFC 2136 territory

\* the variant of field i of type t that carries this tag
PickOf(t, tags) == [i \in 1..Len(tags) |-> CHOOSE v \in 1..Len(Types[t].fields[i]) : Types[t].fields[i][v].tag = tags[i]]

\* does the RDATA of this case contain a name written with compression (then byte equality is not owed)?
RECURSIVE HasPtr(_)
HasPtr(ps) ==
    IF ps = <<>> THEN FALSE
    ELSE LET h == Head(ps) IN
         \/ (h.p = "name" /\ h.v \in {"ptr", "lblptr", "ptrchain"})
         \/ (h.p = "len" /\ HasPtr(h.body))
         \/ HasPtr(Tail(ps))

\* types whose RDATA a decode/encode cycle must reproduce octet for octet (no compressible names).
\* For OPT the order of options is not significant: the driver compares the options as a multiset of
\* (code, value) pairs
BytePreserved(code) == code \notin {2, 5, 6, 12, 15, 65305, 250}

---------------------------------------------------------------------------
(* The list-valued RDATA (EDNS options, SVCB parameters, TXT strings, NSEC windows) as item lists: *)
(* the inputs of the loop machine TlvLoop, unfolded for its four carriers.                          *)

Carriers == {"opt", "svc", "txt", "win"}
CarrierCode(c) == CASE c = "opt" -> 41 [] c = "svc" -> 64 [] c = "txt" -> 16 [] c = "win" -> 47
CarrierHdr(c)  == CASE c = "opt" -> 4 [] c = "svc" -> 4 [] c = "txt" -> 1 [] c = "win" -> 2

TlvItem(c, i, it) ==
    CASE c = "opt" -> <<U(2, 65000 + i), L(2, it.d, <<B(it.len, 0)>>)>>
      [] c = "svc" -> <<U(2, 65000 + i), L(2, it.d, <<B(it.len, 0)>>)>>
      [] c = "txt" -> <<L(1, it.d, <<B(it.len, 97)>>)>>
      [] c = "win" -> <<U(1, i - 1), L(1, it.d, <<B(it.len, 1)>>)>>
TlvLead(c) == CASE c = "svc" -> <<U(2, 1), N("root")>> [] c = "win" -> <<N("plain")>> [] OTHER -> <<>>
TlvPrims(c, items, stray) ==
    TlvLead(c) \o Flat([i \in 1..Len(items) |-> TlvItem(c, i, items[i])]) \o (IF stray = 0 THEN <<>> ELSE <<B(stray, 0)>>)

\* honest lists are well-formed (a window needs 1..32 octets; an empty list leaves no RDATA for TXT / OPT,
\* and an NSEC without windows is debatable)
TlvMust(c, items, stray, ctx) ==
    /\ stray = 0 /\ items # <<>>
    /\ \A i \in 1..Len(items) : items[i].d = 0 /\ (c = "win" => items[i].len >= 1)
    /\ CtxOk(CarrierCode(c), ctx)
=============================================================================
