------------------------------ MODULE NsecOps ------------------------------
(* Pure operators for C08 (NSEC denial of existence).  Constant-free, shared  *)
(* by Nsec (machine + requirements), MC_Nsec, Gen_Nsec and Trace_Nsec.        *)
(*                                                                            *)
(* Part 1  what a signed zone contains and what an authoritative server must  *)
(*         answer and attach (RFC 1034 4.3.2, RFC 4592, RFC 4034 4,           *)
(*         RFC 4035 2.3 and 3.1.3).  This is the ground truth.                *)
(* Part 2  how a validator reads NSEC records (RFC 4035 5.4, RFC 6840 4):     *)
(*         Entails(P, q, t, kind, ce).  Written on records only; it never     *)
(*         looks at a zone.                                                   *)
(* The two parts are independent on purpose: the model check (MC_Nsec)        *)
(* verifies part 2 against part 1.                                            *)
EXTENDS DnsNames

(* An NSEC record is [owner |-> name, next |-> name, types |-> set of type   *)
(* mnemonics].  The RRSIG and NSEC bits are not represented: a validator      *)
(* MUST ignore them (RFC 4035 5.4 last paragraph).                            *)

-----------------------------------------------------------------------------
(* Part 1: zones.  A zone is a function z from owner names to non-empty type  *)
(* sets; apex \in DOMAIN z with "SOA" \in z[apex].                            *)

Owners(z) == DOMAIN z

\* delegation point (zone cut): NS below the apex (RFC 4035 2.3: parent side has NS, maybe DS)
IsCut(z, apex, n) == n \in DOMAIN z /\ n # apex /\ "NS" \in z[n]

\* names below a zone cut are not authoritative data of this zone (glue, occluded)
Occluded(z, apex, n) == \E d \in DOMAIN z : IsCut(z, apex, d) /\ ProperSubdomain(n, d)

\* owner names that get an NSEC record: authoritative data or a delegation point (RFC 4035 2.3)
AuthOwners(z, apex) == { n \in DOMAIN z : IsSubdomain(n, apex) /\ ~Occluded(z, apex, n) }

\* a name exists if it owns data or is an empty non-terminal above data (RFC 4592 2.2.2)
Exists(z, apex, n) == ExistsIn(n, AuthOwners(z, apex))

\* the zone cut at or above n, if any (the topmost one)
CutsAbove(z, apex, n) == { d \in AuthOwners(z, apex) : IsCut(z, apex, d) /\ IsSubdomain(n, d) }

\* is this zone the one that answers <q, t> authoritatively?  Names below a cut, and every type
\* but DS at the cut itself, belong to the child (RFC 4035 3.1.4, RFC 6840 4.1).
Authoritative(z, apex, q, t) ==
    /\ IsSubdomain(q, apex)
    /\ \A d \in CutsAbove(z, apex, q) : d = q /\ t = "DS"

CE(z, apex, q) == ClosestEncloser(q, AuthOwners(z, apex))

(* RFC 1034 4.3.2 with RFC 4592 wildcards: the kind of response to <q, t>.    *)
(*   "outside"   not in this zone at all                                      *)
(*   "referral"  at or below a zone cut (not a denial; no claim is made)      *)
(*   "answer"    data of type t (or a CNAME) at q                             *)
(*   "nodata"    q exists (owner or empty non-terminal), type absent          *)
(*   "wildanswer" / "wildnodata"   q does not exist, *.<closest encloser> does *)
(*   "nxdomain"  q does not exist and no wildcard applies                     *)
Lookup(z, apex, q, t) ==
    IF ~IsSubdomain(q, apex) THEN "outside"
    ELSE IF ~Authoritative(z, apex, q, t) THEN "referral"
    ELSE IF q \in DOMAIN z THEN
        (IF t \in z[q] \/ "CNAME" \in z[q] THEN "answer" ELSE "nodata")
    ELSE IF Exists(z, apex, q) THEN "nodata"
    ELSE LET w == Wildcard(CE(z, apex, q)) IN
         IF w \in AuthOwners(z, apex) THEN
             (IF t \in z[w] \/ "CNAME" \in z[w] THEN "wildanswer" ELSE "wildnodata")
         ELSE IF Exists(z, apex, w) THEN "wildnodata"     \* the wildcard is an empty non-terminal
         ELSE "nxdomain"

(* The claim a response makes, as far as NSEC records have to support it:     *)
(*   kind = "nxdomain"  RCODE 3, no answer                                    *)
(*   kind = "nodata"    RCODE 0, no answer                                    *)
(*   kind = "wild"      RCODE 0, an answer whose RRSIG Labels field says it   *)
(*                      was expanded from *.ce  (ce a proper ancestor of q)   *)
(* Truth of the claim in the zone that is authoritative for <q, t>.           *)
ClaimTrue(z, apex, q, t, kind, ce) ==
    LET lk == Lookup(z, apex, q, t) IN
    CASE kind = "nxdomain" -> lk = "nxdomain"
      [] kind = "nodata"   -> lk \in {"nodata", "wildnodata"}
      [] kind = "wild"     -> /\ lk \in {"wildanswer", "wildnodata", "nxdomain"}   \* q itself does not exist
                              /\ CE(z, apex, q) = ce              \* nothing closer than *.ce can match
      [] OTHER -> FALSE

(* RFC 4034 4 / RFC 4035 2.3: the NSEC chain.  One record per AuthOwner in   *)
(* canonical order; the last one points back at the apex.  At a delegation    *)
(* point only NS and DS are in the bitmap (the parent is authoritative for    *)
(* nothing else there).                                                       *)
SuccIn(S, apex, n) ==
    LET later == { m \in S : CanonLess(n, m) } IN
    IF later = {} THEN apex ELSE CanonMin(later)
ChainTypes(z, apex, n) == IF IsCut(z, apex, n) THEN z[n] \cap {"NS", "DS"} ELSE z[n]
Chain(z, apex) ==
    LET S == AuthOwners(z, apex) IN
    { [owner |-> n, next |-> SuccIn(S, apex, n), types |-> ChainTypes(z, apex, n)] : n \in S }

\* the chain record owned by n / the chain record whose interval contains the non-owner n
NsecAt(z, apex, n)  == CHOOSE r \in Chain(z, apex) : r.owner = n
CoverOf(z, apex, n) ==
    CHOOSE r \in Chain(z, apex) :
        /\ CanonLess(r.owner, n)
        /\ (CanonLess(n, r.next) \/ r.next = apex)

(* RFC 4035 3.1.3: the NSEC records a security-aware authoritative server     *)
(* includes (3.1.3.1 no data, 3.1.3.2 name error, 3.1.3.3 wildcard answer,    *)
(* 3.1.3.4 wildcard no data).  For an empty non-terminal the NSEC that spans  *)
(* it is the only one that can show "no data" (RFC 4035 has no record at an   *)
(* ENT), and likewise for a wildcard that is an empty non-terminal.           *)
ServerProof(z, apex, q, t) ==
    LET lk == Lookup(z, apex, q, t)
        w  == Wildcard(CE(z, apex, q)) IN
    CASE lk = "nodata" /\ q \in DOMAIN z     -> { NsecAt(z, apex, q) }
      [] lk = "nodata" /\ q \notin DOMAIN z  -> { CoverOf(z, apex, q) }
      [] lk = "nxdomain"                      -> { CoverOf(z, apex, q), CoverOf(z, apex, w) }
      [] lk = "wildanswer"                    -> { CoverOf(z, apex, q) }
      [] lk = "wildnodata" /\ w \in DOMAIN z  -> { CoverOf(z, apex, q), NsecAt(z, apex, w) }
      [] lk = "wildnodata" /\ w \notin DOMAIN z -> { CoverOf(z, apex, q), CoverOf(z, apex, w) }
      [] OTHER -> {}
ServerKind(z, apex, q, t) ==
    LET lk == Lookup(z, apex, q, t) IN
    CASE lk \in {"nodata", "wildnodata"} -> "nodata"
      [] lk = "nxdomain"                 -> "nxdomain"
      [] lk = "wildanswer"               -> "wild"
      [] OTHER                           -> "none"

-----------------------------------------------------------------------------
(* Part 2: the validator's reading of NSEC records.                           *)

(* RFC 6840 4.1: an "ancestor delegation" NSEC has the NS bit set and the SOA *)
(* bit clear (its signer is then necessarily a proper ancestor of its owner). *)
AncestorDelegation(r) == "NS" \in r.types /\ "SOA" \notin r.types

(* RFC 4034 4.1.1: the last NSEC of a zone has the apex as its next name, so  *)
(* next <= owner identifies it and next is then the apex of its zone.  Such a *)
(* record spans everything after its owner *inside that zone*.                *)
IsLast(r) == ~CanonLess(r.owner, r.next)

(* RFC 6840 4.1: ancestor delegation NSECs (and NSECs with the DNAME bit)     *)
(* "MUST NOT be used to assume non-existence of any RRs below that zone cut,  *)
(* which include all RRs at that (original) owner name other than DS RRs, and *)
(* all RRs below that owner name regardless of type."                         *)
SaysNothingBelow(r) == AncestorDelegation(r) \/ "DNAME" \in r.types

(* Every rule below takes a set L of *relaxations*: names of clauses to drop. *)
(* The requirement is always L = {} (operator Entails).  Non-empty L is used  *)
(* only to *explain* a disagreement: when an implementation accepts a proof   *)
(* that Entails rejects, the trace monitor reports under which single dropped *)
(* clause the proof would have been accepted (DESIGN.md A.5, "AsIs").         *)
LaxRules == { "rfc6840-type-at-delegation",   \* RFC 6840 4.1 at the owner name (only DS may be denied)
              "rfc6840-below-delegation",     \* RFC 6840 4.1 below the owner name
              "ent-taken-as-absent",          \* next name below n: n is an empty non-terminal, it exists
              "wildcard-expansion-intermediate-names-unchecked",
                                              \* for an expansion from *.ce only the wildcards *.x of the names x
                                              \* between ce and the query name are shown absent, not the names x
              "no-soa-parent-taken-as-closest-encloser",
                                              \* without an SOA in the response the parent of the query name is
                                              \* assumed to be the closest encloser
              "closest-encloser-unproven",    \* (broadest) the closest encloser, where a wildcard would sit, must
                                              \* follow from the NSEC that spans the name, not be assumed
              "last-nsec-spans-other-zones",  \* the last NSEC spans only names inside its own zone
              "cname-bit-ignored",            \* RFC 6840 4.3 / RFC 4035 5.4: CNAME bit must be clear
              "next-is-soa-taken-as-last",    \* only next <= owner marks the last NSEC; a record of another
                                              \* zone whose next name is the SOA owner is not one
              "wildcard-expanded-nsec-used" } \* an NSEC whose owner has more labels than its RRSIG's Labels
                                              \* field was itself expanded from a wildcard: no denial

(* RFC 4035 5.4 (with 5.3.2 / RFC 4034 3.1.3): an NSEC RR whose owner name has *)
(* more labels than the Labels field of its RRSIG is not the record the zone  *)
(* signed but that of a wildcard owner shown under an expanded name (its      *)
(* signature still verifies through the wildcard reconstruction).  Its owner  *)
(* name is not a name of the chain, so it spans nothing and describes no      *)
(* name: it must not be used in a denial.  Records carry the optional field   *)
(* exp (TRUE iff expanded); records of a zone's own chain do not have it.     *)
Expanded(r) == "exp" \in DOMAIN r /\ r.exp
Usable(r, L) == "wildcard-expanded-nsec-used" \in L \/ ~Expanded(r)

\* RFC 4035 5.4, 2nd bullet: no RRset is owned by n
\* (soa, the owner of the SOA in the response, is used by one relaxation only)
SpansX(r, n, L, soa) ==
    IF IsLast(r) THEN CanonLess(r.owner, n) /\ ("last-nsec-spans-other-zones" \in L \/ IsSubdomain(n, r.next))
    ELSE /\ CanonLess(r.owner, n)
         /\ CanonLess(n, r.next) \/ ("next-is-soa-taken-as-last" \in L /\ r.next = soa)
ProvesNoRRsets(r, n, L, soa) ==
    /\ Usable(r, L)
    /\ SpansX(r, n, L, soa)
    /\ "rfc6840-below-delegation" \in L \/ ~(SaysNothingBelow(r) /\ ProperSubdomain(n, r.owner))

\* ... and n is not an empty non-terminal either: the next owner name is not below n
ProvesAbsent(r, n, L, soa) ==
    /\ ProvesNoRRsets(r, n, L, soa)
    /\ "ent-taken-as-absent" \in L \/ ~ProperSubdomain(r.next, n)

\* ... n exists, but only as an empty non-terminal
ProvesEmptyNonTerminal(r, n, L, soa) == ProvesNoRRsets(r, n, L, soa) /\ ProperSubdomain(r.next, n)

(* RFC 4035 5.4, 1st bullet (+ RFC 6840 4.1, 4.3 CNAME): type t is absent at  *)
(* n.  Open point, deliberately permissive: a DS query answered with the      *)
(* child-side apex NSEC (SOA bit set) is accepted here; neither RFC forbids   *)
(* it and RFC 4035 B.8 shows exactly that response.                           *)
ProvesNoType(r, n, t, L) ==
    /\ Usable(r, L)
    /\ NameEq(r.owner, n)
    /\ t \notin r.types
    /\ "cname-bit-ignored" \in L \/ "CNAME" \notin r.types
    /\ "rfc6840-type-at-delegation" \in L \/ (AncestorDelegation(r) => t = "DS")

(* Given that r proves n absent, the closest encloser of n is the deeper of   *)
(* its common ancestors with the two neighbours (canonical order is a         *)
(* pre-order walk of the name tree).                                          *)
CeFrom(r, n) ==
    LET a == CommonLabels(n, r.owner) b == CommonLabels(n, r.next) IN
    Suffix(n, IF a >= b THEN a ELSE b)

\* no data can be synthesised for q from *.c: the wildcard is absent / lacks the type / is an ENT
WildcardAbsent(P, c, L, soa)       == \E w \in P : ProvesAbsent(w, Wildcard(c), L, soa)
WildcardLacksType(P, c, t, L, soa) == \/ \E w \in P : ProvesNoType(w, Wildcard(c), t, L) /\ ~AncestorDelegation(w)
                                      \/ \E w \in P : ProvesEmptyNonTerminal(w, Wildcard(c), L, soa)

\* the closest enclosers of q that the record r (which proves q absent) admits
CesFrom(r, q, L, soa) ==
    { CeFrom(r, q) }
    \cup (IF "closest-encloser-unproven" \in L THEN Ancestors(q) ELSE {})
    \cup (IF "no-soa-parent-taken-as-closest-encloser" \in L /\ soa = <<>> /\ Len(q) > 0 THEN { Parent(q) } ELSE {})

\* the names strictly between an ancestor c of q and q
Between(c, q) == { Suffix(q, k) : k \in (Len(c) + 1)..(Len(q) - 1) }

NxDomainEntailed(P, q, L, soa) ==
    \E r \in P : ProvesAbsent(r, q, L, soa) /\ \E c \in CesFrom(r, q, L, soa) : WildcardAbsent(P, c, L, soa)

NoDataEntailed(P, q, t, L, soa) ==
    \/ \E r \in P : ProvesNoType(r, q, t, L)                    \* the type is absent at the name
    \/ \E r \in P : ProvesEmptyNonTerminal(r, q, L, soa)        \* the name is an empty non-terminal
    \/ \E r \in P : /\ ProvesAbsent(r, q, L, soa)               \* ... at the matching wildcard
                    /\ \E c \in CesFrom(r, q, L, soa) : WildcardLacksType(P, c, t, L, soa)

\* no closer match than *.ce exists: q is absent and its closest encloser is ce.
\* ce is the expansion source of the ANSWERED RRset (the one of the queried type): the Labels field of
\* its RRSIG.  Other RRsets in the answer section that were expanded for q from other wildcards
\* ("riders"; an attacker can add authentic ones) say nothing about where the answered RRset comes
\* from: they must not change the verdict on this claim.
WildAnswerEntailed(P, q, ce, L, soa) ==
    /\ ProperSubdomain(q, ce)
    /\ \E r \in P :
         /\ ProvesAbsent(r, q, L, soa)
         /\ \/ \E c \in CesFrom(r, q, L, soa) : NameEq(c, ce)
            \/ /\ "wildcard-expansion-intermediate-names-unchecked" \in L
               /\ \A x \in Between(ce, q) : \E w \in P : SpansX(w, Wildcard(x), L, soa)

EntailsX(P, q, t, kind, ce, L, soa) ==
    CASE kind = "nxdomain" -> NxDomainEntailed(P, q, L, soa)
      [] kind = "nodata"   -> NoDataEntailed(P, q, t, L, soa)
      [] kind = "wild"     -> WildAnswerEntailed(P, q, ce, L, soa)
      [] OTHER -> FALSE

(* THE oracle of C08: the records P, read per RFC 4035 5.4 and RFC 6840 4,    *)
(* entail the claim <kind, ce> about <q, t>.                                  *)
Entails(P, q, t, kind, ce) == EntailsX(P, q, t, kind, ce, {}, <<>>)

\* which single dropped clause would make a rejected proof acceptable (explanation only)
ExplainedBy(P, q, t, kind, ce, soa) == { l \in LaxRules : EntailsX(P, q, t, kind, ce, {l}, soa) }
\* ... or all of them together
ExplainedByAll(P, q, t, kind, ce, soa) == EntailsX(P, q, t, kind, ce, LaxRules, soa)

\* the one boundary case left open (see ProvesNoType): both verdicts are acceptable
OpenDsCase(P, q, t, kind) ==
    kind = "nodata" /\ t = "DS" /\ \E r \in P : NameEq(r.owner, q) /\ "SOA" \in r.types
=============================================================================
