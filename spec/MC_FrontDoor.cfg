\* all request attribute combinations x all configurations; safety
SPECIFICATION Spec
CONSTANTS
  Requests <- MC_Requests
  Configs <- MC_Configs
INVARIANTS TypeOK C11_ExactlyOne C11_Class C11_Echo C11_LongestSuffix C11_Chain C11_AclLongestPrefix C11_Allowed
CHECK_DEADLOCK FALSE
