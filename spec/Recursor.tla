------------------------------ MODULE Recursor ------------------------------
(***************************************************************************)
(* C19 -- recursive resolution ignores out-of-bailiwick data and always    *)
(* terminates.                                                             *)
(*                                                                         *)
(* hickory-resolver: Recursor::resolve, RecursorDnsHandle::{resolve,       *)
(* lookup, ns_pool_for_name, append_ips_from_lookup, resolve_cnames}       *)
(* (crates/resolver/src/recursor/handle.rs).                               *)
(*                                                                         *)
(* Two layers.                                                             *)
(*  - The MACHINE: an iterative resolver after RFC 1034 section 5.3.3 over *)
(*    a simulated internet: a stack of goals (the user's question, alias   *)
(*    targets, addresses of glueless nameserver names), a map from zone    *)
(*    cuts to the server addresses learnt for them, and one action per     *)
(*    upstream query (Ask) whose response -- what the asked server really  *)
(*    sends, hostile additions included -- is filtered by the bailiwick    *)
(*    rule and then read as answer / alias / referral / negative / junk.   *)
(*    Depth is consumed by every alias hop and every glueless nameserver   *)
(*    name; a goal that runs out of depth or of servers to ask fails.      *)
(*  - The REQUIREMENTS C19_xxx: operators of RecursorOps on the observable *)
(*    history only (the log of responses the servers sent, the addresses   *)
(*    contacted, the records handed out).  The trace monitor               *)
(*    (Trace_Recursor) applies the same operators to the real Recursor.    *)
(*                                                                         *)
(* BailiwickRule = "required": every record of every response is dropped   *)
(*                  unless its owner lies in the zone the asked server is   *)
(*                  being used for;                                        *)
(*                 "asis": as the code does today when it looks up the     *)
(*                  address of a glueless nameserver name -- no filter, and *)
(*                  every address record of the answer section is taken    *)
(*                  whatever its owner (kept as a documented               *)
(*                  counterexample; conformance uses "required").          *)
(***************************************************************************)
EXTENDS RecursorOps, TLC

CONSTANTS NetParams,     \* parameters of the simulated internets to explore ...
          MkNet(_),      \* ... and the internet (see RecursorOps) each of them stands for
          Questions,     \* set of [qn, qt]
          NsLimit, RecLimit,   \* depth limits for nameserver-address goals / alias hops
          MaxCname,      \* alias hops per resolution, whatever the depth
          BailiwickRule

VARIABLES
    net, q,
    stack,    \* goals, innermost last: [qn, qt, for, d, chain]
    zs,       \* zone apex -> addresses learnt for it (function; the root maps to the hints)
    got,      \* what has been kept from responses: set of [r, z]
    log,      \* history: every response a server sent: [ip, qn, qt, recs]
    tried,    \* (address, name, type) already asked
    gl,       \* (zone, nameserver name) whose address has been sought
    cn,       \* alias hops so far
    out       \* [kind |-> "none" | "pos" | "neg" | "fail", recs]

vars == <<net, q, stack, zs, got, log, tried, gl, cn, out>>

Lim   == [ns |-> NsLimit, rec |-> RecLimit]
NoFor == <<"-">>
Goal(qn, qt, for, d, chain) == [qn |-> qn, qt |-> qt, for |-> for, d |-> d, chain |-> chain]

Init ==
    /\ \E p \in NetParams : net = MkNet(p)
    /\ q \in {x \in Questions : x.qt = net.qt}
    /\ stack = <<Goal(q.qn, q.qt, NoFor, 0, {})>>
    /\ zs = [a \in {Root} |-> net.roots]
    /\ got = {} /\ log = <<>> /\ tried = {} /\ gl = {} /\ cn = 0
    /\ out = [kind |-> "none", recs |-> {}]

Top == stack[Len(stack)]
Pop == SubSeq(stack, 1, Len(stack) - 1)
Usable(a) == {ip \in zs[a] : ~DeniedContact(net, ip)}    \* C19_Filters: a denied address is never asked
Known(qn) == {a \in DOMAIN zs : InZone(qn, a) /\ Usable(a) # {}}
ZoneFor(qn) == Longest(Known(qn))
Cands(f) ==
    IF Known(f.qn) = {} THEN {}
    ELSE {ip \in Usable(ZoneFor(f.qn)) : [ip |-> ip, qn |-> f.qn, qt |-> f.qt] \notin tried}

Learn(a, addrs) == [x \in DOMAIN zs \cup {a} |-> IF x = a THEN (IF a \in DOMAIN zs THEN zs[a] ELSE {}) \cup addrs ELSE zs[x]]

\* a goal ends: the user's goal ends the resolution (the answer filter is applied to what is
\* handed out); the address of a nameserver name is added to the servers of its zone
Finish(f, kind, recs) ==
    IF Len(stack) = 1
    THEN /\ out' = [kind |-> kind, recs |-> recs \ DeniedAnswers(net, recs)]
         /\ stack' = <<>> /\ zs' = zs
    ELSE /\ out' = out /\ stack' = Pop
         /\ zs' = IF kind = "pos" /\ f.for # NoFor
                  THEN Learn(f.for, {AddrOf(r) : r \in {x \in recs : IsAddr(x)}})
                  ELSE zs

\* one upstream query and the reading of its response
Ask(ip) ==
    /\ stack # <<>> /\ ip \in Cands(Top)
    /\ LET f    == Top
           a    == ZoneFor(f.qn)
           resp == Sent(net, ip, f.qn, f.qt)
           lax  == BailiwickRule = "asis" /\ f.for # NoFor
           Keep(S) == IF lax THEN S ELSE {r \in S : InZone(r.o, a)}
           an   == Keep(resp.an)
           ns   == Keep(resp.ns)
           ad   == Keep(resp.ad)
           exact == IF lax THEN {r \in an : IsAddr(r)} ELSE {r \in an : r.o = f.qn /\ r.t = f.qt}
           alias == {r \in an : r.o = f.qn /\ r.t = "CNAME" /\ f.qt # "CNAME"}
           refNs == {r \in ns \cup an : r.t = "NS" /\ InZone(f.qn, r.o) /\ Len(r.o) > Len(a)}
       IN /\ log' = Append(log, [ip |-> ip, qn |-> f.qn, qt |-> f.qt, recs |-> AllOf(resp)])
          /\ tried' = tried \cup {[ip |-> ip, qn |-> f.qn, qt |-> f.qt]}
          /\ got' = got \cup {[r |-> r, z |-> a] : r \in an \cup ns \cup ad}
          /\ IF exact # {} THEN
                /\ Finish(f, "pos", f.chain \cup exact) /\ UNCHANGED <<gl, cn>>
             ELSE IF alias # {} THEN
                LET c    == CHOOSE r \in alias : TRUE
                    more == {r \in an : r.o = c.d /\ r.t = f.qt}
                IN IF more # {} THEN Finish(f, "pos", f.chain \cup {c} \cup more) /\ UNCHANGED <<gl, cn>>
                   ELSE IF cn + 1 > MaxCname \/ f.d + 1 >= RecLimit
                        THEN Finish(f, "fail", {}) /\ UNCHANGED <<gl, cn>>
                        ELSE /\ stack' = Append(Pop, Goal(c.d, f.qt, f.for, f.d + 1, f.chain \cup {c}))
                             /\ cn' = cn + 1 /\ UNCHANGED <<zs, gl, out>>
             ELSE IF refNs # {} THEN
                LET c     == Longest({r.o : r \in refNs})
                    nsr   == {r \in refNs : r.o = c}
                    addrs == {AddrOf(g) : g \in {x \in an \cup ns \cup ad : IsAddr(x) /\ \E n \in nsr : n.d = x.o}}
                    names == {n.d : n \in nsr} \ {g.t : g \in {x \in gl : x.c = c}}
                IN IF {x \in addrs : ~DeniedContact(net, x)} # {}
                   THEN /\ zs' = Learn(c, addrs) /\ UNCHANGED <<stack, gl, cn, out>>
                   ELSE IF names = {} \/ f.d + 1 >= NsLimit
                        THEN Finish(f, "fail", {}) /\ UNCHANGED <<gl, cn>>
                        ELSE LET t == CHOOSE x \in names : TRUE IN
                             /\ stack' = Append(stack, Goal(t, "A", c, f.d + 1, {}))
                             /\ gl' = gl \cup {[c |-> c, t |-> t]}
                             /\ UNCHANGED <<zs, cn, out>>
             ELSE IF resp.rc = "nxdomain" \/ (resp.rc = "noerror" /\ resp.aa) THEN
                /\ Finish(f, "neg", f.chain \cup {r \in ns : r.t = "SOA"}) /\ UNCHANGED <<gl, cn>>
             ELSE \* refused, lame, or nothing usable left after filtering: ask somebody else
                UNCHANGED <<stack, zs, gl, cn, out>>
    /\ UNCHANGED <<net, q>>

\* nobody left to ask for the innermost goal
Exhausted ==
    /\ stack # <<>> /\ Cands(Top) = {}
    /\ Finish(Top, "fail", {})
    /\ UNCHANGED <<net, q, got, log, tried, gl, cn>>

AskSomebody == \E ip \in AddrsOf(net) : Ask(ip)

Next == AskSomebody \/ Exhausted

Spec == Init /\ [][Next]_vars
FairSpec == Spec /\ WF_vars(Next)

---------------------------------------------------------------------------
\* requirements (observable history only)

Done == out.kind # "none"

\* "records whose owner lies outside the zone the answering server was delegated are never
\*  returned, cached, or used as nameserver addresses"
C19_NoPoison ==
    /\ Done => PoisonIn(net, log, out.recs) = {}
    /\ \A g \in got : g.r \in GoodlyReceived(net, log)
    /\ \A k \in DOMAIN log : log[k].ip \in AddrKnownBy(net, log, k - 1)
\* "only addresses permitted by the configured server and answer filters are contacted or returned"
C19_Filters ==
    /\ \A k \in DOMAIN log : ~DeniedContact(net, log[k].ip)
    /\ Done => DeniedAnswers(net, out.recs) = {}
\* "ends with an answer or an error after a number of upstream queries bounded by the limits"
C19_Terminates == /\ Len(log) <= Bound(net, Lim) /\ Len(stack) <= NsLimit + RecLimit + 1
                  /\ AliasBudgetOk(log, 1)
C19_Ends == <>Done

TypeOK ==
    /\ out.kind \in {"none", "pos", "neg", "fail"}
    /\ cn \in 0..MaxCname
    /\ \A i \in DOMAIN stack : stack[i].d < NsLimit + RecLimit
=============================================================================
