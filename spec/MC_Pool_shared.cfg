\* concurrent identical queries: callers join at every point of the timeline or arrive after completion
SPECIFICATION FairSpec
CONSTANTS
  Configs <- MC_Shared
  NCallers = 2
  Gaps <- MC_Gaps
  Backoff0 = 20
  BackoffCap = 300
  DeadlineRule = "required"
  UdpRule = "required"
INVARIANTS TypeOK C18_Deadline C18_FindsHealthy C18_TcpRetry C18_UntrustedNxContinues C18_SharedOnce C18_MapCleaned
PROPERTY C18_EveryCallerServed
CHECK_DEADLOCK FALSE
