------------------------------ MODULE ZoneLock ------------------------------
(* C11, "... or stop serving later requests": the lock that guards the       *)
(* records of one zone.  A write-preferring reader / writer lock with the    *)
(* semantics of tokio::sync::RwLock: requests queue up in FIFO order, any    *)
(* number of readers may hold the lock together, a writer holds it alone,    *)
(* and a WAITING writer blocks every reader that arrives after it.           *)
(*                                                                           *)
(* Processes: Query (one read section), Update (one write section) and       *)
(* Transfer (a read section; iff NestedRead it asks for the read lock a      *)
(* second time while holding it).  One action per acquire (request + grant)  *)
(* and per release.                                                          *)
(*                                                                           *)
(* Design requirement: every request eventually completes -- for every       *)
(* interleaving, no deadlock.  With NestedRead = TRUE that is false: a       *)
(* writer that queues between the two acquisitions of a transfer waits for   *)
(* the outer read section to end, the inner acquisition waits behind the     *)
(* writer, and every later reader waits behind both: the zone is never       *)
(* served again (MC_ZoneLock_AsIs.cfg keeps that counterexample).            *)
EXTENDS Naturals, Sequences, FiniteSets, TLC

CONSTANTS Queries, Updates, Transfers,  \* disjoint sets of process identifiers
          NestedRead                    \* BOOLEAN: a transfer re-acquires the read lock inside its read section

Procs == Queries \cup Updates \cup Transfers

VARIABLES pc,       \* per process: "idle" | "wait" | "in" | "wait2" | "in2" | "done"
          readers,  \* number of read acquisitions currently granted
          writer,   \* TRUE iff a writer holds the lock
          queue     \* FIFO of waiting acquisitions: <<process, "r" | "w">>

lvars == <<pc, readers, writer, queue>>

Init == pc = [p \in Procs |-> "idle"] /\ readers = 0 /\ writer = FALSE /\ queue = <<>>

Mode(p) == IF p \in Updates THEN "w" ELSE "r"

\* a process asks for the lock: it joins the queue (FIFO fairness: never overtakes)
Request(p) ==
    /\ pc[p] = "idle"
    /\ queue' = Append(queue, <<p, Mode(p)>>)
    /\ pc' = [pc EXCEPT ![p] = "wait"]
    /\ UNCHANGED <<readers, writer>>

\* the acquisition at the head of the queue is granted when it is compatible with the holders
Grant ==
    /\ queue # <<>>
    /\ LET p == Head(queue)[1]
           m == Head(queue)[2]
       IN  /\ IF m = "r" THEN ~writer /\ readers' = readers + 1 /\ writer' = writer
                         ELSE ~writer /\ readers = 0 /\ writer' = TRUE /\ readers' = readers
           /\ pc' = [pc EXCEPT ![p] = IF pc[p] = "wait2" THEN "in2" ELSE "in"]
    /\ queue' = Tail(queue)

\* Transfer only, NestedRead: inside the read section the read lock is requested once more
RequestNested(p) ==
    /\ NestedRead /\ p \in Transfers /\ pc[p] = "in"
    /\ queue' = Append(queue, <<p, "r">>)
    /\ pc' = [pc EXCEPT ![p] = "wait2"]
    /\ UNCHANGED <<readers, writer>>

ReleaseNested(p) ==
    /\ pc[p] = "in2"
    /\ readers' = readers - 1
    /\ pc' = [pc EXCEPT ![p] = "out2"]
    /\ UNCHANGED <<writer, queue>>

\* end of the (outer) section; a transfer that nests has to have done so first
Release(p) ==
    /\ \/ pc[p] = "in" /\ ~(NestedRead /\ p \in Transfers)
       \/ pc[p] = "out2"
    /\ IF Mode(p) = "w" THEN writer' = FALSE /\ readers' = readers
                        ELSE readers' = readers - 1 /\ writer' = writer
    /\ pc' = [pc EXCEPT ![p] = "done"]
    /\ UNCHANGED queue

\* everything has been served (keeps TLC's deadlock check for the real thing)
AllDone == (\A p \in Procs : pc[p] = "done") /\ UNCHANGED lvars

Next ==
    \/ \E p \in Procs : Request(p)
    \/ Grant
    \/ \E p \in Procs : RequestNested(p)
    \/ \E p \in Procs : ReleaseNested(p)
    \/ \E p \in Procs : Release(p)
    \/ AllDone

Spec == Init /\ [][Next]_lvars
FairSpec == Spec /\ WF_lvars(Next)

TypeOK == /\ readers \in 0..(2 * Cardinality(Procs)) /\ writer \in BOOLEAN
          /\ \A p \in Procs : pc[p] \in {"idle", "wait", "in", "wait2", "in2", "out2", "done"}
\* the lock is a lock
C11_Exclusive == ~(writer /\ readers > 0)
\* every request eventually completes: queries, updates and transfers alike
C11_EveryRequestCompletes == \A p \in Procs : <>(pc[p] = "done")
=============================================================================
