\* lemmas Gen_Nsec relies on: Entails is monotone and never needs more than two records
\* (attacker responses with up to 3 records)
SPECIFICATION Spec
CONSTANTS
  Apex <- MC_Apex
  Universe <- Q_Universe6
  PlainKinds <- MC_PlainKinds
  WildKinds <- MC_WildKinds
  MaxOwners = 1
  QNames <- Q_QNames10
  QTypes <- Q_QTypes
  MaxProof = 3
  ParentSide <- MC_ParentSide
INVARIANTS TypeOK C08_Complete C08_Sound C08_Monotone C08_TwoSuffice
CHECK_DEADLOCK FALSE
