------------------------ MODULE Trace_TcpFraming ------------------------
(* Trace validation for C17 (obligation T: impl -> spec), monitor style.   *)
(* Events recorded from the real TcpStream over a scripted socket:         *)
(*   reset   in,out,close      start of a case                             *)
(*   enq                       the user queued the next outbound message   *)
(*   read    res=data got=[..] | pending | eof | zero                      *)
(*   write   res=data data=[..] | pending | zero                           *)
(*   flush   res=ok | pending                                              *)
(*   yield   kind=msg msg=[..] | pending | end | err                       *)
(*   quiesce                   scripts exhausted, stream polled to rest    *)
(* The monitor keeps only the observable history (bytes handed over,       *)
(* bytes accepted, items yielded) and evaluates the requirement-level      *)
(* operators of TcpFraming on it after every event.  It never looks at     *)
(* how the implementation sizes its socket calls, so a different correct   *)
(* implementation is accepted too.                                         *)
EXTENDS Naturals, Sequences, SequencesExt, TLC, Json, IOUtils, Framing

Rec == ndJsonDeserialize(IOEnv.TRACE)

VARIABLES l,        \* next line of Rec
          c,        \* current case: [in, out, close, id]
          queued, rcvd, sockOut, delivered, status, eofSeen,
          skipping, bad

tvars == <<l, c, queued, rcvd, sockOut, delivered, status, eofSeen, skipping, bad>>

NoCase == [in |-> <<>>, out |-> <<>>, close |-> 0 - 1, id |-> "none"]
InWire == FrameCat(c.in)
Closes == c.close >= 0
Whole  == WholeFrames(InWire, rcvd, 0)[1]

Init ==
    /\ l = 1 /\ c = NoCase /\ queued = 0 /\ rcvd = 0 /\ sockOut = <<>> /\ delivered = <<>>
    /\ status = "open" /\ eofSeen = FALSE /\ skipping = FALSE /\ bad = 0

e == Rec[l]
Has(f) == f \in DOMAIN e

Reset ==
    /\ e.ev = "reset"
    /\ c' = [in |-> e.in, out |-> e.out, close |-> e.close, id |-> e.case]
    /\ queued' = 0 /\ rcvd' = 0 /\ sockOut' = <<>> /\ delivered' = <<>>
    /\ status' = "open" /\ eofSeen' = FALSE /\ skipping' = FALSE /\ bad' = bad

Keep(vs) == UNCHANGED vs

\* the conditions under which event e is allowed, and its effect
Allowed ==
    \/ /\ e.ev = "enq" /\ queued < Len(c.out)
       /\ queued' = queued + 1
       /\ Keep(<<rcvd, sockOut, delivered, status, eofSeen>>)
    \/ /\ e.ev = "read" /\ e.res = "data" /\ status = "open"
       /\ e.got = SubSeq(InWire, rcvd + 1, rcvd + Len(e.got))     \* harness consistency
       /\ rcvd' = rcvd + Len(e.got)
       /\ Keep(<<queued, sockOut, delivered, status, eofSeen>>)
    \/ /\ e.ev = "read" /\ e.res = "eof" /\ Closes /\ rcvd = c.close
       /\ eofSeen' = TRUE
       /\ Keep(<<queued, rcvd, sockOut, delivered, status>>)
    \/ /\ e.ev = "read" /\ e.res \in {"pending", "zero"}
       /\ Keep(<<queued, rcvd, sockOut, delivered, status, eofSeen>>)
    \/ /\ e.ev = "write" /\ e.res = "data" /\ status = "open"
       \* C17_WireFormat: only ever the frames of the queued messages, in order
       /\ IsPrefix(sockOut \o e.data, FrameCat(SubSeq(c.out, 1, queued)))
       /\ sockOut' = sockOut \o e.data
       /\ Keep(<<queued, rcvd, delivered, status, eofSeen>>)
    \/ /\ e.ev = "write" /\ e.res \in {"pending", "zero"}
       /\ Keep(<<queued, rcvd, sockOut, delivered, status, eofSeen>>)
    \/ /\ e.ev = "flush"
       /\ Keep(<<queued, rcvd, sockOut, delivered, status, eofSeen>>)
    \/ /\ e.ev = "yield" /\ e.kind = "pending" /\ status = "open"
       /\ Keep(<<queued, rcvd, sockOut, delivered, status, eofSeen>>)
    \/ /\ e.ev = "yield" /\ e.kind = "msg" /\ status = "open"
       \* C17_DeliveredIsPrefixOfSent: whole, in order, only once its bytes have arrived
       /\ Len(delivered) < Len(c.in)
       /\ e.msg = c.in[Len(delivered) + 1]
       /\ Len(delivered) + 1 <= Whole
       /\ delivered' = Append(delivered, e.msg)
       /\ Keep(<<queued, rcvd, sockOut, status, eofSeen>>)
    \/ /\ e.ev = "yield" /\ e.kind = "end" /\ status = "open"
       \* C17_CleanEof
       /\ eofSeen /\ AtBoundary(InWire, rcvd) /\ Len(delivered) = Whole
       /\ status' = "ended"
       /\ Keep(<<queued, rcvd, sockOut, delivered, eofSeen>>)
    \/ /\ e.ev = "yield" /\ e.kind = "err" /\ status = "open"
       \* C17_ErrorInside
       /\ \/ ZeroFrameAt(InWire, rcvd)
          \/ (eofSeen /\ ~AtBoundary(InWire, rcvd))
       /\ status' = "error"
       /\ Keep(<<queued, rcvd, sockOut, delivered, eofSeen>>)
    \/ /\ e.ev = "quiesce"
       \* at rest: nothing withheld, nothing lost, everything queued is on the wire
       /\ Len(delivered) = Whole
       /\ status = "open" => /\ rcvd = (IF Closes THEN c.close ELSE Len(InWire))
                             /\ ~eofSeen
                             /\ sockOut = FrameCat(SubSeq(c.out, 1, queued))
       /\ Keep(<<queued, rcvd, sockOut, delivered, status, eofSeen>>)

Matched == ~skipping /\ e.ev # "reset" /\ Allowed /\ UNCHANGED <<c, skipping, bad>>

Reject ==
    /\ ~skipping /\ e.ev # "reset" /\ ~ENABLED Allowed
    /\ PrintT(<<"MISMATCH", ToJson([case |-> c.id, line |-> l, event |-> e,
                 state |-> [queued |-> queued, rcvd |-> rcvd, outLen |-> Len(sockOut),
                            delivered |-> Len(delivered), status |-> status,
                            eofSeen |-> eofSeen, whole |-> Whole]])>>)
    /\ skipping' = TRUE /\ bad' = bad + 1
    /\ UNCHANGED <<c, queued, rcvd, sockOut, delivered, status, eofSeen>>

Skip == skipping /\ e.ev # "reset"
        /\ UNCHANGED <<c, queued, rcvd, sockOut, delivered, status, eofSeen, skipping, bad>>

Next == l <= Len(Rec) /\ l' = l + 1 /\ (Reset \/ Matched \/ Reject \/ Skip)

TraceSpec == Init /\ [][Next]_tvars

Consumed ==
    LET d == TLCGet("stats").diameter IN
    IF d - 1 = Len(Rec) THEN PrintT(<<"TRACE-CONSUMED", Len(Rec)>>)
    ELSE PrintT(<<"TRACE-STUCK", d, Len(Rec)>>) /\ FALSE
=============================================================================
