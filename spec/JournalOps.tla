----------------------------- MODULE JournalOps -----------------------------
(* Property C14, the requirement on recovery as a pure operator.             *)
(* Constant-free: shared by Journal (machine + C14_* invariants) and         *)
(* Trace_Journal (monitor).                                                  *)
(*                                                                           *)
(* A history is summarised by its boundaries Bs: Bs[1] is the zone the       *)
(* server started with, Bs[j+1] the zone after the j-th UPDATE message was   *)
(* answered; each boundary records `rows`, the number of journal rows that   *)
(* existed at that moment.  Rows are only ever appended, so "the process     *)
(* stopped when the journal had k rows" identifies the crash point.          *)
EXTENDS Naturals, Sequences, FiniteSets, Serial

\* index of the last boundary that was reached before the journal had more than k rows
\* (0: the process stopped while it was still writing the initial dump)
LastReached(Bs, k) ==
    LET idx == {j \in 1..Len(Bs) : Bs[j].rows <= k}
    IN  IF idx = {} THEN 0 ELSE CHOOSE j \in idx : \A q \in idx : q <= j

\* the boundaries recovery may come back to: the last one reached (every update answered up to
\* there must be present) or, if the process stopped while working on the next message, the
\* one after it (the message had not been answered; it may be applied completely or not at all)
Candidates(Bs, k) ==
    LET i == LastReached(Bs, k) IN
    IF i = 0 THEN {1}
    ELSE {i} \cup (IF i < Len(Bs) /\ k > Bs[i].rows THEN {i + 1} ELSE {})

\* R = [rrs, ser] is boundary b: the same zone, SOA serial included ("reconstructs the zone as of a
\* boundary"; a recovery that moved the serial would also make later updates answer with other
\* serials than an uninterrupted server)
\* (b.sg: the server signs the zone itself.  Start-up then signs the recovered zone once more, which
\* moves the serial by one and is not journaled: the serial may be the boundary's or one ahead.)
IsBoundary(R, b) == R.rrs = b.rrs /\ (R.ser = b.ser \/ (b.sg /\ R.ser = SerialInc(b.ser)))

\* "The SOA serial after recovery is never lower than any serial the server had answered with":
\* the serials a client can have seen are those of the boundaries reached; in a server whose
\* serial only advances the last one dominates, and it is the one compared (comparing with
\* serials from long ago is meaningless under RFC 1982 once the serial has moved 2^31).
SerialNotBehind(Bs, k, R) ==
    LET i == LastReached(Bs, k) IN i = 0 \/ SerialGE(R.ser, Bs[i].ser)

\* C14 for one crash point: recovery succeeded, gave a whole-message boundary that contains
\* every answered update, and the serial did not go back
RecoveryOK(Bs, k, ok, R) ==
    /\ ok
    /\ \E c \in Candidates(Bs, k) : IsBoundary(R, Bs[c])
    /\ SerialNotBehind(Bs, k, R)

\* where the crash point lies (for reports)
Where(Bs, k) ==
    LET i == LastReached(Bs, k) IN
    IF i = 0 THEN "initial-dump"
    ELSE IF k = Bs[i].rows THEN "between-messages"
    ELSE "inside-message"
=============================================================================
