----------------------------- MODULE AccessOps -----------------------------
(* C19 -- the address filters ("only addresses permitted by the configured   *)
(* server and answer filters are contacted or returned").  Constant-free.    *)
(*                                                                           *)
(* hickory-proto: AccessControlSet / AccessControlSetBuilder                 *)
(* (crates/proto/src/access_control.rs), written from its documentation:     *)
(*   - an address is denied iff it lies in a network of the deny list and in *)
(*     no network of the allow list (the allow list is an exception list for *)
(*     the deny list; with an empty deny list nothing is denied);            *)
(*   - an IPv4-mapped IPv6 address ::ffff:a.b.c.d names the IPv4 node        *)
(*     a.b.c.d and is matched as that IPv4 address; no other address is      *)
(*     rewritten (in particular not the IPv4-compatible form ::a.b.c.d, which *)
(*     contains the IPv6 loopback ::1 and the unspecified address ::).       *)
(* An address is [v |-> 4 | 6, o |-> octets] (4 or 16 of them), a network    *)
(* [v, o, len] with a prefix length in bits.                                 *)
EXTENDS Naturals, Sequences, FiniteSets

P2 == <<1, 2, 4, 8, 16, 32, 64, 128, 256>>
TopBits(x, r) == x \div P2[(8 - r) + 1]           \* the r most significant bits of an octet

V4(a, b, c, d) == [v |-> 4, o |-> <<a, b, c, d>>]
V6(o) == [v |-> 6, o |-> o]
Pfx(addr, len) == [v |-> addr.v, o |-> addr.o, len |-> len]

Covers(n, a) ==
    /\ n.v = a.v
    /\ LET full == n.len \div 8
           rem  == n.len % 8
       IN /\ \A i \in 1..full : n.o[i] = a.o[i]
          /\ rem = 0 \/ TopBits(n.o[full + 1], rem) = TopBits(a.o[full + 1], rem)

IsMapped(a) == a.v = 6 /\ (\A i \in 1..10 : a.o[i] = 0) /\ a.o[11] = 255 /\ a.o[12] = 255
Canon(a) == IF IsMapped(a) THEN [v |-> 4, o |-> SubSeq(a.o, 13, 16)] ELSE a

\* acs = [allow |-> set of networks, deny |-> set of networks]
Denied(acs, a) ==
    LET c == Canon(a) IN
    /\ \E n \in acs.deny : Covers(n, c)
    /\ ~\E n \in acs.allow : Covers(n, c)

NoFilter == [allow |-> {}, deny |-> {}]
=============================================================================
