------------------------- MODULE Gen_AuthServer -------------------------
(* Case generator for C10 (obligation R: spec -> impl).  TLC enumerates    *)
(* every zone of at most MaxNodes nodes over a small name universe and     *)
(* prints, per zone, the table  (qname, qtypes) -> expectation  computed   *)
(* by AuthAnswer!Answer (plus, for attribution of mismatches only, what    *)
(* the listed deviations of AuthAsIs predict).  One REPLAY line per zone.  *)
(*                                                                         *)
(* Names (single-octet labels): apex "z."; in-zone labels a b c n *;       *)
(* "o." is outside the zone.  A zone grows one node at a time (state =     *)
(* set of node indices, added in increasing order) so that TLC's workers   *)
(* share the enumeration.                                                  *)
(*                                                                         *)
(* Not generated, because the RFCs leave their meaning open (DESIGN C10):  *)
(* NS at a wildcard owner (RFC 4592 4.2), a wildcard CNAME pointing at     *)
(* itself (4.4), owners below an interior "*" label, CNAME at the apex,    *)
(* CNAME next to other data.                                               *)
EXTENDS AuthAsIs, AuthZones, Naturals, TLC, Json

CONSTANTS MaxNodes,      \* nodes per zone besides the apex
          OwnerSet,      \* owner names, relative to the apex
          HostKinds,     \* subset of {"A", "TXT", "MULTI"}
          DelegKinds,    \* subset of {"NS", "NSG", "NSD"}
          TargetSet,     \* CNAME targets, absolute names
          QRelSet,       \* query names relative to the apex (the owners are added)
          ActiveDev      \* listed deviations (AuthAsIs), for attributing mismatches only
VARIABLE nodes

G_Owners  == {<<la>>, <<lb>>, <<STAR>>, <<la, la>>, <<lb, la>>, <<STAR, la>>, <<la, lb>>, <<STAR, lb>>,
              <<la, la, la>>, <<STAR, la, la>>, <<la, lb, la>>}
G_Targets == {Abs(<<la>>), Abs(<<lb>>), Abs(<<lc>>), Abs(<<la, la>>), Abs(<<lc, la>>), Abs(<<la, lb>>), OutTgt}
G_QRel    == {<<>>, <<lc>>, <<lc, la>>, <<la, STAR>>, <<lc, lb, la>>, <<ln, la>>}
QTypes    == {"A", "AAAA", "MX", "NS", "CNAME", "SOA", "DS", "TXT", "ANY"}
\* smaller universes: quick tier (two nodes), and three-node zones in the thorough tier
Q_Owners  == {<<la>>, <<STAR>>, <<la, la>>, <<lb, la>>, <<STAR, la>>, <<la, la, la>>}
Q_Targets == {Abs(<<la>>), Abs(<<lc>>), Abs(<<la, la>>), Abs(<<lc, la>>), OutTgt}
T3_Owners == {<<la>>, <<lb>>, <<STAR>>, <<la, la>>, <<STAR, la>>, <<la, la, la>>}
T3_Targets == {Abs(<<la>>), Abs(<<la, la>>), Abs(<<lc, la>>), OutTgt}

AllNodes == NodesOver(OwnerSet, HostKinds, DelegKinds, TargetSet)
NodeSeq == SetToSeq(AllNodes)

ZoneOf(S) == ZoneOfNodes({NodeSeq[i] : i \in S})
DistinctOwners(S) == \A i, j \in S : i # j => NodeSeq[i].o # NodeSeq[j].o

MaxOf(S) == IF S = {} THEN 0 ELSE CHOOSE i \in S : \A j \in S : j <= i

Init == nodes = {}
AddNode ==
    /\ Cardinality(nodes) < MaxNodes
    /\ \E i \in (MaxOf(nodes) + 1)..Len(NodeSeq) :
          /\ DistinctOwners(nodes \cup {i})
          /\ nodes' = nodes \cup {i}
Next == AddNode
GSpec == Init /\ [][Next]_nodes

QNames == {Abs(w) : w \in OwnerSet \cup QRelSet} \cup {OutName}

\* e: what the specification requires; x: what the listed deviations predict, when that is
\* different (else {}); m: the deviations that make the difference
Entry(V, qn, ty) ==
    LET e == Answer(V, qn, ty)
        x == IF ActiveDev = {} THEN e ELSE AnswerD(V, qn, ty, ActiveDev)
    IN  IF x = e THEN [e |-> e, x |-> {}, m |-> {}]
        ELSE [e |-> e, x |-> x, m |-> BlamedFor(V, qn, ty, ActiveDev, x)]

Table(V) ==
    UNION {LET f == [ty \in QTypes |-> Entry(V, qn, ty)] IN
           {[n |-> qn, ts |-> {ty \in QTypes : f[ty] = y}, e |-> y.e, x |-> y.x, m |-> y.m] : y \in {f[ty] : ty \in QTypes}}
           : qn \in QNames}

Case == LET Z == ZoneOf(nodes) IN
        [id |-> nodes, apex |-> Apex, zone |-> Z, tab |-> Table(View(Z, Apex))]

Emit == PrintT(<<"REPLAY", ToJson(Case)>>)
=============================================================================
