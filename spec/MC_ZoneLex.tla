---------------------------- MODULE MC_ZoneLex ----------------------------
(* Exhaustive check of the lexical reading (C20, obligation D): the ZoneLex  *)
(* machine stepped one character at a time over EVERY string up to MaxLen    *)
(* over an alphabet with one representative per character class.            *)
(*  C20_LexTotal      every character is consumed by exactly one step and    *)
(*                    the machine stops after |text|+1 steps with ok, err or *)
(*                    unspec -- whatever the text (totality of the reference *)
(*                    reading itself);                                       *)
(*  C20_LexLayout     the reading does not depend on layout: exchanging      *)
(*                    blanks and tabs between items, dropping the content of *)
(*                    comments, writing LF for CRLF and writing a blank for  *)
(*                    a line break inside parentheses leaves the logical     *)
(*                    lines (and an "err" verdict) unchanged.                *)
EXTENDS ZoneLex, TLC

CONSTANTS Alphabet, MaxLen
VARIABLES text, pos, L, alt
lvars == <<text, pos, L, alt>>

LInit == /\ text \in UNION {[1..n -> Alphabet] : n \in 0..MaxLen}
         /\ pos = 1 /\ L = LexInit /\ alt = <<>>

BetweenMap(c, par) ==
    CASE c = " "  -> <<"\t">>
      [] c = "\t" -> <<" ">>
      [] c = "\n" -> IF par THEN <<" ">> ELSE <<c>>
      [] c = "\r" -> <<>>
      [] OTHER    -> <<c>>
\* the layout rewriting of character c consumed in the state S
Rewrite(S, c) ==
    CASE S.m \in {"bol", "gap", "aq", "ap"} -> BetweenMap(c, S.par)
      [] S.m = "word"    -> IF c \in Blanks \cup {"\n", "\r"} THEN BetweenMap(c, S.par) ELSE <<c>>
      [] S.m = "comment" -> IF c = "\n" THEN <<c>> ELSE <<>>
      [] OTHER           -> <<c>>

Advance == /\ pos <= Len(text) /\ L.st = "run"
           /\ L' = LexChar(L, text[pos]) /\ pos' = pos + 1
           /\ alt' = alt \o Rewrite(L, text[pos]) /\ UNCHANGED text

StepBetween == L.m \in {"bol", "gap", "aq", "ap"} /\ Advance
StepWord    == L.m = "word" /\ Advance
StepEscape  == L.m \in {"wesc", "qesc"} /\ Advance
StepQuote   == L.m = "quote" /\ Advance
StepComment == L.m = "comment" /\ Advance
StepCr      == L.m = "cr" /\ Advance
AtEnd       == pos = Len(text) + 1 /\ L.st = "run" /\ L' = LexEof(L) /\ pos' = pos + 1 /\ UNCHANGED <<text, alt>>

LNext == StepBetween \/ StepWord \/ StepEscape \/ StepQuote \/ StepComment \/ StepCr \/ AtEnd
LSpec == LInit /\ [][LNext]_lvars /\ WF_lvars(LNext)

Stopped == L.st # "run"

C20_LexTotal ==
    /\ pos <= Len(text) + 2
    /\ L.n <= pos - 1
    /\ L.st \in {"run", "ok", "err", "unspec"}
    /\ (L.st = "run" => L.n = pos - 1)
    /\ (L.st = "ok" => pos = Len(text) + 2)
C20_LexTerminates == <>Stopped

Same(a, b) == a.st = b.st /\ a.lines = b.lines
C20_LexLayout ==
    /\ (L.st = "ok"  => Same(LexChars(alt), L))
    /\ (L.st = "err" /\ pos = Len(text) + 2 => LexChars(alt).st = "err")

\* the step machine and the operator used everywhere else are the same reading
C20_LexAgree == Stopped => (L.st = LexChars(text).st /\ L.lines = LexChars(text).lines)

MC_Alphabet == {"a", "1", " ", "\t", "\n", "\r", ";", "(", ")", "\"", "\\", "$", "@", ".", "\f"}
=============================================================================
