\* stand-alone example configuration (the check generates its own with the listed deviations)
SPECIFICATION TraceSpec
CONSTANT ActiveDev <- AllDeviations
POSTCONDITION Consumed
CHECK_DEADLOCK FALSE
