------------------------- MODULE Gen_TcpFraming -------------------------
(* Behaviour generator for TcpFraming (C17, obligation R: spec -> impl).   *)
(* Walks the machine with a history variable `log` recording every         *)
(* environment choice; every completed behaviour is printed as one         *)
(* REPLAY line carrying the schedule and the outcome the specification     *)
(* prescribes (delivered messages, final status, bytes accepted).          *)
EXTENDS TcpFraming, TLC, Json

CONSTANTS InLens, OutLens, MaxPending, MaxSplit
VARIABLES log, npend, nsplit

Mk(i, len) == [j \in 1..len |-> (i * 37 + j * 11) % 251]
MsgsOf(lens) == [i \in 1..Len(lens) |-> Mk(i, lens[i])]
G_InMsgs  == MsgsOf(InLens)
G_OutMsgs == MsgsOf(OutLens)
G_CloseSet == {Never} \cup (0..Len(FrameCat(G_InMsgs)))

E(k, n) == [k |-> k, n |-> n]

GInit == Init /\ log = <<>> /\ npend = 0 /\ nsplit = 0

Rec(k, n) == log' = Append(log, E(k, n)) /\ UNCHANGED <<npend, nsplit>>
RecP(k)   == npend < MaxPending /\ log' = Append(log, E(k, 0)) /\ npend' = npend + 1 /\ nsplit' = nsplit
\* a data transfer of n bytes where hi were possible: partial transfers are budgeted (MaxSplit per
\* behaviour) so that the path space stays finite and small for long messages
RecN(k, n, hi) == /\ log' = Append(log, E(k, n)) /\ npend' = npend
                  /\ IF n = hi THEN nsplit' = nsplit ELSE nsplit < MaxSplit /\ nsplit' = nsplit + 1
Quiet     == UNCHANGED <<log, npend, nsplit>>

\* Enqueue as early as possible or right before any poll: the generator does not need every
\* interleaving of enqueue with socket events, only "before poll k" for every k
GNext ==
    /\ \/ Enqueue /\ Rec("enq", 0)
       \/ Poll /\ Rec("poll", 0)
       \/ PopOutbound /\ Quiet
       \/ OutboundEmpty /\ Quiet
       \/ WritePending /\ RecP("wp")
       \/ FlushOk /\ Rec("f", 0)
       \/ FlushPending /\ RecP("fp")
       \/ (pc = "W" /\ wph = "len"  /\ \E n \in Clamp(ChunkSet, 2 - wpos + Len(CurOut)) : WriteVectored(n) /\ RecN("w", n, 2 - wpos + Len(CurOut)))
       \/ (pc = "W" /\ wph = "body" /\ \E n \in Clamp(ChunkSet, Len(CurOut) - wpos) : WriteBody(n) /\ RecN("w", n, Len(CurOut) - wpos))
       \/ ReadPending /\ RecP("rp")
       \/ ReadEof /\ Quiet
       \/ ReadZeroFrame /\ Quiet
       \/ (pc = "R" /\ rph = "len"  /\ \E n \in Clamp(ChunkSet, Min2(2 - rpos, Avail)) : ReadLen(n) /\ RecN("r", n, Min2(2 - rpos, Avail)))
       \/ (pc = "R" /\ rph = "body" /\ Need > 0 /\ \E n \in Clamp(ChunkSet, Min2(Need - rpos, Avail)) : ReadBody(n) /\ RecN("r", n, Min2(Need - rpos, Avail)))

GSpec == GInit /\ [][GNext]_<<vars, log, npend, nsplit>>

\* a behaviour is complete when the stream ended, or everything has been transferred and the
\* stream is parked on a would-block with nothing left to do
Complete ==
    /\ pc = "idle"
    /\ \/ status # "open"
       \/ /\ queued = Len(OutMsgs) /\ sockOut = OutWire /\ wph = "none"
          /\ rcvd = InLimit /\ ~Closes /\ lastYield = "pending"

Case == [in |-> InMsgs, out |-> OutMsgs, close |-> closeAt, log |-> log,
         exp |-> [delivered |-> delivered, status |-> status, sockOut |-> sockOut]]

Emit == Complete => PrintT(<<"REPLAY", ToJson(Case)>>)

\* do not extend completed behaviours (ACTION_CONSTRAINT: evaluated on the unprimed state)
Bound == ~Complete
=============================================================================
