----------------------------- MODULE Trace_Pool -----------------------------
(* Trace validation for C18 (obligation T: impl -> spec), monitor style.     *)
(* Events recorded from the real NameServerPool over a scripted connection   *)
(* provider on a virtual clock (times in ms since the start of the case):    *)
(*   reset   case cfg calls     new pool with this configuration             *)
(*   call    c q rd cd t        caller c asks for question q with header     *)
(*                              bits RD, CD                                  *)
(*   att     s p n o q t        server s receives, over p, its n-th request  *)
(*                              on that transport; it carries the id of the  *)
(*                              caller it was made for (the origin o).       *)
(*                              Socket level only: p = "conn" is the n-th    *)
(*                              TCP connection attempt to s, `limit` the     *)
(*                              time the runtime was given for it            *)
(*   end     s p n t res        the scripted reply to that request was       *)
(*                              delivered (never logged for a request the    *)
(*                              pool abandoned)                              *)
(*   done    c t class from err caller c received its result                 *)
(*   cancel  c t                caller c walked away (dropped its future)    *)
(*   quiesce t                  every caller task has finished               *)
(* The monitor keeps the observable history only and judges every event     *)
(* with the operators of PoolOps -- the same ones the machine Pool is        *)
(* checked against.  It never looks at order, parallelism or back-off, so    *)
(* any pool that meets the property statement is accepted.                   *)
(*                                                                           *)
(* Which exchange a caller belongs to: a call that finds its query in flight *)
(* joins that exchange; otherwise it creates one.  (A call made at the very  *)
(* millisecond an exchange for the same query completed could be either; it  *)
(* is marked ambiguous and only its deadline is judged.  The driver's        *)
(* arrival times avoid this.)                                                *)
EXTENDS PoolOps, TLC, Json, IOUtils

Rec == ndJsonDeserialize(IOEnv.TRACE)

VARIABLES l, caseId, cfg, calls, A, cs, lks, skipping

tvars == <<l, caseId, cfg, calls, A, cs, lks, skipping>>
state == <<caseId, cfg, calls, A, cs, lks>>

NoCfg  == [T |-> 0, ta |-> 0, nconc |-> 1, strategy |-> "user", servers |-> <<>>]
NoDone == [t |-> 0, class |-> "", from |-> 0, err |-> ""]
Empty  == [x \in {} |-> 0]
NoLk   == [active |-> FALSE, origin |-> 0, start |-> 0, lastDone |-> 0 - 1]

Init ==
    /\ l = 1 /\ caseId = "none" /\ cfg = NoCfg /\ calls = <<>> /\ A = <<>> /\ cs = Empty /\ lks = Empty
    /\ skipping = FALSE

e == Rec[l]
Put(f, k, v) == [x \in DOMAIN f \cup {k} |-> IF x = k THEN v ELSE f[x]]
LkOf(q) == IF q \in DOMAIN lks THEN lks[q] ELSE NoLk

Reset ==
    /\ e.ev = "reset"
    /\ caseId' = e.case /\ cfg' = e.cfg /\ calls' = e.calls
    /\ A' = <<>> /\ cs' = Empty /\ lks' = Empty /\ skipping' = FALSE

---------------------------------------------------------------------------
\* call

CallProblems == IF e.c \in DOMAIN cs THEN {"harness:duplicate-call"} ELSE {}

CallUpdate ==
    LET lk == LkOf(QueryKey(e)) IN
    IF lk.active
    THEN /\ cs' = Put(cs, e.c, [q |-> e.q, rd |-> e.rd, cd |-> e.cd, t |-> e.t, lk |-> lk.origin, ls |-> lk.start, done |-> FALSE, d |-> NoDone,
                                 mode |-> IF cs[lk.origin].mode = "ambiguous" THEN "ambiguous" ELSE "joiner"])
         /\ lks' = lks
    ELSE /\ cs' = Put(cs, e.c, [q |-> e.q, rd |-> e.rd, cd |-> e.cd, t |-> e.t, lk |-> e.c, ls |-> e.t, done |-> FALSE, d |-> NoDone,
                                 mode |-> IF lk.lastDone = e.t THEN "ambiguous" ELSE "creator"])
         /\ lks' = Put(lks, QueryKey(e), [active |-> TRUE, origin |-> e.c, start |-> e.t, lastDone |-> lk.lastDone])

---------------------------------------------------------------------------
\* att: a request reaches a server

AttProblems ==
    IF ~(e.s \in Servers(cfg)) THEN {"harness:no-such-server"}
    ELSE IF ~HasProto(cfg.servers[e.s], e.p) THEN {"harness:transport-not-configured"}
    ELSE IF e.n # CountAt(A, e.s, e.p) + 1 THEN {"harness:request-numbering"}
    ELSE IF ~(e.o \in DOMAIN cs) THEN {"harness:unknown-origin"}
    \* C18_SharedOnce: a caller that found its query in flight makes no request of its own
    ELSE IF cs[e.o].mode = "joiner" THEN {"exchange-not-shared"}
    \* the request that goes upstream is the caller's own query, header bits included
    ELSE IF ~SameQuery(cs[e.o], e) THEN {"request-for-another-query"}
    \* a TCP connection attempt (socket level: the runtime is told how long it may take) is bounded by
    \* the configured connect timeout, nothing else
    ELSE IF e.p = "conn" /\ e.limit # cfg.ct THEN {"connect-timeout-not-honoured"}
    \* bounded work: a reply that is dropped (truncated, wrong letter case) moves the server to TCP, it is not
    \* a reason to ask the same question the same way again and again
    ELSE IF e.p # "conn" /\ RequestsTo(A, e.o, e.s) + 1 > MaxRequestsPerServer THEN {"requests-per-server-exceed-bound"}
    ELSE {}

\* for the report: did the caller that created the exchange walk away while others kept waiting?
AttDetail ==
    IF e.o \in DOMAIN cs /\ cs[e.o].lk \in DOMAIN cs
    THEN [cause |-> IF cs[cs[e.o].lk].d.class = "cancelled" THEN "creator-walked-away-while-others-wait" ELSE "other",
          origin |-> cs[e.o].lk]
    ELSE [cause |-> "none"]

AttUpdate ==
    A' = Append(A, [s |-> e.s, p |-> e.p, n |-> e.n, o |-> e.o, q |-> e.q, st |-> e.t, en |-> 0, res |-> ""])

---------------------------------------------------------------------------
\* end: the scripted reply was delivered (consistency of the harness with the script)

Open == {i \in DOMAIN A : A[i].s = e.s /\ A[i].p = e.p /\ A[i].n = e.n /\ A[i].res = ""}

EndProblems ==
    IF Open = {} THEN {"harness:reply-without-request"}
    ELSE LET a == A[CHOOSE i \in Open : TRUE]
             b == BehAt(Script(cfg.servers[a.s], a.p), a.n)
             \* is anybody still waiting for the exchange this request was made for?  A request whose
             \* exchange was abandoned is the pool's to drop; should it be polled again later (a stale
             \* entry of the in-flight table) its reply is seen late, which is recorded and judged at
             \* the `done` of whoever receives it (answer-without-exchange, healthy-server-not-used ...)
             alive == LkOf(QueryKey(cs[a.o])).active /\ LkOf(QueryKey(cs[a.o])).origin = cs[a.o].lk
         IN IF e.res # KindOf(cfg, a.p, b) THEN {"harness:reply-not-as-scripted"}
            ELSE IF alive /\ e.t # a.st + DurOf(cfg, a.p, b) THEN {"harness:reply-not-as-scripted"}
            ELSE IF ~alive /\ e.t < a.st + DurOf(cfg, a.p, b) THEN {"harness:reply-not-as-scripted"}
            ELSE {}

EndUpdate ==
    LET i == CHOOSE x \in Open : TRUE IN
    A' = [A EXCEPT ![i] = [@ EXCEPT !.en = e.t, !.res = e.res]]

---------------------------------------------------------------------------
\* done: a caller received its result -- the requirements are judged here

D == [t |-> e.t, class |-> e.class, from |-> e.from, err |-> e.err]
Me == cs[e.c]
MyLk == [origin |-> Me.lk, start |-> Me.ls]

DoneProblems ==
    IF e.class = "PANIC" THEN {"panic"}
    ELSE IF ~(e.c \in DOMAIN cs) \/ cs[e.c].done THEN {"harness:done-without-call"}
    ELSE IF Me.mode = "ambiguous"
         THEN (IF e.t > Me.t + cfg.T \/ e.class = "hung" THEN {"deadline-exceeded"} ELSE {})
         ELSE Violations(cfg, A, MyLk, Me.t, D)
              \* "... and all receive its result"
              \cup (IF \E b \in DOMAIN cs : b # e.c /\ cs[b].lk = Me.lk /\ cs[b].done
                                            /\ cs[b].d.class # "cancelled" /\ cs[b].d # D
                    THEN {"shared-result-differs"} ELSE {})
              \* "concurrent IDENTICAL queries share ...": the reply a caller gets was made for its own query
              \* (servers echo RD and CD), not for one that differs from it in some component
              \cup (IF e.class = "answer" /\ (e.erd # Me.rd \/ e.ecd # Me.cd)
                    THEN {"distinct-queries-shared-one-exchange"} ELSE {})

DoneUpdate ==
    /\ cs' = [cs EXCEPT ![e.c] = [@ EXCEPT !.done = TRUE, !.d = D]]
    /\ lks' = IF LkOf(QueryKey(Me)).active /\ LkOf(QueryKey(Me)).origin = Me.lk
              THEN [lks EXCEPT ![QueryKey(Me)] = [@ EXCEPT !.active = FALSE, !.lastDone = e.t]]
              ELSE lks

DoneDetail ==
    IF e.c \in DOMAIN cs
    THEN LET dl == Me.ls + cfg.T
             pend == Pending(cfg, A, Me.lk, e.t, dl)
         IN [deadline |-> dl, called |-> Me.t, mode |-> Me.mode, origin |-> Me.lk,
             cause |-> DeadlineCause(A, MyLk, dl, D),
             owed |-> {[s |-> s, why |-> OwedKind(A, Me.lk, s), by |-> AnswerBy(cfg, A, Me.lk, s, e.t),
                        udpOnly |-> Protos(cfg.servers[s]) = {"udp"}] : s \in pend},
             truncSeen |-> EndedWith(A, Me.lk, "trunc") # {},
             attempts |-> {A[x] : x \in {y \in DOMAIN A : A[y].o = Me.lk}}]
    ELSE [cause |-> "none"]

---------------------------------------------------------------------------
\* cancel: a caller walks away.  The exchange goes on as long as somebody else waits for it
\* (and later identical queries still share it); it is abandoned with its last caller.

CancelProblems == IF ~(e.c \in DOMAIN cs) \/ cs[e.c].done THEN {"harness:cancel-without-call"} ELSE {}

CancelUpdate ==
    LET others == {b \in DOMAIN cs : b # e.c /\ cs[b].lk = Me.lk /\ ~cs[b].done} IN
    /\ cs' = [cs EXCEPT ![e.c] = [@ EXCEPT !.done = TRUE, !.d = [t |-> e.t, class |-> "cancelled", from |-> 0, err |-> ""]]]
    /\ lks' = IF LkOf(QueryKey(Me)).active /\ LkOf(QueryKey(Me)).origin = Me.lk /\ others = {}
              THEN [lks EXCEPT ![QueryKey(Me)] = [@ EXCEPT !.active = FALSE, !.lastDone = e.t]]
              ELSE lks

---------------------------------------------------------------------------
\* quiesce: nobody is left waiting

QuiesceProblems ==
    IF \E c \in 1..Len(calls) : ~(c \in DOMAIN cs) \/ ~cs[c].done THEN {"caller-never-completed"} ELSE {}

---------------------------------------------------------------------------

Problems ==
    CASE e.ev = "call"    -> CallProblems
      [] e.ev = "att"     -> AttProblems
      [] e.ev = "end"     -> EndProblems
      [] e.ev = "done"    -> DoneProblems
      [] e.ev = "cancel"  -> CancelProblems
      [] e.ev = "quiesce" -> QuiesceProblems
      [] OTHER            -> {"harness:unknown-event"}

Update ==
    CASE e.ev = "call"    -> CallUpdate /\ UNCHANGED <<caseId, cfg, calls, A>>
      [] e.ev = "att"     -> AttUpdate /\ UNCHANGED <<caseId, cfg, calls, cs, lks>>
      [] e.ev = "end"     -> EndUpdate /\ UNCHANGED <<caseId, cfg, calls, cs, lks>>
      [] e.ev = "done"    -> DoneUpdate /\ UNCHANGED <<caseId, cfg, calls, A>>
      [] e.ev = "cancel"  -> CancelUpdate /\ UNCHANGED <<caseId, cfg, calls, A>>
      [] OTHER            -> UNCHANGED state

Matched == ~skipping /\ e.ev # "reset" /\ Problems = {} /\ Update /\ UNCHANGED skipping

Reject ==
    /\ ~skipping /\ e.ev # "reset" /\ Problems # {}
    /\ PrintT(<<"MISMATCH", ToJson([case |-> caseId, line |-> l, event |-> e, problems |-> Problems,
                                     detail |-> IF e.ev = "done" THEN DoneDetail
                                                ELSE IF e.ev = "att" THEN AttDetail ELSE [cause |-> "none"],
                                     cfg |-> cfg, calls |-> calls])>>)
    /\ skipping' = TRUE /\ UNCHANGED state

Skip == skipping /\ e.ev # "reset" /\ UNCHANGED <<state, skipping>>

Next == l <= Len(Rec) /\ l' = l + 1 /\ (Reset \/ Matched \/ Reject \/ Skip)

TraceSpec == Init /\ [][Next]_tvars

Consumed ==
    LET d == TLCGet("stats").diameter IN
    IF d - 1 = Len(Rec) THEN PrintT(<<"TRACE-CONSUMED", Len(Rec)>>)
    ELSE PrintT(<<"TRACE-STUCK", d, Len(Rec)>>) /\ FALSE
=============================================================================
