------------------------------- MODULE Encoder -------------------------------
(* C03 -- size-limited encoding truncates cleanly and never exceeds the limit. *)
(*                                                                             *)
(* The message encoder (crates/proto/src/op/message.rs `emit_message_parts`,   *)
(* crates/proto/src/serialize/binary/encoder.rs `emit_iter` / `Rollback`) as a *)
(* machine over abstract record sizes.  One action per step of the code:       *)
(* PlaceHeader, EmitQuestion, per record Begin (take snapshot) / WriteOk /     *)
(* Overflow(k) (k bytes of the record got written before the limit hit) /      *)
(* Rollback, NextSection (later sections are still attempted), EmitOpt,        *)
(* EmitTsig, PatchHeader + Finish.  `off` is the logical end of the message,   *)
(* `phys` the physical length of the byte buffer handed back to the caller.    *)
(*                                                                             *)
(* RollbackTruncates selects what a rollback does to the physical buffer:      *)
(* TRUE  = required behaviour (nothing beyond `off` survives);                 *)
(* FALSE = restore `off` and the pointer table only (configuration             *)
(*         MC_Encoder_AsIs documents the finding with a TLC counterexample).   *)
EXTENDS EncoderOps, TLC

CONSTANTS Cases,         \* set of messages: [q |-> size of the question section (0 = none),
                         \*   sizes |-> [an |-> seq of record sizes, ns |-> .., ar |-> ..],
                         \*   opt |-> BOOLEAN, tsig |-> BOOLEAN, tc0 |-> TC bit of the input]
          OptSize, TsigSize,
          Limits,        \* set of size limits to explore
          RollbackTruncates

VARIABLES c,         \* the message being encoded (chosen initially, never changes)
          limit,
          pc,        \* "hdr" | "q" | "rec" | "rollback" | "patch" | "done"
          off, phys,
          snap,      \* rollback point: [off, ptrs]
          ptrs,      \* offsets of stored compression candidates (one per written record)
          si, ri,    \* section index into SecOrder, record index within it
          written,   \* [section |-> number of records written]
          trunc,     \* [section |-> BOOLEAN] the section hit the limit
          result     \* "none" | "ok" | "fail"

QSize == c.q
Sizes == c.sizes
HasOpt == c.opt
HasTsig == c.tsig
Tc0 == c.tc0

vars == <<c, limit, pc, off, phys, snap, ptrs, si, ri, written, trunc, result>>

SecOrder == <<"an", "ns", "ar", "opt", "tsig">>
Items(s) == IF s = "opt" THEN (IF HasOpt THEN <<OptSize>> ELSE <<>>)
            ELSE IF s = "tsig" THEN (IF HasTsig THEN <<TsigSize>> ELSE <<>>)
            ELSE Sizes[s]

Zero == [s \in {"an", "ns", "ar", "opt", "tsig"} |-> 0]
Init == /\ c \in Cases /\ limit \in Limits
        /\ pc = "hdr" /\ off = 0 /\ phys = 0 /\ snap = [off |-> 0, ptrs |-> 0] /\ ptrs = <<>>
        /\ si = 1 /\ ri = 1 /\ written = Zero
        /\ trunc = [s \in {"an", "ns", "ar", "opt", "tsig"} |-> FALSE] /\ result = "none"

Sec == SecOrder[si]
Cur == Items(Sec)[ri]

Fail == pc' = "done" /\ result' = "fail"

PlaceHeader ==
    /\ pc = "hdr"
    /\ IF 12 > limit
       THEN Fail /\ UNCHANGED <<c, limit, off, phys, snap, ptrs, si, ri, written, trunc>>
       ELSE /\ off' = 12 /\ phys' = 12 /\ pc' = "q"
            /\ UNCHANGED <<c, limit, snap, ptrs, si, ri, written, trunc, result>>

\* the question section is all-or-nothing: if it does not fit the encoding fails
EmitQuestion ==
    /\ pc = "q"
    /\ IF off + QSize > limit
       THEN Fail /\ UNCHANGED <<c, limit, off, phys, snap, ptrs, si, ri, written, trunc>>
       ELSE /\ off' = off + QSize /\ phys' = MaxOf(phys, off + QSize) /\ pc' = "rec"
            /\ UNCHANGED <<c, limit, snap, ptrs, si, ri, written, trunc, result>>

\* next record of the current section fits
WriteOk ==
    /\ pc = "rec" /\ si <= Len(SecOrder) /\ ri <= Len(Items(Sec))
    /\ off + Cur <= limit
    /\ snap' = [off |-> off, ptrs |-> Len(ptrs)]
    /\ off' = off + Cur /\ phys' = MaxOf(phys, off + Cur)
    /\ ptrs' = Append(ptrs, off)               \* the owner name becomes a compression candidate
    /\ written' = [written EXCEPT ![Sec] = @ + 1]
    /\ ri' = ri + 1
    /\ UNCHANGED <<c, limit, pc, si, trunc, result>>

\* next record does not fit: k bytes of it (and possibly its compression candidate) were
\* written before the failing write
Overflow(k) ==
    /\ pc = "rec" /\ si <= Len(SecOrder) /\ ri <= Len(Items(Sec))
    /\ off + Cur > limit
    /\ k \in 0..(limit - off)
    /\ snap' = [off |-> off, ptrs |-> Len(ptrs)]
    /\ off' = off + k /\ phys' = MaxOf(phys, off + k)
    /\ ptrs' = IF k > 0 THEN Append(ptrs, off) ELSE ptrs
    /\ pc' = "rollback"
    /\ UNCHANGED <<c, limit, si, ri, written, trunc, result>>

\* rollback restores the logical end and the pointer table; the rest of the section is dropped
Rollback ==
    /\ pc = "rollback"
    /\ off' = snap.off
    /\ ptrs' = SubSeq(ptrs, 1, snap.ptrs)
    /\ phys' = IF RollbackTruncates THEN snap.off ELSE phys
    /\ trunc' = [trunc EXCEPT ![Sec] = TRUE]
    /\ si' = si + 1 /\ ri' = 1 /\ pc' = "rec"
    /\ UNCHANGED <<c, limit, snap, written, result>>

NextSection ==
    /\ pc = "rec" /\ si <= Len(SecOrder) /\ ri > Len(Items(Sec))
    /\ si' = si + 1 /\ ri' = 1
    /\ UNCHANGED <<c, limit, pc, off, phys, snap, ptrs, written, trunc, result>>

\* all sections done: back-patch the header (counts, TC) inside the first 12 bytes
PatchHeader ==
    /\ pc = "rec" /\ si > Len(SecOrder)
    /\ pc' = "done" /\ result' = "ok"
    /\ UNCHANGED <<c, limit, off, phys, snap, ptrs, si, ri, written, trunc>>

Next == PlaceHeader \/ EmitQuestion \/ WriteOk \/ (\E k \in 0..70 : Overflow(k)) \/ Rollback
        \/ NextSection \/ PatchHeader

Spec == Init /\ [][Next]_vars

---------------------------------------------------------------------------
\* What the caller observes at the end, and the requirements on it

AnyTrunc == \E s \in DOMAIN trunc : trunc[s]
TcOut == Tc0 \/ AnyTrunc
Ids(n) == [i \in 1..n |-> i]
Obs == [limit |-> limit, len |-> phys, leftover |-> phys - off, decoded |-> TRUE,
        tc0 |-> Tc0, tc |-> TcOut,
        inCounts |-> [an |-> Len(Sizes.an), ns |-> Len(Sizes.ns), ar |-> Len(Sizes.ar)],
        hdrCounts |-> [an |-> written.an, ns |-> written.ns, ar |-> written.ar + written.opt + written.tsig],
        outIds |-> [an |-> Ids(written.an), ns |-> Ids(written.ns), ar |-> Ids(written.ar)],
        optIn |-> IF HasOpt THEN 1 ELSE 0, optOut |-> written.opt,
        tsigIn |-> IF HasTsig THEN 1 ELSE 0, tsigOut |-> written.tsig]

C03_PhysWithinLimit == phys <= limit
C03_AtFinish == (pc = "done" /\ result = "ok") => C03_Ok(Obs)
\* every stored compression candidate points into the message
C03_PtrsValid == pc \in {"rec", "done"} => \A i \in 1..Len(ptrs) : ptrs[i] < off
\* a record is dropped only if it really did not fit behind what was kept
C03_NoNeedlessDrop ==
    (pc = "done" /\ result = "ok") =>
        \A s \in {"an", "ns", "ar", "opt", "tsig"} :
            trunc[s] => written[s] < Len(Items(s))
TypeOK == off <= phys /\ pc \in {"hdr", "q", "rec", "rollback", "patch", "done"}
=============================================================================
