SPECIFICATION FairSpec
CONSTANTS
  HostileKinds <- MC_Kinds
  Canaries <- MC_Canaries
  Config <- MC_Config
  MaxHostile = 2
CONSTRAINT StateBound
INVARIANT C11_CanaryAnswered
PROPERTY C11_ServingContinues
CHECK_DEADLOCK FALSE
