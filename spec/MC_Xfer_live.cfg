\* liveness under fairness: a closed stream is concluded; an honest transfer completes unless cut
SPECIFICATION FairSpec
CONSTANTS
  Rest <- MC_Rest
  Serial <- MC_Serial
  Caps <- MC_Caps
  Policies <- MC_Policies
  Reqs <- MC_Reqs
  Sources <- MC_Both
  ScriptMsgs <- MC_ScriptMsgs
  MaxScript = 2
  Flaws <- MC_NoFlaws
INVARIANTS TypeOK
PROPERTIES X02_Concludes X02_HonestCompletes
CHECK_DEADLOCK FALSE
