SPECIFICATION Spec
CONSTANTS
  Hdr = 2
  ValLens = {0, 1, 5}
  Deltas <- MC_Deltas
  MaxItems = 3
  MaxStray = 1
INVARIANTS NoOOB Agrees HonestAccepted
PROPERTY Terminates
CHECK_DEADLOCK FALSE
