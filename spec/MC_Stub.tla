------------------------------ MODULE MC_Stub ------------------------------
(* Configuration sets for Stub (X01): obligation D (exhaustive) and, through *)
(* Gen_Stub, obligation R.  Small label alphabet; the search domains are     *)
(* chosen so that every shape the documentation talks about occurs: no /     *)
(* one / several search domains, a domain that is also (first or later) in   *)
(* the search list, a repeated search domain, the root as a search domain,   *)
(* names with 0..2 inner dots, with a final dot, with a leading `*` label,   *)
(* ndots 0..3.                                                               *)
EXTENDS Stub

N(l, f) == [labels |-> l, fqdn |-> f, lit |-> ""]
Lit(v)  == [labels |-> <<>>, fqdn |-> FALSE, lit |-> v]

D1 == <<"d", "test">>
S1 == <<"s", "test">>
S2 == <<"t", "test">>
Root == <<>>

C(n, nd, d, s, api, stg, h) ==
    [name |-> n, ndots |-> nd, domain |-> d, search |-> s, api |-> api, strategy |-> stg,
     hosts |-> h, sys |-> FALSE, uh |-> "never"]

AllOutcomes == {"data", "nodata", "nx", "fail"}
TwoOutcomes == {"data", "nx"}

----------------------------------------------------------------------------
\* 1. candidate lists
MC_Names == {N(<<"h">>, FALSE), N(<<"h", "x">>, FALSE), N(<<"h", "x", "y">>, FALSE),
             N(<<"h">>, TRUE), N(<<"h", "x">>, TRUE), N(<<"*", "x">>, FALSE)}
MC_Domains == {<<>>, <<D1>>}
MC_Searches == {<<>>, <<S1>>, <<S1, S2>>, <<D1, S1>>, <<S1, D1>>, <<S1, S2, S1>>, <<Root, S1>>}

MC_CfgsNames ==
    {C(n, nd, d, s, api, "Ipv4Only", <<>>) :
        n \in MC_Names, nd \in 0..3, d \in MC_Domains, s \in MC_Searches, api \in {"A", "ip"}}

\* fewer, for the exhaustive run with every outcome
MC_CfgsNamesSmall ==
    {C(n, nd, d, s, "A", "Ipv4Only", <<>>) :
        n \in {N(<<"h">>, FALSE), N(<<"h", "x">>, FALSE), N(<<"h">>, TRUE)}, nd \in 1..2, d \in MC_Domains,
        s \in {<<>>, <<S1, S2>>, <<S1, D1>>}}

\* 2 + 3. outcomes x strategies: one name (final dot) and two names (one search domain)
MC_CfgsStrategy ==
    {C(n, 1, <<>>, <<S1>>, "ip", stg, <<>>) : n \in {N(<<"h", "x">>, TRUE), N(<<"h">>, FALSE)}, stg \in Strategies}
    \cup {C(N(<<"h">>, FALSE), 1, <<>>, <<S1, S2>>, api, "Ipv4Only", <<>>) : api \in {"A", "AAAA", "TXT"}}

\* hosts table: every subset of the four (candidate, family) pairs of `h` with one search domain
HostPairs == <<[n |-> <<"h">> \o S1, t |-> "A"], [n |-> <<"h">> \o S1, t |-> "AAAA"],
               [n |-> <<"h">>, t |-> "A"], [n |-> <<"h">>, t |-> "AAAA"]>>
HostTables == {SelectSeq(HostPairs, LAMBDA e : e \in S) : S \in SUBSET SeqRange(HostPairs)}

MC_CfgsHosts ==
    {C(N(<<"h">>, FALSE), 1, <<>>, <<S1>>, "ip", stg, h) : stg \in Strategies, h \in HostTables}
    \cup {C(N(<<"h">>, FALSE), 1, <<>>, <<S1>>, api, "Ipv4Only", h) : api \in {"A", "AAAA", "TXT"}, h \in HostTables}
    \cup {C(N(<<"h">>, TRUE), 1, <<>>, <<S1>>, "ip", stg, h) :
              stg \in Strategies, h \in {x \in HostTables : \A i \in DOMAIN x : x[i].n = <<"h">>}}

\* special-use names, literals, a combination too long to be a name
Long(c) ==
    CASE c = "a" -> "aaaaaaaaaaaaaaaaaaaaaaaaaaaaaaaaaaaaaaaaaaaaaaaaaaaaaaaaaaaaaaa"
      [] c = "b" -> "bbbbbbbbbbbbbbbbbbbbbbbbbbbbbbbbbbbbbbbbbbbbbbbbbbbbbbbbbbbbbbb"
      [] c = "c" -> "ccccccccccccccccccccccccccccccccccccccccccccccccccccccccccccccc"
      [] c = "e" -> "eeeeeeeeeeeeeeeeeeeeeeeeeeeeeeeeeeeeeeeeeeeeeeeeeeeeeeeeeeeeeee"
LongName == N(<<Long("a"), Long("b"), Long("c")>>, FALSE)
SLong == <<Long("e")>>

SomeStrategies == {"Ipv4Only", "Ipv6AndIpv4", "Ipv4thenIpv6"}
MC_CfgsSpecial ==
    {C(n, nd, <<>>, <<S1>>, "ip", stg, <<>>) :
        n \in {N(<<"localhost">>, TRUE), N(<<"localhost">>, FALSE), N(<<"a", "localhost">>, TRUE),
               N(<<"x", "invalid">>, TRUE), Lit("v4"), Lit("v6")},
        nd \in {1, 2}, stg \in SomeStrategies}
    \cup {C(n, 1, <<>>, <<S1>>, api, "Ipv4Only", <<>>) :
              n \in {N(<<"localhost">>, TRUE), N(<<"x", "invalid">>, TRUE)}, api \in {"A", "AAAA", "TXT"}}
    \cup {C(N(<<"localhost">>, FALSE), 1, <<>>, <<S1>>, "A", "Ipv4Only", <<>>)}
    \cup {C(LongName, nd, <<>>, s, api, "Ipv4Only", <<>>) :
              nd \in {1, 3}, s \in {<<SLong, S1>>, <<S1, SLong>>, <<SLong>>}, api \in {"A", "ip"}}

MC_All == MC_CfgsNamesSmall \cup MC_CfgsStrategy \cup MC_CfgsHosts \cup MC_CfgsSpecial

----------------------------------------------------------------------------
\* larger sets (thorough)
MC_NamesBig == MC_Names \cup {N(<<"h", "x", "y", "z">>, FALSE), N(<<"*">>, FALSE), N(<<"h", "x", "y">>, TRUE)}
MC_SearchesBig ==
    MC_Searches \cup {<<S1, S2, D1>>, <<S2, S1, S2, D1>>, <<S1, Root>>, <<D1>>, <<S1, S1>>, <<D1, D1, S1>>}
MC_CfgsNamesBig ==
    {C(n, nd, d, s, api, stg, <<>>) :
        n \in MC_NamesBig, nd \in 0..4, d \in MC_Domains, s \in MC_SearchesBig, api \in {"A", "ip"},
        stg \in {"Ipv4Only"}}
MC_CfgsStrategyBig ==
    {C(n, nd, <<>>, s, "ip", stg, <<>>) :
        n \in {N(<<"h", "x">>, TRUE), N(<<"h">>, FALSE), N(<<"h", "x">>, FALSE)}, nd \in {1, 2},
        s \in {<<S1>>, <<S1, S2>>}, stg \in Strategies}
    \cup {C(N(<<"h">>, FALSE), 1, <<D1>>, <<S1, S2>>, api, "Ipv4Only", <<>>) : api \in {"A", "AAAA", "TXT"}}
MC_CfgsHostsBig ==
    MC_CfgsHosts
    \cup {C(N(<<"h">>, FALSE), 0, <<>>, <<S1>>, "ip", stg, h) : stg \in Strategies, h \in HostTables}
    \cup {C(N(<<"h">>, FALSE), 0, <<>>, <<S1>>, api, "Ipv4Only", h) : api \in {"A", "AAAA"}, h \in HostTables}

\* the relaxations (one dropped clause each); see the AsIs configurations
MC_RulesHostsPerType == [Strict EXCEPT !.hostsIp = "type"]
MC_RulesHostsFirstOnly == [Strict EXCEPT !.hostsGen = "firstOnly"]
MC_RulesDedupLast == [Strict EXCEPT !.dedup = "last"]
MC_RulesStarIgnored == [Strict EXCEPT !.star = "ignored"]
=============================================================================
