----------------------------- MODULE Gen_Encoder -----------------------------
(* Case generator for Encoder (C03, obligation R): every (message, limit) of   *)
(* the configured space with the outcome the specification prescribes.         *)
EXTENDS Encoder, Json

Case == [q |-> c.q, sizes |-> c.sizes, opt |-> c.opt, tsig |-> c.tsig, tc0 |-> c.tc0,
         limit |-> limit, result |-> result,
         obs |-> IF result = "ok" THEN Obs ELSE [none |-> TRUE]]
Emit == (pc = "done") => PrintT(<<"REPLAY", ToJson(Case)>>)
=============================================================================
