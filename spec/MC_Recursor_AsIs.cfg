SPECIFICATION Spec
CONSTANTS
  Nets <- MC_AsIsWitness
  Questions <- TheQuestion
  NsLimit = 4
  RecLimit = 4
  MaxCname = 3
  BailiwickRule = "asis"
INVARIANTS C19_NoPoison
CHECK_DEADLOCK FALSE
