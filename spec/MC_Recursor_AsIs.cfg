SPECIFICATION Spec
CONSTANTS
  NetParams <- MC_AsIsWitness
  MkNet <- NetOfParams
  Questions <- TheQuestions
  NsLimit = 4
  RecLimit = 4
  MaxCname = 3
  BailiwickRule = "asis"
INVARIANTS C19_NoPoison
CHECK_DEADLOCK FALSE
