\* owner / TTL / class / $ORIGIN / $TTL inheritance, every file of <= 3 RRs, 2 directives, 1 blank line
SPECIFICATION PSpec
CONSTANTS
  Origin0 <- Apex
  Records <- I_Records
  Origins <- I_Origins
  TtlDirs <- I_TtlDirs
  Seps <- I_Seps
  PSeps <- I_PSeps
  Comments <- I_Comments
  Eols <- I_Eols
  MaxRR = 3
  MaxDir = 2
  MaxBlank = 1
  MaxEntries = 4
  MinRR = 0
  FirstRR <- NoFirst
  Opt <- I_Opt
INVARIANTS PTypeOK C20_Denotes C20_LayoutIndependent
CHECK_DEADLOCK FALSE
