-------------------------------- MODULE Cache --------------------------------
(* C15 -- cached answers expire on time and TTLs only count down.              *)
(* Model of the resolver's response cache (crates/resolver/src/cache.rs) as a  *)
(* map query -> entry with an explicit clock.  Actions are the public calls    *)
(* insert(query, result, now) / get(query, now) plus the clock and an Evict    *)
(* action (a cache may forget anything at any time).                           *)
EXTENDS CacheOps, TLC

CONSTANTS Queries,      \* set of [name, type]
          Cfg,          \* TTL configuration (see CacheOps)
          Messages,     \* set of positive answers: sequences of [sec, type, ttl]
          NegTtls,      \* set of negative TTLs; -1 = none
          ErrClasses,   \* transient error classes, e.g. {"timeout", "io"}
          Steps         \* clock increments in ticks

VARIABLES now,          \* ticks
          store,        \* query -> entry, or NoEntry
          last          \* observation of a Get, kept for one step: [q, res, ttls, at, neg, ent]

vars == <<now, store, last>>

NoEntry == [kind |-> "none"]
NoObs   == [q |-> CHOOSE q \in Queries : TRUE, res |-> "none", ttls |-> <<>>, at |-> 0, neg |-> 0 - 1,
            ent |-> NoEntry]
Init == /\ now = 0
        /\ store = [q \in Queries |-> NoEntry]
        /\ last = NoObs

InsertPos(q, m) ==
    /\ store' = [store EXCEPT ![q] = [kind |-> "pos", at |-> now, life |-> PosLifeHi(Cfg, q, m),
                                      recs |-> StoredRecs(Cfg, m), orig |-> m, neg |-> 0 - 1]]
    /\ last' = NoObs /\ UNCHANGED now

InsertNeg(q, n) ==
    /\ store' = [store EXCEPT ![q] = [kind |-> "neg", at |-> now, life |-> NegLifeHi(Cfg, q, n),
                                      recs |-> <<>>, orig |-> <<>>, neg |-> n]]
    /\ last' = NoObs /\ UNCHANGED now

\* transient errors are never cached: the call changes nothing
InsertErr(q, c) == last' = NoObs /\ UNCHANGED <<now, store>>

Evict(q) == /\ store[q].kind # "none"
            /\ store' = [store EXCEPT ![q] = NoEntry]
            /\ last' = NoObs /\ UNCHANGED now

GetMiss(q) ==
    \* a miss is always allowed (eviction, capacity); it is REQUIRED once the entry is late
    /\ last' = [q |-> q, res |-> "miss", ttls |-> <<>>, at |-> now, neg |-> 0 - 1, ent |-> store[q]]
    /\ UNCHANGED <<now, store>>

GetHit(q) ==
    /\ store[q].kind # "none"
    /\ ~Late(store[q].at, now, store[q].life)
    /\ LET t == HitTtls(store[q].recs, store[q].at, now) IN
       /\ last' = [q |-> q, res |-> store[q].kind, ttls |-> t, at |-> now,
                   neg |-> IF store[q].neg < 0 THEN 0 - 1
                           ELSE Countdown(store[q].neg, ElapsedSecs(store[q].at, now)),
                   ent |-> store[q]]
    /\ UNCHANGED <<now, store>>

Advance(d) == now' = now + d /\ last' = NoObs /\ UNCHANGED store

Next == \/ \E q \in Queries, m \in Messages : InsertPos(q, m)
        \/ \E q \in Queries, n \in NegTtls : InsertNeg(q, n)
        \/ \E q \in Queries, c \in ErrClasses : InsertErr(q, c)
        \/ \E q \in Queries : Evict(q)
        \/ \E q \in Queries : GetMiss(q)
        \/ \E q \in Queries : GetHit(q)
        \/ \E d \in Steps : Advance(d)

Spec == Init /\ [][Next]_vars

---------------------------------------------------------------------------
\* Requirements (on the observation `last` and the history `seen`)

Hit == last.res \in {"pos", "neg"}
E   == last.ent        \* the entry as it was when the last Get ran

\* never returned more than L seconds after insertion (L under the most permissive reading)
C15_NeverLate == Hit => ~Late(E.at, last.at, E.life)

\* reported TTL = per-type clamped received TTL minus whole seconds elapsed, floored at zero
C15_TtlExact ==
    Hit => /\ Len(last.ttls) = Len(E.orig)
           /\ \A i \in 1..Len(last.ttls) :
                last.ttls[i] = Countdown(StoredTtl(Cfg, E.orig[i]), ElapsedSecs(E.at, last.at))

\* every reported TTL respects the per-type ceiling
C15_TtlWithinBounds ==
    Hit => \A i \in 1..Len(last.ttls) : last.ttls[i] <= BoundsFor(Cfg, E.orig[i].type).pmax

\* TTLs never increase between refreshes: for every live entry and any two later instants
\* t1 <= t2 the TTLs reported at t2 are not above those reported at t1
CONSTANT Horizon
C15_Monotone ==
    \A q \in Queries : store[q].kind = "pos" =>
        \A t1 \in now..Horizon : \A t2 \in t1..Horizon :
            \A i \in 1..Len(store[q].recs) :
                HitTtls(store[q].recs, store[q].at, t2)[i] <= HitTtls(store[q].recs, store[q].at, t1)[i]

\* a negative answer is kept no longer than its clamped negative TTL
C15_NegBound ==
    (last.res = "neg" /\ E.neg >= 0) =>
        last.at - E.at <= ClampTo(E.neg, BoundsFor(Cfg, last.q.type).nmin, BoundsFor(Cfg, last.q.type).nmax) * TicksPerSec

\* transient errors never create or refresh an entry
C15_NoTransientCached == [][\A q \in Queries, c \in ErrClasses : InsertErr(q, c) => store' = store]_vars

TypeOK == /\ now \in Nat
          /\ \A q \in Queries : store[q].kind \in {"none", "pos", "neg"}
=============================================================================
