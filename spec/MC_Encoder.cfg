SPECIFICATION Spec
CONSTANTS
  Cases <- MC_Cases
  OptSize = 11
  TsigSize = 61
  Limits <- MC_Limits
  RollbackTruncates = TRUE
INVARIANTS TypeOK C03_PhysWithinLimit C03_AtFinish C03_PtrsValid C03_NoNeedlessDrop
CHECK_DEADLOCK FALSE
