\* C09 obligation D, thorough: two owners besides the apex (empty non-terminals above delegations, Opt-Out
\* leaving them out of the chain, wildcards next to delegations), Opt-Out on/off, <= 3 offered records
SPECIFICATION Spec
CONSTANTS
  Apex <- MC_Apex
  Universe <- Q_Universe6
  PlainKinds <- MC_PlainKinds
  WildKinds <- MC_WildKinds
  MaxOwners = 2
  QNames <- Q_QNames10
  QTypes <- T3_QTypes
  MaxProof = 3
  HT <- Q3_HT
  Params <- T3_Params
  StaleParams = {}
  OptOuts = {FALSE, TRUE}
  ParentZone <- NoParent
  Soft <- MC_Soft
  Hard <- MC_Hard
INVARIANTS TypeOK C09_Complete C09_CompleteOptOut C09_Sound C09_IterationLimits C09_SameParamsSameZone
CHECK_DEADLOCK FALSE
