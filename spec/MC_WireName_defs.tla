-------------------------- MODULE MC_WireName_defs --------------------------
(* Buffer universes for the name reader (shared by MC_WireName and the case generator). *)
EXTENDS Naturals, Sequences
\* octets: root, label lengths 1 and 2, both reserved forms, pointers to 0/1/3/5, a letter
MC_Alphabet == {0, 1, 2, 64, 128, 192, 193, 195, 197, 97}
RECURSIVE SeqsUpTo(_, _)
SeqsUpTo(S, n) == IF n = 0 THEN {<<>>} ELSE LET P == SeqsUpTo(S, n - 1) IN P \cup {Append(p, x) : p \in {q \in P : Len(q) = n - 1}, x \in S}
MC_Bufs5 == SeqsUpTo(MC_Alphabet, 5)
MC_Bufs4 == SeqsUpTo(MC_Alphabet, 4)
\* second half of every pointer must be able to name small offsets: the alphabet values 0,1,2 double as offsets
MC_Starts == 0..5
=============================================================================
