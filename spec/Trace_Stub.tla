----------------------------- MODULE Trace_Stub -----------------------------
(* Trace validation for X01 (obligation T: impl -> spec), monitor style.     *)
(* Events recorded from the real hickory_resolver::Resolver over a scripted  *)
(* connection provider:                                                      *)
(*   reset   case cfg world     a fresh resolver with this configuration;    *)
(*                              world = the upstream outcome of every        *)
(*                              (name, type)                                 *)
(*   ask     n t o rep          the configured server received a question    *)
(*                              for (n, t) and answered with outcome o;      *)
(*                              rep = this (n, t) was asked before in this   *)
(*                              case (retransmissions and repeats are the    *)
(*                              pool's and the cache's business: ignored)    *)
(*   result  kind groups err    what the caller got: "ok" with the address   *)
(*                              groups in order, or "err" with the error     *)
(*                              class ("nx" | "nodata" | "fail"); "PANIC" /  *)
(*                              "hung" are recorded as kinds of their own    *)
(* The monitor keeps the questions and judges the whole lookup at `result`   *)
(* with the operators of StubOps -- the same ones the machine Stub is        *)
(* checked against.  For a lookup that is not as prescribed it also says     *)
(* which named relaxations of the rules (StubOps!Strict) would explain the   *)
(* observation exactly (smallest sets first); none = unexplained.            *)
EXTENDS StubOps, TLC, Json, IOUtils

Rec == ndJsonDeserialize(IOEnv.TRACE)

VARIABLES l, caseId, cfg, world, obs, skipping
tvars == <<l, caseId, cfg, world, obs, skipping>>
state == <<caseId, cfg, world, obs>>

NoCfg == [name |-> [labels |-> <<"none">>, fqdn |-> TRUE, lit |-> ""], ndots |-> 1, domain |-> <<>>, search |-> <<>>,
          api |-> "A", strategy |-> "Ipv4Only", hosts |-> <<>>, sys |-> FALSE, uh |-> "never"]
NoWorld == [tab |-> <<>>, dflt |-> "nx"]

Init == l = 1 /\ caseId = "none" /\ cfg = NoCfg /\ world = NoWorld /\ obs = <<>> /\ skipping = FALSE

e == Rec[l]

Reset ==
    /\ e.ev = "reset"
    /\ caseId' = e.case /\ cfg' = e.cfg /\ world' = e.world /\ obs' = <<>> /\ skipping' = FALSE

---------------------------------------------------------------------------
\* ask

AskProblems ==
    IF e.rep THEN {}
    ELSE IF e.o # Out(world, e.n, e.t) THEN {"harness:outcome-not-as-scripted"}
    ELSE {}
AskUpdate == obs' = IF e.rep THEN obs ELSE Append(obs, [n |-> e.n, t |-> e.t, o |-> e.o])

---------------------------------------------------------------------------
\* result: the requirements are judged here

Res == [kind |-> e.kind, groups |-> e.groups, err |-> e.err]
Prescribed == Plan(cfg, world, Strict)

Dims == {"hostsIp", "hostsGen", "dedup", "star"}
Relaxed(d) == CASE d = "hostsIp" -> "type" [] d = "hostsGen" -> "firstOnly" [] d = "dedup" -> "last" [] d = "star" -> "ignored"
RelaxName(d) ==
    CASE d = "hostsIp" -> "hostsPerType" [] d = "hostsGen" -> "hostsFirstCandidateOnly"
      [] d = "dedup" -> "dedupKeepsLast" [] d = "star" -> "starLabelNotCounted"
RulesFor(D) == [d \in Dims |-> IF d \in D THEN Relaxed(d) ELSE Strict[d]]
Explains(D) ==
    Agrees(obs, Res, Plan(cfg, world, RulesFor(D)))
Explaining == {D \in SUBSET Dims : D # {} /\ Explains(D)}
Smallest == {D \in Explaining : \A E \in Explaining : Cardinality(E) >= Cardinality(D)}
ExplainedBy == {{RelaxName(d) : d \in D} : D \in Smallest}

ResultProblems ==
    IF e.kind = "PANIC" THEN {"panic"}
    ELSE IF e.kind = "hung" THEN {"lookup-never-completed"}
    ELSE (IF OnlyCandidates(cfg, obs) THEN {} ELSE {"question-outside-candidates"})
         \cup (IF InListOrder(cfg, obs) THEN {} ELSE {"candidates-out-of-order"})
         \cup (IF NothingLocalAsked(cfg, obs) THEN {} ELSE {"locally-known-name-asked"})
         \cup (IF OnlyStrategyTypes(cfg, obs) THEN {} ELSE {"question-of-other-type"})
         \cup (IF NothingAfterSuccess(cfg, obs) THEN {} ELSE {"asked-after-positive-answer"})
         \cup (IF Conforms(cfg, world, obs, Res) THEN {}
               ELSE (IF MatchesSteps(Questions(obs), Prescribed.steps) THEN {} ELSE {"questions-not-as-prescribed"})
                    \cup (IF ResultAgrees(Res, Prescribed.result) THEN {} ELSE {"result-not-as-prescribed"}))
         \cup (IF e.kind = "ok" /\ ~FamilyOrder(cfg, Res) THEN {"family-order"} ELSE {})
         \cup (IF e.kind = "ok" /\ ~OneCandidate(Res) THEN {"answers-of-several-candidates"} ELSE {})

ResultDetail ==
    IF e.kind \in {"PANIC", "hung"} THEN [explainedBy |-> {}]
    ELSE [explainedBy |-> ExplainedBy,
          cands |-> IF IsLiteral(cfg) THEN <<>> ELSE CandidatesOf(cfg, Strict),
          steps |-> Prescribed.steps, result |-> Prescribed.result, asked |-> obs]

---------------------------------------------------------------------------

Problems ==
    CASE e.ev = "ask"    -> AskProblems
      [] e.ev = "result" -> ResultProblems
      [] OTHER           -> {"harness:unknown-event"}

Update ==
    CASE e.ev = "ask" -> AskUpdate /\ UNCHANGED <<caseId, cfg, world>>
      [] OTHER        -> UNCHANGED state

Matched == ~skipping /\ e.ev # "reset" /\ Problems = {} /\ Update /\ UNCHANGED skipping

Reject ==
    /\ ~skipping /\ e.ev # "reset" /\ Problems # {}
    /\ PrintT(<<"MISMATCH", ToJson([case |-> caseId, line |-> l, event |-> e, problems |-> Problems,
                                     detail |-> IF e.ev = "result" THEN ResultDetail ELSE [explainedBy |-> {}],
                                     cfg |-> cfg, world |-> world])>>)
    /\ skipping' = TRUE /\ UNCHANGED state

Skip == skipping /\ e.ev # "reset" /\ UNCHANGED <<state, skipping>>

Next == l <= Len(Rec) /\ l' = l + 1 /\ (Reset \/ Matched \/ Reject \/ Skip)

TraceSpec == Init /\ [][Next]_tvars

Consumed ==
    LET d == TLCGet("stats").diameter IN
    IF d - 1 = Len(Rec) THEN PrintT(<<"TRACE-CONSUMED", Len(Rec)>>)
    ELSE PrintT(<<"TRACE-STUCK", d, Len(Rec)>>) /\ FALSE
=============================================================================
