----------------------------- MODULE Trace_Cache -----------------------------
(* Trace validation for C15 (obligation T), monitor style.  Events recorded    *)
(* from the real hickory_resolver::ResponseCache:                              *)
(*   reset  cfg                    new cache with this TTL configuration       *)
(*   pos    q t recs               insert(query, Ok(message), base + t)        *)
(*   neg    q t n                  insert(query, Err(NoRecordsFound{negative_ttl n}), ..) *)
(*   err    q t c                  insert(query, Err(transient), ..)           *)
(*   get    q t res ttls neg       get(query, base + t) -> miss | pos | neg    *)
(*   neg2   q t soaTtl soaMin      (caching-client layer) upstream answered    *)
(*                                 NXDOMAIN/NODATA with this SOA               *)
(*   clear                         (caching-client layer) clear_cache()        *)
(*   cnamefail q t c first second  (caching-client layer) alias answered, the  *)
(*                                 follow-up for its target failed transiently; *)
(*                                 asked again at once                          *)
(*   chain  q t cnames finals      (caching-client layer, aliases folded away) *)
(*                                 upstream answered with a chain of aliases   *)
(*                                 (their TTLs) ending in these records        *)
(* t is in ticks of half a second.  The monitor re-computes, with the          *)
(* operators of CacheOps, what the specification allows for every get.         *)
EXTENDS CacheOps, TLC, Json, IOUtils

Rec == ndJsonDeserialize(IOEnv.TRACE)

VARIABLES l, cfg, store, caseId, skipping

tvars == <<l, cfg, store, caseId, skipping>>

NoCfg == [def |-> [pmin |-> 0, pmax |-> MaxTtl, nmin |-> 0, nmax |-> MaxTtl], byType |-> [x \in {} |-> 0]]
Init == l = 1 /\ cfg = NoCfg /\ store = [k \in {} |-> 0] /\ caseId = "none" /\ skipping = FALSE

e == Rec[l]
Key(q) == q.name \o "/" \o q.type
Put(k, v) == [x \in DOMAIN store \cup {k} |-> IF x = k THEN v ELSE store[x]]

Reset ==
    /\ e.ev = "reset"
    /\ cfg' = e.cfg /\ store' = [k \in {} |-> 0] /\ caseId' = e.case /\ skipping' = FALSE

Allowed ==
    \/ /\ e.ev = "pos"
       /\ store' = Put(Key(e.q), [kind |-> "pos", at |-> e.t, orig |-> e.recs, neg |-> 0 - 1])
    \/ /\ e.ev = "neg"
       /\ store' = Put(Key(e.q), [kind |-> "neg", at |-> e.t, orig |-> <<>>, neg |-> e.n])
    \* a negative response as received from upstream (caching-client layer): its negative TTL is
    \* derived here, by the specification, from the SOA in the authority section
    \/ /\ e.ev = "neg2"
       /\ store' = Put(Key(e.q), [kind |-> "neg", at |-> e.t, orig |-> <<>>,
                                  neg |-> NegTtlFromSoa(e.soaTtl, e.soaMin)])
    \* an alias chain of which only the final records are kept: the entry still stands for the whole
    \* chain -- "the smallest TTL among the entry's records of the queried type (or CNAME)"
    \/ /\ e.ev = "chain"
       /\ store' = Put(Key(e.q), [kind |-> "chain", at |-> e.t, orig |-> e.finals, cn |-> e.cnames, neg |-> 0 - 1])
    \/ /\ e.ev = "get" /\ e.res = "pos"
       /\ Key(e.q) \in DOMAIN store
       /\ LET s == store[Key(e.q)]
              chainMin == SetMin({s.cn[i] : i \in 1..Len(s.cn)})
              aliases == [i \in 1..Len(s.cn) |-> [sec |-> "an", type |-> "CNAME", ttl |-> s.cn[i]]]
              \* a final record can be reported with the smallest TTL on the way to it, or with its own
              folded == [i \in 1..Len(s.orig) |-> [s.orig[i] EXCEPT !.ttl = Lo(@, chainMin)]]
              tf == HitTtls(StoredRecs(cfg, folded), s.at, e.t)
              to == HitTtls(StoredRecs(cfg, s.orig), s.at, e.t)
          IN
          /\ s.kind = "chain"
          /\ s.at <= e.t
          /\ ~Late(s.at, e.t, PosLifeHi(cfg, e.q, aliases \o s.orig))
          /\ Len(e.ttls) = Len(s.orig)
          /\ \A i \in 1..Len(e.ttls) : e.ttls[i] = tf[i] \/ e.ttls[i] = to[i]
          /\ ("validTicks" \in DOMAIN e) => e.validTicks <= s.at + PosLifeHi(cfg, e.q, aliases \o s.orig) * TicksPerSec - e.t + (TicksPerSec - 1)
       /\ store' = store
    \* the same with the aliases kept in the answer (preserve_intermediates): how the records of such an
    \* answer are laid out is not prescribed here, its lifetime and the validity it claims are
    \/ /\ e.ev = "pchain"
       /\ store' = Put(Key(e.q), [kind |-> "pchain", at |-> e.t, orig |-> e.finals, cn |-> e.cnames, neg |-> 0 - 1])
    \/ /\ e.ev = "get" /\ e.res = "pos"
       /\ Key(e.q) \in DOMAIN store
       /\ LET s == store[Key(e.q)]
              aliases == [i \in 1..Len(s.cn) |-> [sec |-> "an", type |-> "CNAME", ttl |-> s.cn[i]]]
              life == PosLifeHi(cfg, e.q, aliases \o s.orig)
          IN
          /\ s.kind = "pchain"
          /\ s.at <= e.t
          /\ ~Late(s.at, e.t, life)
          /\ ("validTicks" \in DOMAIN e) => e.validTicks <= s.at + life * TicksPerSec - e.t + (TicksPerSec - 1)
       /\ store' = store
    \* an alias whose target failed with a transient error: asked again at once, nothing negative may
    \* come out of the cache ("transient errors are never cached")
    \/ /\ e.ev = "cnamefail"
       /\ e.first # "PANIC" /\ e.second # "PANIC"
       \* (judged only if the scenario ran at all, i.e. the first lookup went upstream)
       /\ e.asked1 => ~(e.second = "neg" /\ ~e.asked2)
       \* ... and a lookup that failed goes upstream again when repeated at once: a failure that comes
       \* back without asking was served from the cache, whatever it looks like
       /\ (e.asked1 /\ e.first = "other") => e.asked2
       /\ store' = store
    \* the caller asked to flush the cache
    \/ /\ e.ev = "clear"
       /\ store' = [k \in {} |-> 0]
    \/ /\ e.ev = "err"          \* C15_NoTransientCached: nothing changes
       /\ store' = store
    \/ /\ e.ev = "get" /\ e.res = "miss"
       /\ store' = store
    \/ /\ e.ev = "get" /\ e.res = "pos"
       /\ Key(e.q) \in DOMAIN store
       /\ LET s == store[Key(e.q)] IN
          /\ s.kind = "pos"
          /\ s.at <= e.t
          \* C15_NeverLate
          /\ ~Late(s.at, e.t, PosLifeHi(cfg, e.q, s.orig))
          \* C15_TtlExact (which implies C15_Monotone between refreshes)
          /\ e.ttls = HitTtls(StoredRecs(cfg, s.orig), s.at, e.t)
          \* what the result says about its own validity does not reach beyond the entry's lifetime
          \* (counted like the TTLs in whole seconds elapsed: up to one tick of slack)
          \* (the result speaks for its ANSWER section; records of the other sections may bound the entry further)
          /\ ("validTicks" \in DOMAIN e) =>
                e.validTicks <= s.at + PosLifeHi(cfg, e.q, SelectSeq(s.orig, LAMBDA r : r.sec = "an")) * TicksPerSec - e.t + (TicksPerSec - 1)
       /\ store' = store
    \/ /\ e.ev = "get" /\ e.res = "neg"
       /\ Key(e.q) \in DOMAIN store
       /\ LET s == store[Key(e.q)] IN
          /\ s.kind = "neg"
          /\ s.at <= e.t
          \* C15_NegBound
          /\ ~Late(s.at, e.t, NegLifeHi(cfg, e.q, s.neg))
          \* the negative TTL handed out never grows
          /\ (s.neg >= 0 => e.neg <= s.neg)
       /\ store' = store

Matched == ~skipping /\ e.ev # "reset" /\ Allowed /\ UNCHANGED <<cfg, caseId, skipping>>

Expected ==
    IF e.ev = "get" /\ Key(e.q) \in DOMAIN store
    THEN LET s == store[Key(e.q)] IN
         [kind |-> s.kind, at |-> s.at,
          lifeHi |-> IF s.kind = "pos" THEN PosLifeHi(cfg, e.q, s.orig)
                     ELSE IF s.kind \in {"chain", "pchain"}
                     THEN PosLifeHi(cfg, e.q, [i \in 1..Len(s.cn) |-> [sec |-> "an", type |-> "CNAME", ttl |-> s.cn[i]]] \o s.orig)
                     ELSE NegLifeHi(cfg, e.q, s.neg),
          ttls |-> IF s.kind = "pos" THEN HitTtls(StoredRecs(cfg, s.orig), s.at, e.t) ELSE <<>>,
          entry |-> s]
    ELSE [kind |-> "none"]

Reject ==
    /\ ~skipping /\ e.ev # "reset" /\ ~ENABLED Allowed
    /\ PrintT(<<"MISMATCH", ToJson([case |-> caseId, line |-> l, event |-> e, expected |-> Expected,
                                     cfg |-> cfg])>>)
    /\ skipping' = TRUE /\ UNCHANGED <<cfg, store, caseId>>

Skip == skipping /\ e.ev # "reset" /\ UNCHANGED <<cfg, store, caseId, skipping>>

Next == l <= Len(Rec) /\ l' = l + 1 /\ (Reset \/ Matched \/ Reject \/ Skip)
TraceSpec == Init /\ [][Next]_tvars

Consumed ==
    LET d == TLCGet("stats").diameter IN
    IF d - 1 = Len(Rec) THEN PrintT(<<"TRACE-CONSUMED", Len(Rec)>>)
    ELSE PrintT(<<"TRACE-STUCK", d, Len(Rec)>>) /\ FALSE
=============================================================================
