\* X01, obligation D: candidate lists -- every name shape x ndots 0..3 x domain x search list, every outcome
SPECIFICATION Spec
CONSTANTS
  Cfgs <- MC_CfgsNames
  Outcomes <- AllOutcomes
  Rules <- Strict
INVARIANTS TypeOK X01_OnlyCandidates X01_ListOrder X01_FqdnAsksOneName X01_NoRepeats X01_NothingLocalAsked
  X01_NothingAfterSuccess X01_OnlyStrategyTypes X01_FamilyOrder X01_QuestionsAsPrescribed X01_ResultAsPrescribed
  X01_ErrorOfLast
CHECK_DEADLOCK FALSE
