--------------------------------- MODULE Xfer ---------------------------------
(* X02 -- zone transfer as a machine: a server that answers one transfer       *)
(* request with a sequence of messages (one action per message), the stream    *)
(* that carries them, and the transfer client that consumes one message per    *)
(* action and concludes "complete" or "error".                                 *)
(*                                                                             *)
(* The stream is fed either by the server of this module (source = "server":   *)
(* honest, bound by its duty) or by anybody (source = "script": any sequence   *)
(* of messages from ScriptMsgs -- a broken or foreign server, a middle box).   *)
(* The layer below the client may end the stream at any moment, plainly        *)
(* ("end") or with an error ("err": time-out, connection lost).                *)
(*                                                                             *)
(* Requirements X02_* tie the operational client and server to the            *)
(* declarative operators of XferOps:                                          *)
(*   - the server's messages, once it is done, are exactly a conforming answer *)
(*     for its duty, however the records were chunked;                         *)
(*   - the client concludes "complete" exactly at the first message that makes *)
(*     the consumed messages a whole, error-free answer, delivers those        *)
(*     messages and nothing after them; it concludes "error" only when no      *)
(*     continuation could complete, and always when the stream ends first;     *)
(*   - an honest transfer reaches the client whole.                            *)
EXTENDS XferOps, TLC

CONSTANTS Rest,        \* the zone's records other than the SOA: a set of <<"rr", k>>
          Serial,      \* the zone's serial
          Caps,        \* capacities (records per message) the server may be under
          Policies,    \* zone policies: subset of {"all", "deny"}
          Reqs,        \* transfer requests [proto, qtype, id, have, n]  (n: the IXFR client's serial)
          Sources,     \* who feeds the stream: subset of {"server", "script"}
          ScriptMsgs,  \* messages anybody may put on the stream
          MaxScript,   \* at most this many of them
          Flaws        \* {} = the client as specified; the as-is configurations weaken it the way the
                       \* implementation was found to be weaker: "anySoaCloses", "plainEndIsSilent",
                       \* "rcodeIgnored", "nonSoaStartEnds" (client), "singleMessage" (server)

VARIABLES req, policy, cap, source,        \* chosen at the start
          sphase, unsent, wire, closed,    \* server and stream
          cphase, cfirst, cpar, taken, items   \* client

vars == <<req, policy, cap, source, sphase, unsent, wire, closed, cphase, cfirst, cpar, taken, items>>

Soa  == <<"soa", Serial>>
Zone == [soa |-> Soa, rest |-> Rest, sigs |-> {}]
MyDuty == Duty(req, policy, 1)
Mode == IF req.qtype = "IXFR" THEN "ixfr" ELSE "axfr"

\* a message of the honest server
Msg(rc, an, q) == [id |-> req.id, qr |-> TRUE, op |-> 0, rc |-> rc, aa |-> rc = 0, tc |-> FALSE, q |-> q,
                   an |-> an, ns |-> <<>>, ar |-> <<>>]

\* some order of a set of records (the order inside a transfer is free)
RECURSIVE SeqOf(_)
SeqOf(S) == IF S = {} THEN <<>> ELSE LET x == CHOOSE y \in S : TRUE IN <<x>> \o SeqOf(S \ {x})

Live == {"start", "second", "axfr", "ixfr"}
Final == {"done", "failed"}

Init ==
    /\ req \in Reqs /\ policy \in Policies /\ cap \in Caps /\ source \in Sources
    /\ sphase = "idle" /\ unsent = Rest /\ wire = <<>> /\ closed = "open"
    /\ cphase = "start" /\ cfirst = <<>> /\ cpar = 0 /\ taken = 0 /\ items = <<>>

ServerKeep == UNCHANGED <<req, policy, cap, source, closed, cphase, cfirst, cpar, taken, items>>
Honest == source = "server" /\ closed = "open"
\* duties under which the whole zone goes out
Transfers == MyDuty = "transfer" \/ MyDuty = "ixfr-older"

(* ---- server: one action per message ---------------------------------------- *)
\* a denied AXFR
Refuse ==
    /\ Honest /\ sphase = "idle" /\ MyDuty = "refused"
    /\ wire' = Append(wire, Msg(Refused, <<>>, "echo")) /\ sphase' = "done" /\ UNCHANGED unsent /\ ServerKeep
\* AXFR over UDP, a denied IXFR: an error without zone data
Decline ==
    /\ Honest /\ sphase = "idle" /\ MyDuty \in {"udp", "ixfr-denied"}
    /\ wire' = Append(wire, Msg(Refused, <<>>, "echo")) /\ sphase' = "done" /\ UNCHANGED unsent /\ ServerKeep
\* IXFR from a client that is current: the single SOA
SendCurrentSoa ==
    /\ Honest /\ sphase = "idle" /\ MyDuty = "ixfr-current"
    /\ wire' = Append(wire, Msg(0, <<Soa>>, "echo")) /\ sphase' = "done" /\ UNCHANGED unsent /\ ServerKeep
\* the whole zone in one message
SendWhole ==
    /\ Honest /\ sphase = "idle" /\ Transfers /\ Cardinality(Rest) + 2 <= cap
    /\ wire' = Append(wire, Msg(0, <<Soa>> \o SeqOf(Rest) \o <<Soa>>, "echo"))
    /\ sphase' = "done" /\ unsent' = {} /\ ServerKeep
\* first message of several: the SOA and some records
SendOpen ==
    /\ Honest /\ sphase = "idle" /\ Transfers
    /\ \E S \in SUBSET unsent :
        /\ Cardinality(S) + 1 <= cap
        /\ wire' = Append(wire, Msg(0, <<Soa>> \o SeqOf(S), "echo")) /\ unsent' = unsent \ S
    /\ sphase' = "sending" /\ ServerKeep
\* an intermediate message: records only; the question MAY be left out
SendMore ==
    /\ Honest /\ sphase = "sending"
    /\ \E S \in (SUBSET unsent) \ {{}}, q \in {"echo", "empty"} :
        /\ Cardinality(S) <= cap
        /\ wire' = Append(wire, Msg(0, SeqOf(S), q)) /\ unsent' = unsent \ S
    /\ UNCHANGED sphase /\ ServerKeep
\* the last message: what is left, then the SOA again
SendClose ==
    /\ Honest /\ sphase = "sending" /\ Cardinality(unsent) + 1 <= cap
    /\ \E q \in {"echo", "empty"} : wire' = Append(wire, Msg(0, SeqOf(unsent) \o <<Soa>>, q))
    /\ unsent' = {} /\ sphase' = "done" /\ ServerKeep

\* AS-IS only ("singleMessage"): the whole answer is one message whatever its capacity; what does
\* not fit is cut off and the message is marked truncated
SendCutOff ==
    /\ "singleMessage" \in Flaws /\ Honest /\ sphase = "idle" /\ Transfers /\ Cardinality(Rest) + 2 > cap
    /\ \E S \in SUBSET Rest :
        /\ Cardinality(S) + 1 = cap
        /\ wire' = Append(wire, [Msg(0, <<Soa>> \o SeqOf(S), "echo") EXCEPT !.tc = TRUE]) /\ unsent' = Rest \ S
    /\ sphase' = "done" /\ ServerKeep

(* ---- anybody else on the stream -------------------------------------------- *)
ScriptEmit ==
    /\ source = "script" /\ closed = "open" /\ Len(wire) < MaxScript
    /\ \E m \in ScriptMsgs : wire' = Append(wire, m)
    /\ UNCHANGED <<sphase, unsent>> /\ ServerKeep
\* the layer below ends the stream (any time, whoever feeds it)
Terminate ==
    /\ closed = "open" /\ \E how \in {"end", "err"} : closed' = how
    /\ UNCHANGED <<req, policy, cap, source, sphase, unsent, wire, cphase, cfirst, cpar, taken, items>>

(* ---- client: one message per action ---------------------------------------- *)
\* one record; last = it is the last record of its message
RecStep(st, r, last) ==
    CASE st.ph = "start" ->
            IF IsSoa(r) THEN [st EXCEPT !.ph = "second", !.first = r]
            ELSE [st EXCEPT !.ph = IF "nonSoaStartEnds" \in Flaws THEN "done" ELSE "failed"]
      [] st.ph = "second" ->
            IF ~IsSoa(r) THEN [st EXCEPT !.ph = "axfr"]
            ELSE IF r = st.first THEN [st EXCEPT !.ph = IF last THEN "done" ELSE "failed"]
            ELSE IF Mode = "ixfr" THEN [st EXCEPT !.ph = "ixfr", !.par = 0]
            ELSE [st EXCEPT !.ph = "failed"]
      [] st.ph = "axfr" ->
            IF ~IsSoa(r) THEN st
            ELSE [st EXCEPT !.ph = IF (r = st.first \/ "anySoaCloses" \in Flaws) /\ last THEN "done" ELSE "failed"]
      [] st.ph = "ixfr" ->
            IF ~IsSoa(r) THEN st
            ELSE IF st.par = 1 /\ r = st.first /\ last THEN [st EXCEPT !.ph = "done"]
            ELSE [st EXCEPT !.par = 1 - st.par]
      \* a record behind the closing SOA in the same message
      [] st.ph = "done" -> IF "nonSoaStartEnds" \in Flaws /\ st.first = <<>> THEN st ELSE [st EXCEPT !.ph = "failed"]
      [] st.ph = "failed" -> st

RECURSIVE Fold(_, _, _)
Fold(st, an, i) == IF i > Len(an) THEN st ELSE Fold(RecStep(st, an[i], i = Len(an)), an, i + 1)

MsgStep(st, m, idx) ==
    IF m.rc # 0 /\ "rcodeIgnored" \notin Flaws THEN [st EXCEPT !.ph = "failed"]
    ELSE LET st2 == Fold(st, m.an, 1) IN
         \* RFC 1995: the first message is a single SOA that is not ahead of the client
         IF idx = 1 /\ Mode = "ixfr" /\ st2.ph = "second" /\ Len(m.an) = 1 /\ st2.first[2] <= req.n
         THEN [st2 EXCEPT !.ph = "done"] ELSE st2

ClientKeep == UNCHANGED <<req, policy, cap, source, sphase, unsent, wire, closed>>

ClientTake ==
    /\ cphase \in Live /\ taken < Len(wire)
    /\ LET st == MsgStep([ph |-> cphase, first |-> cfirst, par |-> cpar], wire[taken + 1], taken + 1) IN
        /\ cphase' = st.ph /\ cfirst' = st.first /\ cpar' = st.par
        /\ items' = Append(items, IF st.ph = "failed" THEN "err" ELSE "ok")
    /\ taken' = taken + 1 /\ ClientKeep

\* the stream is over and the transfer is not: an error, however the stream ended
ClientSeeEnd ==
    /\ cphase \in Live /\ taken = Len(wire) /\ closed # "open"
    /\ IF closed = "end" /\ "plainEndIsSilent" \in Flaws
       THEN cphase' = "done" /\ UNCHANGED items          \* the stream just ends: nothing tells it from a whole transfer
       ELSE cphase' = "failed" /\ items' = Append(items, "err")
    /\ UNCHANGED <<cfirst, cpar, taken>> /\ ClientKeep

Next == Refuse \/ Decline \/ SendCurrentSoa \/ SendWhole \/ SendOpen \/ SendMore \/ SendClose \/ SendCutOff
        \/ ScriptEmit \/ Terminate \/ ClientTake \/ ClientSeeEnd

Spec == Init /\ [][Next]_vars
FairSpec == Spec /\ WF_vars(ClientTake) /\ WF_vars(ClientSeeEnd)
                 /\ WF_vars(Refuse \/ Decline \/ SendCurrentSoa \/ SendWhole \/ SendOpen \/ SendMore \/ SendClose)

(* ---- requirements ------------------------------------------------------------ *)
TypeOK ==
    /\ sphase \in {"idle", "sending", "done"} /\ unsent \subseteq Rest
    /\ closed \in {"open", "end", "err"} /\ cphase \in Live \cup Final
    /\ taken \in 0..Len(wire) /\ cpar \in {0, 1}

\* the honest server, once done, has sent a conforming answer for its duty
X02_ServerAnswerConforms ==
    (source = "server" /\ sphase = "done") => ServerConforms(MyDuty, wire, Zone, req, {})
\* ... and while it is sending: SOA first, no SOA again, no record twice, nothing invented
X02_ServerPrefix ==
    (source = "server" /\ sphase = "sending") =>
        LET flat == FlatAn(wire) IN
        /\ flat[1] = Soa /\ \A i \in 2..Len(flat) : flat[i] \in Rest
        /\ Cardinality(Range(flat)) = Len(flat)
        /\ unsent = Rest \ Range(flat)
\* whole zones only go out under the duties that ask for them
X02_NoDataUnlessOwed ==
    (source = "server" /\ ~Transfers /\ MyDuty # "ixfr-current") => FlatAn(wire) = <<>>

\* "complete" exactly at the first message that completes a whole, error-free answer
X02_ClientCompleteIsWhole ==
    cphase = "done" => /\ DoneAt(wire, taken, Mode, req.n)
                       /\ \A j \in 1..(taken - 1) : ~DoneAt(wire, j, Mode, req.n)
\* the verdict is the declarative one.  "error" is final: the invariant is evaluated again after
\* every further message, so a client that gave up although a continuation completes is caught
X02_ClientVerdict ==
    cphase \in Final =>
        LET v == ClientVerdict(wire, Mode, req.n) IN
        IF cphase = "done" THEN v = [verdict |-> "complete", k |-> taken] ELSE v.verdict = "error"
\* every message up to the end is delivered, an error is reported as one, nothing after the end
X02_Delivery ==
    /\ cphase = "done" => items = [i \in 1..taken |-> "ok"]
    /\ cphase = "failed" => (Len(items) >= 1 /\ items[Len(items)] = "err"
                             /\ \A i \in 1..(Len(items) - 1) : items[i] = "ok")
    /\ cphase \in Live => items = [i \in 1..taken |-> "ok"]
\* an honest transfer arrives whole: all of the zone, and only when the server is through
X02_EndToEnd ==
    (source = "server" /\ Transfers /\ cphase = "done") =>
        /\ sphase = "done" /\ taken = Len(wire)
        /\ Range(Inner(FlatAn(wire))) = Rest
\* ... and only the layer below (or the server's refusal) can make it fail
X02_HonestFailsOnlyBelow ==
    (source = "server" /\ cphase = "failed") => (closed # "open" \/ (~Transfers /\ MyDuty # "ixfr-current"))

\* liveness (under FairSpec): a closed stream is concluded; an honest transfer completes unless cut
X02_Concludes == (closed # "open") ~> (cphase \in Final)
X02_HonestCompletes == (source = "server" /\ (Transfers \/ MyDuty = "ixfr-current")) ~> (cphase = "done" \/ closed # "open")
=============================================================================
