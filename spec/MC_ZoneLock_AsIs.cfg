\* AsIs: a transfer that re-acquires the read lock inside its read section.  EXPECTED to fail:
\* TLC reports the deadlock (transfer holds the outer read lock, a writer queued, the inner read
\* request waits behind the writer; every later query waits too).
SPECIFICATION Spec
CONSTANTS
  Queries <- MC_Queries
  Updates <- MC_Updates
  Transfers <- MC_Transfers
  NestedRead = TRUE
INVARIANTS TypeOK C11_Exclusive
CHECK_DEADLOCK TRUE
