\* X01: the relaxation HostsPerType (what the code does today) violates the requirements -- expected counterexample,
\* never used for conformance
SPECIFICATION Spec
CONSTANTS
  Cfgs <- MC_CfgsHosts
  Outcomes <- TwoOutcomes
  Rules <- MC_RulesHostsPerType
INVARIANTS TypeOK X01_OnlyCandidates X01_ListOrder X01_FqdnAsksOneName X01_NoRepeats X01_NothingLocalAsked
  X01_NothingAfterSuccess X01_OnlyStrategyTypes X01_FamilyOrder X01_QuestionsAsPrescribed X01_ResultAsPrescribed
  X01_ErrorOfLast
CHECK_DEADLOCK FALSE
