-------------------------- MODULE Trace_FrontDoor --------------------------
(* Trace validation for C11 (obligation T: impl -> spec), monitor style.    *)
(* Events recorded by drive_front around the real pre-catalog gate (hook    *)
(* H4) and the real Catalog:                                                *)
(*   reset  case, cfg = [origins, chains: [o, ch], allow, deny]             *)
(*   msg    req = the attributes an independent reader found in the bytes,  *)
(*          obs = what came back (see FrontDoorReq), probe: BOOLEAN,        *)
(*          (optionally ok: the driver's own verdict -- adapter cross-check)*)
(* Every message is judged on its own by FrontDoorReq!Allowed; the probe    *)
(* queries that follow hostile messages are ordinary events, so "keeps      *)
(* serving later requests" is the same check on the next line.              *)
EXTENDS FrontDoorReq, Sequences, TLC, Json, IOUtils

Rec == ndJsonDeserialize(IOEnv.TRACE)

VARIABLES l, cfg, cid, bad
tvars == <<l, cfg, cid, bad>>

Range_(s) == {s[i] : i \in 1..Len(s)}
NoCfg == [origins |-> {}, chain |-> <<>>, allow |-> {}, deny |-> {}]
Init == l = 1 /\ cfg = NoCfg /\ cid = "none" /\ bad = 0

e == Rec[l]
Pfx(p) == [a |-> p.a, len |-> p.len]
Reset ==
    /\ e.ev = "reset"
    /\ cfg' = [origins |-> Range_(e.cfg.origins),
               chain   |-> [og \in Range_(e.cfg.origins) |-> (CHOOSE c \in Range_(e.cfg.chains) : c.o = og).ch],
               allow   |-> {Pfx(p) : p \in Range_(e.cfg.allow)},
               deny    |-> {Pfx(p) : p \in Range_(e.cfg.deny)}]
    /\ cid' = e.case /\ bad' = bad

Req == [short |-> e.req.short, qr |-> e.req.qr, op |-> e.req.op, qd |-> e.req.qd, qok |-> e.req.qok, body |-> e.req.body,
        edns |-> e.req.edns, src |-> e.req.src, qname |-> e.req.qname, loose |-> e.req.loose]
Obs == [replies |-> e.obs.replies, qrset |-> e.obs.qrset, idok |-> e.obs.idok, rcode |-> e.obs.rcode,
        question |-> e.obs.question, zone |-> e.obs.zone, handler |-> e.obs.handler, searched |-> e.obs.searched,
        consulted |-> Range_(e.obs.consulted), panic |-> e.obs.panic]

Msg ==
    /\ e.ev = "msg"
    /\ LET ok == Allowed(Req, cfg, Obs) IN
       /\ IF ok THEN bad' = bad
          ELSE /\ PrintT(<<"MISMATCH", ToJson([case |-> cid, line |-> l, probe |-> e.probe, req |-> e.req, obs |-> e.obs,
                              permitted |-> IF e.req.short \/ e.req.qr THEN {} ELSE PermittedRcodes(Req, cfg),
                              replies |-> ExpectedReplies(Req), echo |-> EchoRequired(Req)])>>)
               /\ bad' = bad + 1
       /\ ("ok" \in DOMAIN e /\ e.ok # ok) => PrintT(<<"ADAPTER-DISAGREES", l>>)
    /\ UNCHANGED <<cfg, cid>>

Next == l <= Len(Rec) /\ l' = l + 1 /\ (Reset \/ Msg)
TraceSpec == Init /\ [][Next]_tvars

Consumed ==
    LET d == TLCGet("stats").diameter IN
    IF d - 1 = Len(Rec) THEN PrintT(<<"TRACE-CONSUMED", Len(Rec)>>)
    ELSE PrintT(<<"TRACE-STUCK", d, Len(Rec)>>) /\ FALSE
=============================================================================
