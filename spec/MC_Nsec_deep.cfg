\* C08 obligation D: three owners besides the apex (chains of 4 records, nested empty non-terminals,
\* wildcard below a delegation's sibling ...), fewer questions
SPECIFICATION Spec
CONSTANTS
  Apex <- MC_Apex
  Universe <- Q_Universe6
  PlainKinds <- MC_PlainKinds
  WildKinds <- MC_WildKinds
  MaxOwners = 3
  QNames <- Q_QNames10
  QTypes <- S_QTypes
  MaxProof = 2
  ParentSide <- MC_ParentSide
INVARIANTS TypeOK C08_Complete C08_Sound C08_ProofFromChain
CHECK_DEADLOCK FALSE
