---------------------------- MODULE MC_Recursor ----------------------------
(* Exhaustive configurations for Recursor (C19, obligation D).               *)
EXTENDS Recursor, RecursorNets

MC_Quick == HostileParams({"in", "sib-noglue", "out", "lame"}, MModes, {"a", "cname-out", "loop2", "none"})
            \cup FilterParams({"in", "sib-noglue", "out", "self"}, {"in", "sib-noglue"}, {"a", "cname-in", "cname-out"})
            \cup V6Params \cup TreeParams({"tree22", "tree23"}) \cup SoaParams \cup DsParams \cup LimParams \cup NsqParams
MC_All   == HostileParams(LModes, MModes, TModes) \cup FilterParams(LModes, MModes, TModes) \cup V6Params
            \cup TreeParams(TreeModes) \cup SoaParams \cup DsParams \cup LimParams \cup NsqParams
\* the counterexample to the "asis" rule: l.t1 is served by a name under the other TLD, whose
\* zone's server adds an address record with a foreign owner to the answers it gives for addresses
MC_AsIsWitness ==
    {P("out", "in", "a", {[ip |-> "a6", sec |-> "an", when |-> "A", qn |-> <<"*">>, r |-> A(H("w", L1), Evil)]},
       NoFilter, NoFilter, "v4")}
=============================================================================
