-------------------------------- MODULE Nsec3 --------------------------------
(* C09 -- NSEC3 denial of existence is sound, complete and iteration-bounded. *)
(*                                                                            *)
(* Same mechanism as Nsec (C08), one action per step:                         *)
(*   AddOwner, Sign (chooses Opt-Out and the hash parameters; generates the   *)
(*   NSEC3 chain), Ask, Respond (RFC 5155 7.2), Forge (any claim, any small   *)
(*   set of genuine NSEC3 records of this zone, its children, its parent and  *)
(*   of this zone's chain under other parameters), Validate (RFC 5155 8 with  *)
(*   RFC 6840 4 and the RFC 9276 3.2 iteration limits).                       *)
(* Hashing is a constant of the model: HT maps a parameter-set id to a        *)
(* function from names to hash values (see Nsec3Ops).                         *)
EXTENDS Nsec3Ops, FiniteSets, TLC

CONSTANTS
    Apex, Universe, PlainKinds, WildKinds, MaxOwners, QNames, QTypes, MaxProof,
    HT,            \* hash table: parameter-set id -> [name -> hash]
    Params,        \* parameter sets the zone may be signed with: records [id, iter]
    StaleParams,   \* parameter sets of an older chain of the same zone still in the attacker's hands
    OptOuts,       \* subset of BOOLEAN: Opt-Out settings to explore
    ParentZone,    \* the parent zone (apex <<>>) around the delegation of Apex, or <<>> for none
    Soft, Hard     \* iteration limits of the validator

VARIABLES zone, phase, oo, par, chain, q, t, resp, genuine, verdict
vars == <<zone, phase, oo, par, chain, q, t, resp, genuine, verdict>>

NoName == <<>>
NoResp == [kind |-> "none", ce |-> NoName, proof |-> {}, zn |-> NoName]
NoPar  == [id |-> "none", iter |-> 0]
ApexTypes == {"SOA", "NS"}
KindsOf(n) == IF IsWildcard(n) THEN WildKinds ELSE PlainKinds

ChildHost(d) == <<<<97>>>> \o d
ChildZone(d) == (d :> {"SOA", "NS", "A"}) @@ (ChildHost(d) :> {"A"})
Cuts == { d \in AuthOwners(zone, Apex) : IsCut(zone, Apex, d) }

Material ==
    chain
    \cup UNION { Chain3(ChildZone(d), d, FALSE, HT[par.id], par) : d \in Cuts }
    \cup (IF ParentZone = <<>> THEN {} ELSE Chain3(ParentZone, <<>>, FALSE, HT[par.id], par))
    \cup UNION { Chain3(zone, Apex, oo, HT[sp.id], sp) : sp \in StaleParams \ {par} }

\* A "no DS" claim is weaker under NSEC3: an Opt-Out span neither asserts nor denies the existence of an
\* insecure delegation (RFC 5155 6), so "no DS RRset at q" is all that is claimed, whether q exists or not.
ClaimTrue3(z, apex, qn, qt, kind, ce) ==
    IF kind = "nodata" /\ qt = "DS"
    THEN Authoritative(z, apex, qn, qt) /\ ~(qn \in DOMAIN z /\ "DS" \in z[qn])
    ELSE ClaimTrue(z, apex, qn, qt, kind, ce)
WorldClaimTrue(qn, qt, kind, ce) ==
    LET ds == { d \in Cuts : IsSubdomain(qn, d) /\ ~(d = qn /\ qt = "DS") } IN
    IF ds = {} THEN ClaimTrue3(zone, Apex, qn, qt, kind, ce)
    ELSE LET d == CHOOSE x \in ds : TRUE IN ClaimTrue3(ChildZone(d), d, qn, qt, kind, ce)

WildCes(qn) == { c \in Ancestors(qn) : IsSubdomain(c, Apex) }
SmallSubsets(S, k) == { P \in SUBSET S : Cardinality(P) <= k }

-----------------------------------------------------------------------------
Init ==
    /\ zone = (Apex :> ApexTypes) /\ phase = "edit" /\ oo = FALSE /\ par = NoPar /\ chain = {}
    /\ q = NoName /\ t = "none" /\ resp = NoResp /\ genuine = FALSE /\ verdict = "none"

AddOwner(n, ts) ==
    /\ phase = "edit" /\ n \notin DOMAIN zone /\ Cardinality(DOMAIN zone) <= MaxOwners
    /\ zone' = zone @@ (n :> ts)
    /\ UNCHANGED <<phase, oo, par, chain, q, t, resp, genuine, verdict>>

Sign(o, p) ==
    /\ phase = "edit"
    /\ oo' = o /\ par' = p
    /\ chain' = Chain3(zone, Apex, o, HT[p.id], p)
    /\ phase' = "signed"
    /\ UNCHANGED <<zone, q, t, resp, genuine, verdict>>

Ask(qn, qt) ==
    /\ phase = "signed" /\ q' = qn /\ t' = qt /\ phase' = "asked"
    /\ UNCHANGED <<zone, oo, par, chain, resp, genuine, verdict>>

\* the zone a genuine response names: its SOA owner / the signer of the expanded answer
Respond ==
    /\ phase = "asked"
    /\ ServerKind(zone, Apex, q, t) # "none"
    /\ resp' = [kind |-> ServerKind(zone, Apex, q, t), ce |-> CE(zone, Apex, q),
                proof |-> ServerProof3(zone, Apex, q, t, oo, HT[par.id], par), zn |-> Apex]
    /\ genuine' = TRUE /\ phase' = "answered"
    /\ UNCHANGED <<zone, oo, par, chain, q, t, verdict>>

RespondOther ==
    /\ phase = "asked"
    /\ ServerKind(zone, Apex, q, t) = "none"
    /\ phase' = "positive"
    /\ UNCHANGED <<zone, oo, par, chain, q, t, resp, genuine, verdict>>

Forge(kind, ce, P, zn) ==
    /\ phase = "asked"
    /\ resp' = [kind |-> kind, ce |-> ce, proof |-> P, zn |-> zn]
    /\ genuine' = FALSE /\ phase' = "answered"
    /\ UNCHANGED <<zone, oo, par, chain, q, t, verdict>>

\* RFC 9276 3.2 first, then RFC 5155 8
Validate ==
    /\ phase = "answered"
    /\ verdict' = IF \E r \in resp.proof : r.params.iter > Hard THEN "Bogus"
                  ELSE IF \E r \in resp.proof : r.params.iter > Soft THEN "Insecure"
                  ELSE IF Entails3(resp.proof, HT, q, t, resp.kind, resp.ce, resp.zn) THEN "Secure"
                  ELSE "Bogus"
    /\ phase' = "validated"
    /\ UNCHANGED <<zone, oo, par, chain, q, t, resp, genuine>>

AddSome  == phase = "edit" /\ \E n \in Universe : \E ts \in KindsOf(n) : AddOwner(n, ts)
SignSome == phase = "edit" /\ \E o \in OptOuts, p \in Params : Sign(o, p)
AskSome  == phase = "signed" /\ \E qn \in QNames, qt \in QTypes : Ask(qn, qt)
\* zones a forged response may name: this zone, a child zone, none
ZoneNames == {Apex, NoName} \cup Cuts
ForgeSome ==
    /\ phase = "asked"
    /\ LET M == SmallSubsets(Material, MaxProof) IN
       \/ \E kind \in {"nxdomain", "nodata"} : \E P \in M : \E zn \in ZoneNames : Forge(kind, NoName, P, zn)
       \/ \E ce \in WildCes(q) : \E P \in M : \E zn \in {Apex} \cup Cuts : Forge("wild", ce, P, zn)

Next == AddSome \/ SignSome \/ AskSome \/ Respond \/ RespondOther \/ ForgeSome \/ Validate
Spec == Init /\ [][Next]_vars

-----------------------------------------------------------------------------
TypeOK ==
    /\ phase \in {"edit", "signed", "asked", "answered", "validated", "positive"}
    /\ verdict \in {"none", "Secure", "Insecure", "Bogus"}
    /\ resp.kind \in {"none", "nxdomain", "nodata", "wild"}
    /\ genuine \in BOOLEAN /\ oo \in BOOLEAN

\* does the prescribed proof rest on an Opt-Out record for something else than DS?  Then RFC 5155 9.2
\* forbids treating the response as secure, and "accepted" cannot mean Secure.
WithinLimits == par.iter <= Soft

(* C09: "for every NSEC3-signed zone and query the server's own proof is      *)
(* accepted" -- as Secure whenever the proof is a full RFC 5155 8 proof, which *)
(* it always is when the zone does not use Opt-Out.                           *)
C09_Complete ==
    (phase = "validated" /\ genuine /\ WithinLimits /\ ~oo) => verdict = "Secure"
C09_CompleteOptOut ==
    (phase = "validated" /\ genuine /\ WithinLimits /\ oo /\ verdict # "Secure")
        => \E r \in resp.proof : r.optout       \* only an Opt-Out record can keep a genuine proof from being Secure

(* C09: accepted as Secure only if the records form the RFC 5155 8 proof --    *)
(* checked here against the content of the name space.                        *)
\* premise of a wildcard claim: the answer's RRSIG (Labels field naming *.ce) is genuine, so *.ce exists
\* in the zone that is authoritative for q
WildcardGenuine(qn, qt, ce) ==
    LET ds == { d \in Cuts : IsSubdomain(qn, d) /\ ~(d = qn /\ qt = "DS") } IN
    IF ds = {} THEN Wildcard(ce) \in AuthOwners(zone, Apex)
    ELSE LET d == CHOOSE x \in ds : TRUE IN Wildcard(ce) \in AuthOwners(ChildZone(d), d)
C09_Sound ==
    (/\ phase = "validated" /\ verdict = "Secure" /\ ~OpenDsCase3(resp.proof, HT, q, t, resp.kind)
     /\ resp.kind = "wild" => WildcardGenuine(q, t, resp.ce))
        => WorldClaimTrue(q, t, resp.kind, resp.ce)

C09_IterationLimits ==
    phase = "validated" =>
        /\ (\E r \in resp.proof : r.params.iter > Hard) => verdict = "Bogus"
        /\ (\E r \in resp.proof : r.params.iter > Soft) => verdict # "Secure"

C09_SameParamsSameZone ==
    (phase = "validated" /\ verdict = "Secure") =>
        /\ \A r1, r2 \in resp.proof : r1.params = r2.params /\ r1.zone = r2.zone
        /\ resp.zn # NoName => \A r \in resp.proof : r.zone = resp.zn

C09_ThreeSuffice ==
    (phase = "validated" /\ verdict = "Secure") =>
        \E P3 \in SmallSubsets(resp.proof, 3) : Entails3(P3, HT, q, t, resp.kind, resp.ce, resp.zn)
C09_Monotone ==
    (phase = "validated" /\ verdict = "Secure") =>
        \A r \in { x \in Material : x.params = par /\ x.zone = (CHOOSE y \in resp.proof : TRUE).zone } :
            Entails3(resp.proof \cup {r}, HT, q, t, resp.kind, resp.ce, resp.zn)

W_SecureForged == ~(phase = "validated" /\ ~genuine /\ verdict = "Secure")
W_BogusTrue    == ~(phase = "validated" /\ ~genuine /\ verdict = "Bogus" /\ WorldClaimTrue(q, t, resp.kind, resp.ce))
W_Insecure     == ~(phase = "validated" /\ verdict = "Insecure")
=============================================================================
