\* required design: one read section per transfer; deadlock-free, every request completes
SPECIFICATION FairSpec
CONSTANTS
  Queries <- MC_Queries
  Updates <- MC_Updates
  Transfers <- MC_Transfers
  NestedRead = FALSE
INVARIANTS TypeOK C11_Exclusive
PROPERTY C11_EveryRequestCompletes
CHECK_DEADLOCK TRUE
