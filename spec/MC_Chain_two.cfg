SPECIFICATION Spec
CONSTANTS
  Worlds <- MC_WorldsTwo
  Queries <- MC_Queries
  MaxFaults = 2
  FaultsOf <- MC_FaultsOf
  AsIs = {}
INVARIANTS TypeOK C07_SecureImpliesChain C07_InsecureOnlyProven C07_TamperNeverDowngrades C07_NegSecure C07_AD C07_DepthBounded ModelComplete
CHECK_DEADLOCK FALSE
