\* all chunkings / Pending placements / close positions; liveness is checked here
SPECIFICATION FairSpec
CONSTANTS
  InLens  <- MCZ_InLens
  OutLens <- MC_OutLens
  InMsgs  <- MC_InMsgs
  OutMsgs <- MC_OutMsgs
  ChunkSet <- MC_ChunkSet
  CloseSet <- MC_CloseSet
INVARIANTS TypeOK C17_DeliveredExact C17_DeliveredIsPrefixOfSent C17_WireFormat C17_CleanEof C17_ErrorInside
PROPERTY C17_EventuallyAll
CHECK_DEADLOCK FALSE
