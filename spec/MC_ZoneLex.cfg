\* every string of length <= MaxLen over one representative per character class
SPECIFICATION LSpec
CONSTANTS
  Alphabet <- MC_Alphabet
  MaxLen = 4
INVARIANTS C20_LexTotal C20_LexLayout C20_LexAgree
PROPERTY C20_LexTerminates
CHECK_DEADLOCK FALSE
