---------------------------- MODULE Gen_Recursor ----------------------------
(* Case generator for Recursor (C19, obligation R: spec -> impl).            *)
(* TLC walks the resolver model over a family of simulated internets; every  *)
(* completed behaviour is printed as one REPLAY line with                    *)
(*   net, q, lim   the internet (zones, hostile additions, filters), the     *)
(*                 question and the depth limits;                            *)
(*   exp           what the specification prescribes whatever the resolver   *)
(*                 does in detail: the records that may ever be handed out   *)
(*                 (those some server sends in bailiwick, minus filtered     *)
(*                 addresses), the addresses that may ever be contacted      *)
(*                 (root hints and addresses so received, minus filtered     *)
(*                 ones), and the bound on upstream queries;                 *)
(*   model         what the model itself did (diagnostic / vacuity only).    *)
(* The driver builds the internet from `net` (plain per-address tables), runs *)
(* the real Recursor on it, then silences the network and asks again for     *)
(* every name a hostile server mentioned; the recorded events are judged by  *)
(* the monitor Trace_Recursor.                                               *)
EXTENDS Recursor, Json

\* every record the server at ip can ever send
Sendable(ip) ==
    UNION {z.recs \cup {Soa(z)} : z \in ServedAt(net, ip)} \cup {i.r : i \in {x \in net.inj : x.ip = ip}}
\* ... of which in bailiwick for some zone it is delegated
GoodFrom(ip) == {r \in Sendable(ip) : \E z \in Delegated(net, ip) : InZone(r.o, z)}
AllGood == UNION {GoodFrom(ip) : ip \in AddrsOf(net)}

\* the depth limits of the case: the internet's own, else the generator's
CaseLim == IF net.lim.rec = 0 THEN Lim ELSE net.lim

Case ==
    [net |-> net, q |-> q, lim |-> CaseLim,
     exp |-> [records |-> AllGood \ DeniedAnswers(net, AllGood),
              contact |-> {a \in net.roots \cup {AddrOf(r) : r \in {x \in AllGood : IsAddr(x)}} : ~DeniedContact(net, a)},
              bound |-> Bound(net, CaseLim)],
     model |-> [kind |-> out.kind, recs |-> out.recs, asked |-> Len(log)]]

Emit == Done => PrintT(<<"REPLAY", ToJson(Case)>>)
=============================================================================
