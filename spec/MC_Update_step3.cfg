\* inductive step, 3 in-zone owners (thorough)
SPECIFICATION Spec
CONSTANTS
  Apex <- AP
  Owners <- Owners3
  InitZones <- MC_AllZones
  InitSers <- MC_Sers
  Msgs <- MC_MsgsAll
  MaxMsgs = 1
INVARIANTS TypeOK C12_AllOrNothing C12_Contents C12_PrereqOnCurrentZone C12_OneSOA C12_ApexNS C12_CnameAlone C12_SerialIffChanged C12_PseudoProseAgree
CHECK_DEADLOCK FALSE
