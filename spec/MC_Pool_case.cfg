\* case randomisation (0x20) and servers whose UDP replies mangle the letter case of the question
SPECIFICATION Spec
CONSTANTS
  Configs <- MC_Case
  NCallers = 1
  Gaps <- MC_Gaps
  Backoff0 = 20
  BackoffCap = 300
  DeadlineRule = "required"
  UdpRule = "required"
INVARIANTS TypeOK C18_Deadline C18_FindsHealthy C18_TcpRetry C18_UntrustedNxContinues C18_SharedOnce C18_MapCleaned
CHECK_DEADLOCK FALSE
