\* the rule the code follows today (UDP-only servers dropped after a truncated reply): C18_FindsHealthy fails
SPECIFICATION Spec
CONSTANTS
  Configs <- MC_UdpWitness
  NCallers = 1
  Gaps <- MC_Gaps
  Backoff0 = 20
  BackoffCap = 300
  DeadlineRule = "required"
  UdpRule = "asis"
INVARIANTS C18_FindsHealthy
CHECK_DEADLOCK FALSE
