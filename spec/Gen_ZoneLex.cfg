\* stand-alone sample; ./check C20 generates the wrapper configurations (length 0..3 and 4)
SPECIFICATION GSpec
CONSTANTS
  Alphabet <- G_Alphabet
  MaxLen = 2
  MinLen = 0
  Templates <- G_Templates
  Origin0 <- G_Origin
INVARIANT Emit
CHECK_DEADLOCK FALSE
