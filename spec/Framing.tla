------------------------------ MODULE Framing ------------------------------
(* Pure operators of RFC 1035 section 4.2.2 / RFC 7766 framing: every message *)
(* on a stream is preceded by a two-octet length.  Constant-free, shared by   *)
(* TcpFraming (machine + requirements) and Trace_TcpFraming (monitor).        *)
EXTENDS Naturals, Sequences, SequencesExt

Byte(n)   == n % 256
Frame(m)  == <<Byte(Len(m) \div 256), Byte(Len(m))>> \o m
FrameCat(ms) == FlattenSeq([i \in 1..Len(ms) |-> Frame(ms[i])])

\* Number of whole frames contained in the first n bytes of wire stream w (counting stops at a
\* zero-length frame, which is not a message), and the offset just after the last whole frame.
RECURSIVE WholeFrames(_, _, _)
WholeFrames(w, n, from) ==
    IF from + 2 > n THEN <<0, from>>
    ELSE LET l == w[from + 1] * 256 + w[from + 2] IN
         IF l = 0 \/ from + 2 + l > n THEN <<0, from>>
         ELSE LET r == WholeFrames(w, n, from + 2 + l) IN <<r[1] + 1, r[2]>>

\* TRUE iff the first n bytes of w end exactly at a frame boundary
AtBoundary(w, n) == WholeFrames(w, n, 0)[2] = n

\* TRUE iff a zero-length frame header lies at the first incomplete position
ZeroFrameAt(w, n) ==
    LET o == WholeFrames(w, n, 0)[2] IN o + 2 <= n /\ w[o + 1] = 0 /\ w[o + 2] = 0
=============================================================================
