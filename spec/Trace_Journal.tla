--------------------------- MODULE Trace_Journal ---------------------------
(* Trace validation for C14 (obligation T: impl -> spec), monitor style.     *)
(* Extends the C12 monitor with the events of the cut-journal experiment:    *)
(*   reset / msg   as in Trace_Update, plus rows = journal rows so far       *)
(*   cut   k, ok, rrs, ser   the journal cut after row k (what a process     *)
(*         stop right after the k-th row commit leaves behind) was recovered *)
(*         by a fresh SqliteZoneHandler::try_from_config: success flag and   *)
(*         the recovered zone                                                *)
(*   rmsg  like msg: a message sent to the recovered zone                    *)
(*   cut2  k, ok, rrs, ser   second stop, inside the continued history       *)
(* The boundaries of the history are the zones the implementation itself     *)
(* had after each message (so a C12 defect is not blamed on the journal);    *)
(* JournalOps!RecoveryOK decides every cut, and the messages after a         *)
(* recovery are judged exactly like the ones before it ("further updates     *)
(* after recovery behave as if no restart had happened").                    *)
EXTENDS Trace_Update, JournalOps

VARIABLES B,        \* boundaries of the main history: <<[rrs, ser, rows], ...>>
          B2,       \* boundaries of the history continued after the last cut
          dead      \* the last recovery failed or gave no zone: nothing to continue

jvars == <<tvars, B, B2, dead>>

JInit == Init /\ B = <<>> /\ B2 = <<>> /\ dead = FALSE

\* sg: the zone of the case is one the server signs itself (reset event, field signed)
Bd(st, rows, sg) == [rrs |-> st.rrs, ser |-> st.ser, rows |-> rows, sg |-> sg]

JReset == Reset /\ B' = <<Bd(S', e.rows, Has("signed") /\ e.signed)>> /\ B2' = <<>> /\ dead' = FALSE
JMsg   == MsgStep("msg") /\ B' = Append(B, Bd(S', e.rows, B[1].sg)) /\ UNCHANGED <<B2, dead>>
JRMsg  == ~dead /\ MsgStep("rmsg") /\ B2' = Append(B2, Bd(S', e.rows, B2[1].sg)) /\ UNCHANGED <<B, dead>>

Rcv == [rrs |-> FoldRRs(e.rrs), ser |-> e.ser]

CutReport(kind, Bs) ==
    LET i == LastReached(Bs, e.k) IN
    PrintT(<<"MISMATCH", ToJson([case |-> cid, line |-> l, kind |-> kind, k |-> e.k, ok |-> e.ok,
              err |-> IF Has("err") THEN e.err ELSE "",
              where |-> Where(Bs, e.k),
              rows_at |-> [j \in 1..Len(Bs) |-> Bs[j].rows],
              last_reached |-> i,
              \* which boundaries have the recovered content / content and serial
              same_content |-> {j \in 1..Len(Bs) : Rcv.rrs = Bs[j].rrs},
              is_boundary |-> {j \in 1..Len(Bs) : IsBoundary(Rcv, Bs[j])},
              candidates |-> Candidates(Bs, e.k),
              serial_not_behind |-> SerialNotBehind(Bs, e.k, Rcv),
              ser |-> Rcv.ser,
              sers |-> [j \in 1..Len(Bs) |-> Bs[j].ser],
              well_formed |-> WellFormed(Rcv.rrs, apex)])>>)

Cut ==
    /\ e.ev = "cut" /\ ~skipping
    /\ IF RecoveryOK(B, e.k, e.ok, Rcv) THEN bad' = bad
       ELSE CutReport("cut", B) /\ bad' = bad + 1
    \* the continuation starts from what was really recovered, if that is a zone at all
    /\ IF e.ok /\ WellFormed(Rcv.rrs, apex)
       THEN S' = Rcv /\ dead' = FALSE /\ B2' = <<Bd(Rcv, e.k, B[1].sg)>>
       ELSE S' = S /\ dead' = TRUE /\ B2' = <<>>
    /\ gh' = (IF Has("ghosts") THEN e.ghosts ELSE <<>>)
    /\ UNCHANGED <<cid, apex, skipping, B>>

Cut2 ==
    /\ e.ev = "cut2" /\ ~skipping /\ ~dead
    /\ IF RecoveryOK(B2, e.k, e.ok, Rcv) THEN bad' = bad
       ELSE CutReport("cut2", B2) /\ bad' = bad + 1
    /\ UNCHANGED <<cid, apex, S, gh, skipping, B, B2, dead>>

\* the driver could not even set up the continuation (its two recovery paths disagree)
RErr ==
    /\ e.ev = "rerr" /\ ~skipping
    /\ PrintT(<<"MISMATCH", ToJson([case |-> cid, line |-> l, kind |-> "rerr", event |-> e])>>)
    /\ bad' = bad + 1 /\ dead' = TRUE
    /\ UNCHANGED <<cid, apex, S, gh, skipping, B, B2>>

JSkip  == Skip /\ UNCHANGED <<B, B2, dead>>
JDead  == ~skipping /\ dead /\ e.ev \in {"rmsg", "cut2"} /\ UNCHANGED <<cid, apex, S, gh, skipping, bad, B, B2, dead>>
JAxfr  == Axfr /\ UNCHANGED <<B, B2, dead>>

JNext == l <= Len(Rec) /\ l' = l + 1 /\ (JReset \/ JMsg \/ JRMsg \/ Cut \/ Cut2 \/ RErr \/ JAxfr \/ JSkip \/ JDead)

JTraceSpec == JInit /\ [][JNext]_jvars
=============================================================================
