\* inductive step, 2 in-zone owners, serial 10 (quick)
SPECIFICATION Spec
CONSTANTS
  Apex <- AP
  Owners <- Owners2
  InitZones <- MC_SomeZones
  InitSers <- MC_OneSer
  Msgs <- MC_MsgsQuick
  MaxMsgs = 1
INVARIANTS TypeOK C12_AllOrNothing C12_Contents C12_PrereqOnCurrentZone C12_OneSOA C12_ApexNS C12_CnameAlone C12_SerialIffChanged C12_PseudoProseAgree
CHECK_DEADLOCK FALSE
