SPECIFICATION Spec
CONSTANTS
  GClasses = {1, 255}
  Pairs = FALSE
INVARIANT Emit
CHECK_DEADLOCK FALSE
