SPECIFICATION Spec
CONSTANTS
  GClasses = {1, 255}
  Pairs = FALSE
  TlvMaxItems = 2
  TlvLens = {0, 1, 5}
  TlvDeltas <- MC_TlvDeltas
INVARIANT Emit
CHECK_DEADLOCK FALSE
