---------------------------- MODULE UdpMatchOps ----------------------------
(***************************************************************************)
(* C16, datagram half -- pure operators, constant-free, shared by          *)
(* UdpMatch (machine + requirements), Gen_UdpMatch (case generator) and    *)
(* Trace_UdpMatch (monitor).                                               *)
(*                                                                         *)
(* Written from the property text and RFC 1035 section 7.3 ("match the     *)
(* response to a current resolver request ... using the ID field ... and   *)
(* then verify that the question section corresponds"), RFC 5452 section   *)
(* 9.1 (a response is accepted only if it comes from the address and port  *)
(* the question was sent to, carries the same ID and the same question)    *)
(* and draft-vixie-dnsext-dns0x20 (the reply must preserve the query's     *)
(* letter case).  Nothing here is copied from udp_client_stream.rs.        *)
(*                                                                         *)
(* Two levels of description of a datagram:                                *)
(*  - CONCRETE (trace events): [ip, port, dec, id, qs] with ip a sequence  *)
(*    of octets, qs a sequence of [name, type, class], a name a sequence   *)
(*    of labels, a label a sequence of octets (DESIGN Appendix A.1);       *)
(*  - VIEW (what the property talks about): how the datagram relates to    *)
(*    the transmission it arrives for:                                     *)
(*       [ip, port, dec (it is a DNS response: decodable, QR = 1), id :    *)
(*        BOOLEAN,                                                         *)
(*        qs : Seq([asked : BOOLEAN, exact : BOOLEAN])]                    *)
(*    `View` maps the first to the second; `Matches` is defined on views.  *)
(***************************************************************************)
EXTENDS Naturals, Sequences, FiniteSets

\* "at most three datagrams are examined per transmission"
Cap == 3

Least(a, b) == IF a < b THEN a ELSE b

(***************************************************************************)
(* Names: RFC 1035 2.3.3 / RFC 4343 -- comparison is case-insensitive for  *)
(* ASCII letters only.                                                     *)
(***************************************************************************)
Fold(b) == IF b >= 65 /\ b <= 90 THEN b + 32 ELSE b
LabelEqFold(a, b) == Len(a) = Len(b) /\ \A i \in 1..Len(a) : Fold(a[i]) = Fold(b[i])
NameEqFold(m, n)  == Len(m) = Len(n) /\ \A i \in 1..Len(m) : LabelEqFold(m[i], n[i])

\* question q of a reply is question a of the request (RFC 1035 4.1.2: QNAME, QTYPE, QCLASS)
SameQuestion(q, a) == NameEqFold(q.name, a.name) /\ q.type = a.type /\ q.class = a.class
\* ... and is spelled with identical letter case
SameSpelling(q, a) == SameQuestion(q, a) /\ q.name = a.name

QRel(q, asked) ==
    [asked |-> \E i \in 1..Len(asked) : SameQuestion(q, asked[i]),
     exact |-> \E i \in 1..Len(asked) : SameSpelling(q, asked[i])]

\* tx = [ip, port, id, qs]: where the request went, its ID, its question section
\* d  = [ip, port, dec, id, qs]: where the datagram came from, whether it is a DNS message at
\*      all, and (if so) its ID and question section
View(tx, d) ==
    [ip   |-> d.ip = tx.ip,
     port |-> d.port = tx.port,
     dec  |-> d.dec,
     id   |-> d.dec /\ d.id = tx.id,
     qs   |-> IF d.dec THEN [i \in 1..Len(d.qs) |-> QRel(d.qs[i], tx.qs)] ELSE <<>>]

(***************************************************************************)
(* THE matching rule of the property:                                      *)
(*  "came from the queried address and port, carries the query's ID, and   *)
(*   whose question section names only questions that were asked (with     *)
(*   identical letter case when case randomisation is on)".                *)
(* A reply with an empty question section names no question that was not   *)
(* asked; the property does not require every asked question to be echoed. *)
(***************************************************************************)
Matches(v, caseRand) ==
    /\ v.ip /\ v.port /\ v.dec /\ v.id
    /\ \A i \in 1..Len(v.qs) : v.qs[i].asked /\ (caseRand => v.qs[i].exact)

(***************************************************************************)
(* What may happen to one examined datagram.                               *)
(*  - It completes the query only if it matches.  The property does not    *)
(*    oblige an implementation to accept a matching one ("completes ONLY   *)
(*    with ...").                                                          *)
(*  - "other datagrams are skipped".  Whether a datagram that came from    *)
(*    the queried address and port but is not an acceptable reply          *)
(*    (undecodable, wrong ID, wrong question or case) is skipped or ends   *)
(*    the query in an error is left open.  A datagram from ANYWHERE ELSE   *)
(*    is ignored whatever its content: anybody can send one, so it may     *)
(*    neither complete nor fail the query (it still counts as examined).   *)
(***************************************************************************)
FromServer(v) == v.ip /\ v.port
Verdicts(v, caseRand) ==
    {"skip"} \cup (IF FromServer(v) THEN {"fail"} ELSE {})
             \cup (IF Matches(v, caseRand) THEN {"accept"} ELSE {})

(***************************************************************************)
(* Outcome of one transmission facing the arrival sequence s (views, all   *)
(* delivered before the deadline), as a record                             *)
(*     [o : "accept" | "error" | "timeout", ex : examined, pos : position  *)
(*      of the accepted datagram in arrival order, 0 if none].             *)
(*                                                                         *)
(* Allowed = exactly what the property permits (closed form of the         *)
(* machine in UdpMatch.tla; MC_UdpMatch checks the two against each        *)
(* other).                                                                 *)
(***************************************************************************)
Out(o, ex, pos) == [o |-> o, ex |-> ex, pos |-> pos]

\* an error after k examined datagrams needs a reason: nothing was examined yet (local failure),
\* the k-th datagram came from the server (Fail), or the cap was reached (GiveUp)
ErrorAt(s, k) == k = 0 \/ k = Cap \/ FromServer(s[k])

Allowed(s, caseRand) ==
    LET n == Least(Cap, Len(s)) IN
    {Out("accept", i, i) : i \in {j \in 1..n : Matches(s[j], caseRand)}}
    \cup {Out("timeout", k, 0) : k \in 0..n}
    \cup {Out("error", k, 0) : k \in {j \in 0..n : ErrorAt(s, j)}}

(***************************************************************************)
(* Prompt = the outcomes of an implementation that, in addition, never     *)
(* declines a matching datagram and never stops while an unexamined        *)
(* datagram is waiting and the cap is not reached.  Advisory only: it is   *)
(* used to measure how many generated cases the implementation completes   *)
(* (anti-vacuity); a deviation from Prompt inside Allowed is not a         *)
(* violation of C16.                                                       *)
(***************************************************************************)
RECURSIVE PromptFrom(_, _, _)
PromptFrom(s, k, caseRand) ==
    IF k = Cap THEN {Out("error", k, 0), Out("timeout", k, 0)}
    ELSE IF k = Len(s) THEN {Out("timeout", k, 0)}
    ELSE IF Matches(s[k + 1], caseRand) THEN {Out("accept", k + 1, k + 1)}
    ELSE (IF FromServer(s[k + 1]) THEN {Out("error", k + 1, 0)} ELSE {}) \cup PromptFrom(s, k + 1, caseRand)
Prompt(s, caseRand) == PromptFrom(s, 0, caseRand)

(***************************************************************************)
(* The forgery catalogue of the property's quantifier ("wrong source,      *)
(* wrong port, wrong id, wrong/extra question, case-flipped name,          *)
(* garbage") as views, for a request with nq questions.  Each kind differs *)
(* from the genuine reply in exactly one respect, so that every single     *)
(* comparison the property demands is exercised on its own.                *)
(***************************************************************************)
QOk   == [asked |-> TRUE,  exact |-> TRUE]     \* an asked question, spelled as asked
QCase == [asked |-> TRUE,  exact |-> FALSE]    \* an asked question, letter case changed
QBad  == [asked |-> FALSE, exact |-> FALSE]    \* a question that was not asked

Genuine(nq) == [ip |-> TRUE, port |-> TRUE, dec |-> TRUE, id |-> TRUE, qs |-> [i \in 1..nq |-> QOk]]

\* "not a DNS response" shapes: garbage (a header announcing a question that is cut off), short
\* (fewer than 12 octets), queryCopy (the request itself reflected: QR = 0); each from the server,
\* from another address (..Off) and from another port of the server's address (..Port)
Kinds == {"genuine", "srcIp", "srcPort", "id", "qname", "qcase", "qtype", "qclass", "extraQ",
          "noQ", "subsetQ",
          "garbage", "garbageOff", "garbagePort", "short", "shortOff", "shortPort",
          "queryCopy", "queryOff", "queryPort"}

NotResp(ipOk, portOk) == [ip |-> ipOk, port |-> portOk, dec |-> FALSE, id |-> FALSE, qs |-> <<>>]

KindView(k, nq) ==
    LET g == Genuine(nq) IN
    CASE k = "genuine"    -> g
      [] k = "srcIp"      -> [g EXCEPT !.ip = FALSE]
      [] k = "srcPort"    -> [g EXCEPT !.port = FALSE]
      [] k = "id"         -> [g EXCEPT !.id = FALSE]
      [] k = "qname"      -> [g EXCEPT !.qs = <<QBad>>]                 \* another name
      [] k = "qtype"      -> [g EXCEPT !.qs = <<QBad>>]                 \* asked name, another type
      [] k = "qclass"     -> [g EXCEPT !.qs = <<QBad>>]                 \* asked name, another class
      [] k = "qcase"      -> [g EXCEPT !.qs = [i \in 1..nq |-> IF i = 1 THEN QCase ELSE QOk]]
      [] k = "extraQ"     -> [g EXCEPT !.qs = Append(g.qs, QBad)]       \* asked ones plus one more
      [] k = "noQ"        -> [g EXCEPT !.qs = <<>>]                     \* empty question section
      [] k = "subsetQ"    -> [g EXCEPT !.qs = <<QOk>>]                  \* only the first asked one
      [] k \in {"garbage", "short", "queryCopy"}         -> NotResp(TRUE, TRUE)
      [] k \in {"garbageOff", "shortOff", "queryOff"}    -> NotResp(FALSE, TRUE)
      [] k \in {"garbagePort", "shortPort", "queryPort"} -> NotResp(TRUE, FALSE)
=============================================================================
