\* a back-off that gives up on busy servers after 140 ms of pauses (20, 40, 80): C18_FindsHealthy fails (witness that the back-pressure clause binds)
SPECIFICATION Spec
CONSTANTS
  Configs <- MC_Busy
  NCallers = 1
  Gaps <- MC_Gaps
  Backoff0 = 20
  BackoffCap = 100
  DeadlineRule = "required"
  UdpRule = "required"
INVARIANTS C18_FindsHealthy
CHECK_DEADLOCK FALSE
