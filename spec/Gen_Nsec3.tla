------------------------------ MODULE Gen_Nsec3 ------------------------------
(* Case generator for Nsec3 (C09, obligation R: spec -> impl).  As Gen_Nsec:  *)
(* one REPLAY line per (zone, Opt-Out, parameter set, question) with the      *)
(* indexed pool of genuine NSEC3 records an attacker can use, the proof       *)
(* RFC 5155 7.2 prescribes, and for every claim (kind, closest encloser of    *)
(* the expanded wildcard, zone the response names) the exact family of record *)
(* subsets (up to GenK records) Entails3 accepts.  The hash table HT is a     *)
(* constant computed from REAL hashes (SHA-1, the configured salts and        *)
(* iteration counts) by the driver before TLC starts, so the hash order TLC   *)
(* reasons about is the one verify_nsec3 will see.                            *)
EXTENDS Nsec3, Json, SequencesExt

CONSTANT GenK

ZoneList == { [n |-> n, ty |-> zone[n]] : n \in DOMAIN zone }
Src(r) == IF r \in chain THEN "chain"
          ELSE IF r.zone = Apex THEN "stale"
          ELSE IF r.zone = <<>> THEN "parent" ELSE "child"
CutsAboveQ == { d \in Cuts : IsSubdomain(q, d) }

Case ==
    LET pool   == TLCEval(SetToSeq(Material))
        idx    == 1..Len(pool)
        R(S)   == { pool[i] : i \in S }
        smallK == TLCEval(SmallSubsets(idx, GenK))
        \* only subsets of one zone and one parameter set can entail anything (C09_SameParamsSameZone)
        homog  == TLCEval({ S \in smallK : \A i, j \in S : pool[i].params = pool[j].params /\ pool[i].zone = pool[j].zone })
        \* the hash table restricted to the names a claim about q can involve (q, its ancestors, the
        \* wildcards at them): same values, much cheaper to apply than the table of the whole universe
        rel    == UNION { {a, Wildcard(a)} : a \in AncestorsOrSelf(q) }
        \* ("@@ <<>>" makes TLC turn the lazily evaluated function expression into an explicit function)
        HTq    == [ id \in { pool[i].params.id : i \in idx } |-> ([ n \in rel |-> HT[id][n] ] @@ <<>>) ] @@ <<>>
        \* Entails3 = Entails3Core /\ ZoneOk: the core is evaluated once per (kind, ce), the zone named by
        \* the response only filters
        Core(kind, ce) == TLCEval({ S \in homog : Entails3Core(R(S), HTq, q, t, kind, ce, {}) })
        Open(kind)     == IF kind = "nodata" /\ t = "DS" THEN TLCEval({ S \in smallK : OpenDsCase3(R(S), HTq, q, t, kind) }) ELSE {}
        ClaimRecs(kind, ce, zns) ==
            LET core == Core(kind, ce) open == Open(kind) tr == WorldClaimTrue(q, t, kind, ce) IN
            { [kind |-> kind, ce |-> ce, zn |-> zn,
               sets |-> { S \in core : ZoneOk(R(S), q, zn, {}) }, open |-> open, true |-> tr] : zn \in zns }
        sk == ServerKind(zone, Apex, q, t)
        sp == ServerProof3(zone, Apex, q, t, oo, HT[par.id], par)
        sce == IF sk = "wild" THEN CE(zone, Apex, q) ELSE NoName
    IN  [apex |-> Apex, zone |-> ZoneList, oo |-> oo, par |-> par, q |-> q, t |-> t, k |-> GenK,
         soft |-> Soft, hard |-> Hard,
         lookup |-> Lookup(zone, Apex, q, t),
         ent |-> (q \notin DOMAIN zone /\ Exists(zone, Apex, q)),
         pool |-> [i \in idx |-> [on |-> pool[i].on, nn |-> pool[i].nn, types |-> pool[i].types,
                                  optout |-> pool[i].optout, zone |-> pool[i].zone, params |-> pool[i].params,
                                  src |-> Src(pool[i])]],
         hardIdx |-> { i \in idx : pool[i].params.iter > Hard },
         softIdx |-> { i \in idx : pool[i].params.iter > Soft },
         server |-> [kind |-> sk, ce |-> sce, zn |-> Apex, proof |-> { i \in idx : pool[i] \in sp },
                     entails |-> (sk # "none" /\ Entails3(sp, HT, q, t, sk, sce, Apex))],
         claims |-> UNION { ClaimRecs(kind, NoName, {Apex, NoName} \cup CutsAboveQ) : kind \in {"nxdomain", "nodata"} }
                      \cup UNION { ClaimRecs("wild", c, {Apex} \cup CutsAboveQ) : c \in WildCes(q) }]

Emit == phase = "asked" => PrintT(<<"REPLAY", ToJson(Case)>>)

GenNext == AddSome \/ SignSome \/ AskSome
GenSpec == Init /\ [][GenNext]_vars
=============================================================================
