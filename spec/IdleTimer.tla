------------------------------ MODULE IdleTimer ------------------------------
(* The server-side wrapper around a framed stream (TimeoutStream): an IDLE     *)
(* timer.  It is armed at the first poll and RE-ARMED by every item the        *)
(* wrapped stream yields; a poll that finds the wrapped stream pending ends    *)
(* the connection with an error iff the timer has run out.                     *)
(* Requirements (C17 is about framing being independent of chunking: a         *)
(* wrapper must not add a dependency on how long the connection has existed):  *)
(*   ActiveNeverCut  no error while less than T has passed since the last      *)
(*                   delivery (or the first poll)                              *)
(*   IdleFires       a poll after T or more without delivery ends the stream   *)
(* Binding: drive_tcp (VERIF_TCP_WRAP=timeout) replays the TcpFraming          *)
(* schedules through the real TimeoutStream with T = 10 virtual seconds, lets  *)
(* 0.6 T pass after every delivered message (the Gap of this model) and T + 1  *)
(* after quiescence; the outcome must equal that of the bare stream and the    *)
(* final idle poll must fire.                                                  *)
EXTENDS Naturals

CONSTANTS T, Gap, MaxNow

VARIABLES now, armedAt, polled, st
vars == <<now, armedAt, polled, st>>

Init == now = 0 /\ armedAt = 0 /\ polled = FALSE /\ st = "open"

\* the wrapped stream yields a message: the timer is re-armed, then the peer pauses for Gap
Deliver == /\ st = "open" /\ now + Gap <= MaxNow
           /\ armedAt' = now /\ polled' = TRUE /\ now' = now + Gap /\ UNCHANGED st
\* the wrapped stream is pending (a frame is incomplete, or nothing is there yet)
Pending == /\ st = "open"
           /\ polled' = TRUE
           /\ armedAt' = IF polled THEN armedAt ELSE now
           /\ st' = IF polled /\ now - armedAt >= T THEN "timedout" ELSE "open"
           /\ UNCHANGED now
\* nothing happens for a while
Wait == st = "open" /\ now + 1 <= MaxNow /\ now' = now + 1 /\ UNCHANGED <<armedAt, polled, st>>

Next == Deliver \/ Pending \/ Wait
Spec == Init /\ [][Next]_vars

ActiveNeverCut == st = "timedout" => now - armedAt >= T
\* with Gap < T a peer that keeps delivering is never cut, however old the connection is
BusyNeverCut == [][(st = "open" /\ st' = "timedout") => now - armedAt >= T]_vars
=============================================================================
