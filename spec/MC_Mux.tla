------------------------------ MODULE MC_Mux ------------------------------
(* Exhaustive configuration for Mux (C16, obligation D).                  *)
EXTENDS Mux, TLC
\* requests are interchangeable and so are wire IDs (model values in the cfg)
MC_Symm == Permutations(Reqs) \cup Permutations(Ids)
=============================================================================
