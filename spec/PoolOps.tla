------------------------------ MODULE PoolOps ------------------------------
(* C18 -- requirement operators of the name-server pool, constant-free so    *)
(* that the machine (Pool), the generator (Gen_Pool) and the trace monitor   *)
(* (Trace_Pool) share one definition.                                        *)
(*                                                                           *)
(* Everything here is phrased on what an observer of the pool sees:          *)
(*   cfg       [T, ta, nconc, strategy, servers]; times in milliseconds;     *)
(*             T = configured timeout, ta = per-attempt timeout of a         *)
(*             connection (ta <= T; the stock provider uses ta = T), ct =    *)
(*             configured timeout of a TCP connection attempt, cr = case     *)
(*             randomisation of question names (0x20) configured;            *)
(*   server    [trusted, udp, tcp, tc, idle]: a script per configured        *)
(*             transport (empty = transport not configured); the n-th        *)
(*             request a (server, transport) pair receives is treated        *)
(*             according to the n-th behaviour of its script (the last one   *)
(*             repeats); tc is the script of its TCP connection attempts     *)
(*             ([k, lat] with k in ok | refused | blackhole), idle > 0 means *)
(*             it closes a TCP connection that many ms after its last reply  *)
(*             when nothing is outstanding (and accepts a new connection);   *)
(*   behaviour [k, lat]: k in answer | nx | trunc | io | busy | timeout |    *)
(*             sendfail | recvfail | casemangle;                             *)
(*   attempt   [s, p, n, o, q, st, en, res]: request number n to server s    *)
(*             over p, made at time st on behalf of caller o (the origin),   *)
(*             res = "" while no reply has been delivered (an attempt the    *)
(*             pool abandons stays that way); p = "conn" records the n-th    *)
(*             TCP connection attempt to s (res: connected | io);            *)
(*   done      [t, class, from, err]: what a caller got and when; class in   *)
(*             answer | nx | trunc | error | hung.                           *)
(* The operators never look at how the pool orders its servers, how many it  *)
(* asks in parallel or how it backs off: any pool that meets the property    *)
(* statement passes.                                                         *)
EXTENDS Naturals, Sequences, FiniteSets

Inf == 1000000000
Lo(a, b) == IF a < b THEN a ELSE b
Hi(a, b) == IF a > b THEN a ELSE b

Script(srv, p)   == IF p = "udp" THEN srv.udp ELSE IF p = "tcp" THEN srv.tcp ELSE srv.tc
HasProto(srv, p) == Len(Script(srv, p)) > 0
Protos(srv)      == {p \in {"udp", "tcp"} : HasProto(srv, p)}
BehAt(script, n) == IF n <= Len(script) THEN script[n] ELSE script[Len(script)]

\* a reply that would arrive at or after the per-attempt timeout is a timeout
\* "for any pattern of transport faults (unreachable, reset, timeout, ...)": a server whose transport
\* fails in any way -- the send is refused by the local stack at once (sendfail: no route, host or network
\* unreachable, address not available), the receive fails (recvfail), the connection is reset (io) -- is
\* a faulty server like any other: the observable outcome is "io"
\* casemangle (UDP scripts only): the reply echoes the question name in another letter case; with case
\* randomisation (0x20) configured that is a suspected spoof ("mismatch": the reply is dropped and the
\* server is asked again over TCP, like after a truncated reply), without it an ordinary answer
EffKind(cfg, b) ==
    IF b.k = "casemangle" THEN (IF b.lat >= cfg.ta THEN "timeout" ELSE IF cfg.cr THEN "mismatch" ELSE "answer")
    ELSE IF b.k = "sendfail" THEN "io"
    ELSE IF b.k = "timeout" \/ b.lat >= cfg.ta THEN "timeout"
    ELSE IF b.k = "recvfail" THEN "io"
    ELSE b.k
Dur(cfg, b)     == IF b.k = "sendfail" THEN 0 ELSE IF EffKind(cfg, b) = "timeout" THEN cfg.ta ELSE b.lat

\* "concurrent IDENTICAL queries": the query a caller makes is the question (name, type, class -- here the
\* index q of the name) together with the header bits and options that change what is being asked:
\* RD, CD (and DO, the client subnet: not varied here).  Callers whose queries differ in ANY component
\* each get an exchange of their own and the reply made for their own request.
QueryKey(x) == <<x.q, x.rd, x.cd>>
SameQuery(x, y) == QueryKey(x) = QueryKey(y)

\* TCP connection attempts: refused after lat, black-holed (nothing comes back: given up after the
\* configured connect timeout ct), or established after lat -- if that is before ct
ConnKind(cfg, b) == IF b.k = "ok" /\ b.lat < cfg.ct THEN "connected" ELSE "io"
ConnDur(cfg, b)  == IF b.k = "blackhole" \/ b.lat >= cfg.ct THEN cfg.ct ELSE b.lat
\* outcome and duration of attempt number n over p
KindOf(cfg, p, b) == IF p = "conn" THEN ConnKind(cfg, b) ELSE EffKind(cfg, b)
DurOf(cfg, p, b)  == IF p = "conn" THEN ConnDur(cfg, b) ELSE Dur(cfg, b)

\* how long busy servers keep being asked again: the pool's documented back-off (pauses of 20, 40,
\* 80, 160 ms between passes over the busy servers, "until it hits 300ms") lasts at least this long
BusyPatience == 300

Servers(cfg) == 1..Len(cfg.servers)
CountAt(A, s, p) == Cardinality({i \in DOMAIN A : A[i].s = s /\ A[i].p = p})
\* how (s, p) would treat the next request it receives
NextBeh(cfg, A, s, p) == BehAt(Script(cfg.servers[s], p), CountAt(A, s, p) + 1)

(***************************************************************************)
(* "a healthy server exists and the time budget allows"                    *)
(*                                                                         *)
(* TcpPath / UdpPath: how long it takes until server s has delivered an    *)
(* answer if it is asked now over that transport (a truncated UDP reply is *)
(* followed by a TCP request), Inf if it does not end in an answer.        *)
(* WorstPath: the same when the observer does not know which configured    *)
(* transport the pool would pick -- the largest of them, so a server       *)
(* counts as able to answer only if it answers whichever way it is asked.  *)
(***************************************************************************)
\* the request alone, on an established connection
TcpReq(cfg, A, s) ==
    IF ~HasProto(cfg.servers[s], "tcp") THEN Inf
    ELSE LET b == NextBeh(cfg, A, s, "tcp") IN
         IF EffKind(cfg, b) = "answer" THEN Dur(cfg, b) ELSE Inf
\* the observer does not know whether a connection is still pooled: a server counts as able to answer
\* over TCP only if it would also accept a new connection now ("a server that closed an idle
\* connection but accepts a new one is healthy")
TcpPath(cfg, A, s) ==
    LET c == NextBeh(cfg, A, s, "conn") IN
    IF TcpReq(cfg, A, s) = Inf \/ ConnKind(cfg, c) # "connected" THEN Inf
    ELSE ConnDur(cfg, c) + TcpReq(cfg, A, s)

UdpPath(cfg, A, s) ==
    IF ~HasProto(cfg.servers[s], "udp") THEN Inf
    ELSE LET b == NextBeh(cfg, A, s, "udp") IN
         IF EffKind(cfg, b) = "answer" THEN Dur(cfg, b)
         ELSE IF EffKind(cfg, b) \in {"trunc", "mismatch"} /\ TcpPath(cfg, A, s) < Inf
              THEN Dur(cfg, b) + TcpPath(cfg, A, s)
              ELSE Inf

PathOver(cfg, A, s, p) == IF p = "udp" THEN UdpPath(cfg, A, s) ELSE TcpPath(cfg, A, s)

WorstPath(cfg, A, s) ==
    LET ps == Protos(cfg.servers[s]) IN
    IF ps = {} THEN Inf
    ELSE LET p == CHOOSE x \in ps : \A y \in ps : PathOver(cfg, A, s, y) <= PathOver(cfg, A, s, x)
         IN PathOver(cfg, A, s, p)

\* work bound: one lookup asks one server at most this often.  The pool's documented schedule is the first
\* request plus four back-off passes per transport, a switch from UDP to TCP after a truncated or
\* case-mismatched reply, and one resend on a reconnect: 12; with slack
MaxRequestsPerServer == 16
RequestsTo(A, o, s) == Cardinality({i \in DOMAIN A : A[i].o = o /\ A[i].s = s /\ A[i].p # "conn"})

Mine(A, o, s) == {i \in DOMAIN A : A[i].o = o /\ A[i].s = s}
LastOf(S)     == CHOOSE i \in S : \A j \in S : j <= i

(***************************************************************************)
(* AnswerBy: the lookup of origin o is about to complete at time c without *)
(* an answer.  If it kept going instead, by when would server s certainly  *)
(* have delivered an answer?  Only four situations count:                  *)
(*   - s was never asked in this lookup and would answer if asked now;     *)
(*   - a request to s is still on its way and its answer is coming;        *)
(*   - s replied "truncated" over UDP and has not been asked over TCP      *)
(*     (statement: "a truncated UDP reply is retried over TCP");           *)
(*   - the last reply of s was "busy" and less than BusyPatience has       *)
(*     passed since its first busy reply in this lookup (the fault list of *)
(*     the statement names busy back-pressure; the pool documents that it  *)
(*     keeps asking busy servers again while its back-off lasts).          *)
(* A server that already failed in this lookup (reset, timeout, NXDOMAIN)  *)
(* owes nothing more.                                                      *)
(***************************************************************************)
AnswerBy(cfg, A, o, s, c) ==
    LET M == Mine(A, o, s) IN
    IF M = {} THEN c + WorstPath(cfg, A, s)
    ELSE LET a == A[LastOf(M)]
             b == BehAt(Script(cfg.servers[s], a.p), a.n)
             busyAt == {A[i].en : i \in {j \in M : A[j].res = "busy"}}
         IN IF a.p = "conn"
            \* a connection attempt: if it succeeds the request follows at once
            THEN IF a.res \in {"", "connected"} /\ ConnKind(cfg, b) = "connected" /\ TcpReq(cfg, A, s) < Inf
                 THEN Hi(c, a.st + ConnDur(cfg, b)) + TcpReq(cfg, A, s)
                 ELSE Inf
            ELSE IF a.res = ""
            THEN IF EffKind(cfg, b) = "answer" THEN a.st + Dur(cfg, b)
                 ELSE IF EffKind(cfg, b) \in {"trunc", "mismatch"} /\ a.p = "udp" /\ TcpPath(cfg, A, s) < Inf
                      THEN a.st + Dur(cfg, b) + TcpPath(cfg, A, s)
                      ELSE Inf
            ELSE IF a.res \in {"trunc", "mismatch"} /\ a.p = "udp" THEN c + TcpPath(cfg, A, s)
            ELSE IF a.res = "busy" /\ c < (CHOOSE x \in busyAt : \A y \in busyAt : x <= y) + BusyPatience
                 THEN c + WorstPath(cfg, A, s)
            ELSE Inf

\* why server s is still owed a chance (for the report)
OwedKind(A, o, s) ==
    LET M == Mine(A, o, s) IN
    IF M = {} THEN "never-asked"
    ELSE LET a == A[LastOf(M)] IN
         IF a.res \in {"", "connected"} THEN "reply-on-its-way"
         ELSE IF a.res = "trunc" THEN "truncated"
         ELSE IF a.res = "mismatch" THEN "case-mismatch"
         ELSE "busy"

\* servers whose answer would have arrived strictly before the deadline dl; an answer due at
\* exactly dl may lose the race against the deadline, both outcomes are accepted there
Pending(cfg, A, o, c, dl) == {s \in Servers(cfg) : AnswerBy(cfg, A, o, s, c) < dl}

EndedWith(A, o, res) == {i \in DOMAIN A : A[i].o = o /\ A[i].res = res}
TrustedNx(cfg, A, o) == \E i \in EndedWith(A, o, "nx") : cfg.servers[A[i].s].trusted

(***************************************************************************)
(* Violations: judged when a caller receives its result d.  lk = [origin,  *)
(* start] is the exchange the caller belongs to, ct the time the caller    *)
(* made its call.                                                          *)
(***************************************************************************)
GiveUpKind(cfg, A, lk, d, pend) ==
    IF d.class = "nx" THEN "untrusted-nx-ended-search"
    ELSE IF \E s \in pend : OwedKind(A, lk.origin, s) = "truncated" THEN "truncated-not-retried-over-tcp"
    ELSE IF \E s \in pend : OwedKind(A, lk.origin, s) = "case-mismatch" THEN "case-mismatch-not-retried-over-tcp"
    ELSE IF \A s \in pend : OwedKind(A, lk.origin, s) = "busy" THEN "busy-server-not-retried"
    ELSE "healthy-server-not-used"

Violations(cfg, A, lk, ct, d) ==
    LET dl   == lk.start + cfg.T
        o    == lk.origin
        pend == Pending(cfg, A, o, d.t, dl)
        gaveUp == /\ d.class \in {"nx", "trunc", "error"}
                  /\ ~(d.class = "nx" /\ TrustedNx(cfg, A, o))
                  /\ pend # {}
    IN  \* "completes with an answer or an error no later than the configured timeout"
        (IF d.t > ct + cfg.T \/ d.class = "hung" THEN {"deadline-exceeded"} ELSE {})
        \* "returns the answer of a healthy server": what is handed out was received in this exchange
        \cup (IF d.class = "answer"
                 /\ ~\E i \in EndedWith(A, o, "answer") : A[i].s = d.from /\ A[i].en <= d.t
              THEN {"answer-without-exchange"} ELSE {})
        \cup (IF d.class = "nx" /\ EndedWith(A, o, "nx") = {} THEN {"nxdomain-without-exchange"} ELSE {})
        \cup (IF d.class = "trunc" /\ EndedWith(A, o, "trunc") = {} THEN {"truncated-without-exchange"} ELSE {})
        \cup (IF d.class \notin {"answer", "nx", "trunc", "error", "hung"} THEN {"unexpected-result"} ELSE {})
        \* giving up while a server that can answer in time is still owed a chance
        \cup (IF gaveUp THEN {GiveUpKind(cfg, A, lk, d, pend)} ELSE {})

\* for the report: did a request launched up to the deadline (a reconnect-and-resend may start at that
\* very instant) outlive it?
InFlightAtDeadline(A, lk, dl) ==
    \E i \in DOMAIN A : A[i].o = lk.origin /\ A[i].st <= dl /\ (A[i].res = "" \/ A[i].en > dl)

DeadlineCause(A, lk, dl, d) ==
    IF d.class = "hung" THEN "never-completed"
    ELSE IF InFlightAtDeadline(A, lk, dl) THEN "attempt-in-flight-at-deadline"
    ELSE "no-attempt-in-flight-at-deadline"

(***************************************************************************)
(* What the specification prescribes for a configuration before anything   *)
(* has run (used by Gen_Pool).                                             *)
(***************************************************************************)
RECURSIVE SumSeq(_)
SumSeq(xs) == IF xs = <<>> THEN 0 ELSE Head(xs) + SumSeq(Tail(xs))

KindsOf(cfg) ==
    UNION {{EffKind(cfg, Script(cfg.servers[s], p)[i]) : i \in 1..Len(Script(cfg.servers[s], p))} :
           s \in Servers(cfg), p \in {"udp", "tcp"}}

\* a result needs a cause: nothing can be handed out that no server would ever send
ClassesOf(cfg) == {"error"} \cup (KindsOf(cfg) \cap {"answer", "nx", "trunc"})
AnswerersOf(cfg) ==
    {s \in Servers(cfg) : \E p \in {"udp", "tcp"} : \E i \in 1..Len(Script(cfg.servers[s], p)) :
        EffKind(cfg, Script(cfg.servers[s], p)[i]) = "answer"}

\* the longest a first visit to server s can take, whichever transport is used
FirstVisit(cfg, s) ==
    LET srv == cfg.servers[s]
        t   == IF ~HasProto(srv, "tcp") THEN 0
               ELSE ConnDur(cfg, srv.tc[1]) + (IF ConnKind(cfg, srv.tc[1]) = "connected" THEN Dur(cfg, srv.tcp[1]) ELSE 0)
        u   == IF ~HasProto(srv, "udp") THEN 0
               ELSE Dur(cfg, srv.udp[1])
                    + (IF EffKind(cfg, srv.udp[1]) = "trunc" /\ HasProto(srv, "tcp") THEN t ELSE 0)
    IN Hi(t, u)

\* no first reply of s is a back-pressure signal or a negative answer that may end the search
PlainFirst(cfg, s) ==
    \A p \in Protos(cfg.servers[s]) :
        LET k == EffKind(cfg, Script(cfg.servers[s], p)[1]) IN
        k # "busy" /\ ~(k = "nx" /\ cfg.servers[s].trusted)

(* SurelyAnswers: on a fresh pool the first lookup must return an answer under every     *)
(* order and every degree of parallelism: some server answers whichever way it is asked, *)
(* no server answers busy or a trusted NXDOMAIN, and even visiting every server one      *)
(* after the other, the healthy one last, fits strictly inside the budget.               *)
SurelyAnswers(cfg) ==
    /\ \E h \in Servers(cfg) : WorstPath(cfg, <<>>, h) < Inf
    /\ \A s \in Servers(cfg) : PlainFirst(cfg, s)
    /\ SumSeq([s \in Servers(cfg) |-> FirstVisit(cfg, s)]) < cfg.T

ExpectFirst(cfg) ==
    [classes |-> IF SurelyAnswers(cfg) THEN {"answer"} ELSE ClassesOf(cfg),
     from    |-> AnswerersOf(cfg),
     bound   |-> cfg.T]
ExpectLater(cfg) ==
    [classes |-> ClassesOf(cfg), from |-> AnswerersOf(cfg), bound |-> cfg.T]
=============================================================================
