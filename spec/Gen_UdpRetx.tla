--------------------------- MODULE Gen_UdpRetx ---------------------------
(* Case generator for the datagram half of C16 with one retransmission      *)
(* (obligation R, spec -> impl).  A case is three arrival sequences:        *)
(*   s1   on the socket of transmission 1, available at once;               *)
(*   s2   on the socket of transmission 2, available as soon as the         *)
(*        request has been retransmitted;                                   *)
(*   s1b  late arrivals on the socket of transmission 1, after that.        *)
(* For each case TLC prescribes what the property permits:                  *)
(*   acc    the set of [t, pos] (socket, position in that socket's arrival  *)
(*          order) of the datagrams that may complete the query: matching   *)
(*          (UdpMatchOps!Matches) and among the first three of their socket *)
(*   maxex  per socket, how many datagrams may be examined at most          *)
(* Any outcome that is not an accept is an error or a timeout and is        *)
(* permitted by the property (UdpMatch: Fail, FailTx, GiveUp, TimeOut).     *)
EXTENDS UdpMatchOps, TLC, Json

CONSTANTS GKinds, L1, L2, L3, NQ

VARIABLES cr, s1, s2, s1b
gvars == <<cr, s1, s2, s1b>>

GInit == cr \in BOOLEAN /\ s1 = <<>> /\ s2 = <<>> /\ s1b = <<>>
\* sequences are built left to right: s1, then s2, then s1b (canonical order, no duplicates)
Ext1(k) == s2 = <<>> /\ s1b = <<>> /\ Len(s1) < L1 /\ s1' = Append(s1, k) /\ UNCHANGED <<cr, s2, s1b>>
Ext2(k) == s1b = <<>> /\ Len(s2) < L2 /\ s2' = Append(s2, k) /\ UNCHANGED <<cr, s1, s1b>>
Ext3(k) == Len(s1b) < L3 /\ s1b' = Append(s1b, k) /\ UNCHANGED <<cr, s1, s2>>
GNext == \E k \in GKinds : Ext1(k) \/ Ext2(k) \/ Ext3(k)
GSpec == GInit /\ [][GNext]_gvars

V(s) == [i \in 1..Len(s) |-> KindView(s[i], NQ)]
Sock1 == V(s1) \o V(s1b)
Sock2 == V(s2)
AccOn(t, s) == {[t |-> t, pos |-> i] : i \in {j \in 1..Least(Cap, Len(s)) : Matches(s[j], cr)}}

Case == [cr |-> cr, nq |-> NQ, s1 |-> s1, s2 |-> s2, s1b |-> s1b,
         v1 |-> V(s1), v2 |-> V(s2), v1b |-> V(s1b),
         acc |-> AccOn(1, Sock1) \cup AccOn(2, Sock2),
         maxex |-> <<Least(Cap, Len(Sock1)), Least(Cap, Len(Sock2))>>]
Emit == PrintT(<<"REPLAY", ToJson(Case)>>)
=============================================================================
