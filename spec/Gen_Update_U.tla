--------------------------- MODULE Gen_Update_U ---------------------------
(* The message / zone universe of the C12 generators (names, RR forms,      *)
(* message shapes).  lib/checks/c12.py writes small wrapper modules that    *)
(* pick P_Zones, P_Sers and P_MsgsAt from the operators defined here.       *)
(* Universe: every class/type/rdata form of RFC 2136 tables 3.2.4 and       *)
(* 3.4.2.6 over owners {apex, a, b}, types {A, NS, CNAME, SOA}, two rdatas  *)
(* per type, plus one representative of every malformed form sections 3.2   *)
(* and 3.4.1 test for (TTL, RDLENGTH, class, meta type, name out of zone).  *)
EXTENDS Gen_Update

AP  == <<"example", "com">>
NA  == <<"a">> \o AP
NB  == <<"b">> \o AP
NCA == <<"c", "a">> \o AP          \* below a (prerequisites only)
OUT == <<"a", "example", "org">>
OUT2 == <<"notexample", "com">>    \* shares a suffix of characters, not of labels
Own == {AP, NA, NB}

RR(o, c, t, ttl, rd) == [o |-> o, c |-> c, t |-> t, ttl |-> ttl, rd |-> rd, ser |-> <<0, 0>>]
SOARR(o, c, ttl, s)  == [o |-> o, c |-> c, t |-> "SOA", ttl |-> ttl, rd |-> (IF c = "IN" THEN 1 ELSE 0), ser |-> s]
DataT == {"A", "NS", "CNAME"}
Rds   == {1, 2}

\* ---- zones
Z1 == {<<AP, "SOA", 0>>, <<AP, "NS", 1>>, <<AP, "NS", 2>>, <<NA, "A", 1>>, <<NB, "CNAME", 2>>}
Z2 == {<<AP, "SOA", 0>>, <<AP, "NS", 1>>, <<NA, "NS", 1>>, <<NA, "A", 1>>, <<NB, "A", 1>>, <<NB, "A", 2>>}
Z3 == {<<AP, "SOA", 0>>, <<AP, "NS", 1>>, <<AP, "A", 1>>, <<NA, "CNAME", 1>>, <<NB, "NS", 1>>, <<NB, "NS", 2>>}
S10   == <<0, 10>>
SMax  == <<65535, 65535>>          \* 2^32 - 1
SNear == <<65535, 65530>>          \* a few steps before the wrap
SHalf == <<32767, 65534>>          \* 2^31 - 2

\* ---- types above 255 (CAA 257, URI 256 and the private-use type 65280 as opaque RDATA): "CNAME and
\* other data" on both sides of the meta-type range 251..255.  Z4: b holds nothing but a CAA, c is a
\* CNAME; d does not exist.  (The zone file parser knows CAA only, T<code> types arrive by update.)
NC == <<"c">> \o AP
ND == <<"d">> \o AP
Z4 == {<<AP, "SOA", 0>>, <<AP, "NS", 1>>, <<NA, "A", 1>>, <<NB, "CAA", 1>>, <<NC, "CNAME", 1>>}
HiT    == {"CAA", "T256", "T65280"}
HiOwn  == {NA, NB, NC, ND}
HiAdd  == {RR(o, "IN", t, 300, 1) : o \in HiOwn, t \in HiT \cup {"CNAME", "A"}} \cup {RR(o, "IN", "CNAME", 300, 2) : o \in HiOwn}
HiDel  == {RR(o, "ANY", t, 0, 0) : o \in {NA, NB, NC}, t \in {"A", "CAA", "CNAME", "ANY"}}
          \cup {RR(NB, "NONE", "CAA", 0, 1), RR(NB, "NONE", "T65280", 0, 1)}
HiUpd  == HiAdd \cup HiDel
MsgsHi1 == {[pre |-> <<>>, upd |-> <<u>>] : u \in HiUpd}
MsgsHi2 == UNION {{[pre |-> <<>>, upd |-> <<u, v>>] : v \in {w \in HiUpd : w.o = u.o}} : u \in HiUpd}
MsgsHiP == {[pre |-> <<RR(o, c, t, 0, 0)>>, upd |-> <<RR(ND, "IN", "A", 300, 1)>>] :
              o \in {NB, NC}, c \in {"ANY", "NONE"}, t \in {"CAA", "CNAME", "A", "ANY", "T65280"}}

\* ---- update RRs
\* SOA serials around 10: lower, equal, higher, higher across half the number circle (RFC 1982
\* greater), exactly half (undefined), more than half (numerically greater, RFC 1982 lower)
SoaSers == {<<0, 5>>, <<0, 10>>, <<0, 20>>, <<32768, 5>>, <<32768, 10>>, <<32768, 20>>}
AddRRs  == {RR(o, "IN", t, 300, rd) : o \in Own, t \in DataT, rd \in Rds}
           \cup {SOARR(AP, "IN", 300, s) : s \in SoaSers} \cup {SOARR(NA, "IN", 300, <<0, 20>>)}
DelSets == {RR(o, "ANY", t, 0, 0) : o \in Own, t \in DataT \cup {"ANY", "SOA"}}
DelRRs  == {RR(o, "NONE", t, 0, rd) : o \in Own, t \in DataT, rd \in Rds}
           \cup {SOARR(AP, "NONE", 0, <<0, 0>>), SOARR(NA, "NONE", 0, <<0, 0>>)}
BadUpd  == {RR(OUT, "IN", "A", 300, 1), RR(OUT2, "ANY", "ANY", 0, 0), RR(NA, "CH", "A", 0, 1),
            RR(NA, "IN", "ANY", 0, 0), RR(NA, "IN", "AXFR", 0, 0), RR(NA, "IN", "MAILB", 0, 0),
            RR(NA, "ANY", "A", 300, 0), RR(NA, "ANY", "A", 0, 1), RR(NA, "ANY", "AXFR", 0, 0),
            RR(NA, "ANY", "MAILA", 0, 0),
            RR(NA, "NONE", "A", 300, 1), RR(NA, "NONE", "ANY", 0, 0), RR(NA, "NONE", "MAILB", 0, 0),
            \* two faults in one RR: either code is accepted (the order of the tests is not prescribed)
            RR(OUT, "CH", "A", 0, 1), RR(OUT, "ANY", "A", 300, 0)}
GoodUpd == AddRRs \cup DelSets \cup DelRRs
UpdRRs  == GoodUpd \cup BadUpd

\* ---- prerequisite RRs
PreRRs  == {RR(o, c, t, 0, 0) : o \in Own \cup {NCA}, c \in {"ANY", "NONE"}, t \in DataT \cup {"ANY", "SOA"}}
           \cup {RR(o, "IN", t, 0, rd) : o \in Own, t \in {"A", "NS"}, rd \in Rds}
           \cup {RR(NB, "IN", "CNAME", 0, 2), RR(NCA, "IN", "A", 0, 1)}
           \cup {RR(OUT, "ANY", "ANY", 0, 0), RR(OUT2, "NONE", "ANY", 0, 0), RR(NA, "ANY", "A", 300, 0),
                 RR(NA, "NONE", "A", 0, 1), RR(NA, "ANY", "NS", 0, 1), RR(NA, "CH", "A", 0, 1), RR(NA, "IN", "A", 300, 1),
                 \* two faults in one RR: either code is accepted
                 RR(OUT, "ANY", "A", 300, 0), RR(OUT, "CH", "A", 300, 1)}

\* ---- message shapes
Touch  == RR(NB, "IN", "A", 300, 2)       \* a harmless update to see whether the prerequisites let it through
Msgs1  == {[pre |-> p, upd |-> <<u>>] : p \in {<<>>} \cup {<<x>> : x \in PreRRs}, u \in UpdRRs}
Msgs1u == {[pre |-> <<>>, upd |-> <<u>>] : u \in UpdRRs}
Msgs1p == {[pre |-> <<p>>, upd |-> <<Touch>>] : p \in PreRRs}
Msgs2  == {[pre |-> <<>>, upd |-> <<x, y>>] : x \in UpdRRs, y \in UpdRRs}
Msgs2g == {[pre |-> <<>>, upd |-> <<x, y>>] : x \in GoodUpd, y \in UpdRRs}
Msgs2p == {[pre |-> <<p, q>>, upd |-> <<Touch>>] : p \in PreRRs, q \in PreRRs}
Msgs0  == {[pre |-> <<p>>, upd |-> <<>>] : p \in PreRRs} \cup {[pre |-> <<>>, upd |-> <<>>]}
\* first messages that put the zone into an interesting state for the second one: every
\* well-formed single-RR update
Setup  == {[pre |-> <<>>, upd |-> <<u>>] : u \in GoodUpd}
SetupLite == {[pre |-> <<>>, upd |-> <<u>>] : u \in DelRRs \cup DelSets \cup {RR(o, "IN", "CNAME", 300, 1) : o \in Own}}
\* a CNAME add together with another well-formed update RR for the same owner, in both orders
\* (e.g. delete the A RRset, add the CNAME): what a signed zone must handle like an unsigned one
CnAdds == {RR(o, "IN", "CNAME", 300, rd) : o \in Own, rd \in Rds}
MsgsCn == UNION {{[pre |-> <<>>, upd |-> <<x, y>>] : y \in {w \in GoodUpd : w.o = x.o}}
                  \cup {[pre |-> <<>>, upd |-> <<y, x>>] : y \in {w \in GoodUpd : w.o = x.o}} : x \in CnAdds}
\* serial corner: an SOA update RR at distance 2^31 - 1, 2^31 (RFC 1982: undefined) and 2^31 + 1
\* from the zone serial, alone and together with a content change in the same message, from
\* serials 0, 10, 2^31 - 2, 2^32 - 6 and 2^32 - 1.  (The SOA serials are computed for every start
\* serial and all of them are sent from every start serial, so other distances come along.)
S0 == <<0, 0>>
HalfSers  == {S0, S10, SHalf, SNear, SMax}
HalfDists == {<<32767, 65535>>, <<32768, 0>>, <<32768, 1>>}
HalfSoas  == {SOARR(AP, "IN", 300, SerialPlus(s, d)) : s \in HalfSers, d \in HalfDists}
HalfAdd   == RR(NA, "IN", "A", 300, 2)
HalfDel   == RR(NA, "NONE", "A", 0, 1)
MsgsHalf  == {[pre |-> <<>>, upd |-> u] :
                u \in UNION {{<<x>>, <<x, HalfAdd>>, <<HalfAdd, x>>, <<x, HalfDel>>} : x \in HalfSoas}}
MsgsAfter == {[pre |-> <<>>, upd |-> <<RR(NB, "IN", "A", 300, 1)>>], [pre |-> <<>>, upd |-> <<RR(NB, "NONE", "A", 0, 1)>>]}
\* serial corner: updates around the wrap
WrapUpd == {RR(NA, "IN", "A", 300, 2), RR(NA, "NONE", "A", 0, 1), RR(NB, "IN", "CNAME", 300, 2),
            SOARR(AP, "IN", 300, <<0, 3>>), SOARR(AP, "IN", 300, <<65535, 65535>>), SOARR(AP, "IN", 300, <<65535, 0>>),
            SOARR(AP, "IN", 300, <<32767, 65530>>), SOARR(AP, "IN", 300, <<32768, 5>>)}
MsgsWrap1 == {[pre |-> <<>>, upd |-> <<u>>] : u \in WrapUpd}
MsgsWrap == MsgsWrap1 \cup {[pre |-> <<>>, upd |-> <<u, v>>] : u \in WrapUpd, v \in WrapUpd}
=============================================================================
