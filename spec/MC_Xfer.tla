------------------------------- MODULE MC_Xfer -------------------------------
(* Exhaustive configurations for Xfer (X02, obligation D).                    *)
EXTENDS Xfer

S(n) == <<"soa", n>>
R(k) == <<"rr", k>>

MC_Rest == {R(1), R(2), R(3)}
MC_Serial == 3
\* 1 record per message ... everything in one
MC_Caps == {1, 2, 3, 5}
MC_Policies == {"all", "deny"}
\* have / n consistent with Serial = 3
Rq(proto, qtype, have, n) == [proto |-> proto, qtype |-> qtype, id |-> 7, have |-> have, n |-> n]
MC_Reqs == {Rq("tcp", "AXFR", "none", 0), Rq("udp", "AXFR", "none", 0),
            Rq("tcp", "IXFR", "older", 2), Rq("tcp", "IXFR", "same", 3), Rq("tcp", "IXFR", "newer", 4),
            Rq("udp", "IXFR", "older", 2)}
MC_ServerOnly == {"server"}
MC_ScriptOnly == {"script"}
MC_Both == {"server", "script"}

\* messages of a foreign / broken sender: every answer section of up to two records over
\* {SOA 3, SOA 2, one ordinary record}, some longer ones, and error responses
Alpha == {S(3), S(2), R(1)}
M(rc, an) == [rc |-> rc, an |-> an]
Short == {<<>>} \cup {<<a>> : a \in Alpha} \cup {<<a, b>> : a, b \in Alpha}
MC_ScriptMsgs ==
    {M(0, an) : an \in Short}
    \cup {M(0, <<S(3), R(1), S(3)>>), M(0, <<S(3), S(2), R(1)>>), M(0, <<S(3), S(2), S(3), S(3)>>),
          M(0, <<S(3), R(1), S(3), R(1)>>)}
    \cup {M(2, <<>>), M(5, <<>>), M(2, <<S(3), S(3)>>)}
\* script requests: AXFR, IXFR from a client behind (2 < 3) and from a current one (3)
MC_ScriptReqs == {Rq("tcp", "AXFR", "none", 0), Rq("tcp", "IXFR", "older", 2), Rq("tcp", "IXFR", "same", 3)}
MC_OnePolicy == {"all"}
MC_NoFlaws == {}
\* the as-is configurations (each is expected to violate X02_ClientVerdict)
MC_AnySoaCloses == {"anySoaCloses"}
MC_PlainEndIsSilent == {"plainEndIsSilent"}
MC_RcodeIgnored == {"rcodeIgnored"}
MC_NonSoaStartEnds == {"nonSoaStartEnds"}
MC_SingleMessage == {"singleMessage"}
MC_AxfrOnly == {Rq("tcp", "AXFR", "none", 0)}
MC_OneCap == {5}

\* a bigger alphabet for the thorough tier: a third serial and a second record
Alpha4 == {S(3), S(2), S(4), R(1), R(2)}
Short4 == {<<>>} \cup {<<a>> : a \in Alpha4} \cup {<<a, b>> : a, b \in Alpha4}
MC_ScriptMsgs4 == {M(0, an) : an \in Short4} \cup {M(0, <<S(3), R(1), S(3)>>), M(2, <<>>), M(2, <<S(3), S(3)>>)}
=============================================================================
