------------------------------ MODULE SigRules ------------------------------
(***************************************************************************)
(* C06 -- the world of one signed RRset and the rules of RFC 4035 5.3 on   *)
(* it, as operators: the named single-field variants of RRset / RRSIG /    *)
(* DNSKEY and what each of them means, the structural conditions of 5.3.1, *)
(* the abstract crypto of 5.3.3, and the requirement-level operators       *)
(* (MaySecure, TtlMax) that the machine SigCheck, the generator            *)
(* Gen_SigCheck and (on concrete data) the monitor Trace_SigCheck share.   *)
(***************************************************************************)
EXTENDS Naturals, Sequences, FiniteSets, SigSerial

CONSTANTS
    M,              \* size of the serial number ring (a power of two)
    Inc, Exp,       \* genuine validity window, in 0..M-1
    IncAlt, ExpAlt, \* the values the "inc" / "exp" variants of the RRSIG carry
    OrigTtl,        \* Original TTL field of the genuine RRSIG
    OrigTtlAlt,     \* ... of the "origTtl" variant
    RecTtls,        \* TTLs the records may arrive with
    Steps,          \* amounts of time Advance may add
    MaxMono,        \* bound on elapsed time (keeps the model finite)
    MaxCalls,       \* bound on the number of calls in a history
    ClkStarts,      \* clock values a history may start at
    ArgSet,         \* the argument tuples in use (a subset of Args)
    RRV, SIGV, KEYV,\* the variants in use (subsets of the sets below)
    NameCaseSigned, \* TRUE iff the RRset's type keeps the case of embedded names in the signed data
    CacheRule,      \* "required" | "asis"
    CfgMin, CfgMax, \* configured range for the lifetime of validation cache entries
                    \* (DnssecDnsHandle::positive_validation_ttl / negative_validation_ttl)
    Deviation       \* "none", or one deliberate deviation of the machine from the required rules, to
                    \* show as a TLC counterexample that the rule is needed:
                    \* "clampAfterCap" | "markGroup" | "signerZoneOf" | "xorKey" | "revokedSignsKeys" | "indexAfterFilter"

\* "addOtherClass": next to the genuine RRset a further record with the same owner and type
\*     but another class arrives (a record of a different RRset, RFC 2181 5: no signature covers it)
\* "forged": an RRSIG naming the zone as signer, fabricated with the private key of the DNSKEY
\*     that the key argument presents (its algorithm and key tag)
\* "childKey": the answer to the zone's DNSKEY query is padded with the authenticated zone key of
\*     a securely delegated child zone (its owner is a proper subdomain of the Signer's Name);
\*     the zone's own key is there as well
\* "addForgedTwice": a fabricated record of the RRset's owner, class and type arrives with it, twice
\*     (RFC 4034 6.3: the repetition does not count, the RRset presented has one more member)
\* "twoSigs" / "swapSigs": two RRSIGs arrive, the genuine one and a non-verifying copy of it, the
\*     genuine one first / second
\* "junkSignerFirst" / "junkSignerLast": two RRSIGs arrive, the genuine one and one that cannot be
\*     used at all (its Signer's Name is a sibling zone, not the owner or an ancestor of it; other
\*     Original TTL / Expiration / Labels, garbage signature), the unusable one first / last
\* "revokedAnchor": the zone key is still among the validator's trust anchors but is now published
\*     with the REVOKE bit (RFC 5011; its key tag changes with the flag); it signs a DNSKEY RRset
\*     that introduces a further key, the forger's.  RFC 5011 2.1: a revoked key MUST NOT be used
\*     as a trust anchor or for any other purpose than validating the self-signature "for the
\*     purpose of validating the revocation" -- reading taken here: no RRset, the DNSKEY RRset
\*     included, becomes Secure through a revoked key, so the further key is not authenticated.
AllRRV  == {"genuine", "ownerCase", "owner", "class", "type", "rdataBit", "rdataNameCase", "addRecord", "dropRecord",
            "addOtherClass", "addForgedTwice"}
AllSIGV == {"genuine", "signerCase", "origTtl", "labelsUp", "labelsDown", "inc", "exp", "keyTag", "signer", "alg",
            "sigBit", "typeCovered", "forged", "twoSigs", "swapSigs", "junkSignerFirst", "junkSignerLast"}
AllKEYV == {"genuine", "otherKey", "revoked", "notZoneKey", "wrongOwner", "wrongAlg", "unsupportedAlg", "childKey",
            "revokedAnchor"}

ASSUME RRV \subseteq AllRRV /\ SIGV \subseteq AllSIGV /\ KEYV \subseteq AllKEYV

Args == {a \in [rr : RRV, sig : SIGV, key : KEYV, rttl : RecTtls] :
            \* a forgery is made with the private key of the presented DNSKEY, which the forger holds
            a.sig = "forged" => a.key \in {"otherKey", "childKey", "revokedAnchor"}}
\* the single-field mutations of the property's quantifier: at most one of rr / sig / key
\* is not the genuine object
SingleVariantArgs ==
    {a \in Args : Cardinality({x \in {<<1, a.rr>>, <<2, a.sig>>, <<3, a.key>>} : x[2] # "genuine"}) <= 1}
\* ... plus the forgeries (RRSIG and key go together there)
ForgedArgs   == {a \in Args : a.sig = "forged" /\ a.rr = "genuine"}
PropertyArgs == SingleVariantArgs \cup ForgedArgs

---------------------------------------------------------------------------
\* what a variant means

\* the signed data reconstructed from the presented RRset equals the genuine one (C05):
\* the case of the owner name never matters, the case of names inside the RDATA only for
\* the types that keep it
RrSignedGenuine(v)  == v \in {"genuine", "ownerCase", "addOtherClass"} \/ (v = "rdataNameCase" /\ ~NameCaseSigned)
\* records arrive with the RRset that are not members of it, or RRSIGs that do not verify
HasStray(a)         == a.rr = "addOtherClass" \/ a.sig \in {"twoSigs", "swapSigs", "junkSignerFirst", "junkSignerLast"}
\* the RRset still has the owner, class and type the RRSIG belongs to
RrBelongs(v)        == v \notin {"owner", "class", "type"}
\* every signed field of the RRSIG RDATA and the signature are the genuine ones (the
\* Signer's Name is signed in lower case)
\* (with two RRSIGs: the genuine one is among them)
SigSignedGenuine(v) == v \in {"genuine", "signerCase", "twoSigs", "swapSigs", "junkSignerFirst", "junkSignerLast"}
SigInc(v)     == IF v = "inc" THEN IncAlt ELSE Inc
SigExp(v)     == IF v = "exp" THEN ExpAlt ELSE Exp
SigOrigTtl(v) == IF v = "origTtl" THEN OrigTtlAlt ELSE OrigTtl
\* the DNSKEY: authenticated zone key, not revoked, usable
KeyStateOk(v) == v \in {"genuine", "wrongOwner", "childKey"}   \* fine keys (wrongOwner: of another name)
                 \/ (v = "revokedAnchor" /\ Deviation = "revokedSignsKeys")
\* the zone's own DNSKEY (at the Signer's Name) is among the keys presented
HasZoneKey(k) == k \in {"genuine", "childKey"}
\* RFC 4035 5.3.1: Signer's Name, Algorithm, Key Tag match owner, algorithm, tag of the DNSKEY.
\* The key tag selects the key: the forger's for a forgery, else the zone key's octets.
KeyTagAlgMatch(s, k) ==
    IF s = "forged" THEN k # "genuine" ELSE s \notin {"keyTag", "alg"} /\ k \in {"genuine", "wrongOwner", "childKey"}
KeyOwnerIsSigner(s, k) ==
    IF s = "forged" THEN (k # "childKey" \/ Deviation = "signerZoneOf") ELSE k # "wrongOwner"
KeyMatches(s, k) == s # "signer" /\ KeyOwnerIsSigner(s, k) /\ KeyTagAlgMatch(s, k)

Min2(a, b) == IF a < b THEN a ELSE b

\* RFC 4035 5.3.1 without the two time conditions
Structural(a) ==
    /\ RrBelongs(a.rr)
    /\ a.sig \notin {"typeCovered", "labelsUp"}
    /\ KeyMatches(a.sig, a.key)
\* RFC 4035 5.3.3, abstracted: the signature verifies iff the reconstructed signed data is
\* what was signed and the key is the signing key
CryptoOk(a) ==
    /\ RrSignedGenuine(a.rr)
    /\ \/ SigSignedGenuine(a.sig) /\ a.key \in {"genuine", "wrongOwner", "childKey"}   \* the zone key's octets
       \/ a.sig = "forged" /\ a.key # "genuine"                           \* the forger's own key

InWindow(inc, exp, t)    == SLE(M, inc, t) /\ SLE(M, t, exp)
\* RFC 1982 leaves the comparison at distance M/2 undefined: either answer
MayBeInWindow(inc, exp, t) ==
    (SLE(M, inc, t) \/ SUndef(M, inc, t)) /\ (SLE(M, t, exp) \/ SUndef(M, t, exp))
Remaining(exp, t) == SDiff(M, t, exp)

\* requirement-level: may a call with arguments a at clock t return Secure, given whether an
\* earlier call established the verdict (est)?  And the largest TTL it may then carry.
MaySecure(a, t, est) ==
    /\ RrSignedGenuine(a.rr) /\ RrBelongs(a.rr) /\ SigSignedGenuine(a.sig)
    /\ (HasZoneKey(a.key) \/ est)
    /\ MayBeInWindow(Inc, Exp, t)
TtlMax(t) == Remaining(Exp, t)
\* records that are not members of the RRset the RRSIG covers are never Secure by it
MayStraySecure == FALSE
Clamp(x) == IF x < CfgMin THEN CfgMin ELSE IF x > CfgMax THEN CfgMax ELSE x
\* what the RFC 4035 5.3 procedure yields when nothing is cached and no comparison is undefined
FreshSecure(a, t) ==
    KeyStateOk(a.key) /\ Structural(a) /\ InWindow(SigInc(a.sig), SigExp(a.sig), t) /\ CryptoOk(a)
Establishes(a, t) ==
    RrSignedGenuine(a.rr) /\ SigSignedGenuine(a.sig) /\ HasZoneKey(a.key) /\ InWindow(Inc, Exp, t)
=============================================================================
