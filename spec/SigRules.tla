------------------------------ MODULE SigRules ------------------------------
(***************************************************************************)
(* C06 -- the world of one signed RRset and the rules of RFC 4035 5.3 on   *)
(* it, as operators: the named single-field variants of RRset / RRSIG /    *)
(* DNSKEY and what each of them means, the structural conditions of 5.3.1, *)
(* the abstract crypto of 5.3.3, and the requirement-level operators       *)
(* (MaySecure, TtlMax) that the machine SigCheck, the generator            *)
(* Gen_SigCheck and (on concrete data) the monitor Trace_SigCheck share.   *)
(***************************************************************************)
EXTENDS Naturals, Sequences, FiniteSets, SigSerial

CONSTANTS
    M,              \* size of the serial number ring (a power of two)
    Inc, Exp,       \* genuine validity window, in 0..M-1
    IncAlt, ExpAlt, \* the values the "inc" / "exp" variants of the RRSIG carry
    OrigTtl,        \* Original TTL field of the genuine RRSIG
    OrigTtlAlt,     \* ... of the "origTtl" variant
    RecTtls,        \* TTLs the records may arrive with
    Steps,          \* amounts of time Advance may add
    MaxMono,        \* bound on elapsed time (keeps the model finite)
    MaxCalls,       \* bound on the number of calls in a history
    ClkStarts,      \* clock values a history may start at
    ArgSet,         \* the argument tuples in use (a subset of Args)
    RRV, SIGV, KEYV,\* the variants in use (subsets of the sets below)
    NameCaseSigned, \* TRUE iff the RRset's type keeps the case of embedded names in the signed data
    CacheRule       \* "required" | "asis"

AllRRV  == {"genuine", "ownerCase", "owner", "class", "type", "rdataBit", "rdataNameCase", "addRecord", "dropRecord"}
AllSIGV == {"genuine", "signerCase", "origTtl", "labelsUp", "labelsDown", "inc", "exp", "keyTag", "signer", "alg",
            "sigBit", "typeCovered"}
AllKEYV == {"genuine", "otherKey", "revoked", "notZoneKey", "wrongOwner", "wrongAlg", "unsupportedAlg"}

ASSUME RRV \subseteq AllRRV /\ SIGV \subseteq AllSIGV /\ KEYV \subseteq AllKEYV

Args == [rr : RRV, sig : SIGV, key : KEYV, rttl : RecTtls]
\* the single-field mutations of the property's quantifier: at most one of rr / sig / key
\* is not the genuine object
SingleVariantArgs ==
    {a \in Args : Cardinality({x \in {<<1, a.rr>>, <<2, a.sig>>, <<3, a.key>>} : x[2] # "genuine"}) <= 1}

---------------------------------------------------------------------------
\* what a variant means

\* the signed data reconstructed from the presented RRset equals the genuine one (C05):
\* the case of the owner name never matters, the case of names inside the RDATA only for
\* the types that keep it
RrSignedGenuine(v)  == v = "genuine" \/ v = "ownerCase" \/ (v = "rdataNameCase" /\ ~NameCaseSigned)
\* the RRset still has the owner, class and type the RRSIG belongs to
RrBelongs(v)        == v \notin {"owner", "class", "type"}
\* every signed field of the RRSIG RDATA and the signature are the genuine ones (the
\* Signer's Name is signed in lower case)
SigSignedGenuine(v) == v = "genuine" \/ v = "signerCase"
SigInc(v)     == IF v = "inc" THEN IncAlt ELSE Inc
SigExp(v)     == IF v = "exp" THEN ExpAlt ELSE Exp
SigOrigTtl(v) == IF v = "origTtl" THEN OrigTtlAlt ELSE OrigTtl
\* the DNSKEY: authenticated zone key, not revoked, usable
KeyStateOk(v) == v \in {"genuine", "wrongOwner"}   \* wrongOwner is a fine key, of another name
\* RFC 4035 5.3.1: Signer's Name, Algorithm, Key Tag match owner, algorithm, tag of the DNSKEY
KeyMatches(s, k) == s \notin {"keyTag", "signer", "alg"} /\ k = "genuine"

Min2(a, b) == IF a < b THEN a ELSE b

\* RFC 4035 5.3.1 without the two time conditions
Structural(a) ==
    /\ RrBelongs(a.rr)
    /\ a.sig \notin {"typeCovered", "labelsUp"}
    /\ KeyMatches(a.sig, a.key)
\* RFC 4035 5.3.3, abstracted: the signature verifies iff the reconstructed signed data is
\* what was signed and the key is the signing key
CryptoOk(a) == RrSignedGenuine(a.rr) /\ SigSignedGenuine(a.sig) /\ a.key = "genuine"

InWindow(inc, exp, t)    == SLE(M, inc, t) /\ SLE(M, t, exp)
\* RFC 1982 leaves the comparison at distance M/2 undefined: either answer
MayBeInWindow(inc, exp, t) ==
    (SLE(M, inc, t) \/ SUndef(M, inc, t)) /\ (SLE(M, t, exp) \/ SUndef(M, t, exp))
Remaining(exp, t) == SDiff(M, t, exp)

\* requirement-level: may a call with arguments a at clock t return Secure, given whether an
\* earlier call established the verdict (est)?  And the largest TTL it may then carry.
MaySecure(a, t, est) ==
    /\ RrSignedGenuine(a.rr) /\ RrBelongs(a.rr) /\ SigSignedGenuine(a.sig)
    /\ (a.key = "genuine" \/ est)
    /\ MayBeInWindow(Inc, Exp, t)
TtlMax(t) == Remaining(Exp, t)
\* what the RFC 4035 5.3 procedure yields when nothing is cached and no comparison is undefined
FreshSecure(a, t) ==
    KeyStateOk(a.key) /\ Structural(a) /\ InWindow(SigInc(a.sig), SigExp(a.sig), t) /\ CryptoOk(a)
Establishes(a, t) ==
    RrSignedGenuine(a.rr) /\ SigSignedGenuine(a.sig) /\ a.key = "genuine" /\ InWindow(Inc, Exp, t)
=============================================================================
