------------------------------ MODULE SigCheck ------------------------------
(***************************************************************************)
(* C06 -- a signature is accepted only for the exact RRset, key and time   *)
(* window, also not via a cached verdict, and accepted records never carry *)
(* a TTL longer than the remaining signature lifetime.                     *)
(*                                                                         *)
(* One validator with a validation cache, one signed RRset (the "world":   *)
(* the genuine RRset, its RRSIG with validity window [Inc, Exp] and        *)
(* Original TTL OrigTtl, and the genuine zone key).  The environment calls *)
(* the validator with arguments (rr, sig, key, rttl): each of rr / sig /   *)
(* key is the genuine object or a named single-field variant of it, rttl   *)
(* is the TTL the records arrive with.  Between calls time passes          *)
(* (Advance) and the cache may forget (CacheEvict).                        *)
(*                                                                         *)
(* The MACHINE splits a call like RFC 4035 section 5.3 orders the work:    *)
(*   Call -> CacheHit | CacheMiss -> CheckKeyState -> CheckValidity ->     *)
(*   Crypto -> CacheInsert | CacheDecline                                  *)
(* CheckKeyState is RFC 4034 2.1.1 / RFC 5011 (zone key, not revoked,      *)
(* supported algorithm, authenticated), CheckValidity is RFC 4035 5.3.1    *)
(* verbatim (times in RFC 1982 serial arithmetic), Crypto is RFC 4035      *)
(* 5.3.3, abstracted: a signature verifies iff the reconstructed signed    *)
(* data is what was signed and the key is the signing key.                 *)
(*                                                                         *)
(* The REQUIREMENTS C06_xxx are phrased on observables only: the arguments *)
(* and clock of a call and the verdict / TTL it returned.                  *)
(*                                                                         *)
(* CacheRule = "required": an entry for a Secure verdict lives no longer   *)
(*   than the authenticated TTL and a hit returns the remaining part of it;*)
(*   the key covers every signed field of RRset and RRSIG.                 *)
(* CacheRule = "asis" (the rule found in hickory-dns' ValidationCache):    *)
(*   every entry lives for the first record's received TTL, a hit replays  *)
(*   the TTL computed at insert time, names inside RDATA are hashed        *)
(*   case-insensitively.  Only for the design-level counterexample         *)
(*   (MC_SigCheck_AsIs.cfg); conformance always runs against "required".   *)
(***************************************************************************)
EXTENDS Naturals, Sequences, FiniteSets, SigSerial, SigRules

---------------------------------------------------------------------------
VARIABLES
    clk,     \* validator clock, in the serial ring
    mono,    \* elapsed (monotonic) time; the cache lives on it
    cache,   \* function: cache key -> [until, verdict, ttl]
    pc,      \* "idle" | "lookup" | "key" | "validity" | "crypto" | "insert"
    arg,     \* arguments of the call in progress
    res,     \* [verdict, ttl] being produced
    last,    \* observation: [arg, clk, verdict, ttl, cached] of the last completed call, or NoCall
    estab,   \* observation: an earlier call presented genuine signed data and the genuine key
             \* while the clock was inside the window
    ncall    \* number of calls so far

vars == <<clk, mono, cache, pc, arg, res, last, estab, ncall>>

NoCall == [none |-> TRUE]
NoArg  == [rr |-> "genuine", sig |-> "genuine", key |-> "genuine", rttl |-> 0]
NoRes  == [verdict |-> "none", ttl |-> 0]

\* the cache key covers every member of RRset and RRSIGs, in order (the cached proof says which
\* RRSIG verified by position); deviation "xorKey": members combined by XOR (order-free and
\* self-cancelling)
KeyOf(a) ==
    LET r == IF CacheRule = "asis" /\ a.rr = "rdataNameCase" THEN "genuine"
             ELSE IF Deviation = "xorKey" /\ a.rr = "addForgedTwice" THEN "genuine" ELSE a.rr
        s == IF Deviation = "xorKey" /\ a.sig = "swapSigs" THEN "twoSigs" ELSE a.sig
    IN  <<r, s>>

Init ==
    /\ clk \in ClkStarts /\ mono = 0 /\ cache = <<>>
    /\ pc = "idle" /\ arg = NoArg /\ res = NoRes
    /\ last = NoCall /\ estab = FALSE /\ ncall = 0

Call(a) ==
    /\ pc = "idle" /\ a \in ArgSet /\ ncall < MaxCalls
    /\ pc' = "lookup" /\ arg' = a /\ ncall' = ncall + 1
    /\ last' = NoCall
    /\ UNCHANGED <<clk, mono, cache, res, estab>>

Finish(v, t, cached) ==
    /\ last' = [arg |-> arg, clk |-> clk, verdict |-> v, ttl |-> t, cached |-> cached,
                \* the verdict given to records that arrived with the RRset without being members of
                \* it: only the members of the RRset the signature covers are marked
                stray |-> IF ~HasStray(arg) THEN "none"
                          ELSE IF Deviation = "markGroup" THEN v
                          ELSE IF Deviation = "xorKey" /\ cached /\ arg.sig = "swapSigs" THEN v
                          \* the verifying RRSIG is named by its position among ALL RRSIGs presented;
                          \* deviation: by its position among those not discarded up front
                          ELSE IF Deviation = "indexAfterFilter" /\ arg.sig = "junkSignerFirst" THEN v
                          ELSE "NotSecure"]
    /\ estab' = (estab \/ Establishes(arg, clk))
    /\ UNCHANGED ncall
    /\ pc' = "idle" /\ arg' = NoArg /\ res' = NoRes

Fresh(e) == IF CacheRule = "required" THEN mono <= e.until ELSE mono < e.until

CacheHit ==
    /\ pc = "lookup" /\ KeyOf(arg) \in DOMAIN cache /\ Fresh(cache[KeyOf(arg)])
    /\ LET e == cache[KeyOf(arg)]
           t == IF CacheRule = "required" THEN Min2(e.ttl, e.until - mono) ELSE e.ttl IN
       Finish(e.verdict, IF e.verdict = "Secure" THEN t ELSE 0, TRUE)
    /\ UNCHANGED <<clk, mono, cache>>

CacheMiss ==
    /\ pc = "lookup" /\ ~(KeyOf(arg) \in DOMAIN cache /\ Fresh(cache[KeyOf(arg)]))
    /\ pc' = "key"
    /\ UNCHANGED <<clk, mono, cache, arg, res, last, estab, ncall>>

Fail == res' = [verdict |-> "NotSecure", ttl |-> 0] /\ pc' = "insert"

CheckKeyState ==
    /\ pc = "key"
    /\ IF KeyStateOk(arg.key) THEN pc' = "validity" /\ UNCHANGED res ELSE Fail
    /\ UNCHANGED <<clk, mono, cache, arg, last, estab, ncall>>

\* RFC 4035 5.3.1.  At a distance of exactly M/2 the time comparison is undefined (RFC 1982):
\* the validator may take it either way.
CheckValidity ==
    /\ pc = "validity"
    /\ LET inc == SigInc(arg.sig)
           exp == SigExp(arg.sig) IN
       \/ /\ Structural(arg) /\ MayBeInWindow(inc, exp, clk)
          /\ pc' = "crypto" /\ UNCHANGED res
       \/ /\ ~(Structural(arg) /\ InWindow(inc, exp, clk))
          /\ Fail
    /\ UNCHANGED <<clk, mono, cache, arg, last, estab, ncall>>

\* RFC 4035 5.3.3: the signature verifies iff signed data and key are the genuine ones; the
\* TTL is bounded by the received TTL, the Original TTL and the remaining lifetime
Crypto ==
    /\ pc = "crypto"
    /\ IF CryptoOk(arg)
       THEN /\ res' = [verdict |-> "Secure",
                       ttl |-> Min2(Min2(arg.rttl, SigOrigTtl(arg.sig)), Remaining(SigExp(arg.sig), clk))]
            /\ pc' = "insert"
       ELSE Fail
    /\ UNCHANGED <<clk, mono, cache, arg, last, estab, ncall>>

CacheInsert ==
    /\ pc = "insert"
    \* the configured range applies to the received TTL; a Secure verdict is then never kept
    \* beyond its authenticated TTL, whatever the configuration says
    /\ LET life == IF CacheRule = "required" /\ res.verdict = "Secure"
                   THEN (IF Deviation = "clampAfterCap" THEN Clamp(Min2(arg.rttl, res.ttl))
                         ELSE Min2(Clamp(arg.rttl), res.ttl))
                   ELSE Clamp(arg.rttl)
           e == [until |-> mono + life, verdict |-> res.verdict, ttl |-> res.ttl]
           k == KeyOf(arg) IN
       cache' = [x \in (DOMAIN cache) \cup {k} |-> IF x = k THEN e ELSE cache[x]]
    /\ Finish(res.verdict, res.ttl, FALSE)
    /\ UNCHANGED <<clk, mono>>

\* a cache is never obliged to remember
CacheDecline ==
    /\ pc = "insert"
    /\ Finish(res.verdict, res.ttl, FALSE)
    /\ UNCHANGED <<clk, mono, cache>>

Advance(d) ==
    /\ pc = "idle" /\ d \in Steps /\ mono + d <= MaxMono
    /\ clk' = (clk + d) % M /\ mono' = mono + d
    /\ UNCHANGED <<cache, pc, arg, res, last, estab, ncall>>

CacheEvict(k) ==
    /\ pc = "idle" /\ k \in DOMAIN cache
    /\ cache' = [x \in (DOMAIN cache) \ {k} |-> cache[x]]
    /\ UNCHANGED <<clk, mono, pc, arg, res, last, estab, ncall>>

Next ==
    \/ \E a \in ArgSet : Call(a)
    \/ CacheHit \/ CacheMiss \/ CheckKeyState \/ CheckValidity \/ Crypto \/ CacheInsert \/ CacheDecline
    \/ \E d \in Steps : Advance(d)
    \/ \E k \in DOMAIN cache : CacheEvict(k)

Spec == Init /\ [][Next]_vars

(***************************************************************************)
(* Requirements (observables only: last, estab)                            *)
(***************************************************************************)
Secure == last # NoCall /\ last.verdict = "Secure"


\* Secure only for the exact RRset and RRSIG, and a key that is the authenticated, non-revoked
\* zone key matching the RRSIG.  A verdict may come from the cache, where no key is looked at:
\* then the key in question is the one of the call that established the verdict (estab).
C06_SecureOnlyGenuine ==
    Secure => /\ RrSignedGenuine(last.arg.rr) /\ RrBelongs(last.arg.rr)
              /\ SigSignedGenuine(last.arg.sig)
              /\ (HasZoneKey(last.arg.key) \/ estab)

\* ... only while the validator's clock is inside [Inc, Exp] at the time of the call, cached
\* or not (at the one clock value where RFC 1982 leaves the comparison undefined either way)
C06_SecureOnlyInWindow ==
    Secure => MayBeInWindow(Inc, Exp, last.clk)

\* ... and never with a TTL beyond the remaining signature lifetime
C06_TtlBound ==
    Secure => last.ttl <= Remaining(Exp, last.clk)

\* ... and never for a record that is not a member of the RRset the RRSIG covers
C06_StrayNeverSecure ==
    last # NoCall => (last.stray = "Secure" => MayStraySecure)

\* Anti-strictness witnesses (must be reachable): bits that are not signed do not by
\* themselves stand in the way of Secure; a verdict can be served from the cache.
C06_UnsignedBitsFree_Witness ==
    Secure /\ last.arg.rr = "ownerCase" /\ last.arg.rttl < OrigTtl /\ last.ttl = last.arg.rttl
C06_CachedSecure_Witness == Secure /\ last.cached /\ last.ttl > 0

\* the RFC procedure itself never exceeds what the requirements allow
C06_FreshWithinRequirement ==
    \A a \in ArgSet : \A t \in 0..(M - 1) : FreshSecure(a, t) => MaySecure(a, t, FALSE)

TypeOK ==
    /\ clk \in 0..(M - 1) /\ mono \in 0..MaxMono
    /\ pc \in {"idle", "lookup", "key", "validity", "crypto", "insert"}
    /\ DOMAIN cache \subseteq (AllRRV \X AllSIGV)
=============================================================================
