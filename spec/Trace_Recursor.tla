--------------------------- MODULE Trace_Recursor ---------------------------
(* Trace validation for C19 (obligation T: impl -> spec), monitor style.     *)
(* Events recorded from the real Recursor over a simulated internet:         *)
(*   reset   case net q lim      new recursor over this internet             *)
(*   question n phase            n client questions are put to the recursor  *)
(*                               (n = 2: the same question twice, at once)   *)
(*   ask     ip qn qt phase recs an upstream query reached address ip; recs  *)
(*                               is everything the server sent back (all     *)
(*                               sections); phase 2 = the network is down    *)
(*                               and nothing is sent back                    *)
(*   result  kind recs err       what Recursor::resolve handed to the caller *)
(*   probe   qn qt kind recs     what it hands out later, network down, for  *)
(*                               a name a hostile server mentioned           *)
(*   requery qn qt d asked kind soaTtl negMin   the same question again d     *)
(*                               seconds later (network up): `asked` upstream *)
(*                               queries were made for it                    *)
(*   end     asked               number of upstream queries of the           *)
(*                               resolution                                  *)
(*   acs     addr acs denied     (filter layer) AccessControlSet::denied     *)
(*                               said `denied` for this address and lists    *)
(*   stub    chain end per asked kind   (stub resolver layer) CachingClient  *)
(*                               followed a chain of `chain` aliases ending  *)
(*                               in an address / nothing / a loop and made   *)
(*                               `asked` upstream queries                    *)
(* The monitor keeps the log of responses and judges every event with the    *)
(* operators of RecursorOps -- the ones the model Recursor is checked        *)
(* against.  It knows nothing about how the resolver walks the tree.         *)
EXTENDS RecursorOps, TLC, Json, IOUtils

Rec0 == ndJsonDeserialize(IOEnv.TRACE)

VARIABLES l, caseId, net, lim, bound, log, n1, nq, qfrom, skipping

tvars == <<l, caseId, net, lim, bound, log, n1, nq, qfrom, skipping>>
state == <<caseId, net, lim, bound, log, n1, nq, qfrom>>

Range(s) == {s[i] : i \in DOMAIN s}
AcsOf(j) == [allow |-> Range(j.allow), deny |-> Range(j.deny)]
NetOf(j) ==
    [zones |-> {[apex |-> z.apex, soa |-> z.soa, ips |-> Range(z.ips), serving |-> Range(z.serving), recs |-> Range(z.recs),
                 cuts |-> Range(z.cuts)] : z \in Range(j.zones)},
     roots |-> Range(j.roots), inj |-> Range(j.inj), conc |-> j.conc, denyS |-> AcsOf(j.denyS), denyA |-> AcsOf(j.denyA)]
NoNet == [zones |-> {}, roots |-> {}, inj |-> {}, conc |-> [x \in {} |-> 0], denyS |-> NoFilter, denyA |-> NoFilter]

Init ==
    /\ l = 1 /\ caseId = "none" /\ net = NoNet /\ lim = [ns |-> 0, rec |-> 0] /\ bound = 0 /\ log = <<>> /\ n1 = 0 /\ nq = 1 /\ qfrom = 1
    /\ skipping = FALSE

e == Rec0[l]

Reset ==
    /\ e.ev = "reset"
    /\ caseId' = e.case /\ net' = NetOf(e.net) /\ lim' = e.lim /\ bound' = Bound(NetOf(e.net), e.lim)
    /\ log' = <<>> /\ n1' = 0 /\ nq' = 1 /\ qfrom' = 1 /\ skipping' = FALSE

\* every address some server ever named in a record that was NOT received in bailiwick
BadlyNamed ==
    {AddrOf(r) : r \in {x \in UNION {log[i].recs : i \in DOMAIN log} : IsAddr(x)} \ GoodlyReceived(net, log)}

AskProblems ==
    \* C19_Filters: "only addresses permitted by the configured server filter are contacted"
    (IF DeniedContact(net, e.ip) THEN {"denied-address-contacted"} ELSE {})
    \* C19_NoPoison: "... never used as nameserver addresses"
    \cup (IF e.ip \notin AddrKnownBy(net, log, Len(log))
          THEN {IF e.ip \in BadlyNamed THEN "address-from-out-of-bailiwick-record-contacted" ELSE "unknown-address-contacted"}
          ELSE {})
    \* C19_Terminates
    \cup (IF e.phase = 1 /\ n1 + 1 > nq * bound THEN {"too-many-upstream-queries"} ELSE {})
    \* ... and in particular the alias lookups of a client question by MAX_CNAME_LOOKUPS
    \cup (IF e.phase = 1 /\ ~AliasBudgetOk(Append(SubSeq(log, qfrom, Len(log)), [qn |-> e.qn, recs |-> {}]), nq)
          THEN {"alias-lookups-exceed-limit"} ELSE {})
    \* ... and how deep aliases are followed by the configured recursion_limit
    \cup (IF e.phase = 1 /\ ~AliasDepthOk(SubSeq(log, qfrom, Len(log)), e.qn, lim)
          THEN {"alias-chase-deeper-than-recursion-limit"} ELSE {})
    \cup (IF "capped" \in DOMAIN e THEN {"did-not-terminate"} ELSE {})

AskUpdate ==
    /\ log' = Append(log, [ip |-> e.ip, qn |-> e.qn, qt |-> e.qt, recs |-> Range(e.recs)])
    /\ n1' = IF e.phase = 1 THEN n1 + 1 ELSE n1
    /\ UNCHANGED <<nq, qfrom>>

\* result and probe: what is handed to a caller
HandedProblems(what) ==
    (IF e.kind = "runaway" THEN {"did-not-terminate"} ELSE {})
    \* C19_NoPoison: "... never returned, cached"
    \cup (IF PoisonIn(net, log, Range(e.recs)) # {} THEN {"out-of-bailiwick-record-" \o what} ELSE {})
    \* C19_Filters: "only addresses permitted by the answer filter are returned"
    \cup (IF DeniedAnswers(net, Range(e.recs)) # {} THEN {"denied-address-" \o what} ELSE {})

Problems ==
    CASE e.ev = "ask"    -> AskProblems
      [] e.ev = "result" -> HandedProblems("returned")
      [] e.ev = "probe"  -> HandedProblems("served-from-cache")
      [] e.ev = "end"    -> {}
      [] e.ev = "question" -> {}
      \* C19_NoPoison, "cached / used": a negative answer still served from the cache (no upstream query)
      \* later than the in-bailiwick records entitle the cache to keep it
      [] e.ev = "requery" -> (IF e.kind = "runaway" THEN {"did-not-terminate"} ELSE {})
                             \cup (IF e.kind = "neg" /\ e.asked = 0 /\ e.d > NegLife(net, log, e.qn, e.soaTtl, e.negMin)
                                   THEN {"negative-answer-kept-on-out-of-bailiwick-soa"} ELSE {})
                             \cup (IF PoisonIn(net, log, Range(e.recs)) # {} THEN {"out-of-bailiwick-record-served-from-cache"} ELSE {})
      \* C19_Filters, the filter itself
      [] e.ev = "acs"    -> IF e.denied # Denied(AcsOf(e.acs), e.addr) THEN {"address-filter-verdict-wrong"} ELSE {}
      \* C19_StubDepth
      [] e.ev = "stub"   -> (IF e.kind = "runaway" THEN {"did-not-terminate"} ELSE {})
                            \cup (IF ~StubQueriesOk(e.asked) THEN {"stub-alias-chase-exceeds-hop-limit"} ELSE {})
      [] OTHER           -> {"harness:unknown-event"}

Update ==
    CASE e.ev = "ask" -> AskUpdate /\ UNCHANGED <<caseId, net, lim, bound>>
      \* a new (batch of) client question(s): the per-question counters start again
      [] e.ev = "question" -> /\ nq' = e.n /\ qfrom' = Len(log) + 1 /\ n1' = 0
                              /\ UNCHANGED <<caseId, net, lim, bound, log>>
      [] OTHER        -> UNCHANGED state

Matched == ~skipping /\ e.ev # "reset" /\ Problems = {} /\ Update /\ UNCHANGED skipping

Detail ==
    IF e.ev \in {"result", "probe"}
    THEN [poison |-> PoisonIn(net, log, Range(e.recs)), denied |-> DeniedAnswers(net, Range(e.recs)), asked |-> n1,
          sentBy |-> {[ip |-> log[i].ip, qn |-> log[i].qn, qt |-> log[i].qt, delegated |-> Delegated(net, log[i].ip)] :
                      i \in {k \in DOMAIN log : log[k].recs \cap PoisonIn(net, log, Range(e.recs)) # {}}}]
    ELSE IF e.ev = "ask"
    THEN [asked |-> n1, bound |-> bound,
          namedBy |-> UNION {{[ip |-> log[i].ip, qn |-> log[i].qn, qt |-> log[i].qt, delegated |-> Delegated(net, log[i].ip),
                                rec |-> r] : r \in {x \in log[i].recs : IsAddr(x) /\ AddrOf(x) = e.ip}} : i \in DOMAIN log}]
    ELSE [asked |-> n1]

Reject ==
    /\ ~skipping /\ e.ev # "reset" /\ Problems # {}
    /\ PrintT(<<"MISMATCH", ToJson([case |-> caseId, line |-> l, event |-> e, problems |-> Problems, detail |-> Detail,
                                     denyS |-> net.denyS, denyA |-> net.denyA])>>)
    /\ skipping' = TRUE /\ UNCHANGED state

Skip == skipping /\ e.ev # "reset" /\ UNCHANGED <<state, skipping>>

Next == l <= Len(Rec0) /\ l' = l + 1 /\ (Reset \/ Matched \/ Reject \/ Skip)

TraceSpec == Init /\ [][Next]_tvars

Consumed ==
    LET d == TLCGet("stats").diameter IN
    IF d - 1 = Len(Rec0) THEN PrintT(<<"TRACE-CONSUMED", Len(Rec0)>>)
    ELSE PrintT(<<"TRACE-STUCK", d, Len(Rec0)>>) /\ FALSE
=============================================================================
