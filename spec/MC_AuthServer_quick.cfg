\* quick tier: all zones of <= 2 nodes over the smaller universe x all queries; safety
SPECIFICATION Spec
CONSTANTS
  ZApex  <- Apex
  ApexData <- ApexRRs
  NodeData <- MCQ_NodeData
  MaxNodes = 2
  QNames <- MCQ_QNames
  QTypes <- MC_QTypes
  MaxChain = 10
INVARIANTS TypeOK C10_Algorithm C10_NeverBelowCut C10_ReferralAtCut C10_WildcardFromClosestEncloserOnly
           C10_NxdomainOnlyIfAbsent C10_SOAOnNegative C10_ExistingNameNeverNxdomain C10_AsIsAnchored
CHECK_DEADLOCK FALSE
