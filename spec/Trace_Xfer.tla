------------------------------ MODULE Trace_Xfer ------------------------------
(* Trace validation for X02 (obligation T: impl -> spec), monitor style.  Every *)
(* event is one case, recorded from the real code by drive_xfer:                *)
(*   server   zones (as stored in the zone handlers: apex, soa, rest, sigs),    *)
(*            target (index of the zone whose apex is the query name, 0 = none),*)
(*            policy, store, sign, req, and msgs = every message the server     *)
(*            sent back, projected (id qr op rc aa tc q an ns ar)               *)
(*   client   via, mode, have, script, term and what the real transfer stream   *)
(*            (via "direct") or the real client stack (via "stack") did:        *)
(*            items ("ok" / "err" per item it yielded), taken (messages it took *)
(*            from the layer below), polls (times it asked that layer), ended   *)
(*   request  the transfer request the client built, projected                  *)
(*   e2e      the real client stack asked the real server: zone (as stored),    *)
(*            server (rc, tc, an, len per message sent), items, ended,          *)
(*            delivered (the answer records of the items handed over as good)   *)
(* The monitor evaluates the operators of XferOps per event; it never looks at  *)
(* how the implementation chunks or orders records.                             *)
EXTENDS XferOps, TLC, Json, IOUtils

Rec == ndJsonDeserialize(IOEnv.TRACE)
VARIABLES l
Init == l = 1
e == Rec[l]

(* ---- server ---- *)
ZoneOf(z) == [soa |-> z.soa[1], rest |-> Range(z.rest), sigs |-> Range(z.sigs)]
AllOf(z) == Range(z.soa) \cup Range(z.rest) \cup Range(z.sigs)
\* when the query name is nobody's apex no requirement refers to the zone: any will do
Target == IF e.target > 0 THEN e.zones[e.target] ELSE e.zones[1]
TZone == ZoneOf(Target)
\* records of the other zones of the catalog (a delegation NS RRset is in parent and child alike)
Foreign == UNION {AllOf(e.zones[i]) : i \in {j \in DOMAIN e.zones : j # e.target}}
           \ (IF e.target > 0 THEN AllOf(Target) ELSE {})
SReq == [proto |-> e.req.proto, qtype |-> e.req.qtype, id |-> e.req.id, have |-> e.req.have]
SDuty == Duty(SReq, e.policy, e.target)
ServerAllowed ==
    /\ e.obs = "ok"
    /\ \A i \in DOMAIN e.zones : Len(e.zones[i].soa) = 1
    /\ ("expDuty" \in DOMAIN e) => e.expDuty = SDuty
    /\ ServerConforms(SDuty, e.msgs, TZone, SReq, Foreign)

Flat0 == FlatAn(e.msgs)
Mid0 == Inner(Flat0)
Few(S) == IF Cardinality(S) <= 12 THEN S ELSE {}
ServerReport ==
    [case |-> e.case, line |-> l, kind |-> "server", duty |-> SDuty, obs |-> e.obs,
     expDuty |-> IF "expDuty" \in DOMAIN e THEN e.expDuty ELSE SDuty,
     failures |-> ServerFailures(SDuty, e.msgs, TZone, SReq, Foreign),
     req |-> e.req, policy |-> e.policy, store |-> e.store, sign |-> e.sign, target |-> e.target,
     nmsgs |-> Len(e.msgs), rcs |-> [i \in DOMAIN e.msgs |-> e.msgs[i].rc], lens |-> [i \in DOMAIN e.msgs |-> e.msgs[i].len],
     answers |-> Len(Flat0), zoneRecords |-> Cardinality(TZone.rest), zoneSigs |-> Cardinality(TZone.sigs),
     missingRecords |-> Cardinality(TZone.rest \ Range(Flat0)), missingSigs |-> Cardinality(TZone.sigs \ Range(Flat0)),
     duplicates |-> Len(Mid0) - Cardinality(Range(Mid0)), foreignSent |-> Few(Range(Flat0) \cap Foreign)]

(* ---- client ---- *)
CV == ClientVerdict(e.script, e.mode, e.have)
ClientAllowed ==
    /\ e.obs = "ok" /\ e.inOrder
    /\ IF CV.verdict = "complete"
       \* the messages up to the end delivered, nothing after them taken or even asked for
       \* (over the whole stack only the items are visible)
       THEN /\ e.ended /\ e.items = [i \in 1..CV.k |-> "ok"]
            /\ e.via = "direct" => (e.taken = CV.k /\ e.polls = CV.k)
       \* an error reported (what was delivered before it is the nature of a stream)
       ELSE "err" \in Range(e.items)
ClientReport ==
    [case |-> e.case, line |-> l, kind |-> "client", expected |-> CV, why |-> Why(e.script, e.mode, e.have),
     via |-> e.via, mode |-> e.mode, have |-> e.have, term |-> e.term, script |-> e.script,
     items |-> e.items, taken |-> e.taken, polls |-> e.polls, ended |-> e.ended, obs |-> e.obs, inOrder |-> e.inOrder]

(* ---- request ---- *)
RequestReport == [case |-> e.case, line |-> l, kind |-> "request", event |-> e]

(* ---- end to end ---- *)
(* "never silently succeeds with a partial zone": whatever the real server sent, *)
(* if the real client stack reports no error and ends its stream, what it        *)
(* delivered is the whole zone between two copies of its SOA (or, for IXFR from  *)
(* a client that is current, the single SOA).                                    *)
EZone == ZoneOf(e.zone)
Claimed == e.ended /\ "err" \notin Range(e.items)
WholeDelivered ==
    LET flat == e.delivered
        n == Len(flat)
    IN /\ n >= 2 /\ flat[1] = EZone.soa /\ flat[n] = EZone.soa
       /\ EZone.rest \subseteq Range(flat)
       /\ Range(flat) \subseteq ({EZone.soa} \cup EZone.rest \cup EZone.sigs)
UpToDateDelivered == e.mode = "ixfr" /\ e.have \in {"same", "newer"} /\ e.delivered = <<EZone.soa>>
E2EAllowed == e.obs = "ok" /\ (Claimed => (WholeDelivered \/ UpToDateDelivered))
E2EReport ==
    [case |-> e.case, line |-> l, kind |-> "e2e", mode |-> e.mode, have |-> e.have, policy |-> e.policy, store |-> e.store,
     server |-> e.server, items |-> Len(e.items), ended |-> e.ended, obs |-> e.obs,
     delivered |-> Len(e.delivered), zoneRecords |-> Cardinality(EZone.rest),
     missing |-> Cardinality(EZone.rest \ Range(e.delivered))]

Allowed == CASE e.ev = "server"  -> ServerAllowed
             [] e.ev = "e2e"     -> E2EAllowed
             [] e.ev = "client"  -> ClientAllowed
             [] e.ev = "request" -> RequestOk(e)
             [] OTHER -> FALSE
Report == CASE e.ev = "server"  -> ServerReport
            [] e.ev = "e2e"     -> E2EReport
            [] e.ev = "client"  -> ClientReport
            [] e.ev = "request" -> RequestReport
            [] OTHER -> [case |-> e.case, line |-> l, kind |-> "harness", event |-> e]

Reject == ~Allowed /\ PrintT(<<"MISMATCH", ToJson(Report)>>)
Next == l <= Len(Rec) /\ l' = l + 1 /\ (Allowed \/ Reject)
TraceSpec == Init /\ [][Next]_<<l>>
Consumed ==
    LET d == TLCGet("stats").diameter IN
    IF d - 1 = Len(Rec) THEN PrintT(<<"TRACE-CONSUMED", Len(Rec)>>)
    ELSE PrintT(<<"TRACE-STUCK", d, Len(Rec)>>) /\ FALSE
=============================================================================
