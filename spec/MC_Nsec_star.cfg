\* C08 obligation D: "*" also as an interior label (a.*.example.: wildcards that are empty
\* non-terminals, RFC 4592 2.1.3 / 2.2.1)
SPECIFICATION Spec
CONSTANTS
  Apex <- MC_Apex
  Universe <- S_Universe
  PlainKinds <- MC_PlainKinds
  WildKinds <- MC_WildKinds
  MaxOwners = 2
  QNames <- S_QNames
  QTypes <- S_QTypes
  MaxProof = 2
  ParentSide <- MC_ParentSide
INVARIANTS TypeOK C08_Complete C08_Sound C08_ProofFromChain
CHECK_DEADLOCK FALSE
