---------------------------- MODULE Gen_ZoneLex ----------------------------
(* Case generator at the lexical level (C20, obligation R: spec -> impl).    *)
(* Every string s of length <= MaxLen over the alphabet is put into each of  *)
(* the templates <<prefix, suffix>> (RDATA of a TXT record, glued to a word,  *)
(* a name in RDATA, an owner, inside parentheses, ...).  The case carries the *)
(* text and what the specification says it denotes: Read(text) = ok + the     *)
(* records, err, or unspec (then only totality is demanded of the code).      *)
EXTENDS ZoneFile, TLC, Json

CONSTANTS Alphabet, MaxLen, MinLen, Templates, Origin0
VARIABLES tpl, str

GInit == /\ tpl \in 1..Len(Templates)
         /\ str \in UNION {[1..n -> Alphabet] : n \in MinLen..MaxLen}
GNext == UNCHANGED <<tpl, str>>
GSpec == GInit /\ [][GNext]_<<tpl, str>>

Pieces == <<Templates[tpl][1]>> \o str \o <<Templates[tpl][2]>>
CaseOf(r) == [pieces |-> Pieces, origin |-> Origin0, exp |-> [st |-> r.st, recs |-> r.recs], tags |-> r.tags,
              zone |-> FALSE, tpl |-> tpl, why |-> r.why]
Emit == PrintT(<<"REPLAY", ToJson(CaseOf(ReadChars(Chars(Templates[tpl][1]) \o str \o Chars(Templates[tpl][2]), Origin0)))>>)

G_Alphabet == {"a", "1", "-", "_", " ", "\t", "\n", "\r", ";", "(", ")", "\"", "\\", "$", "@", ".", "\f"}
G_Origin == <<"example", "com">>
G_Templates == <<
    <<"o 5 IN TXT ", "\n">>,                  \* character strings as RDATA
    <<"o 5 IN TXT x", "y z\n">>,               \* glued to words
    <<"o 5 IN TXT ( p", "q )\n">>,             \* inside parentheses
    <<"o 5 IN NS ", "\n">>,                    \* a domain name as RDATA
    <<"", " 5 IN A 192.0.2.1\n">>,             \* the owner
    <<"o 5 IN A 192.0.2.1", "\n\tAAAA ::1\n">>, \* end of one entry, start of the next
    <<"o 5 IN MX 1", "m\n">> >>                \* between two RDATA fields
G_Templates1 == <<G_Templates[1], G_Templates[3]>>
=============================================================================
