------------------------------ MODULE DnsNames ------------------------------
(* Domain names, labels and the canonical DNS name order.  Constant-free and  *)
(* variable-free: every module that needs names EXTENDS (or INSTANCEs) it.    *)
(*                                                                            *)
(* Representation (DESIGN.md 3.1, Appendix A.1)                               *)
(*   octet  : 0..255                                                          *)
(*   label  : non-empty sequence of octets, e.g. <<119,119,119>> = "www"      *)
(*   name   : sequence of labels, LEFTMOST (least significant) FIRST, always  *)
(*            absolute; the root is <<>>.  "a.example." =                     *)
(*            << <<97>>, <<101,120,97,109,112,108,101>> >>                    *)
(* The JSON form of a name is the same nesting of arrays.                     *)
(*                                                                            *)
(* Sources: RFC 1034 3.1 / RFC 4343 (case-insensitive comparison),            *)
(* RFC 4034 6.1 (canonical order), RFC 4592 2.1.1 (wildcard label),           *)
(* RFC 1035 2.3.4 (size limits).                                              *)
EXTENDS Integers, Sequences, FiniteSets

STAR == <<42>>                     \* the wildcard label "*"

-----------------------------------------------------------------------------
(* Case folding: only US-ASCII upper-case letters are folded (RFC 4343).      *)
Fold(b)      == IF b >= 65 /\ b <= 90 THEN b + 32 ELSE b
FoldLabel(l) == [i \in 1..Len(l) |-> Fold(l[i])]
FoldName(n)  == [i \in 1..Len(n) |-> FoldLabel(n[i])]

LabelEq(a, b) == a = b \/ FoldLabel(a) = FoldLabel(b)
NameEq(m, n)  == m = n \/ FoldName(m) = FoldName(n)

-----------------------------------------------------------------------------
(* Size limits (RFC 1035 2.3.4).                                              *)
RECURSIVE SumLens(_, _)
SumLens(n, i) == IF i > Len(n) THEN 0 ELSE Len(n[i]) + SumLens(n, i + 1)
WireLen(n)    == Len(n) + SumLens(n, 1) + 1
ValidLabel(l) == Len(l) >= 1 /\ Len(l) <= 63 /\ \A i \in 1..Len(l) : l[i] \in 0..255
ValidName(n)  == WireLen(n) <= 255 /\ \A i \in 1..Len(n) : ValidLabel(n[i])

-----------------------------------------------------------------------------
(* RFC 4034 6.1.  Labels are compared as unsigned left-justified octet        *)
(* strings, the absence of an octet sorts before a zero octet, upper case is  *)
(* treated as lower case.  Names are compared label by label starting with    *)
(* the most significant (rightmost) one; a name that runs out of labels       *)
(* first (a proper ancestor) sorts first.  Results: -1 less, 0 equal, 1       *)
(* greater.                                                                   *)
RECURSIVE LabelCmpFrom(_, _, _)
LabelCmpFrom(a, b, i) ==
    IF i > Len(a) THEN (IF i > Len(b) THEN 0 ELSE -1)
    ELSE IF i > Len(b) THEN 1
    ELSE LET x == Fold(a[i]) y == Fold(b[i]) IN
         IF x < y THEN -1 ELSE IF x > y THEN 1 ELSE LabelCmpFrom(a, b, i + 1)
LabelCmp(a, b)  == IF a = b THEN 0 ELSE LabelCmpFrom(a, b, 1)
LabelLess(a, b) == LabelCmp(a, b) = -1

\* k = number of labels, counted from the right, already found equal
RECURSIVE NameCmpFrom(_, _, _)
NameCmpFrom(m, n, k) ==
    IF k >= Len(m) THEN (IF k >= Len(n) THEN 0 ELSE -1)
    ELSE IF k >= Len(n) THEN 1
    ELSE LET c == LabelCmp(m[Len(m) - k], n[Len(n) - k]) IN
         IF c # 0 THEN c ELSE NameCmpFrom(m, n, k + 1)
CanonCmp(m, n)  == IF m = n THEN 0 ELSE NameCmpFrom(m, n, 0)
CanonLess(m, n) == CanonCmp(m, n) = -1
CanonLeq(m, n)  == CanonCmp(m, n) <= 0

\* the canonically smallest element of a non-empty finite set of names
CanonMin(S) == CHOOSE x \in S : \A y \in S : CanonLeq(x, y)

-----------------------------------------------------------------------------
(* The name tree.                                                             *)
Suffix(n, k) == SubSeq(n, Len(n) - k + 1, Len(n))     \* the k most significant labels of n
Parent(n)    == Tail(n)                               \* only for Len(n) > 0
Depth(n)     == Len(n)

\* child is equal to, or a descendant of, parent
IsSubdomain(child, parent) ==
    /\ Len(parent) <= Len(child)
    /\ LET s == Suffix(child, Len(parent)) IN s = parent \/ FoldName(s) = FoldName(parent)
ProperSubdomain(child, parent) == Len(parent) < Len(child) /\ IsSubdomain(child, parent)

\* n itself and every ancestor up to the root
AncestorsOrSelf(n) == { Suffix(n, k) : k \in 0..Len(n) }
Ancestors(n)       == { Suffix(n, k) : k \in 0..(Len(n) - 1) }

\* number of most significant labels m and n have in common
RECURSIVE CommonFrom(_, _, _)
CommonFrom(m, n, k) ==
    IF k >= Len(m) \/ k >= Len(n) THEN k
    ELSE IF LabelEq(m[Len(m) - k], n[Len(n) - k]) THEN CommonFrom(m, n, k + 1) ELSE k
CommonLabels(m, n)   == CommonFrom(m, n, 0)
CommonAncestor(m, n) == Suffix(m, CommonLabels(m, n))  \* deepest name that is an ancestor-or-self of both

-----------------------------------------------------------------------------
(* Wildcards (RFC 4592).                                                      *)
Wildcard(n)   == <<STAR>> \o n                 \* "*.n"
IsWildcard(n) == Len(n) > 0 /\ n[1] = STAR     \* the leftmost label is exactly "*"

\* Names: a set of names that exist (owner names); a name also exists if it has a descendant in
\* Names (empty non-terminal, RFC 4592 2.2.2).
ExistsIn(n, Names) == \E o \in Names : IsSubdomain(o, n)

\* RFC 4592 3.3.1: the closest encloser of q is its longest existing ancestor-or-self.
\* Defined when some ancestor-or-self of q exists (e.g. Names contains the zone apex).
ClosestEncloser(q, Names) ==
    LET ks == { k \in 0..Len(q) : ExistsIn(Suffix(q, k), Names) }
        k  == CHOOSE x \in ks : \A y \in ks : y <= x
    IN  Suffix(q, k)
\* RFC 4592 3.3.1: the source of synthesis is "*.<closest encloser>"
SourceOfSynthesis(q, Names) == Wildcard(ClosestEncloser(q, Names))
=============================================================================
