SPECIFICATION Spec
CONSTANTS
  M = 32
  Inc = 30
  Exp = 5
  IncAlt = 27
  ExpAlt = 9
  OrigTtl = 4
  OrigTtlAlt = 9
  RecTtls <- MC_RecTtls
  Steps <- MCV_Steps
  MaxMono = 0
  MaxCalls = 1
  ClkStarts <- MCV_Starts
  ArgSet <- MCV_Args
  RRV <- MCV_RRV
  SIGV <- MCV_SIGV
  KEYV <- MCV_KEYV
  NameCaseSigned = TRUE
  CacheRule = "required"
  CfgMin = 0
  CfgMax = 99
  Deviation = "none"
INVARIANTS TypeOK C06_SecureOnlyGenuine C06_SecureOnlyInWindow C06_TtlBound C06_StrayNeverSecure C06_FreshWithinRequirement
CHECK_DEADLOCK FALSE
