------------------------------ MODULE AuthAsIs ------------------------------
(* Known deviations of hickory-dns from AuthAnswer, as switchable rules      *)
(* (DESIGN Appendix A.5).  Constant-free.                                    *)
(*                                                                           *)
(* AnswerD(V, qn, qt, D) is the required answer with the rules named in D    *)
(* replaced by the rule the code follows.  It is used for one purpose only:  *)
(* to attribute a response that does NOT conform to Answer(V, qn, qt) to the *)
(* listed findings.  A mismatch is attributed only if the response is        *)
(* exactly what the listed deviations predict; anything else stays an        *)
(* unexplained violation.  Conformance itself is always judged against       *)
(* AuthAnswer!Answer; MC_AuthServer checks AnswerD(.., {}) = Answer(..).     *)
(*                                                                           *)
(* Deviations (each one is a finding, see proposed/C10-findings.txt):        *)
(*  wildcard-any-ancestor     a "*" child of ANY ancestor is used, chosen    *)
(*                            per type, even when the name itself exists     *)
(*                            (RFC 4592 3.3.1: only below the closest        *)
(*                            encloser, only if the name does not exist)     *)
(*  wildcard-star-qname       no synthesis at all when the name looked up    *)
(*                            starts with "*" (RFC 1034 4.3.3: "*" in a      *)
(*                            query name has no special effect)              *)
(*  wildcard-nodata-nxdomain  NXDOMAIN although the source of synthesis      *)
(*                            exists (RFC 4592 2.2.1: no error, no data)     *)
(*  any-as-one-type           ANY is replaced by one type picked from the    *)
(*                            records AT the name (A if there are none)      *)
(*                            before the lookup, so wildcard data of other   *)
(*                            types is missed                                *)
(*  referral-aa               AA set on referrals                            *)
(*  referral-deepest-cut      the cut nearest to QNAME is used, not the one  *)
(*                            nearest to the apex (NS below a cut is         *)
(*                            occluded data)                                 *)
(*  referral-ns-in-answer     QTYPE NS/ANY for a name below a cut: the cut's *)
(*                            NS set goes into the answer section            *)
(*  chain-ns-in-answer        a CNAME chain that reaches a cut: the cut's NS *)
(*                            set is appended to the answer section          *)
(*  dnssec-soa-no-wildcard-proof   (DO) QTYPE=SOA answered through a wildcard*)
(*                            expansion: the apex NS set is added instead of *)
(*                            the proof that QNAME itself does not exist     *)
(*  nsec-apex-only-no-denial  (DO, NSEC) a zone whose only name is the apex: *)
(*                            the single NSEC (next = owner) is never found  *)
EXTENDS AuthAnswer

AllDeviations == {"wildcard-any-ancestor", "wildcard-star-qname", "wildcard-nodata-nxdomain", "any-as-one-type",
                  "referral-aa", "referral-deepest-cut", "referral-ns-in-answer", "chain-ns-in-answer",
                  "dnssec-soa-no-wildcard-proof", "nsec-apex-only-no-denial"}

Deepest(S) == CHOOSE c \in S : \A d \in S : Len(d) <= Len(c)

\* "*" children of all proper ancestors up to the apex, nearest first
RECURSIVE WildCandidates(_, _)
WildCandidates(n, apex) ==
    IF n = apex \/ n = Root THEN <<>> ELSE <<WildcardAt(Parent(n))>> \o WildCandidates(Parent(n), apex)

LeastCode(ts) == CHOOSE x \in ts : \A y \in ts : TypeCode(x) <= TypeCode(y)
ReplaceAny(V, n) ==
    LET ts  == TypesOf(At(V, n))
        pri == ts \cap {"CNAME", "A", "AAAA", "MX"}
    IN  IF pri # {} THEN LeastCode(pri) ELSE IF ts # {} THEN LeastCode(ts) ELSE "A"

ResolveD(V, n, t, D) ==
    LET deep  == "referral-deepest-cut" \in D
        cs0   == CutsAbove(V, n)
        cs    == IF deep THEN {c \in cs0 : ~(t = "DS" /\ c = n)} ELSE cs0
        refer == IF deep THEN cs # {} ELSE cs0 # {} /\ ~(t = "DS" /\ TopCut(V, n) = n)
    IN
    IF refer
    THEN LET c == IF deep THEN Deepest(cs) ELSE TopCut(V, n)
             ns == OfType(At(V, c), "NS")
         IN  IF n = c /\ t \in {"NS", "ANY"} THEN Res("referOrNs", ns, <<>>, c, FALSE)
             ELSE Res("refer", ns, <<>>, c, FALSE)
    ELSE LET anyAnc == "wildcard-any-ancestor" \in D
             Useful(rs) == (t = "ANY" /\ rs # {}) \/ t \in TypesOf(rs) \/ "CNAME" \in TypesOf(rs)
             ex    == n \in V.exist
             cands == IF "wildcard-star-qname" \in D /\ IsWildcard(n) THEN <<>>
                      ELSE IF anyAnc THEN WildCandidates(n, V.apex)
                      ELSE IF ~ex THEN <<SourceOfSynthesis(V, n)>> ELSE <<>>
             hits  == {i \in 1..Len(cands) : IF anyAnc THEN Useful(At(V, cands[i])) ELSE At(V, cands[i]) # {}}
             first == CHOOSE i \in hits : \A j \in hits : i <= j
             src   == IF anyAnc
                      THEN IF Useful(At(V, n)) \/ hits = {} THEN n ELSE cands[first]
                      ELSE IF ex \/ hits = {} THEN n ELSE cands[first]
             here  == Synth(At(V, src), n)
             wild  == src # n
             isNodata == IF "wildcard-nodata-nxdomain" \in D THEN ex
                         ELSE ex \/ SourceOfSynthesis(V, n) \in V.exist
         IN  IF ~Useful(here)
             THEN IF isNodata THEN Res("nodata", {}, <<>>, <<>>, wild \/ ~ex)
                  ELSE Res("nxdomain", {}, <<>>, <<>>, FALSE)
             ELSE IF t = "ANY" THEN Res("any", here, <<>>, <<>>, wild)
             ELSE IF "CNAME" \in TypesOf(here) /\ t # "CNAME"
                  THEN Res("cname", OfType(here, "CNAME"), (CHOOSE r \in OfType(here, "CNAME") : TRUE).d, <<>>, wild)
             ELSE Res("data", OfType(here, t), <<>>, <<>>, wild)

FinishDirectD(r, qt, D) ==
    LET aa == IF "referral-aa" \in D THEN "y" ELSE "n"
        referAlt == Alt("refer", {"NOERROR"}, aa, <<>>, 0, FALSE, "ns", r.cut, {})
        cutnsAlt == Alt("cutns", {"NOERROR"}, "*", <<r.rrs>>, 1, FALSE, "*", <<>>, {})
    IN  CASE r.k = "refer" ->
               IF "referral-ns-in-answer" \in D /\ qt \in {"NS", "ANY"} THEN {cutnsAlt} ELSE {referAlt}
          [] r.k = "referOrNs" -> {referAlt, cutnsAlt}
          [] OTHER -> FinishDirect(r)

FinishChainD(r, acc, dn, D) ==
    IF r.k \in {"refer", "referOrNs"} /\ "chain-ns-in-answer" \in D
    THEN {Alt("chain-cutns", {"NOERROR"}, "y", Append(acc, r.rrs), Least(Len(acc) + 1, MinChase), FALSE, "*", <<>>, dn)}
    ELSE FinishChain(r, acc, dn)

RECURSIVE ChaseD(_, _, _, _, _, _, _, _)
ChaseD(V, n, t, qt, seen, acc, dn, D) ==
    LET r == ResolveD(V, n, t, D) IN
    IF r.k = "cname"
    THEN LET acc2 == Append(acc, r.rrs)
             dn2  == dn \cup (IF r.wild THEN {Len(acc2)} ELSE {})
         IN  IF ~IsSubdomain(r.target, V.apex) THEN FinishChain(Res("out", {}, <<>>, <<>>, FALSE), acc2, dn2)
             ELSE IF r.target \in seen \cup {n} THEN FinishChain(Res("loop", {}, <<>>, <<>>, FALSE), acc2, dn2)
             ELSE ChaseD(V, r.target, t, qt, seen \cup {n}, acc2, dn2, D)
    ELSE IF acc = <<>> THEN FinishDirectD(r, qt, D) ELSE FinishChainD(r, acc, dn, D)

AnswerD0(V, qn, qt, D) ==
    IF ~IsSubdomain(qn, V.apex) THEN NotAuth
    ELSE LET t    == IF qt = "ANY" /\ "any-as-one-type" \in D THEN ReplaceAny(V, qn) ELSE qt
             base == ChaseD(V, qn, t, qt, {}, <<>>, {}, D)
             r0   == ResolveD(V, qn, t, D)
         IN  IF t = "ANY" /\ r0.k = "any" /\ "CNAME" \in TypesOf(r0.rrs)
             THEN base \cup UNION {ChaseD(V, qn, ty, qt, {}, <<>>, {}, D) : ty \in FollowTypes}
             ELSE base

\* the two DNSSEC deviations only drop the obligation to carry a denial
NoDenial(a) == [a EXCEPT !.dn = {}]
AnswerD(V, qn, qt, D) ==
    LET alts == AnswerD0(V, qn, qt, D) IN
    IF "nsec-apex-only-no-denial" \in D /\ V.owners = {V.apex} THEN {NoDenial(a) : a \in alts}
    ELSE IF "dnssec-soa-no-wildcard-proof" \in D /\ qt = "SOA"
         THEN {IF a.an # <<>> THEN NoDenial(a) ELSE a : a \in alts}
    ELSE alts

\* the listed deviations without which the prediction for this query would be different
BlamedFor(V, qn, qt, D, full) == {d \in D : AnswerD(V, qn, qt, D \ {d}) # full}
Blamed(V, qn, qt, D) == BlamedFor(V, qn, qt, D, AnswerD(V, qn, qt, D))
=============================================================================
