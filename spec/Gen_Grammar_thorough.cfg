SPECIFICATION Spec
CONSTANTS
  GClasses = {1, 3, 254, 255}
  Pairs = TRUE
  TlvMaxItems = 3
  TlvLens = {0, 1, 5}
  TlvDeltas <- MC_TlvDeltas
INVARIANT Emit
CHECK_DEADLOCK FALSE
