SPECIFICATION Spec
CONSTANTS
  GClasses = {1, 3, 254, 255}
  Pairs = TRUE
INVARIANT Emit
CHECK_DEADLOCK FALSE
