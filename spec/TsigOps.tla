------------------------------- MODULE TsigOps -------------------------------
(* Requirement-level operators for C13 (TSIG-authenticated updates and         *)
(* signed-only transfers), written from RFC 8945 section 5.2 and the property  *)
(* statement.  Constant-free; shared by the server model (Tsig), the case      *)
(* generator and the trace monitor.                                            *)
(*                                                                             *)
(* A request r is described by what an outside observer knows about how it was *)
(* produced:                                                                   *)
(*   op      "update" | "axfr" | "ixfr" (a zone transfer, too: RFC 1995)       *)
(*   signed  the message ends with a TSIG record                               *)
(*   keyName "k1" | "k2" (configured keys) | "kx" (not configured)             *)
(*   macKey  the secret the MAC was computed with: "k1" | "k2" | "kbad" |      *)
(*           "kprefix" (the named key's secret cut at its first CR/LF octet --  *)
(*           keys are binary, what a sloppy key-file reader would keep)         *)
(*   alg     "cfg" (the algorithm configured for that key name) | "other"      *)
(*   macLen  "full" | "trunc" (a proper prefix of the genuine MAC)             *)
(*   dt      TSIG time minus the server clock, in seconds                      *)
(*   tamper  what was altered after signing ("none", or a region name)         *)
(*   hdr     header bits the sender set BEFORE signing: "plain" | "rd" | "cd"  *)
(*           | "rdcd" (they are covered by the MAC and change nothing)         *)
(* and the zone policy p = [allowUpdate, axfr ("deny"|"all"|"signed"), fudge,  *)
(* store ("sqlite" | "memory": which zone handler serves the zone), start      *)
(* ("direct": handler built by the harness | "first": loaded from its          *)
(* configuration as the server binary does | "restart": loaded a second time,  *)
(* from the journal of the first run) -- the policy holds however the zone was *)
(* brought up].                                                                *)
EXTENDS Naturals, Integers, Sequences, FiniteSets

Configured == {"k1", "k2"}

\* regions whose alteration is NOT covered by the MAC by design (RFC 8945 4.3.3: the message ID
\* is replaced by the original ID before the MAC is computed) or that lie outside the message
\* and the letter case of the key name (digested in canonical, lower-case form)
FreeTampers == {"none", "msgId", "tsigNameCase"}
\* an alteration the statement does not clearly decide: bytes appended behind the final TSIG
\* record (they are not part of the DNS message the header describes); both outcomes accepted
EitherTampers == {"appended"}

Abs(x) == IF x < 0 THEN 0 - x ELSE x

KeyOk(r)  == r.signed /\ r.keyName \in Configured /\ r.macKey = r.keyName /\ r.alg = "cfg" /\ r.macLen = "full"
\* "whose time is within fudge of the server clock": the fudge is the one the REQUEST carries under its
\* MAC (RFC 8945 5.2.3), not a value of the server's configuration; rfudge is absent where the sender
\* used the configured value
RF(r, p) == IF "rfudge" \in DOMAIN r THEN r.rfudge ELSE p.fudge
TimeIn(r, p)  == Abs(r.dt) < RF(r, p)          \* strictly inside the window
TimeEdge(r, p) == Abs(r.dt) = RF(r, p)         \* "within fudge": < or <= left open by the statement

\* the request is a valid, timely, untampered TSIG-signed request
Authentic(r, p) == KeyOk(r) /\ TimeIn(r, p) /\ r.tamper \in FreeTampers
\* ... or one of the cases the statement leaves open
MaybeAuthentic(r, p) ==
    KeyOk(r) /\ (TimeIn(r, p) \/ TimeEdge(r, p)) /\ r.tamper \in (FreeTampers \cup EitherTampers)

(* May the request take effect (change the zone / return zone data)?           *)
(* UPDATE: only if updates are allowed and the request is authentic.           *)
(* AXFR:   never under "deny"; under "signed" only if authentic; under "all"   *)
(*         the property does not restrict it.                                  *)
MayEffect(r, p) ==
    IF r.op = "update" THEN p.allowUpdate /\ MaybeAuthentic(r, p)
    ELSE CASE p.axfr = "deny" -> FALSE
           [] p.axfr = "all" -> TRUE
           [] p.axfr = "signed" -> MaybeAuthentic(r, p)

\* requests every conforming server is expected to honour (used only against vacuity and to
\* know when a signed reply has to be checked) -- the property itself is one-directional
Honoured(r, p) ==
    /\ Authentic(r, p) /\ r.tamper = "none"
    /\ IF r.op = "update" THEN p.allowUpdate /\ p.store = "sqlite"
       ELSE r.op = "axfr" /\ p.store = "sqlite" /\ p.axfr \in {"all", "signed"}

\* C13_EffectOnlyIfValid / C13_Unchanged
C13_EffectOk(r, p, effect) == effect => MayEffect(r, p)
\* ... and the other direction where nothing is open: a server that holds the key honours the key
\* holder's authentic, timely, untampered request (otherwise "requires a valid TSIG" would be met by
\* refusing everybody -- or by holding a different key than the one configured)
C13_HonouredOk(r, p, effect) == Honoured(r, p) => effect

(* Reply obligations for an authentic request that took effect: the reply      *)
(* carries a TSIG the client-side verifier accepts, and no modified copy of    *)
(* the reply is accepted.  o = [signed, verifies, modifiedTried, modifiedAccepted] *)
\* (a transfer under the allow-all policy is outside the property: the server need not look at
\* the signature at all)
ReplyMustBeSigned(r, p) == r.signed /\ Authentic(r, p) /\ ~(r.op \in {"axfr", "ixfr"} /\ p.axfr = "all")
C13_ReplyOk(r, p, effect, o) ==
    (effect /\ ReplyMustBeSigned(r, p)) => (o.signed /\ o.verifies /\ o.modifiedAccepted = 0)

(* RFC 8945 5.3.2: a reply to a request whose key or MAC did not verify (BADKEY, *)
(* BADSIG) is NOT signed -- a server that computes a MAC over data chosen by an  *)
(* unauthenticated sender hands out forgeries ("signed so that the client-side   *)
(* verifier accepts it" presupposes that only the key holder's requests get a    *)
(* MAC).  BADTIME replies are signed (5.2.3); a proper prefix of the genuine MAC *)
(* still shows possession of the key, so truncation is left open here.           *)
Verified(r) ==
    r.signed /\ r.keyName \in Configured /\ r.macKey = r.keyName /\ r.alg = "cfg"
    /\ r.tamper \in (FreeTampers \cup EitherTampers)
C13_NoOracleOk(r, macPresent) == macPresent => Verified(r)
=============================================================================
