----------------------------- MODULE Gen_WireName -----------------------------
(* Case generator for C01 (names, obligation R): every buffer x start offset   *)
(* of the configured space with the meaning WireNameOps gives it.              *)
EXTENDS WireName, Json

Case == [buf |-> buf, start |-> start, ok |-> Meaning.ok, labels |-> Meaning.labels, next |-> Meaning.next,
         why |-> Meaning.why]
Emit == (steps = 0) => PrintT(<<"REPLAY", ToJson(Case)>>)
=============================================================================
