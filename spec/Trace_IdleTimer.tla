--------------------------- MODULE Trace_IdleTimer ---------------------------
(* Trace validation of the server-side wrapper (TimeoutStream) against the    *)
(* idle-timer model IdleTimer.tla.  Events of `drive_tcp idle-probe`:          *)
(*   reset  case T frames                                                      *)
(*   poll   wait inner got    `wait` seconds pass, then the wrapper is polled  *)
(*                            while the wrapped stream has a whole frame       *)
(*                            (inner = ready) or nothing (pending)             *)
(* Judged with the rules of IdleTimer: the timer is armed by the first poll    *)
(* and re-armed by every delivery; READY WORK WINS over a timer that has run   *)
(* out (the item is delivered); a poll that finds the wrapped stream pending   *)
(* ends the stream with an error iff the timer has run out.                    *)
EXTENDS Naturals, Sequences, TLC, Json, IOUtils

Rec == ndJsonDeserialize(IOEnv.TRACE)
VARIABLES l, T, now, armedAt, polled, over

Init == l = 1 /\ T = 0 /\ now = 0 /\ armedAt = 0 /\ polled = FALSE /\ over = FALSE
e == Rec[l]

Reset == e.ev = "reset" /\ T' = e.T /\ now' = 0 /\ armedAt' = 0 /\ polled' = FALSE /\ over' = FALSE

Now2 == now + e.wait
Armed == IF polled THEN armedAt ELSE Now2
Expected ==
    IF e.inner = "ready" THEN "msg"
    ELSE IF polled /\ Now2 - Armed >= T THEN "err" ELSE "pending"

Poll ==
    /\ e.ev = "poll" /\ ~over
    /\ e.got = Expected
    /\ now' = Now2 /\ polled' = TRUE
    /\ armedAt' = IF e.got = "msg" THEN Now2 ELSE Armed
    /\ over' = (e.got = "err") /\ T' = T

Reject ==
    /\ e.ev = "poll" /\ (over \/ e.got # Expected)
    /\ PrintT(<<"MISMATCH", ToJson([line |-> l, event |-> e, expected |-> IF over THEN "nothing" ELSE Expected,
                                     sinceArmed |-> Now2 - Armed, T |-> T])>>)
    /\ over' = TRUE /\ UNCHANGED <<T, now, armedAt, polled>>

Next == l <= Len(Rec) /\ l' = l + 1 /\ (Reset \/ Poll \/ Reject)
TraceSpec == Init /\ [][Next]_<<l, T, now, armedAt, polled, over>>
Consumed ==
    LET d == TLCGet("stats").diameter IN
    IF d - 1 = Len(Rec) THEN PrintT(<<"TRACE-CONSUMED", Len(Rec)>>)
    ELSE PrintT(<<"TRACE-STUCK", d, Len(Rec)>>) /\ FALSE
=============================================================================
