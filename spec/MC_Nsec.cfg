\* C08 obligation D, quick scope: every zone with <= 2 owners besides the apex out of
\* {a, b, *, a.a, b.a, *.a}.example. x 10 query names x 5 types x (the server's response | every claim
\* an attacker can make, supported by <= 2 genuine records of the zone, its children and its parent)
SPECIFICATION Spec
CONSTANTS
  Apex <- MC_Apex
  Universe <- Q_Universe6
  PlainKinds <- MC_PlainKinds
  WildKinds <- MC_WildKinds
  MaxOwners = 2
  QNames <- Q_QNames10
  QTypes <- Q_QTypes
  MaxProof = 2
  ParentSide <- MC_ParentSide
INVARIANTS TypeOK C08_Complete C08_Sound C08_ProofFromChain
CHECK_DEADLOCK FALSE
