SPECIFICATION Spec
CONSTANTS
  Hdr = 1
  ValLens = {0, 1, 5}
  Deltas <- MC_Deltas
  MaxItems = 3
  MaxStray = 0
INVARIANTS NoOOB Agrees HonestAccepted
PROPERTY Terminates
CHECK_DEADLOCK FALSE
