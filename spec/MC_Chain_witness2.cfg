SPECIFICATION Spec
CONSTANTS
  Worlds <- MC_WorldsSmall
  Queries <- MC_Queries
  MaxFaults = 1
  FaultsOf <- MC_FaultsOf
  AsIs = {}
INVARIANTS NeverInsecure
CHECK_DEADLOCK FALSE
