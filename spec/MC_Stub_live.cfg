\* X01: every lookup ends (fair scheduling)
SPECIFICATION FairSpec
CONSTANTS
  Cfgs <- MC_All
  Outcomes <- TwoOutcomes
  Rules <- Strict
PROPERTY X01_Terminates
CHECK_DEADLOCK FALSE
