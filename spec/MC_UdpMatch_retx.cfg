\* two transmissions (one retransmission), representative views, every interleaving
SPECIFICATION Spec
CONSTANTS
  Views <- MC_FewViews
  MaxTx = 2
INVARIANTS TypeOK C16_AcceptOnlyMatching C16_AtMostThree C16_NoAcceptAfterCap C16_EndsOtherwise C16_OutcomeAllowed C16_ForeignIgnored
PROPERTY Sanity_Final
CHECK_DEADLOCK FALSE
