--------------------------- MODULE TcpFraming ---------------------------
(***************************************************************************)
(* C17 -- stream framing is independent of how the bytes are chunked.      *)
(*                                                                         *)
(* One endpoint of a length-prefixed DNS stream transport                  *)
(* (crates/net/src/tcp/tcp_stream.rs, `impl Stream for TcpStream`).        *)
(*                                                                         *)
(* The module has two layers.                                              *)
(*  - The MACHINE: one action per socket call made by `poll_next`          *)
(*    (poll_write_vectored / poll_write / poll_flush / poll_read) plus the *)
(*    outbound-queue pop.  The *environment* decides the result of every   *)
(*    socket call (how many bytes, Pending, EOF).                          *)
(*  - The REQUIREMENTS C17_xxx: stated on observable history only --        *)
(*    bytes the socket handed over (`rcvd`), bytes the socket accepted     *)
(*    (`sockOut`), items yielded (`delivered`, `status`).  They do not     *)
(*    mention the machine's registers, so any other correct                *)
(*    implementation satisfies them too; the trace specification           *)
(*    (Trace_TcpFraming) re-uses exactly these operators.                  *)
(***************************************************************************)
EXTENDS Naturals, Sequences, FiniteSets, SequencesExt, Framing

CONSTANTS InMsgs,     \* sequence of messages (byte sequences) the peer sends
          OutMsgs,    \* sequence of messages the local user enqueues
          CloseSet,   \* the peer closes after c bytes of its stream, c \in CloseSet; Never = -1
          ChunkSet    \* chunk sizes the environment may pick (TRUE-set of Nat); the
                      \* effective size is always clamped to what is possible

InWire  == FrameCat(InMsgs)
OutWire == FrameCat(OutMsgs)
Never   == 0 - 1

(***************************************************************************)
(* The machine                                                             *)
(***************************************************************************)
VARIABLES
    closeAt,    \* chosen once, initially: the byte offset after which the peer closes, or Never
    pc,         \* "idle" (between polls) | "W" (writer loop) | "R" (reader loop)
    queued,     \* number of OutMsgs the user has handed to the stream handle
    popped,     \* number of OutMsgs the writer has taken from the queue
    wph, wpos,  \* writer phase "none" | "len" | "body" | "flush", position
    sockOut,    \* bytes the socket has accepted so far
    rph, rpos,  \* reader phase "len" | "body", position
    rlen,       \* the two length bytes read so far
    racc,       \* body bytes read so far
    rcvd,       \* bytes of the peer's stream handed over by the socket so far
    delivered,  \* messages yielded so far
    status,     \* "open" | "ended" (yielded None) | "error" (yielded Err)
    lastYield   \* observation: "none" | "pending" | "msg" | "end" | "err"

vars == <<closeAt, pc, queued, popped, wph, wpos, sockOut, rph, rpos, rlen, racc, rcvd,
          delivered, status, lastYield>>

Min2(a, b) == IF a < b THEN a ELSE b
ClosePos  == closeAt
Closes    == closeAt # Never
\* bytes the peer will ever make available
InLimit   == IF Closes THEN closeAt ELSE Len(InWire)
CurOut    == OutMsgs[popped]
Need      == rlen[1] * 256 + rlen[2]
Avail     == InLimit - rcvd

Init ==
    /\ closeAt \in CloseSet
    /\ pc = "idle" /\ queued = 0 /\ popped = 0
    /\ wph = "none" /\ wpos = 0 /\ sockOut = <<>>
    /\ rph = "len" /\ rpos = 0 /\ rlen = <<>> /\ racc = <<>> /\ rcvd = 0
    /\ delivered = <<>> /\ status = "open" /\ lastYield = "none"

\* the user enqueues the next outbound message (only between polls: the driver is sequential)
Enqueue ==
    /\ pc = "idle" /\ status = "open" /\ queued < Len(OutMsgs)
    /\ queued' = queued + 1
    /\ UNCHANGED <<closeAt, pc, popped, wph, wpos, sockOut, rph, rpos, rlen, racc, rcvd, delivered,
                   status, lastYield>>

Poll ==
    /\ pc = "idle" /\ status = "open"
    /\ pc' = "W"
    /\ UNCHANGED <<closeAt, queued, popped, wph, wpos, sockOut, rph, rpos, rlen, racc, rcvd, delivered,
                   status, lastYield>>

YieldPending ==
    /\ pc' = "idle" /\ lastYield' = "pending"

---------------------------------------------------------------------------
\* writer loop

PopOutbound ==
    /\ pc = "W" /\ wph = "none" /\ popped < queued
    /\ popped' = popped + 1 /\ wph' = "len" /\ wpos' = 0
    /\ UNCHANGED <<closeAt, pc, queued, sockOut, rph, rpos, rlen, racc, rcvd, delivered, status, lastYield>>

OutboundEmpty ==
    /\ pc = "W" /\ wph = "none" /\ popped = queued
    /\ pc' = "R"
    /\ UNCHANGED <<closeAt, queued, popped, wph, wpos, sockOut, rph, rpos, rlen, racc, rcvd, delivered,
                   status, lastYield>>

\* poll_write_vectored([len[pos..], body]) accepted n bytes
WriteVectored(n) ==
    /\ pc = "W" /\ wph = "len"
    /\ LET offered == SubSeq(Frame(CurOut), wpos + 1, 2 + Len(CurOut)) IN
       /\ n \in 1..Len(offered)
       /\ sockOut' = sockOut \o SubSeq(offered, 1, n)
       /\ LET p == wpos + n IN
          IF p < 2 THEN wph' = "len" /\ wpos' = p
          ELSE IF p < 2 + Len(CurOut) THEN wph' = "body" /\ wpos' = p - 2
          ELSE wph' = "flush" /\ wpos' = 0
    /\ UNCHANGED <<closeAt, pc, queued, popped, rph, rpos, rlen, racc, rcvd, delivered, status, lastYield>>

\* poll_write(body[pos..]) accepted n bytes
WriteBody(n) ==
    /\ pc = "W" /\ wph = "body"
    /\ LET offered == SubSeq(CurOut, wpos + 1, Len(CurOut)) IN
       /\ n \in 1..Len(offered)
       /\ sockOut' = sockOut \o SubSeq(offered, 1, n)
       /\ IF wpos + n < Len(CurOut) THEN wph' = "body" /\ wpos' = wpos + n
          ELSE wph' = "flush" /\ wpos' = 0
    /\ UNCHANGED <<closeAt, pc, queued, popped, rph, rpos, rlen, racc, rcvd, delivered, status, lastYield>>

WritePending ==
    /\ pc = "W" /\ wph \in {"len", "body"}
    /\ YieldPending
    /\ UNCHANGED <<closeAt, queued, popped, wph, wpos, sockOut, rph, rpos, rlen, racc, rcvd, delivered, status>>

FlushOk ==
    /\ pc = "W" /\ wph = "flush"
    /\ wph' = "none"
    /\ UNCHANGED <<closeAt, pc, queued, popped, wpos, sockOut, rph, rpos, rlen, racc, rcvd, delivered,
                   status, lastYield>>

FlushPending ==
    /\ pc = "W" /\ wph = "flush"
    /\ YieldPending
    /\ UNCHANGED <<closeAt, queued, popped, wph, wpos, sockOut, rph, rpos, rlen, racc, rcvd, delivered, status>>

---------------------------------------------------------------------------
\* reader loop

\* poll_read(len[pos..]) returned n bytes
ReadLen(n) ==
    /\ pc = "R" /\ rph = "len"
    /\ n \in 1..Min2(2 - rpos, Avail)
    /\ rcvd' = rcvd + n
    /\ LET nl == rlen \o SubSeq(InWire, rcvd + 1, rcvd + n) IN
       IF rpos + n < 2 THEN rlen' = nl /\ rpos' = rpos + n /\ rph' = "len" /\ racc' = racc
       ELSE rlen' = nl /\ rpos' = 0 /\ rph' = "body" /\ racc' = <<>>
    /\ UNCHANGED <<closeAt, pc, queued, popped, wph, wpos, sockOut, delivered, status, lastYield>>

\* poll_read(body[pos..]) returned n bytes; a completed body is yielded
ReadBody(n) ==
    /\ pc = "R" /\ rph = "body" /\ Need > 0
    /\ n \in 1..Min2(Need - rpos, Avail)
    /\ rcvd' = rcvd + n
    /\ LET na == racc \o SubSeq(InWire, rcvd + 1, rcvd + n) IN
       IF rpos + n < Need
       THEN /\ racc' = na /\ rpos' = rpos + n
            /\ UNCHANGED <<closeAt, rph, rlen, delivered, pc, lastYield>>
       ELSE /\ delivered' = Append(delivered, na)
            /\ rph' = "len" /\ rpos' = 0 /\ rlen' = <<>> /\ racc' = <<>>
            /\ pc' = "idle" /\ lastYield' = "msg"
    /\ UNCHANGED <<closeAt, queued, popped, wph, wpos, sockOut, status>>

\* a zero-length frame: the body read is offered an empty buffer and gets 0 bytes back,
\* which the reader takes for a close inside a message (property: "may end the stream with an error")
ReadZeroFrame ==
    /\ pc = "R" /\ rph = "body" /\ Need = 0
    /\ status' = "error" /\ pc' = "idle" /\ lastYield' = "err"
    /\ UNCHANGED <<closeAt, queued, popped, wph, wpos, sockOut, rph, rpos, rlen, racc, rcvd, delivered>>

ReadPending ==
    /\ pc = "R" /\ ~(rph = "body" /\ Need = 0)
    /\ ~(Closes /\ Avail = 0)          \* at EOF a socket reports EOF, not Pending
    /\ YieldPending
    /\ UNCHANGED <<closeAt, queued, popped, wph, wpos, sockOut, rph, rpos, rlen, racc, rcvd, delivered, status>>

ReadEof ==
    /\ pc = "R" /\ Closes /\ Avail = 0 /\ ~(rph = "body" /\ Need = 0)
    /\ IF rph = "len" /\ rpos = 0
       THEN status' = "ended" /\ lastYield' = "end"
       ELSE status' = "error" /\ lastYield' = "err"
    /\ pc' = "idle"
    /\ UNCHANGED <<closeAt, queued, popped, wph, wpos, sockOut, rph, rpos, rlen, racc, rcvd, delivered>>

Clamp(S, hi) == {Min2(n, hi) : n \in S} \ {0}

WriterStep ==
    \/ PopOutbound \/ OutboundEmpty \/ WritePending \/ FlushOk \/ FlushPending
    \/ (pc = "W" /\ wph = "len"  /\ \E n \in Clamp(ChunkSet, 2 - wpos + Len(CurOut)) : WriteVectored(n))
    \/ (pc = "W" /\ wph = "body" /\ \E n \in Clamp(ChunkSet, Len(CurOut) - wpos) : WriteBody(n))

ReaderStep ==
    \/ ReadPending \/ ReadEof \/ ReadZeroFrame
    \/ (pc = "R" /\ rph = "len"  /\ \E n \in Clamp(ChunkSet, Min2(2 - rpos, Avail)) : ReadLen(n))
    \/ (pc = "R" /\ rph = "body" /\ Need > 0 /\ \E n \in Clamp(ChunkSet, Min2(Need - rpos, Avail)) : ReadBody(n))

Next == Enqueue \/ Poll \/ WriterStep \/ ReaderStep

Spec == Init /\ [][Next]_vars

\* Fairness for the liveness requirement: the scheduler keeps polling (weak fairness on the
\* control steps) and a socket that is asked again and again eventually makes progress in each
\* direction (strong fairness on reads, on writes and on flushes separately).
Control == Poll \/ PopOutbound \/ OutboundEmpty \/ ReadEof \/ ReadZeroFrame
WriteProgress ==
    \/ (pc = "W" /\ wph = "len"  /\ \E n \in Clamp(ChunkSet, 2 - wpos + Len(CurOut)) : WriteVectored(n))
    \/ (pc = "W" /\ wph = "body" /\ \E n \in Clamp(ChunkSet, Len(CurOut) - wpos) : WriteBody(n))
ReadProgress ==
    \/ (pc = "R" /\ rph = "len"  /\ \E n \in Clamp(ChunkSet, Min2(2 - rpos, Avail)) : ReadLen(n))
    \/ (pc = "R" /\ rph = "body" /\ Need > 0 /\ \E n \in Clamp(ChunkSet, Min2(Need - rpos, Avail)) : ReadBody(n))
FairSpec == /\ Spec
            /\ WF_vars(Control)
            /\ SF_vars(WriteProgress)
            /\ SF_vars(ReadProgress)
            /\ SF_vars(FlushOk)
            /\ SF_vars(Enqueue)
            \* every socket call returns (possibly with would-block)
            /\ WF_vars((ReadPending \/ WritePending \/ FlushPending \/ Control \/ WriteProgress
                           \/ ReadProgress \/ FlushOk))

(***************************************************************************)
(* Requirements                                                            *)
(***************************************************************************)

\* what the reader holds of a frame that is not complete yet
Partial == IF rph = "len" THEN rlen ELSE rlen \o racc

\* Delivered messages are whole, in order, never merged, duplicated or lost: the bytes the
\* socket handed over are exactly the frames of the delivered messages plus the bytes of
\* the one incomplete frame.
C17_DeliveredExact ==
    /\ IsPrefix(delivered, InMsgs)
    /\ FrameCat(delivered) \o Partial = SubSeq(InWire, 1, rcvd)

\* Requirement-level form (no machine registers): every whole frame handed over is delivered
\* by the time the stream goes idle, and nothing else is.
C17_DeliveredIsPrefixOfSent ==
    /\ IsPrefix(delivered, InMsgs)
    /\ Len(delivered) <= WholeFrames(InWire, rcvd, 0)[1]
    /\ (pc = "idle" /\ lastYield \in {"pending", "end", "err"})
          => Len(delivered) = WholeFrames(InWire, rcvd, 0)[1]

\* Bytes on the wire are the two-byte length followed by the body, message after message
C17_WireFormat ==
    /\ IsPrefix(sockOut, FrameCat(SubSeq(OutMsgs, 1, queued)))
    /\ (wph = "none" \/ wph = "flush") => sockOut = FrameCat(SubSeq(OutMsgs, 1, popped))

C17_CleanEof ==
    status = "ended" => Closes /\ rcvd = ClosePos /\ AtBoundary(InWire, rcvd)

C17_ErrorInside ==
    status = "error" =>
        \/ ZeroFrameAt(InWire, rcvd)
        \/ (Closes /\ rcvd = ClosePos /\ ~AtBoundary(InWire, rcvd))

TypeOK ==
    /\ pc \in {"idle", "W", "R"} /\ status \in {"open", "ended", "error"}
    /\ wph \in {"none", "len", "body", "flush"} /\ rph \in {"len", "body"}
    /\ popped <= queued /\ queued <= Len(OutMsgs) /\ rcvd <= InLimit

\* liveness: with a fair socket and no close everything sent in either direction arrives
AllQueued == queued = Len(OutMsgs)
C17_EventuallyAll ==
    /\ (~Closes) => <>(delivered = InMsgs \/ status = "error")
    /\ <>(sockOut = OutWire \/ status # "open")
    /\ Closes => <>(status # "open")
=============================================================================
