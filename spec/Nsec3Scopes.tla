---------------------------- MODULE Nsec3Scopes ----------------------------
(* Hash orders, parameter sets and record material for the C09 model         *)
(* configurations.  A model "hash function" is an injection from the finite  *)
(* set of names that can ever be hashed to numbers: the position of the name *)
(* in a fixed enumeration, permuted by an affine map modulo a prime.         *)
EXTENDS NsecScopes, SequencesExt, FiniteSets

\* every name a configuration may hash: owners, query names, their ancestors, wildcards at those,
\* child hosts, and the parent zone's names
ChildHostOf(d) == <<LA>> \o d
Closure(S) ==
    LET anc == UNION { AncestorsOrSelf(n) : n \in S } IN
    anc \cup { Wildcard(a) : a \in anc } \cup { ChildHostOf(a) : a \in anc } \cup { Wildcard(ChildHostOf(a)) : a \in anc }

H_Prime == 211
HashFn(names, a, b) ==
    LET sq == SetToSeq(names) IN
    \* ("@@ <<>>" makes TLC evaluate the function once instead of on every application)
    [ n \in names |-> << (a * (CHOOSE i \in 1..Len(sq) : sq[i] = n) + b) % H_Prime, 0 >> ] @@ <<>>

\* the parent (root) zone: example. is a secure delegation, d. another one
MC_ParentZone == (<<>> :> {"SOA", "NS"}) @@ (MC_Apex :> {"NS", "DS"}) @@ (<<LD>> :> {"NS", "DS"})

Q3_Names  == Closure(Q_Universe6 \cup Q_QNames10 \cup {MC_Apex, <<LD>>})
Q3_HT     == [ p0 |-> HashFn(Q3_Names, 1, 0), p1 |-> HashFn(Q3_Names, 50, 7), p2 |-> HashFn(Q3_Names, 113, 19),
               p3 |-> HashFn(Q3_Names, 210, 100) ]
P(id, it) == [id |-> id, iter |-> it]
Q3_Params == { P("p0", 0), P("p1", 1), P("p2", 5) }
Q3_Stale  == { P("p3", 0) }
\* iteration limits of the model validator, and parameter sets beyond them
MC_Soft == 5
MC_Hard == 10
L3_Params == { P("p0", 5), P("p1", 6), P("p2", 10) }
L3_Stale  == { P("p3", 11) }        \* an older chain whose iteration count is over the hard limit
NoParent  == <<>>

\* 12 more hash orders (integer ids): affine permutations with different multipliers and offsets
O3_HT     == [ k \in 1..12 |-> HashFn(Q3_Names, ((k * 37) % 209) + 1, (k * k * 13) % 211) ] @@ <<>>
O3_Params == { P(k, 0) : k \in 1..12 }
T3_QTypes == {"A", "DS"}
T3_Params == { P("p1", 1) }

S3_QTypes == {"A", "DS", "CNAME"}
=============================================================================
