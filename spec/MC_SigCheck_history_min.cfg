SPECIFICATION Spec
CONSTANTS
  M = 32
  Inc = 30
  Exp = 5
  IncAlt = 27
  ExpAlt = 9
  OrigTtl = 4
  OrigTtlAlt = 9
  RecTtls <- MC_RecTtls
  Steps <- MCH_Steps
  MaxMono = 12
  MaxCalls = 2
  ClkStarts <- MCH_Starts
  ArgSet <- MCH_Args
  RRV <- MCH_RRV
  SIGV <- MCH_SIGV
  KEYV <- MCH_KEYV
  NameCaseSigned = TRUE
  CacheRule = "required"
  CfgMin = 10
  CfgMax = 99
  Deviation = "none"
INVARIANTS TypeOK C06_SecureOnlyGenuine C06_SecureOnlyInWindow C06_TtlBound C06_StrayNeverSecure C06_FreshWithinRequirement
CHECK_DEADLOCK FALSE
