\* C08 obligation D, thorough scope: labels {a,b,*}, depth <= 2 (9 owner names), <= 2 owners besides
\* the apex, 14 query names (depth <= 3)
SPECIFICATION Spec
CONSTANTS
  Apex <- MC_Apex
  Universe <- Q_Universe
  PlainKinds <- MC_PlainKinds
  WildKinds <- MC_WildKinds
  MaxOwners = 2
  QNames <- Q_QNames
  QTypes <- Q_QTypes
  MaxProof = 2
  ParentSide <- MC_ParentSide
INVARIANTS TypeOK C08_Complete C08_Sound C08_ProofFromChain
CHECK_DEADLOCK FALSE
