----------------------------- MODULE Gen_NamePairs -----------------------------
(* Case generator for C04 (obligation R): every ordered pair of the universe    *)
(* with CanonCmp / NameEq.  A one-step "machine" whose initial states are the   *)
(* pairs.                                                                       *)
EXTENDS DnsNames, TLC, Json

CONSTANT PairLabels
PUniverse == {<<>>} \cup {<<x>> : x \in PairLabels} \cup {<<x, y>> : x \in PairLabels, y \in PairLabels}
             \cup {<<x, y, x>> : x \in PairLabels, y \in PairLabels}

VARIABLES pa, pb
PInit == pa \in PUniverse /\ pb \in PUniverse
PNext == UNCHANGED <<pa, pb>>
PSpec == PInit /\ [][PNext]_<<pa, pb>>
PEmit == PrintT(<<"REPLAY", ToJson([a |-> pa, b |-> pb, cmp |-> CanonCmp(pa, pb), eq |-> NameEq(pa, pb)])>>)
=============================================================================
