SPECIFICATION GSpec
INVARIANT Emit
CHECK_DEADLOCK FALSE
