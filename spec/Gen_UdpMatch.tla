--------------------------- MODULE Gen_UdpMatch ---------------------------
(* Case generator for the datagram half of C16 (obligation R: spec -> impl). *)
(* Enumerates every arrival schedule over the forgery catalogue up to        *)
(* MaxLen datagrams (at most MaxGenuine copies of the genuine reply, at      *)
(* every position or absent), with case randomisation on and off, and        *)
(* prints each as one REPLAY line carrying                                   *)
(*   cr, nq, sched (kind names), views (what each kind must look like to     *)
(*   the resolver: checked against the concrete datagram by the trace        *)
(*   monitor), allowed = UdpMatchOps!Allowed (the outcomes the property      *)
(*   permits) and prompt = UdpMatchOps!Prompt (advisory).                    *)
EXTENDS UdpMatchOps, TLC, Json

CONSTANTS GKinds,       \* subset of Kinds
          MaxLen,       \* longest schedule
          NQ,           \* questions in the request (1 or 2)
          MaxGenuine    \* copies of the genuine reply per schedule

VARIABLES cr, sched
gvars == <<cr, sched>>

Count(k) == Cardinality({i \in 1..Len(sched) : sched[i] = k})

GInit == cr \in BOOLEAN /\ sched = <<>>
Extend(k) ==
    /\ Len(sched) < MaxLen
    /\ k = "genuine" => Count("genuine") < MaxGenuine
    /\ sched' = Append(sched, k) /\ cr' = cr
GNext == \E k \in GKinds : Extend(k)
GSpec == GInit /\ [][GNext]_gvars

ViewsOf == [i \in 1..Len(sched) |-> KindView(sched[i], NQ)]
Case == [cr |-> cr, nq |-> NQ, sched |-> sched, views |-> ViewsOf,
         allowed |-> Allowed(ViewsOf, cr), prompt |-> Prompt(ViewsOf, cr)]
Emit == PrintT(<<"REPLAY", ToJson(Case)>>)
=============================================================================
