------------------------------- MODULE Chain -------------------------------
(* C07 -- validating resolver: Secure implies an unbroken chain to a trust  *)
(* anchor; tampering never yields Secure and never silently Insecure;       *)
(* Insecure only with a validated denial of DS / only unsupported           *)
(* algorithms; the server sets AD only for Secure data and answers          *)
(* SERVFAIL to CD=0 clients on Bogus.                                       *)
(*                                                                          *)
(* The machine: an adversary tampers with up to MaxFaults items of the      *)
(* upstream responses (Tamper), then a validator walks from a configured    *)
(* trust anchor down to the zone of the query (RFC 4035 section 5):         *)
(*   Begin            choose a configured anchor at or above the zone       *)
(*   AuthAnchorKeys   the anchored zone's apex DNSKEY RRset (5, 5.3.1)      *)
(*   AuthDS           the DS RRset / its authenticated denial at the next   *)
(*                    cut (5.2); an authenticated "no DS" / "no supported   *)
(*                    algorithm" makes everything below Insecure (4.3)      *)
(*   AuthKeys         the child's apex DNSKEY RRset against the DS (5.2)    *)
(*   JudgeItem        an RRset of the final response with the zone's keys   *)
(*                    (5.3); unsigned data below a secure zone is Bogus     *)
(*   Conclude         the response as a whole (5.4 for denials)             *)
(*   Serve            the server's mapping to RCODE / AD / answer for a      *)
(*                    client with bits CD and DO (RFC 4035 3.2.2, 3.2.3,    *)
(*                    RFC 6840 5.7, 5.8)                                    *)
(* The requirements C07_* are the declarative operators of ChainOps about   *)
(* (world, faults) only; TLC checks that the walk satisfies them for every  *)
(* world, query and fault set of the configuration.                         *)
EXTENDS ChainOps, TLC

CONSTANTS Worlds,        \* set of worlds
          Queries,       \* subset of QueryKinds
          MaxFaults,
          FaultsOf(_, _),\* (world, query) -> the faults the adversary may choose from
          AsIs           \* {} in every property configuration.  The AsIs configuration switches on
                         \* the rules found in the code (DESIGN.md A.5), each of which TLC refutes:
                         \*   "keys-by-ds-only"  a DNSKEY RRset all of whose keys match the DS is
                         \*                      accepted without a valid RRSIG
                         \*   "any-signer"       an RRSIG is followed to whatever zone its Signer's
                         \*                      Name field names (no "zone that contains the RRset")
                         \*   "ns-finds-cut"     for unsigned data the enclosing cut is looked for with
                         \*                      unauthenticated NS queries and any authenticated
                         \*                      NODATA for DS at that name counts as "insecure"

VARIABLES w, q, F,       \* world, query, faults
          phase,         \* "adversary" | "anchor" | "ds" | "keys" | "items" | "conclude" | "serve" | "done"
          anchor,        \* the anchor the walk started from
          at,            \* zone whose keys were judged last
          st,            \* status of those keys: "Secure" | "Insecure" | "Bogus"
          dsst,          \* status of the DS RRset at the cut of zone at+1
          verdict,       \* item of the final response -> proof
          class,         \* response class
          served,        \* [cd, do, rcode, ad, answered]
          steps

vars == <<w, q, F, phase, anchor, at, st, dsst, verdict, class, served, steps>>

None == "none"
NoServe == [on |-> FALSE]

Init ==
    /\ w \in Worlds /\ q \in Queries /\ F = {}
    /\ phase = "adversary" /\ anchor = 0 /\ at = 0 /\ st = None /\ dsst = None
    /\ verdict = [x \in {} |-> None] /\ class = None /\ served = NoServe /\ steps = 0

Tamper(f) ==
    /\ phase = "adversary" /\ Cardinality(F) < MaxFaults
    /\ f \in FaultsOf(w, q) \ F
    /\ F' = F \cup {f}
    /\ UNCHANGED <<w, q, phase, anchor, at, st, dsst, verdict, class, served, steps>>

Begin(a) ==
    /\ phase = "adversary" /\ a \in w.anchors
    /\ anchor' = a /\ phase' = "anchor"
    /\ UNCHANGED <<w, q, F, at, st, dsst, verdict, class, served, steps>>

Step == steps' = steps + 1

\* RFC 4035 5: the configured key authenticates the apex DNSKEY RRset it signs
AuthAnchorKeys ==
    /\ phase = "anchor"
    /\ at' = anchor
    /\ st' = IF AnchorKeysOk(w, F, anchor) THEN "Secure" ELSE "Bogus"
    /\ phase' = IF anchor = w.n THEN "items" ELSE "ds"
    /\ Step /\ UNCHANGED <<w, q, F, anchor, dsst, verdict, class, served>>

\* RFC 4035 5.2 / RFC 6840 4.4: the DS response of the cut of zone c, read with authenticated
\* keys of the parent
DsReading(c) ==
    IF "ds" \in DsItems(w, c)
    THEN (IF ItemState(w, F, "DS", c, "ds") = "genuine"
          THEN (IF w.link[c] = "dsunsup" THEN "Insecure" ELSE "Secure")
          ELSE "Bogus")
    ELSE IF w.signed[c - 1] /\ ItemState(w, F, "DS", c, "nsecds") = "genuine" THEN "Insecure"
    ELSE "Bogus"

AuthDS ==
    /\ phase = "ds"
    /\ dsst' = IF st = "Secure" THEN DsReading(at + 1) ELSE st
    /\ phase' = "keys"
    /\ Step /\ UNCHANGED <<w, q, F, anchor, at, st, verdict, class, served>>

\* RFC 4035 5.2: a DNSKEY of the child matches the DS and signs the child's apex DNSKEY RRset
AuthKeys ==
    /\ phase = "keys"
    /\ at' = at + 1
    /\ st' = IF dsst = "Secure"
             THEN (IF w.link[at + 1] \in SecureLinks /\ w.signed[at + 1]
                      /\ ItemState(w, F, "KEY", at + 1, "dnskey") \in
                             (IF "keys-by-ds-only" \in AsIs /\ w.keys[at + 1] = 1 THEN {"genuine", "nosig"} ELSE {"genuine"})
                   THEN "Secure" ELSE "Bogus")
             ELSE dsst
    /\ phase' = IF at + 1 = w.n THEN "items" ELSE "ds"
    /\ Step /\ UNCHANGED <<w, q, F, anchor, dsst, verdict, class, served>>

Delivered ==
    {x \in AnsItems(w, q) : ItemState(w, F, "ANS", 0, x) # "absent"} \cup (IF Injected(F) THEN {"inj"} ELSE {})
AnsDropped == \E f \in F : f.resp = "ANS" /\ f.op = "dropMsg"

\* RFC 4035 5.3: an RRset is authenticated by an RRSIG of an authenticated zone key; 4.3: data
\* that ought to be signed and is not verifiable is Bogus; below a proven insecure cut, Insecure
HasOp(x, op) == \E f \in F : f.resp = "ANS" /\ f.item = x /\ f.op = op
NoSigsLeft(x) == x = "inj" \/ HasOp(x, "dropSig")
FakeCut == \E f \in F : f.resp = "NS" /\ f.op = "inject"

JudgeItem(x) ==
    /\ phase = "items" /\ x \in Delivered \ DOMAIN verdict /\ ~AnsDropped
    /\ verdict' = [y \in DOMAIN verdict \cup {x} |->
                     IF y # x THEN verdict[y]
                     ELSE IF "any-signer" \in AsIs /\ HasOp(x, "forgeEvil") THEN "Secure"
                     ELSE IF "any-signer" \in AsIs /\ HasOp(x, "forgeIsland") THEN "Insecure"
                     ELSE IF "ns-finds-cut" \in AsIs /\ NoSigsLeft(x) /\ FakeCut /\ st = "Secure" THEN "Insecure"
                     ELSE IF st = "Secure"
                          THEN (IF x # "inj" /\ w.signed[w.n] /\ ItemState(w, F, "ANS", 0, x) = "genuine"
                                   /\ \A pr \in ProofOf(q, x) : ItemState(w, F, "ANS", 0, pr) = "genuine"
                                THEN "Secure" ELSE "Bogus")
                          ELSE st]
    /\ Step /\ UNCHANGED <<w, q, F, phase, anchor, at, st, dsst, class, served>>

AnswerItems == {"data", "cname", "inj"}

Conclude ==
    /\ phase = "items" /\ (AnsDropped \/ DOMAIN verdict = Delivered)
    /\ class' = IF AnsDropped THEN "err"
                ELSE IF DOMAIN verdict \cap AnswerItems # {} THEN "answer"
                ELSE IF st = "Insecure" THEN "neg-insecure"
                ELSE IF st = "Secure" /\ q \in {"nodata", "nx"} /\ DOMAIN verdict # {}
                        /\ (\A x \in DOMAIN verdict : verdict[x] = "Secure")
                        /\ Needed(q) \subseteq DOMAIN verdict
                     THEN "neg-secure"
                ELSE "err"
    /\ phase' = "serve"
    /\ Step /\ UNCHANGED <<w, q, F, anchor, at, st, dsst, verdict, served>>

\* the server in front of the validator, for a client with CD = cd, DO = do (AD-request = do)
Summary(S) == IF \E x \in S : verdict[x] = "Bogus" THEN "Bogus"
              ELSE IF S # {} /\ \A x \in S : verdict[x] = "Secure" THEN "Secure" ELSE "Insecure"
Serve(cd, do) ==
    /\ phase = "serve"
    /\ LET ans == DOMAIN verdict \cap AnswerItems
           sum == IF class = "err" THEN "Bogus"
                  ELSE IF class = "answer" THEN Summary(ans)
                  ELSE IF class = "neg-secure" THEN "Secure" ELSE "Insecure"
       IN served' = [on |-> TRUE, cd |-> cd, do |-> do,
                     rcode |-> IF class = "err" \/ (sum = "Bogus" /\ ~cd) THEN "SERVFAIL" ELSE "OK",
                     ad |-> (sum = "Secure" /\ do),
                     answered |-> IF class = "err" \/ (sum = "Bogus" /\ ~cd) THEN {} ELSE ans,
                     sum |-> sum]
    /\ phase' = "done"
    /\ Step /\ UNCHANGED <<w, q, F, anchor, at, st, dsst, verdict, class>>

Next ==
    \/ \E f \in FaultsOf(w, q) : Tamper(f)
    \/ \E a \in w.anchors : Begin(a)
    \/ AuthAnchorKeys
    \/ AuthDS
    \/ AuthKeys
    \/ \E x \in ItemNames : JudgeItem(x)
    \/ Conclude
    \/ \E cd \in BOOLEAN, do \in BOOLEAN : Serve(cd, do)

Spec == Init /\ [][Next]_vars

\* -------------------------------------------------------------------------
TypeOK ==
    /\ ValidWorld(w) /\ q \in QueryKinds /\ Cardinality(F) <= MaxFaults
    /\ st \in {None, "Secure", "Insecure", "Bogus"} /\ dsst \in {None, "Secure", "Insecure", "Bogus"}
    /\ \A x \in DOMAIN verdict : verdict[x] \in {"Secure", "Insecure", "Bogus"}

\* Secure only with an unbroken chain from a configured anchor and only for the zone's own data
C07_SecureImpliesChain ==
    \A x \in DOMAIN verdict : verdict[x] = "Secure" => SecureOk(w, F, q, x)

\* Insecure only below a cut whose "no DS" / "only unsupported algorithms" is authenticated
C07_InsecureOnlyProven ==
    /\ \A x \in DOMAIN verdict : verdict[x] = "Insecure" => InsecureOk(w, F, w.n)
    /\ class = "neg-insecure" => InsecureOk(w, F, w.n)

\* in a world whose un-faulted verdict is Secure no fault set yields Insecure, and Secure only
\* for what is still exactly the zone's data
C07_TamperNeverDowngrades ==
    Best(w) = "Secure" /\ ~InsecureOk(w, {}, w.n) =>
        /\ \A x \in DOMAIN verdict :
              /\ verdict[x] # "Insecure"
              /\ (verdict[x] = "Secure" => ItemState(w, F, "ANS", 0, x) = "genuine")
        /\ class # "neg-insecure"

\* an authenticated denial needs every NSEC of the proof
C07_NegSecure == class = "neg-secure" => NegSecureOk(w, F, q)

\* AD only for Secure data; Bogus is SERVFAIL with an empty answer unless CD
C07_AD ==
    served.on =>
        /\ (served.ad => IF class = "answer"
                         THEN \A x \in served.answered : SecureOk(w, F, q, x)
                         ELSE NegSecureOk(w, F, q))
        /\ (served.sum = "Bogus" /\ ~served.cd => served.rcode = "SERVFAIL" /\ served.answered = {})
        /\ (\A x \in served.answered : verdict[x] = "Bogus" => served.cd)

\* the walk is bounded by the depth of the hierarchy
C07_DepthBounded == steps <= 2 * w.n + Cardinality(ItemNames) + 3

\* the model's validator is complete on un-faulted worlds (sanity of the model, not a requirement)
ModelComplete ==
    phase = "done" /\ F = {} /\ w.anchors = {1} /\ q = "pos" =>
        verdict["data"] = (IF Best(w) = "Secure" THEN "Secure" ELSE IF Best(w) = "Insecure" THEN "Insecure" ELSE "Bogus")

\* witnesses (checked as negated invariants in MC_Chain_witness*.cfg)
NeverSecure   == \A x \in DOMAIN verdict : verdict[x] # "Secure" \/ F = {}
NeverInsecure == \A x \in DOMAIN verdict : verdict[x] # "Insecure" \/ F = {}
NeverAD       == ~served.on \/ ~served.ad
=============================================================================
