SPECIFICATION Spec
CONSTANTS
  Fudge = 300
  Dts <- MC_Dts
  Tampers <- MC_Tampers
INVARIANTS C13_EffectOnlyIfValid C13_HonoursAuthentic C13_SignedReply C13_NoOracle
CHECK_DEADLOCK FALSE
