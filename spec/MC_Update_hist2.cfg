\* histories of <= 2 messages (quick) from one concrete zone, 2 in-zone owners
SPECIFICATION Spec
CONSTANTS
  Apex <- AP
  Owners <- Owners2
  InitZones <- MC_OneZone
  InitSers <- MC_OneSer
  Msgs <- Msgs1
  MaxMsgs = 2
INVARIANTS TypeOK C12_AllOrNothing C12_Contents C12_PrereqOnCurrentZone C12_OneSOA C12_ApexNS C12_CnameAlone C12_SerialIffChanged C12_PseudoProseAgree
CHECK_DEADLOCK FALSE
