SPECIFICATION Spec
CONSTANTS
  LabelLens = {0, 1, 30, 61, 62, 63, 64}
  MaxOps = 4
INVARIANTS C04_NeverOversize
CHECK_DEADLOCK FALSE
