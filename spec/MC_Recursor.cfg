SPECIFICATION FairSpec
CONSTANTS
  NetParams <- MC_Quick
  MkNet <- NetOfParams
  Questions <- TheQuestions
  NsLimit = 4
  RecLimit = 4
  MaxCname = 3
  BailiwickRule = "required"
INVARIANTS TypeOK C19_NoPoison C19_Filters C19_Terminates
PROPERTY C19_Ends
CHECK_DEADLOCK FALSE
