--------------------------------- MODULE Tsig ---------------------------------
(* C13 -- server-side processing of a TSIG-signed UPDATE / AXFR as the         *)
(* sequence RFC 8945 5.2 prescribes: Parse -> FindKey -> CheckMac (length,     *)
(* algorithm, value) -> CheckTime -> policy -> Apply/Transfer -> SignReply.    *)
(* TLC checks that this procedure satisfies the declarative requirements of    *)
(* TsigOps for every request description and policy (obligation D).            *)
EXTENDS TsigOps, TLC

CONSTANTS Fudge, Dts, Tampers

Requests == [op : {"update", "axfr", "ixfr"}, signed : BOOLEAN, keyName : {"k1", "k2", "kx"},
             macKey : {"k1", "k2", "kbad", "kprefix"}, alg : {"cfg", "other"}, macLen : {"full", "trunc"},
             dt : Dts, tamper : Tampers, hdr : {"plain", "rd", "cd", "rdcd"}, rfudge : {Fudge, 60}]
Policies == {x \in [allowUpdate : BOOLEAN, axfr : {"deny", "all", "signed"}, fudge : {Fudge}, store : {"sqlite", "memory"},
                    start : {"direct", "first", "restart"}] : x.store = "memory" => x.start = "direct"}

\* an unsigned request has no TSIG fields: normalise them so that descriptions are unique
Normal(r) == /\ r.signed \/ (r.keyName = "kx" /\ r.macKey = "kbad" /\ r.alg = "cfg" /\ r.macLen = "full"
                              /\ r.dt = 0 /\ r.tamper \in {"none", "msgId", "appended"})
             \* a fudge smaller than the configured one is tried on otherwise unremarkable requests only
             /\ r.rfudge # Fudge => (r.signed /\ r.macKey = r.keyName /\ r.keyName \in Configured /\ r.tamper = "none"
                                     /\ r.macLen = "full" /\ r.alg = "cfg" /\ r.hdr = "plain")
             \* the cut key is tried on otherwise unremarkable requests only
             /\ r.macKey = "kprefix" => (r.signed /\ r.keyName \in Configured /\ r.tamper = "none" /\ r.macLen = "full"
                                         /\ r.alg = "cfg" /\ r.dt = 0 /\ r.hdr = "plain")
             \* header bits are varied on otherwise unremarkable requests only
             /\ r.hdr # "plain" => (r.tamper = "none" /\ r.macLen = "full" /\ r.alg = "cfg" /\ r.dt \in {0, Fudge + 1})

VARIABLES r, p, pc, effect, tsigError, replySigned
vars == <<r, p, pc, effect, tsigError, replySigned>>

Init == /\ r \in {x \in Requests : Normal(x)} /\ p \in Policies
        /\ pc = "policy" /\ effect = FALSE /\ tsigError = "none" /\ replySigned = FALSE

Done(e, err, signed) == pc' = "done" /\ effect' = e /\ tsigError' = err /\ replySigned' = signed /\ UNCHANGED <<r, p>>
Goto(l) == pc' = l /\ UNCHANGED <<r, p, effect, tsigError, replySigned>>

\* what the MAC computation over the received bytes yields: it matches iff the bytes covered by
\* the MAC are the ones that were signed, with the secret of the named key
MacMatches == r.macKey = r.keyName /\ r.tamper \in (FreeTampers \cup EitherTampers)

Policy ==
    /\ pc = "policy"
    /\ IF r.op = "update"
       THEN IF ~p.allowUpdate THEN Done(FALSE, "none", FALSE)
            ELSE IF ~r.signed THEN Done(FALSE, "none", FALSE) ELSE Goto("findkey")
       ELSE CASE p.axfr = "deny" -> Done(FALSE, "none", FALSE)
              [] p.axfr = "all" -> Done(TRUE, "none", FALSE)
              [] p.axfr = "signed" -> IF ~r.signed THEN Done(FALSE, "none", FALSE) ELSE Goto("findkey")

FindKey ==
    /\ pc = "findkey"
    /\ IF r.keyName \notin Configured \/ r.alg # "cfg"
       THEN Done(FALSE, "BADKEY", FALSE)         \* RFC 8945 5.2.1: unsigned BADKEY reply
       ELSE Goto("mac")

CheckMac ==
    /\ pc = "mac"
    /\ IF r.macLen # "full" \/ ~MacMatches
       THEN Done(FALSE, "BADSIG", FALSE)         \* RFC 8945 5.2.2: unsigned BADSIG reply
       ELSE Goto("time")

\* at exactly |dt| = fudge the statement leaves the outcome open: both branches are behaviours
CheckTime ==
    /\ pc = "time"
    /\ \/ TimeIn(r, p) /\ Goto("apply")
       \/ TimeEdge(r, p) /\ (Goto("apply") \/ Done(FALSE, "BADTIME", TRUE))
       \/ ~TimeIn(r, p) /\ ~TimeEdge(r, p) /\ Done(FALSE, "BADTIME", TRUE)   \* 5.2.3: signed reply

Apply == pc = "apply" /\ Done(TRUE, "none", TRUE)

Next == Policy \/ FindKey \/ CheckMac \/ CheckTime \/ Apply
Spec == Init /\ [][Next]_vars

C13_EffectOnlyIfValid == (pc = "done") => C13_EffectOk(r, p, effect)
\* the procedure honours every request a conforming server must honour (anti-vacuity)
C13_HonoursAuthentic == (pc = "done" /\ Honoured(r, p)) => effect
\* an authenticated effect is always answered with a signed reply
C13_SignedReply == (pc = "done" /\ effect /\ ReplyMustBeSigned(r, p)) => replySigned
\* no MAC is ever computed for a sender that did not show the key (RFC 8945 5.3.2)
C13_NoOracle == (pc = "done") => C13_NoOracleOk(r, replySigned)
=============================================================================
