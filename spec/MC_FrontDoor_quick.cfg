\* quick tier: fewer opcodes / sources / configurations; safety and "later requests are served"
SPECIFICATION FairSpec
CONSTANTS
  Requests <- MCQ_Requests
  Configs <- MCQ_Configs
INVARIANTS TypeOK C11_ExactlyOne C11_Class C11_Echo C11_LongestSuffix C11_Chain C11_AclLongestPrefix C11_Allowed
PROPERTY C11_Survives
CHECK_DEADLOCK FALSE
