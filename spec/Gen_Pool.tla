------------------------------ MODULE Gen_Pool ------------------------------
(* Case generator for Pool (C18, obligation R: spec -> impl).                *)
(* TLC walks the machine (required rules) over a set of configurations and   *)
(* caller arrival patterns; every completed behaviour is printed as one      *)
(* REPLAY line carrying                                                      *)
(*   cfg, calls   the configuration and when each caller arrives,            *)
(*   exp          what the specification prescribes for each caller: the     *)
(*                allowed result classes, the servers an answer may come     *)
(*                from, and the time bound (operators of PoolOps),           *)
(*   model        what the machine itself did (diagnostic only).             *)
(* The driver runs the real NameServerPool on cfg / calls; its recorded      *)
(* events are additionally judged by the monitor Trace_Pool.                 *)
(* Callers arrive "just after" a point of the machine's timeline: caller c   *)
(* is sent c - 1 ms after it (every other duration is a multiple of 10 ms),  *)
(* so that no arrival coincides with a completion.                           *)
EXTENDS Pool, Json

AllServed == \A c \in 1..NCallers : Got(c)

Case ==
    [cfg   |-> cfg,
     calls |-> [c \in 1..NCallers |-> [at |-> callers[c].t + (c - 1), q |-> callers[c].q, rd |-> callers[c].rd, cd |-> callers[c].cd]],
     exp   |-> [callers |-> [c \in 1..NCallers |-> IF c = 1 THEN ExpectFirst(cfg) ELSE ExpectLater(cfg)]],
     model |-> [c \in 1..NCallers |-> [class |-> callers[c].d.class, from |-> callers[c].d.from,
                                       took |-> callers[c].d.t - callers[c].t, joined |-> callers[c].lk # c]]]

Emit == AllServed => PrintT(<<"REPLAY", ToJson(Case)>>)
=============================================================================
