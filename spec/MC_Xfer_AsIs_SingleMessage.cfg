\* AS-IS: the server puts the whole answer into one message whatever fits; the rest is cut off (TC set).
\* Expected result: X02_ServerAnswerConforms is violated (design-level counterexample of a known finding).
SPECIFICATION Spec
CONSTANTS
  Rest <- MC_Rest
  Serial <- MC_Serial
  Caps <- MC_Caps
  Policies <- MC_Policies
  Reqs <- MC_Reqs
  Sources <- MC_ServerOnly
  ScriptMsgs <- MC_ScriptMsgs
  MaxScript = 0
  Flaws <- MC_SingleMessage
INVARIANTS X02_ServerAnswerConforms
CHECK_DEADLOCK FALSE
