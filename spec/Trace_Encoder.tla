---------------------------- MODULE Trace_Encoder ----------------------------
(* Trace validation for C03 (obligation T).  Every event is one complete       *)
(* size-limited encoding observed from outside (the encoder is sequential, the *)
(* linearization point is the return of the call), or one server response:     *)
(*  enc:  limit result ("ok"|"fail") and, when ok, the observation record of   *)
(*        EncoderOps (len, leftover, decoded, tc0, tc, inCounts, hdrCounts,    *)
(*        outIds, optIn, optOut, tsigIn, tsigOut)                              *)
(*  srv:  proto ("udp"|"tcp") adv (advertised payload or -1) replies len       *)
(*        decoded leftover                                                     *)
EXTENDS EncoderOps, TLC, Json, IOUtils

Rec == ndJsonDeserialize(IOEnv.TRACE)
VARIABLES l
tvars == <<l>>
Init == l = 1
e == Rec[l]

Allowed ==
    \/ e.ev = "enc" /\ e.result = "fail"                 \* "encoding either fails or ..."
    \/ e.ev = "enc" /\ e.result = "ok" /\ e.limit >= 12 /\ C03_Ok(e.obs)
    \/ /\ e.ev = "srv"
       /\ e.replies = 1 => /\ e.len <= ServerLimit(e.proto, e.adv)
                           /\ e.decoded /\ e.leftover = 0
                           \* "TC set whenever a record was dropped": the whole RRset is the answer
                           /\ (~e.unencodable /\ e.answers < e.zone_records) => e.tc
    \* a response built by a handler that set TC itself: "... and otherwise unchanged"
    \/ /\ e.ev = "srvtc"
       /\ e.replies = 1 => /\ e.len <= ServerLimit(e.proto, e.adv)
                           /\ e.decoded /\ e.leftover = 0
                           /\ e.answers <= e.given
                           /\ e.tc = (e.tcIn \/ e.answers < e.given)

Failed ==
    IF e.ev = "enc" /\ e.result = "ok"
    THEN [withinLimit |-> C03_WithinLimit(e.obs), noLeftover |-> C03_NoLeftover(e.obs),
          counts |-> C03_Counts(e.obs), prefix |-> C03_Prefix(e.obs), tc |-> C03_TC(e.obs)]
    ELSE IF e.ev \in {"srv", "srvtc"} THEN [limit |-> ServerLimit(e.proto, e.adv)] ELSE [none |-> TRUE]

Matched == Allowed
Reject == ~Allowed /\ PrintT(<<"MISMATCH", ToJson([case |-> e.case, line |-> l, event |-> e, checks |-> Failed])>>)
Next == l <= Len(Rec) /\ l' = l + 1 /\ (Matched \/ Reject)
TraceSpec == Init /\ [][Next]_tvars
Consumed ==
    LET d == TLCGet("stats").diameter IN
    IF d - 1 = Len(Rec) THEN PrintT(<<"TRACE-CONSUMED", Len(Rec)>>)
    ELSE PrintT(<<"TRACE-STUCK", d, Len(Rec)>>) /\ FALSE
=============================================================================
