--------------------------- MODULE Trace_Serving ---------------------------
(* Trace validation for the live-socket part of C11 (impl -> spec), monitor  *)
(* style.  Events recorded by `drive_front live` against the real            *)
(* hickory_server::Server on loopback UDP and TCP sockets:                   *)
(*   reset    case, cfg = [origins, chains: [o, ch], allow, deny]            *)
(*   hostile  kind, proto, replies (informational): Serving!Hostile          *)
(*   canary   after, proto, req (attributes read off the canary's bytes),    *)
(*            obs = [replies, attempts, qrset, idok, rcode, question, zone,  *)
(*            handler]: Serving!SendCanary (RetryCanary) AnswerCanary        *)
(* A canary whose observation is not Serving!CanaryOk -- in particular one   *)
(* that never got a response -- is printed as MISMATCH.                      *)
EXTENDS FrontDoorReq, Sequences, TLC, Json, IOUtils

Rec == ndJsonDeserialize(IOEnv.TRACE)

VARIABLES l, cfg, cid, nhostile, bad
tvars == <<l, cfg, cid, nhostile, bad>>

Range_(s) == {s[i] : i \in 1..Len(s)}
NoCfg == [origins |-> {}, chain |-> <<>>, allow |-> {}, deny |-> {}]
Init == l = 1 /\ cfg = NoCfg /\ cid = "none" /\ nhostile = 0 /\ bad = 0

e == Rec[l]
Pfx(p) == [a |-> p.a, len |-> p.len]
Reset ==
    /\ e.ev = "reset"
    /\ cfg' = [origins |-> Range_(e.cfg.origins),
               chain   |-> [og \in Range_(e.cfg.origins) |-> (CHOOSE c \in Range_(e.cfg.chains) : c.o = og).ch],
               allow   |-> {Pfx(p) : p \in Range_(e.cfg.allow)},
               deny    |-> {Pfx(p) : p \in Range_(e.cfg.deny)}]
    /\ cid' = e.case /\ nhostile' = 0 /\ bad' = bad

Hostile == e.ev = "hostile" /\ nhostile' = nhostile + 1 /\ UNCHANGED <<cfg, cid, bad>>

Req == [short |-> e.req.short, qr |-> e.req.qr, op |-> e.req.op, qd |-> e.req.qd, qok |-> e.req.qok, body |-> e.req.body,
        edns |-> e.req.edns, src |-> e.req.src, qname |-> e.req.qname, loose |-> e.req.loose]

\* Serving!CanaryOk (Serving has constants; the operator is repeated here over the trace's cfg)
CanaryOk(r, c, obs) ==
    /\ obs.replies >= 1 /\ obs.replies <= obs.attempts
    /\ obs.qrset /\ obs.idok /\ obs.question = "same"
    /\ obs.rcode \in PermittedRcodes(r, c)
    /\ (Plain(r, c.allow, c.deny) /\ obs.rcode \in ZoneRcodes /\ "deny" \notin AclDecisions(c.allow, c.deny, r.src)) =>
          LET z == AnsweringZone(c.origins, r.qname) IN
          /\ z # NoZone /\ obs.zone \in {z, NoZone}
          /\ obs.handler \in {0, FirstActive(c.chain[z])}

Canary ==
    /\ e.ev = "canary"
    /\ IF Answered(Req) /\ CanaryOk(Req, cfg, e.obs) THEN bad' = bad
       ELSE /\ PrintT(<<"MISMATCH", ToJson([case |-> cid, line |-> l, after |-> e.after, proto |-> e.proto, hostile_before |-> nhostile,
                          req |-> e.req, obs |-> e.obs, permitted |-> PermittedRcodes(Req, cfg),
                          zone |-> AnsweringZone(cfg.origins, Req.qname)])>>)
            /\ bad' = bad + 1
    /\ UNCHANGED <<cfg, cid, nhostile>>

Next == l <= Len(Rec) /\ l' = l + 1 /\ (Reset \/ Hostile \/ Canary)
TraceSpec == Init /\ [][Next]_tvars

Consumed ==
    LET d == TLCGet("stats").diameter IN
    IF d - 1 = Len(Rec) THEN PrintT(<<"TRACE-CONSUMED", Len(Rec)>>)
    ELSE PrintT(<<"TRACE-STUCK", d, Len(Rec)>>) /\ FALSE
=============================================================================
