---------------------------- MODULE RecursorNets ----------------------------
(* The family of small simulated internets for C19 (constant-free; used by   *)
(* MC_Recursor and Gen_Recursor).                                            *)
(*                                                                           *)
(*      .  (a1)                                                              *)
(*      +-- t1. (a2)  +-- l.t1. (a4)   holds the queried name w.l.t1.        *)
(*      |             +-- m.t1. (a5)                                         *)
(*      +-- t2. (a3)  +-- l.t2. (a6)                                         *)
(* a8 answers for nothing (lame), a9 is the attacker's address, h1..h3 are   *)
(* host addresses.  Parameters:                                              *)
(*   lmode  how l.t1 is delegated: nameserver name in the zone with glue     *)
(*          ("in"), in the zone without glue ("in-noglue"), in the sibling   *)
(*          zone m.t1 with glue from t1 ("sib") or without ("sib-noglue"),   *)
(*          under the other top-level domain ("out", necessarily glueless),  *)
(*          to an address that does not serve it ("lame"), to the parent's   *)
(*          own server ("self");                                             *)
(*   mmode  how m.t1 is delegated: "in", "sib-noglue" (name in l.t1: with    *)
(*          lmode = "sib-noglue" a glueless cycle), "out";                   *)
(*   tmode  what is at w.l.t1: an address, aliases inside the zone / to the  *)
(*          sibling / to the other TLD, alias loops of length 1, 2 and 3     *)
(*          (the last across three zones), or nothing;                       *)
(*   hostile server and what it adds to every response, in which section.    *)
EXTENDS RecursorOps

T1 == <<"t1">>
T2 == <<"t2">>
L1 == <<"l", "t1">>
M1 == <<"m", "t1">>
L2 == <<"l", "t2">>
H(l, z) == <<l>> \o z
A(o, a) == Rec(o, "A", <<a>>)
NS(o, n) == Rec(o, "NS", n)
CN(o, n) == Rec(o, "CNAME", n)
Z(apex, ips, serving, recs, cuts) == [apex |-> apex, ips |-> ips, serving |-> serving, recs |-> recs, cuts |-> cuts]

LModes == {"in", "in-noglue", "sib", "sib-noglue", "out", "lame", "self"}
MModes == {"in", "sib-noglue", "out"}
TModes == {"a", "cname-in", "cname-sib", "cname-out", "loop1", "loop2", "loop3", "none"}

\* nameserver name of l.t1 / m.t1 under each mode
LNs(lmode) == CASE lmode \in {"sib", "sib-noglue"} -> H("nl", M1) [] lmode = "out" -> H("nl", L2) [] OTHER -> H("ns", L1)
MNs(mmode) == CASE mmode = "sib-noglue" -> H("nm", L1) [] mmode = "out" -> H("nm", L2) [] OTHER -> H("ns", M1)
LAddr(lmode) == CASE lmode = "lame" -> "a8" [] lmode = "self" -> "a2" [] OTHER -> "a4"

Target(tmode) ==
    CASE tmode = "a"         -> {A(H("w", L1), "h1")}
      [] tmode = "cname-in"  -> {CN(H("w", L1), H("x", L1)), A(H("x", L1), "h1")}
      [] tmode = "cname-sib" -> {CN(H("w", L1), H("w", M1))}
      [] tmode = "cname-out" -> {CN(H("w", L1), H("w", L2))}
      [] tmode = "loop1"     -> {CN(H("w", L1), H("w", L1))}
      [] tmode = "loop2"     -> {CN(H("w", L1), H("x", L1)), CN(H("x", L1), H("w", L1))}
      [] tmode = "loop3"     -> {CN(H("w", L1), H("w", M1))}
      [] OTHER               -> {}

Zones(lmode, mmode, tmode) ==
    LET lns == LNs(lmode)
        mns == MNs(mmode)
        la  == LAddr(lmode)
        t1recs == {NS(T1, H("ns", T1)), A(H("ns", T1), "a2"), NS(L1, lns), NS(M1, mns)}
                  \cup (IF lmode \in {"in", "sib", "lame", "self"} THEN {A(lns, la)} ELSE {})
                  \cup (IF mmode = "in" THEN {A(mns, "a5")} ELSE {})
        l1recs == {NS(L1, lns)} \cup Target(tmode)
                  \cup (IF InZone(lns, L1) THEN {A(lns, "a4")} ELSE {})
                  \cup (IF InZone(mns, L1) THEN {A(mns, "a5")} ELSE {})
        m1recs == {NS(M1, mns), IF tmode = "loop3" THEN CN(H("w", M1), H("w", L2)) ELSE A(H("w", M1), "h2")}
                  \cup (IF InZone(mns, M1) THEN {A(mns, "a5")} ELSE {})
                  \cup (IF InZone(lns, M1) THEN {A(lns, la)} ELSE {})
        l2recs == {NS(L2, H("ns", L2)), A(H("ns", L2), "a6"),
                   IF tmode = "loop3" THEN CN(H("w", L2), H("w", L1)) ELSE A(H("w", L2), "h3")}
                  \cup (IF InZone(lns, L2) THEN {A(lns, la)} ELSE {})
                  \cup (IF InZone(mns, L2) THEN {A(mns, "a5")} ELSE {})
    IN {Z(Root, {"a1"}, {"a1"},
          {NS(Root, H("ns", Root)), A(H("ns", Root), "a1"), NS(T1, H("ns", T1)), A(H("ns", T1), "a2"),
           NS(T2, H("ns", T2)), A(H("ns", T2), "a3")}, {T1, T2}),
        Z(T1, {"a2"}, {"a2"}, t1recs, {L1, M1}),
        Z(T2, {"a3"}, {"a3"}, {NS(T2, H("ns", T2)), A(H("ns", T2), "a3"), NS(L2, H("ns", L2)), A(H("ns", L2), "a6")}, {L2}),
        Z(L1, {la}, {"a4"}, l1recs, {}),
        Z(M1, {"a5"}, {"a5"}, m1recs, {}),
        Z(L2, {"a6"}, {"a6"}, l2recs, {})}

Net(lmode, mmode, tmode, inj, denyS, denyA) ==
    [zones |-> Zones(lmode, mmode, tmode), roots |-> {"a1"}, inj |-> inj, denyS |-> denyS, denyA |-> denyA,
     tag |-> <<lmode, mmode, tmode>>]

\* hostile additions: all out of bailiwick for the server that sends them
Evil == "a9"
\* an address for a name in somebody else's zone
Victim(ip) == CASE ip = "a2" -> H("w", L2) [] ip = "a4" -> H("w", M1) [] ip = "a5" -> H("w", L1) [] OTHER -> H("w", L1)
\* a delegation of somebody else's zone to the attacker, with "glue"
Grab(ip) == CASE ip \in {"a2", "a4", "a5"} -> T2 [] OTHER -> T1
Payloads(ip, lmode, mmode) ==
    {{A(Victim(ip), Evil)},
     {NS(Grab(ip), H("ns", <<"evil">>)), A(H("ns", <<"evil">>), Evil)},
     \* "glue" for the nameserver names the resolver is about to need, from a server that is not entitled to give it
     {A(LNs(lmode), Evil), A(MNs(mmode), Evil)} \ (IF ip = "a2" THEN {A(n, Evil) : n \in {x \in {LNs(lmode), MNs(mmode)} : InZone(x, T1)}}
                                                   ELSE IF ip = "a4" THEN {A(n, Evil) : n \in {x \in {LNs(lmode), MNs(mmode)} : InZone(x, L1)}}
                                                   ELSE IF ip = "a5" THEN {A(n, Evil) : n \in {x \in {LNs(lmode), MNs(mmode)} : InZone(x, M1)}}
                                                   ELSE {A(n, Evil) : n \in {x \in {LNs(lmode), MNs(mmode)} : InZone(x, L2)}})}
InjBy(ip, lmode, mmode) ==
    {{[ip |-> ip, sec |-> sec, when |-> w, r |-> r] : r \in p} :
        sec \in {"an", "ns", "ad"}, w \in {"any", "A"}, p \in {x \in Payloads(ip, lmode, mmode) : x # {}}}
Injections(lmode, mmode) == {{}} \cup UNION {InjBy(ip, lmode, mmode) : ip \in {"a2", "a4", "a5", "a6"}}

\* parameter tuples <<lmode, mmode, tmode, inj, denyS, denyA>> and the internet each stands for
NetOfParams(p) == Net(p[1], p[2], p[3], p[4], p[5], p[6])
\* hostile servers, no filters
HostileParams(LM, MM, TM) ==
    UNION {{<<lm, mm, tm, inj, {}, {}>> : tm \in TM, inj \in Injections(lm, mm)} : lm \in LM, mm \in MM}
\* filters, honest servers
FilterParams(LM, MM, TM) ==
    {<<lm, mm, tm, {}, ds, da>> : lm \in LM, mm \in MM, tm \in TM, ds \in {{}, {"a4"}, {"a5"}, {"a6"}}, da \in {{}, {"h1"}, {"h3"}}}

TheQuestion == {[qn |-> H("w", L1), qt |-> "A"]}
=============================================================================
