---------------------------- MODULE RecursorNets ----------------------------
(* The family of small simulated internets for C19 (constant-free; used by   *)
(* MC_Recursor and Gen_Recursor).                                            *)
(*                                                                           *)
(*      .  (a1)                                                              *)
(*      +-- t1. (a2)  +-- l.t1. (a4)   holds the queried name w.l.t1.        *)
(*      |             +-- m.t1. (a5)                                         *)
(*      +-- t2. (a3)  +-- l.t2. (a6)                                         *)
(* a8 answers for nothing (lame), a9 is the attacker's address, h1..h3 are   *)
(* host addresses.  Parameters:                                              *)
(*   lmode  how l.t1 is delegated: nameserver name in the zone with glue     *)
(*          ("in"), in the zone without glue ("in-noglue"), in the sibling   *)
(*          zone m.t1 with glue from t1 ("sib") or without ("sib-noglue"),   *)
(*          under the other top-level domain ("out", necessarily glueless),  *)
(*          to an address that does not serve it ("lame"), to the parent's   *)
(*          own server ("self");                                             *)
(*   mmode  how m.t1 is delegated: "in", "sib-noglue" (name in l.t1: with    *)
(*          lmode = "sib-noglue" a glueless cycle), "out";                   *)
(*   tmode  what is at w.l.t1: an address, aliases inside the zone / to the  *)
(*          sibling / to the other TLD, alias loops of length 1, 2 and 3     *)
(*          (the last across three zones), or nothing;                       *)
(*   hostile server and what it adds to every response, in which section.    *)
EXTENDS RecursorOps, TLC

T1 == <<"t1">>
T2 == <<"t2">>
L1 == <<"l", "t1">>
M1 == <<"m", "t1">>
L2 == <<"l", "t2">>
H(l, z) == <<l>> \o z
A(o, a) == Rec(o, "A", <<a>>)
NS(o, n) == Rec(o, "NS", n)
CN(o, n) == Rec(o, "CNAME", n)
Z(apex, ips, serving, recs, cuts) == [apex |-> apex, soa |-> apex, ips |-> ips, serving |-> serving, recs |-> recs, cuts |-> cuts]

LModes == {"in", "in-noglue", "sib", "sib-noglue", "out", "lame", "self"}
MModes == {"in", "sib-noglue", "out"}
TModes == {"a", "cname-in", "cname-sib", "cname-out", "loop1", "loop2", "loop3", "none"}

\* nameserver name of l.t1 / m.t1 under each mode
LNs(lmode) == CASE lmode \in {"sib", "sib-noglue"} -> H("nl", M1) [] lmode = "out" -> H("nl", L2) [] OTHER -> H("ns", L1)
MNs(mmode) == CASE mmode = "sib-noglue" -> H("nm", L1) [] mmode = "out" -> H("nm", L2) [] OTHER -> H("ns", M1)
LAddr(lmode) == CASE lmode = "lame" -> "a8" [] lmode = "self" -> "a2" [] OTHER -> "a4"

\* alias trees: every response of l.t1's server about a node carries its alias in the answer section and
\* f - 1 further aliases (in-zone owners) in the additional / authority section, each to a fresh node,
\* d levels deep, addresses at the leaves
RECURSIVE Lab(_, _)
Lab(pre, p) == IF p = <<>> THEN pre ELSE Lab(pre \o ToString(Head(p)), Tail(p))
Paths(f, d) == UNION {[1..n -> 1..f] : n \in 0..d}
Node(p) == IF p = <<>> THEN H("w", L1) ELSE H(Lab("c", p), L1)
Extra(p, k) == H(Lab("e", Append(p, k)), L1)
TreeRecs(f, d) ==
    {CN(Node(p), Node(Append(p, 1))) : p \in {x \in Paths(f, d) : Len(x) < d}}
    \cup {A(Node(p), "h1") : p \in {x \in Paths(f, d) : Len(x) = d}}
TreeInj(f, d) ==
    UNION {{[ip |-> "a4", sec |-> IF k % 2 = 0 THEN "ad" ELSE "ns", when |-> "A", qn |-> Node(p),
             r |-> CN(Extra(p, k), Node(Append(p, k)))] : k \in 2..f} : p \in {x \in Paths(f, d) : Len(x) < d}}

Target(tmode) ==
    CASE tmode = "a"         -> {A(H("w", L1), "h1")}
      [] tmode = "cname-in"  -> {CN(H("w", L1), H("x", L1)), A(H("x", L1), "h1")}
      [] tmode = "cname-sib" -> {CN(H("w", L1), H("w", M1))}
      [] tmode = "cname-out" -> {CN(H("w", L1), H("w", L2))}
      [] tmode = "loop1"     -> {CN(H("w", L1), H("w", L1))}
      [] tmode = "loop2"     -> {CN(H("w", L1), H("x", L1)), CN(H("x", L1), H("w", L1))}
      [] tmode = "loop3"     -> {CN(H("w", L1), H("w", M1))}
      [] tmode = "tree22"    -> TreeRecs(2, 2)
      [] tmode = "tree23"    -> TreeRecs(2, 3)
      [] tmode = "tree34"    -> TreeRecs(3, 4)
      \* an alias chain longer than any limit: w -> k1 -> k2 -> ... -> k30 (an address at the end)
      [] tmode = "chain"     -> {CN(IF i = 0 THEN H("w", L1) ELSE H("k" \o ToString(i), L1), H("k" \o ToString(i + 1), L1)) : i \in 0..29}
                                \cup {A(H("k30", L1), "h1")}
      [] tmode = "ent"       -> {A(H("x", H("w", L1)), "h2")}       \* w.l.t1 is an empty non-terminal: NODATA
      [] OTHER               -> {}

Zones(lmode, mmode, tmode) ==
    LET lns == LNs(lmode)
        mns == MNs(mmode)
        la  == LAddr(lmode)
        t1recs == {NS(T1, H("ns", T1)), A(H("ns", T1), "a2"), NS(L1, lns), NS(M1, mns)}
                  \cup (IF lmode \in {"in", "sib", "lame", "self"} THEN {A(lns, la)} ELSE {})
                  \cup (IF mmode = "in" THEN {A(mns, "a5")} ELSE {})
        l1recs == {NS(L1, lns)} \cup Target(tmode)
                  \cup (IF InZone(lns, L1) THEN {A(lns, "a4")} ELSE {})
                  \cup (IF InZone(mns, L1) THEN {A(mns, "a5")} ELSE {})
        m1recs == {NS(M1, mns), IF tmode = "loop3" THEN CN(H("w", M1), H("w", L2)) ELSE A(H("w", M1), "h2")}
                  \cup (IF InZone(mns, M1) THEN {A(mns, "a5")} ELSE {})
                  \cup (IF InZone(lns, M1) THEN {A(lns, la)} ELSE {})
        l2recs == {NS(L2, H("ns", L2)), A(H("ns", L2), "a6"),
                   IF tmode = "loop3" THEN CN(H("w", L2), H("w", L1)) ELSE A(H("w", L2), "h3")}
                  \cup (IF InZone(lns, L2) THEN {A(lns, la)} ELSE {})
                  \cup (IF InZone(mns, L2) THEN {A(mns, "a5")} ELSE {})
    IN {Z(Root, {"a1"}, {"a1"},
          {NS(Root, H("ns", Root)), A(H("ns", Root), "a1"), NS(T1, H("ns", T1)), A(H("ns", T1), "a2"),
           NS(T2, H("ns", T2)), A(H("ns", T2), "a3")}, {T1, T2}),
        Z(T1, {"a2"}, {"a2"}, t1recs, {L1, M1}),
        Z(T2, {"a3"}, {"a3"}, {NS(T2, H("ns", T2)), A(H("ns", T2), "a3"), NS(L2, H("ns", L2)), A(H("ns", L2), "a6")}, {L2}),
        Z(L1, {la}, {"a4"}, l1recs, {}),
        Z(M1, {"a5"}, {"a5"}, m1recs, {}),
        Z(L2, {"a6"}, {"a6"}, l2recs, {})}

(* Concretisations of the address strings.  "v4": a<i> = 11.0.0.<i>, h<i> = 11.1.0.<i>.  "v6": the      *)
(* server of l.t1 sits on the IPv6 loopback ::1, the one of m.t1 on the IPv4-compatible ::10.0.0.5, the *)
(* one of l.t2 on the IPv4-mapped ::ffff:10.0.0.6; host h1 is the unspecified address ::, host h3 the   *)
(* IPv4-mapped ::ffff:10.0.0.3 -- the addresses on which a filter may be got wrong.                     *)
AddrUniverse == {"a1", "a2", "a3", "a4", "a5", "a6", "a8", "a9", "h1", "h2", "h3"}
Z0(n) == [i \in 1..n |-> 0]
Num(a) == CASE a = "a1" -> 1 [] a = "a2" -> 2 [] a = "a3" -> 3 [] a = "a4" -> 4 [] a = "a5" -> 5 [] a = "a6" -> 6
            [] a = "a8" -> 8 [] a = "a9" -> 9 [] a = "h1" -> 1 [] a = "h2" -> 2 [] OTHER -> 3
Plain(a) == IF a \in {"h1", "h2", "h3"} THEN V4(11, 1, 0, Num(a)) ELSE V4(11, 0, 0, Num(a))
Conc(cv) ==
    [a \in AddrUniverse |->
        IF cv = "v4" THEN Plain(a)
        ELSE CASE a = "a4" -> V6(Z0(15) \o <<1>>)
               [] a = "a5" -> V6(Z0(12) \o <<10, 0, 0, 5>>)
               [] a = "a6" -> V6(Z0(10) \o <<255, 255, 10, 0, 0, 6>>)
               [] a = "h1" -> V6(Z0(16))
               [] a = "h3" -> V6(Z0(10) \o <<255, 255, 10, 0, 0, 3>>)
               [] OTHER -> Plain(a)]
\* address records get the type of their concrete address
Typed(conc, r) == IF r.t = "A" /\ conc[r.d[1]].v = 6 THEN [r EXCEPT !.t = "AAAA"] ELSE r

\* where l.t1's server owns the SOA of its negative answers: its own apex, or outside its zone
SoaModes == {"own", "parent", "sibling", "root"}
SoaOwner(so) == CASE so = "parent" -> T1 [] so = "sibling" -> M1 [] so = "root" -> Root [] OTHER -> L1

Net(lmode, mmode, tmode, inj, denyS, denyA, cv, so, qtp, lims) ==
    LET conc == Conc(cv) IN
    [zones |-> {[z EXCEPT !.recs = {Typed(conc, r) : r \in z.recs}, !.soa = IF z.apex = L1 THEN SoaOwner(so) ELSE z.apex] :
                z \in Zones(lmode, mmode, tmode)},
     roots |-> {"a1"}, inj |-> {[x EXCEPT !.r = Typed(conc, x.r)] : x \in inj},
     conc |-> conc, denyS |-> denyS, denyA |-> denyA,
     qt |-> IF qtp # "auto" THEN qtp ELSE IF conc["h1"].v = 6 THEN "AAAA" ELSE "A",
     lim |-> lims,        \* depth limits of this internet's case ([ns |-> 0, rec |-> 0]: the generator's)
     tag |-> <<lmode, mmode, tmode, cv, so>>]

\* hostile additions: all out of bailiwick for the server that sends them
Evil == "a9"
\* an address for a name in somebody else's zone
Victim(ip) == CASE ip = "a2" -> H("w", L2) [] ip = "a4" -> H("w", M1) [] ip = "a5" -> H("w", L1) [] OTHER -> H("w", L1)
\* a delegation of somebody else's zone to the attacker, with "glue"
Grab(ip) == CASE ip \in {"a2", "a4", "a5"} -> T2 [] OTHER -> T1
Payloads(ip, lmode, mmode) ==
    {{A(Victim(ip), Evil)},
     {NS(Grab(ip), H("ns", <<"evil">>)), A(H("ns", <<"evil">>), Evil)},
     \* "glue" for the nameserver names the resolver is about to need, from a server that is not entitled to give it
     {A(LNs(lmode), Evil), A(MNs(mmode), Evil)} \ (IF ip = "a2" THEN {A(n, Evil) : n \in {x \in {LNs(lmode), MNs(mmode)} : InZone(x, T1)}}
                                                   ELSE IF ip = "a4" THEN {A(n, Evil) : n \in {x \in {LNs(lmode), MNs(mmode)} : InZone(x, L1)}}
                                                   ELSE IF ip = "a5" THEN {A(n, Evil) : n \in {x \in {LNs(lmode), MNs(mmode)} : InZone(x, M1)}}
                                                   ELSE {A(n, Evil) : n \in {x \in {LNs(lmode), MNs(mmode)} : InZone(x, L2)}})}
InjBy(ip, lmode, mmode) ==
    {{[ip |-> ip, sec |-> sec, when |-> w, qn |-> <<"*">>, r |-> r] : r \in p} :
        sec \in {"an", "ns", "ad"}, w \in {"any", "A"}, p \in {x \in Payloads(ip, lmode, mmode) : x # {}}}
Injections(lmode, mmode) == {{}} \cup UNION {InjBy(ip, lmode, mmode) : ip \in {"a2", "a4", "a5", "a6"}}

\* filters (AccessOps access control sets) over the "v4" concretisation: single addresses, and a denied
\* network with an allowed network nested inside it
One(a) == [allow |-> {}, deny |-> {Pfx(Plain(a), 32)}]
ServerFilters == {NoFilter, One("a4"), One("a5"), One("a6"),
                  [allow |-> {Pfx(V4(11, 0, 0, 0), 30)}, deny |-> {Pfx(V4(11, 0, 0, 0), 29)}]}     \* a1-a3 allowed, a4-a6 denied
AnswerFilters == {NoFilter, One("h1"), One("h3"),
                  [allow |-> {Pfx(V4(11, 1, 0, 2), 31)}, deny |-> {Pfx(V4(11, 1, 0, 0), 24)}]}     \* h2, h3 allowed, h1 denied
\* ... and over the "v6" concretisation: the loopback / unspecified addresses of both families (without
\* 0.0.0.0/8), and an IPv4 network that must catch the IPv4-mapped form and nothing else
Loop6 == [allow |-> {}, deny |-> {Pfx(V4(127, 0, 0, 0), 8), Pfx(V6(Z0(15) \o <<1>>), 128), Pfx(V6(Z0(16)), 128)}]
Ten   == [allow |-> {}, deny |-> {Pfx(V4(10, 0, 0, 0), 8)}]

TreeModes == {"tree22", "tree23", "tree34"}
TreeF(tm) == IF tm = "tree34" THEN 3 ELSE 2
TreeD(tm) == CASE tm = "tree22" -> 2 [] tm = "tree23" -> 3 [] OTHER -> 4

\* parameter records and the internet each stands for
P(lm, mm, tm, inj, fs, fa, cv) == [lm |-> lm, mm |-> mm, tm |-> tm, inj |-> inj, fs |-> fs, fa |-> fa, cv |-> cv, so |-> "own", qt |-> "auto", lim |-> [ns |-> 0, rec |-> 0]]
NetOfParams(p) == Net(p.lm, p.mm, p.tm, p.inj, p.fs, p.fa, p.cv, p.so, p.qt, p.lim)
\* the two depth limits configured differently (both orders), on an alias chain longer than either
LimParams == {[P("in", "in", "chain", {}, NoFilter, NoFilter, "v4") EXCEPT !.lim = l] :
                 l \in {[ns |-> 12, rec |-> 4], [ns |-> 4, rec |-> 12], [ns |-> 40, rec |-> 8]}}
\* a question that does not ask for addresses (NS) whose answer carries address records -- glue, and an
\* in-zone address the zone's own server adds -- with an answer filter that denies them
NsqParams == {[P("in", "in", "a", {[ip |-> "a4", sec |-> "ad", when |-> "NS", qn |-> <<"*">>, r |-> A(H("x", L1), "h1")]},
                 NoFilter, fa, "v4") EXCEPT !.qt = "NS"] : fa \in {NoFilter, One("h1"), One("a4")}}
\* DS questions (for the zone l.t1 -- asked on the parent side, at t1's server -- and for the host w.l.t1)
\* with hostile servers of t1 / l.t1 decorating every response
DsParams ==
    {[P("in", "in", "a", inj, NoFilter, NoFilter, "v4") EXCEPT !.qt = "DS"] :
        inj \in {{}} \cup {x \in InjBy("a2", "in", "in") \cup InjBy("a4", "in", "in") : \A i \in x : i.when = "any"}}
\* negative answers (name error, no data) whose SOA is owned inside / outside the answering server's zone
SoaParams == {[P(lm, "in", tm, {}, NoFilter, NoFilter, "v4") EXCEPT !.so = so] :
                 lm \in {"in", "out"}, tm \in {"none", "ent"}, so \in SoaModes}
\* hostile servers, no filters
HostileParams(LM, MM, TM) ==
    UNION {{P(lm, mm, tm, inj, NoFilter, NoFilter, "v4") : tm \in TM, inj \in Injections(lm, mm)} : lm \in LM, mm \in MM}
\* filters, honest servers
FilterParams(LM, MM, TM) ==
    {P(lm, mm, tm, {}, fs, fa, "v4") : lm \in LM, mm \in MM, tm \in TM, fs \in ServerFilters, fa \in AnswerFilters}
V6Params ==
    {P(lm, mm, tm, {}, fs, fa, "v6") : lm \in {"in", "sib", "out"}, mm \in {"in", "out"}, tm \in {"a", "cname-out"},
                                       fs \in {NoFilter, Loop6, Ten}, fa \in {NoFilter, Loop6, Ten}}
TreeParams(TM) == {P("in", "in", tm, TreeInj(TreeF(tm), TreeD(tm)), NoFilter, NoFilter, "v4") : tm \in TM}

TheQuestions == {[qn |-> H("w", L1), qt |-> "A"], [qn |-> H("w", L1), qt |-> "AAAA"],
                 [qn |-> H("w", L1), qt |-> "DS"], [qn |-> L1, qt |-> "DS"], [qn |-> L1, qt |-> "NS"]}
=============================================================================
