------------------------------- MODULE TlvLoop -------------------------------
(* The loop every list-valued RDATA decoder runs (EDNS options, SVCB          *)
(* parameters, TXT strings, NSEC type-bitmap windows): read a header, read    *)
(* the value it announces, until the RDATA is used up.                        *)
(*                                                                            *)
(* The input is abstract: a sequence of items (value length, and what the     *)
(* header claims instead: length + delta) followed by `stray` octets that do  *)
(* not make a header.  The machine has one action per step of the loop.       *)
(* Checked: it never looks beyond the RDATA (NoOOB), it terminates (Variant), *)
(* and it accepts exactly the inputs that the declarative reading Tiles       *)
(* accepts -- in particular an empty value in the LAST position is accepted   *)
(* and a partial header at the end is refused.                                *)
(* The same item lists are unfolded into real records by GrammarOps           *)
(* (TlvFamily) and fed to the decoders of all four carriers.                  *)
EXTENDS Integers, Sequences

CONSTANTS Hdr,          \* octets of a header (4: options, parameters; 2: windows; 1: strings)
          ValLens,      \* value lengths to combine
          Deltas,       \* header claims length + delta
          MaxItems, MaxStray

Items == UNION {[1..n -> [len : ValLens, d : Deltas]] : n \in 0..MaxItems}

VARIABLES items, stray, pos, want, st
vars == <<items, stray, pos, want, st>>

RECURSIVE Size(_)
Size(s) == IF s = <<>> THEN 0 ELSE Hdr + Head(s).len + Size(Tail(s))
Total == Size(items) + stray

\* what the octet at the header position at `p` announces: the claim of the item that starts there,
\* or nothing we can name if p is not an item boundary (then the bytes are value filler, read as a
\* length of 0 -- the driver fills values with zero octets)
RECURSIVE ClaimAt(_, _)
ClaimAt(s, p) ==
    IF s = <<>> THEN 0
    ELSE IF p = 0 THEN (IF Head(s).len + Head(s).d < 0 THEN 0 ELSE Head(s).len + Head(s).d)
    ELSE IF p < Hdr + Head(s).len THEN 0
    ELSE ClaimAt(Tail(s), p - Hdr - Head(s).len)

Init ==
    /\ items \in Items /\ stray \in 0..MaxStray
    /\ pos = 0 /\ want = 0 /\ st = "hdr"

AtEnd   == st = "hdr" /\ pos = Total /\ st' = "ok" /\ UNCHANGED <<items, stray, pos, want>>
Partial == st = "hdr" /\ pos < Total /\ Total - pos < Hdr /\ st' = "err" /\ UNCHANGED <<items, stray, pos, want>>
Header  == /\ st = "hdr" /\ Total - pos >= Hdr
           /\ want' = ClaimAt(items, pos) /\ pos' = pos + Hdr /\ st' = "val"
           /\ UNCHANGED <<items, stray>>
Value   == /\ st = "val" /\ want <= Total - pos
           /\ pos' = pos + want /\ st' = "hdr" /\ UNCHANGED <<items, stray, want>>
Short   == st = "val" /\ want > Total - pos /\ st' = "err" /\ UNCHANGED <<items, stray, pos, want>>

Next == AtEnd \/ Partial \/ Header \/ Value \/ Short
Spec == Init /\ [][Next]_vars /\ WF_vars(Next)

NoOOB == pos <= Total /\ (st = "val" => TRUE)
Done == st \in {"ok", "err"}
Terminates == <>Done

\* declarative: the claims tile the RDATA exactly
RECURSIVE TilesFrom(_)
TilesFrom(p) ==
    IF p = Total THEN TRUE
    ELSE IF Total - p < Hdr THEN FALSE
    ELSE LET c == ClaimAt(items, p) IN c <= Total - p - Hdr /\ TilesFrom(p + Hdr + c)
Tiles == TilesFrom(0)

Agrees == (st = "ok" => Tiles) /\ (st = "err" => ~Tiles)

\* honest inputs (every header tells the truth, no stray octets) are accepted
Honest == stray = 0 /\ \A i \in 1..Len(items) : items[i].d = 0
HonestAccepted == (Done /\ Honest) => st = "ok"
=============================================================================
