--------------------------- MODULE Gen_Canonical ---------------------------
(* Case generator for C05 (obligation R: spec -> impl).                     *)
(* Every case of a finite space -- owner x presentation (every sequence of  *)
(* 1..MaxLen records over the RDATA universe, so every order and every      *)
(* duplication, under every TTL pattern) x RRSIG parameters (every Labels   *)
(* value, every algorithm of Algs) -- is an initial state and is printed    *)
(* once as a REPLAY line together with what the specification prescribes:   *)
(*   allowed   the outcomes an implementation may produce for "the octets   *)
(*             handed to the crypto" ([res |-> "ok", tbs |-> octets] or     *)
(*             [res |-> "err"]),                                            *)
(*   third     what the built-in verifier must say to a signature a         *)
(*             conforming signer made over those octets,                    *)
(*   zone/self the RRset as a zone holds it (each distinct RR once, TTL =   *)
(*             Original TTL) and what the built-in verifier must say about  *)
(*             this presentation after the built-in signer signed `zone`.   *)
EXTENDS CanonicalForm, Json

CONSTANTS
    G_Type, G_Class,
    G_Owners,      \* set of owner names
    G_Universe,    \* set of rdata (field lists)
    G_MaxLen,      \* presentations have 1..G_MaxLen records
    G_TtlPats,     \* set of sequences (length >= G_MaxLen) of received TTLs (four octets each)
    G_SigBases,    \* set of [ottl, exp, inc, tag, signer]
    G_Algs,        \* set of algorithm numbers
    G_LabelsUpTo   \* Labels ranges over 0..(Len(owner) + G_LabelsUpTo)

VARIABLE c

Presentations ==
    UNION {{[i \in 1..n |-> [ttl |-> p[i], rd |-> f[i]]] : f \in [1..n -> G_Universe], p \in G_TtlPats}
           : n \in 1..G_MaxLen}

SigsFor(o) ==
    {[tc |-> G_Type, alg |-> a, labels |-> l, ottl |-> sb.ottl, exp |-> sb.exp, inc |-> sb.inc,
      tag |-> sb.tag, signer |-> sb.signer] :
        a \in G_Algs, l \in 0..(Len(o) + G_LabelsUpTo), sb \in G_SigBases}

Init == \E o \in G_Owners : \E rs \in Presentations : \E s \in SigsFor(o) :
            c = [owner |-> o, recs |-> rs, sig |-> s]
Next == UNCHANGED c
Spec == Init /\ [][Next]_c

\* the RRset as the zone holds it: first occurrence of each distinct canonical RDATA
ZoneRecs(recs, sig) ==
    LET keep == {i \in 1..Len(recs) :
                    \A j \in 1..(i - 1) : CanonWire(sig.tc, recs[j].rd) # CanonWire(sig.tc, recs[i].rd)}
        idx == SetToSortSeq(keep, <) IN
    [k \in 1..Len(idx) |-> [ttl |-> sig.ottl, rd |-> recs[idx[k]].rd]]

Verdict(outs) ==
    IF \A o \in outs : o.res = "err" THEN "reject"
    ELSE IF \A o \in outs : o.res = "ok" THEN "accept" ELSE "either"

Case ==
    LET outs == SignedOutcomes(c.owner, G_Class, c.recs, c.sig)
        natural == c.sig.labels = SignerLabels(c.owner)
        zr == ZoneRecs(c.recs, c.sig) IN
    [type |-> G_Type, class |-> G_Class, owner |-> c.owner, recs |-> c.recs, sig |-> c.sig,
     allowed |-> SetToSeq(outs),
     third |-> Verdict(outs),
     canon |-> CanonSeq(G_Type, c.recs),
     natural |-> natural,
     zone |-> zr,
     self |-> IF ~natural THEN "n/a"
              ELSE IF SignedData(c.owner, G_Class, zr, c.sig) = SignedData(c.owner, G_Class, c.recs, c.sig)
                   THEN "accept" ELSE "reject"]

Emit == PrintT(<<"REPLAY", ToJson(Case)>>)
=============================================================================
