\* one transmission, every view of the catalogue, every arrival order
SPECIFICATION Spec
CONSTANTS
  Views <- MC_AllViews
  MaxTx = 1
INVARIANTS TypeOK C16_AcceptOnlyMatching C16_AtMostThree C16_NoAcceptAfterCap C16_EndsOtherwise C16_OutcomeAllowed C16_ForeignIgnored
PROPERTY Sanity_Final
CHECK_DEADLOCK FALSE
