------------------------------ MODULE Gen_NameOps ------------------------------
(* Case generator for C04 (obligation R): every operation sequence of the       *)
(* NameOps machine with the outcome of each step.                               *)
EXTENDS NameOps, Json

VARIABLE log
Lens(n) == [i \in 1..Len(n) |-> Len(n[i])]
Obs(op, k, l, f) == [op |-> op, k |-> k, len |-> l, f |-> f, ok |-> lastOk', lens |-> Lens(name'), fqdn |-> fqdn']
OInit == Init /\ log = <<>>
ONext == \/ \E l \in LabelLens : AppendLabel(l) /\ log' = Append(log, Obs("append_label", 1, l, FALSE))
         \/ \E l \in LabelLens : PrependLabel(l) /\ log' = Append(log, Obs("prepend_label", 1, l, FALSE))
         \/ \E k \in {1, 3}, l \in LabelLens, f \in BOOLEAN : AppendName(k, l, f) /\ log' = Append(log, Obs("append_name", k, l, f))
         \/ \E k \in {2, 4}, l \in LabelLens : AppendDomain(k, l) /\ log' = Append(log, Obs("append_domain", k, l, TRUE))
         \/ IntoWildcard /\ log' = Append(log, Obs("into_wildcard", 0, 0, FALSE))
         \/ \E k \in {0, 5}, l \in LabelLens : FromLabels(k, l) /\ log' = Append(log, Obs("from_labels", k, l, TRUE))
OSpec == OInit /\ [][ONext]_<<vars, log>>
OEmit == (nops = MaxOps) => PrintT(<<"REPLAY", ToJson([ops |-> log])>>)
=============================================================================
