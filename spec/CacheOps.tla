------------------------------ MODULE CacheOps ------------------------------
(* Pure operators of the resolver-cache requirements (C15).  Constant-free:    *)
(* the TTL configuration is passed as an argument so that the model (Cache),   *)
(* the generator and the trace monitor share one definition.                   *)
(*                                                                             *)
(* Time is counted in ticks of half a second (the property speaks of whole     *)
(* seconds elapsed, so sub-second positions matter).  A configuration is       *)
(*   [def |-> B, byType |-> [type |-> B]]   with   B = [pmin, pmax, nmin, nmax] *)
(* (all in seconds; an absent minimum is 0, an absent maximum is MaxTtl).      *)
(* A record is [sec, type, ttl]; a query is [name, type].                      *)
EXTENDS Naturals, Sequences, FiniteSets

MaxTtl == 86400     \* the library's documented ceiling for received TTLs (one day)
TicksPerSec == 2

Lo(a, b) == IF a < b THEN a ELSE b
Hi(a, b) == IF a > b THEN a ELSE b
ClampTo(x, lo, hi) == Hi(lo, Lo(x, hi))
SetMin(S) == CHOOSE x \in S : \A y \in S : x <= y

BoundsFor(cfg, type) == IF type \in DOMAIN cfg.byType THEN cfg.byType[type] ELSE cfg.def

\* the TTL a record is stored with: clamped by the bounds of the record's OWN type
StoredTtl(cfg, rec) == LET b == BoundsFor(cfg, rec.type) IN ClampTo(rec.ttl, b.pmin, b.pmax)
StoredRecs(cfg, recs) == [i \in 1..Len(recs) |-> [recs[i] EXCEPT !.ttl = StoredTtl(cfg, recs[i])]]

Relevant(q, recs) == {i \in 1..Len(recs) : recs[i].type = q.type \/ recs[i].type = "CNAME"}

(* Lifetime L of a positive entry: "the smallest TTL among the entry's records of the    *)
(* queried type (or CNAME), clamped to the configured bounds for that query type".       *)
(* The statement can be read on the received TTLs or on the stored (own-type clamped)    *)
(* TTLs; they differ only for CNAME records under per-type overrides.  LifeHi is the     *)
(* larger of the two readings: a hit later than LifeHi is late under every reading.      *)
(* Where no record is relevant the statement fixes nothing but the query type's bounds.  *)
LifeOf(cfg, q, ttls) ==
    LET b == BoundsFor(cfg, q.type) IN
    IF ttls = {} THEN b.pmax ELSE ClampTo(SetMin(ttls), b.pmin, b.pmax)
PosLifeHi(cfg, q, recs) ==
    LET rel == Relevant(q, recs) IN
    Hi(LifeOf(cfg, q, {recs[i].ttl : i \in rel}),
       LifeOf(cfg, q, {StoredTtl(cfg, recs[i]) : i \in rel}))

\* negative entries: "kept no longer than its negative TTL clamped to the configured negative
\* bounds"; a negative answer that carries no negative TTL (no SOA) has nothing that would let it
\* be kept at all (RFC 2308 section 5: such answers SHOULD NOT be cached): its negative TTL is 0,
\* so only a configured negative minimum keeps it
NegLifeHi(cfg, q, negttl) ==
    LET b == BoundsFor(cfg, q.type) IN
    ClampTo(IF negttl < 0 THEN 0 ELSE negttl, b.nmin, b.nmax)

\* the negative TTL of a response (RFC 2308 section 5): the minimum of the SOA record's TTL and
\* the SOA MINIMUM field
NegTtlFromSoa(soaTtl, soaMin) == Lo(soaTtl, soaMin)

ElapsedSecs(at, now) == (now - at) \div TicksPerSec
\* more than L seconds after insertion
Late(at, now, life) == now - at > life * TicksPerSec

\* the TTLs a hit must report: stored TTL minus whole seconds elapsed, floored at zero
Countdown(ttl, el) == IF ttl > el THEN ttl - el ELSE 0
HitTtls(stored, at, now) == [i \in 1..Len(stored) |-> Countdown(stored[i].ttl, ElapsedSecs(at, now))]
=============================================================================
