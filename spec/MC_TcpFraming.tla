------------------------- MODULE MC_TcpFraming -------------------------
(* Exhaustive configuration for TcpFraming (C17, obligation D).          *)
EXTENDS TcpFraming, TLC

CONSTANTS InLens, OutLens      \* sequences of message lengths, substituted below
Mk(i, len) == [j \in 1..len |-> (i * 37 + j * 11) % 251]
MsgsOf(lens) == [i \in 1..Len(lens) |-> Mk(i, lens[i])]

MC_InLens  == <<1, 2, 3>>
MC_OutLens == <<2, 1>>
MC_InMsgs  == MsgsOf(InLens)
MC_OutMsgs == MsgsOf(OutLens)
MC_ChunkSet == 1..8
MC_CloseSet == {Never} \cup (0..Len(FrameCat(MC_InMsgs)))

\* second configuration: zero-length frame in the middle of the peer's stream
MCZ_InLens == <<2, 0, 1>>
=============================================================================
