SPECIFICATION Spec
CONSTANTS
  Labels <- MC_Labels
INVARIANTS C04_EqIsFoldedEq C04_Antisymmetric C04_Transitive C04_Total C04_EqCongruence C04_FoldOnlyLetters
CHECK_DEADLOCK FALSE
