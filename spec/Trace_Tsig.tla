------------------------------ MODULE Trace_Tsig ------------------------------
(* Trace validation for C13 (obligation T).  Every event is one request sent   *)
(* to the real Catalog/SqliteZoneHandler and its observed outcome:             *)
(*   req  r (request description, `tamper` = the message region that was       *)
(*        altered, as classified by the harness's independent wire walker),    *)
(*        p (policy), effect (zone changed / zone data returned), reply (null  *)
(*        or [signed, verifies, modifiedTried, modifiedAccepted])              *)
(* The monitor evaluates the requirement operators of TsigOps per event.       *)
EXTENDS TsigOps, TLC, Json, IOUtils

Rec == ndJsonDeserialize(IOEnv.TRACE)
VARIABLES l
Init == l = 1
e == Rec[l]

HasReply == "signed" \in DOMAIN e.reply
Allowed ==
    /\ C13_EffectOk(e.r, e.p, e.effect)
    /\ HasReply => C13_ReplyOk(e.r, e.p, e.effect, e.reply)

Reject == ~Allowed /\ PrintT(<<"MISMATCH", ToJson([case |-> e.case, line |-> l, event |-> e,
                                   mayEffect |-> MayEffect(e.r, e.p)])>>)
Next == l <= Len(Rec) /\ l' = l + 1 /\ (Allowed \/ Reject)
TraceSpec == Init /\ [][Next]_<<l>>
Consumed ==
    LET d == TLCGet("stats").diameter IN
    IF d - 1 = Len(Rec) THEN PrintT(<<"TRACE-CONSUMED", Len(Rec)>>)
    ELSE PrintT(<<"TRACE-STUCK", d, Len(Rec)>>) /\ FALSE
=============================================================================
