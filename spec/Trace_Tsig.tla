------------------------------ MODULE Trace_Tsig ------------------------------
(* Trace validation for C13 (obligation T).  Every event is one request sent   *)
(* to the real Catalog/SqliteZoneHandler and its observed outcome:             *)
(*   req  r (request description, `tamper` = the message region that was       *)
(*        altered, as classified by the harness's independent wire walker),    *)
(*        p (policy), effect (zone changed / zone data returned), reply (null  *)
(*        or [signed, verifies, modifiedTried, modifiedAccepted])              *)
(*   muxreply  a TSIG-signed request (AXFR / UPDATE) went through the real     *)
(*        client-side DnsMultiplexer (drive_c16 mux-tsig); msgs = the messages  *)
(*        of the reply in arrival order, each [kind, result]:                   *)
(*          kind    "genuine" (signed by the key holder, chained per RFC 8945   *)
(*                  5.3.1) | "bitflip" (one MAC-covered bit altered) | "badmac" *)
(*                  (garbage MAC) | "otherkey" (signed with another secret) |   *)
(*                  "emptymac-.." (TSIG with an empty MAC and an error code) |  *)
(*                  "truncmac" | "unsigned" | "replay" (reply to another        *)
(*                  request): everything but "genuine" is forged                *)
(*          result  what the request's receiver got for that message: "ok"      *)
(*                  (handed over as a good response) | "err" | "none"           *)
(* The monitor evaluates the requirement operators of TsigOps per event.       *)
EXTENDS TsigOps, TLC, Json, IOUtils

Rec == ndJsonDeserialize(IOEnv.TRACE)
VARIABLES l
Init == l = 1
e == Rec[l]

HasReply == "signed" \in DOMAIN e.reply
HasMac == "macPresent" \in DOMAIN e.reply
ReqAllowed ==
    /\ C13_EffectOk(e.r, e.p, e.effect)
    /\ C13_HonouredOk(e.r, e.p, e.effect)
    /\ HasReply => C13_ReplyOk(e.r, e.p, e.effect, e.reply)
    /\ HasMac => C13_NoOracleOk(e.r, e.reply.macPresent)

(* "... the client-side verifier accepts it and rejects any modified reply", for *)
(* every message of a reply (a zone transfer is a sequence of messages, each     *)
(* chained to its predecessor's MAC, RFC 8945 5.3.1):                            *)
\*  - no message that was not made by the key holder is handed over as good;
\*  - every genuine message up to the first such message is handed over (against vacuity:
\*    what happens to genuine messages after a rejected one is left open).
\* udpreply: the same through the real UdpClientStream built with a signer (drive_c16 udp-tsig);
\* msgs = the datagrams that arrived from the queried address and port, in order
IsMux == e.ev \in {"muxreply", "udpreply"}
Forged(i) == e.msgs[i].kind # "genuine"
C13_MuxNoForgedAccepted == \A i \in 1..Len(e.msgs) : Forged(i) => e.msgs[i].result # "ok"
C13_MuxGenuineAccepted ==
    \A i \in 1..Len(e.msgs) : (\A j \in 1..i : ~Forged(j)) => e.msgs[i].result = "ok"
MuxAllowed == Len(e.msgs) > 0 /\ C13_MuxNoForgedAccepted /\ C13_MuxGenuineAccepted

Allowed == IF IsMux THEN MuxAllowed ELSE ReqAllowed

Reject == ~Allowed /\ PrintT(<<"MISMATCH", ToJson([case |-> e.case, line |-> l, event |-> e,
                                   mayEffect |-> IF IsMux THEN TRUE ELSE MayEffect(e.r, e.p),
                                   forgedAccepted |-> IF IsMux THEN ~C13_MuxNoForgedAccepted ELSE FALSE])>>)
Next == l <= Len(Rec) /\ l' = l + 1 /\ (Allowed \/ Reject)
TraceSpec == Init /\ [][Next]_<<l>>
Consumed ==
    LET d == TLCGet("stats").diameter IN
    IF d - 1 = Len(Rec) THEN PrintT(<<"TRACE-CONSUMED", Len(Rec)>>)
    ELSE PrintT(<<"TRACE-STUCK", d, Len(Rec)>>) /\ FALSE
=============================================================================
