---------------------------- MODULE NsecScopes ----------------------------
(* Name universes and record material for the C08 / C09 configurations.      *)
(* Constant-free; EXTENDed by MC_Nsec and by the generated Gen wrappers.     *)
EXTENDS DnsNames

LA  == <<97>>
LB  == <<98>>
LD  == <<100>>
LF  == <<102>>
LEX == <<101, 120, 97, 109, 112, 108, 101>>           \* "example"

MC_Apex == <<LEX>>
Labels  == {LA, LB, STAR}
Below(S) == { <<l>> \o n : l \in Labels, n \in S }
NoStar(S) == { n \in S : ~IsWildcard(n) }

D1  == Below({MC_Apex})
D2  == Below(NoStar(D1))                              \* "*" only as the leftmost label
D3  == Below(NoStar(D2))
D2s == Below(D1)                                      \* incl. a.*.example etc. (RFC 4592 2.1.3)

MC_PlainKinds == {{"A"}, {"CNAME"}, {"NS"}, {"NS", "DS"}}
MC_WildKinds  == {{"A"}, {"CNAME"}}

\* the parent zone (here: the root) around the delegation of example.: "d." precedes it, "f." follows
MC_ParentSide ==
    { [owner |-> MC_Apex, next |-> <<LF>>, types |-> {"NS", "DS"}],
      [owner |-> <<LD>>,  next |-> MC_Apex, types |-> {"NS", "DS"}] }

\* quick: labels {a,b,*}, depth <= 2, two owners besides the apex
Q_Universe == D1 \cup D2
Q_QNames   == {MC_Apex} \cup D1 \cup D2 \cup { <<LA, LA, LA, LEX>>, <<LB, LB, LB, LEX>>, <<STAR, LA, LA, LEX>>, <<LA, LB, LA, LEX>> }
Q_QTypes   == {"A", "NS", "DS", "CNAME", "TXT"}

\* smaller question set for the quick tier
Q_Universe6 == D1 \cup Below({<<LA, LEX>>})
Q_QNames10  == {MC_Apex} \cup D1 \cup Below({<<LA, LEX>>}) \cup { <<LA, LB, LEX>>, <<LA, LA, LA, LEX>>, <<LB, LB, LB, LEX>> }

\* thorough: depth <= 3 owners
T_Universe == D1 \cup D2 \cup D3
T_QNames   == {MC_Apex} \cup D1 \cup D2 \cup D3

S_QTypes == {"A", "DS", "CNAME"}

\* interior-star variant (wildcards as empty non-terminals)
S_Universe == D1 \cup D2s
S_QNames   == {MC_Apex} \cup D1 \cup D2s \cup { <<LA, LA, STAR, LEX>>, <<LB, STAR, LA, LEX>> }
======================================================================================================================================================
