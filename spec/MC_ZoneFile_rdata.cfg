\* RDATA layouts: parentheses, line breaks and comments inside, string and name spellings
SPECIFICATION PSpec
CONSTANTS
  Origin0 <- Apex
  Records <- R_Records
  Origins <- R_Origins
  TtlDirs <- R_TtlDirs
  Seps <- R_Seps
  PSeps <- R_PSeps
  Comments <- R_Comments
  Eols <- R_Eols
  MaxRR = 1
  MaxDir = 0
  MaxBlank = 0
  MaxEntries = 1
  MinRR = 0
  FirstRR <- NoFirst
  Opt <- R_Opt
INVARIANTS PTypeOK C20_Denotes C20_LayoutIndependent
CHECK_DEADLOCK FALSE
