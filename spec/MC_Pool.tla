------------------------------ MODULE MC_Pool ------------------------------
(* Exhaustive configurations for Pool (C18, obligation D).  Times in ms.     *)
(* A server profile assigns a script to each configured transport; the       *)
(* profiles cover the behaviours of the property's quantifier: answer,       *)
(* NXDOMAIN (trusted / untrusted), truncated (TCP answers / no TCP / TCP     *)
(* broken), timeout, reset, busy-then-answer, busy for ever -- each with a   *)
(* short and a long latency -- and UDP-only / TCP-only availability.         *)
EXTENDS Pool

B(k, lat)   == [k |-> k, lat |-> lat]
\* (connections are established at once and kept unless said otherwise)
S(tr, u, t) == [trusted |-> tr, udp |-> u, tcp |-> t, tc |-> <<B("ok", 0)>>, idle |-> 0]
\* TCP-only server with connection behaviour: connection script, idle-close delay, request script
ST(tc, idle, t) == [trusted |-> TRUE, udp |-> <<>>, tcp |-> t, tc |-> tc, idle |-> idle]
Lats == {30, 180}

Profiles ==
    {S(TRUE, <<B("answer", l)>>, <<B("answer", l)>>) : l \in Lats}
    \cup {S(TRUE, <<B("answer", l)>>, <<>>) : l \in Lats}
    \cup {S(TRUE, <<>>, <<B("answer", 30)>>)}
    \cup {S(tr, <<B("nx", l)>>, <<B("nx", l)>>) : tr \in BOOLEAN, l \in Lats}
    \cup {S(TRUE, <<B("trunc", 30)>>, <<B("answer", l)>>) : l \in Lats}
    \cup {S(TRUE, <<B("trunc", 30)>>, <<>>)}
    \cup {S(TRUE, <<B("trunc", 30)>>, <<B("io", 30)>>)}
    \cup {S(TRUE, <<B("timeout", 0)>>, <<B("timeout", 0)>>)}
    \cup {S(TRUE, <<B("io", l)>>, <<B("io", l)>>) : l \in Lats}
    \cup {S(TRUE, <<B("busy", 30), B("answer", l)>>, <<B("busy", 30), B("answer", l)>>) : l \in Lats}
    \cup {S(TRUE, <<B("busy", 30)>>, <<B("busy", 30)>>)}

\* the same without the long latency
Few == {p \in Profiles : \A x \in {"udp", "tcp"} : \A i \in 1..Len(Script(p, x)) : Script(p, x)[i].lat # 180}

C(ta, n, st, srvs) == [T |-> 300, ta |-> ta, ct |-> 100, cr |-> FALSE, nconc |-> n, strategy |-> st, servers |-> srvs]

\* two servers, every strategy and degree of parallelism, stock and stricter per-attempt timeout
MC_Two ==
    {C(ta, n, st, <<a, b>>) : ta \in {300, 120}, n \in {1, 2}, st \in {"user", "rr", "stats"},
                               a \in Profiles, b \in Profiles}
\* three servers in the configured order (every assignment, so every order is covered)
MC_Three ==
    {C(300, n, "user", <<a, b, c>>) : n \in {1, 2}, a \in Profiles, b \in Profiles, c \in Profiles}
\* sharing: two servers, callers arriving at any point of the timeline or after completion
MC_Shared == {C(300, n, st, <<a, b>>) : n \in {1, 2}, st \in {"user", "rr"}, a \in Few, b \in Few}
\* back-pressure from several servers at once: every server busy for 1..3 requests (or for ever, or
\* broken), budget large enough for the whole back-off
BusyProfiles ==
    {S(TRUE, <<B("busy", 30), B("answer", 30)>>, <<>>),
     S(TRUE, <<B("busy", 30), B("busy", 30), B("answer", 30)>>, <<>>),
     S(TRUE, <<B("busy", 30), B("busy", 30), B("busy", 30), B("answer", 30)>>, <<>>),
     S(TRUE, <<B("busy", 10), B("busy", 10), B("busy", 10), B("busy", 10), B("answer", 10)>>, <<>>),
     S(TRUE, <<B("busy", 30)>>, <<>>),
     S(TRUE, <<B("io", 30)>>, <<>>)}
MC_Busy ==
    {[C(1000, n, "user", <<a, b>>) EXCEPT !.T = 1000] : n \in {1, 2}, a \in BusyProfiles, b \in BusyProfiles}
    \cup {[C(1000, 2, "user", <<a, b, c>>) EXCEPT !.T = 1000] : a \in BusyProfiles, b \in BusyProfiles, c \in BusyProfiles}

\* transport level: TCP connection attempts that are refused, black-holed or slow, servers that close
\* idle connections, replies slower than the connect timeout (100) but inside the request timeout
SockProfiles ==
    {ST(<<B("ok", 0)>>, 0, <<B("answer", 30)>>),
     ST(<<B("ok", 0)>>, 0, <<B("answer", 180)>>),
     ST(<<B("ok", 0)>>, 10, <<B("answer", 30)>>),
     ST(<<B("ok", 60)>>, 10, <<B("answer", 30)>>),
     ST(<<B("blackhole", 0)>>, 0, <<B("answer", 30)>>),
     ST(<<B("refused", 10)>>, 0, <<B("answer", 30)>>),
     ST(<<B("refused", 10), B("ok", 0)>>, 0, <<B("answer", 30)>>),
     ST(<<B("ok", 0)>>, 0, <<B("io", 30), B("answer", 30)>>),
     ST(<<B("ok", 0)>>, 0, <<B("timeout", 0)>>),
     S(TRUE, <<B("trunc", 30)>>, <<B("answer", 30)>>),
     S(TRUE, <<B("answer", 30)>>, <<>>),
     S(FALSE, <<B("nx", 30)>>, <<>>),
     S(TRUE, <<B("timeout", 0)>>, <<>>),
     \* the local stack refuses to send the datagram (no route, unreachable); the receive fails
     S(TRUE, <<B("sendfail", 0)>>, <<>>),
     S(TRUE, <<B("recvfail", 30)>>, <<>>)}
MC_Sock == {C(300, n, "user", <<a, b>>) : n \in {1, 2}, a \in SockProfiles, b \in SockProfiles}
           \cup {C(300, 1, "user", <<a>>) : a \in SockProfiles}

\* case randomisation on / off, servers (all reachable over TCP too) whose UDP replies mangle the letter case
CaseProfiles ==
    {S(TRUE, <<B("casemangle", 10)>>, <<B("answer", 30)>>),
     S(TRUE, <<B("casemangle", 10)>>, <<B("io", 30)>>),
     S(TRUE, <<B("casemangle", 10)>>, <<B("timeout", 0)>>),
     S(TRUE, <<B("answer", 30)>>, <<B("answer", 30)>>),
     S(FALSE, <<B("nx", 30)>>, <<B("nx", 30)>>),
     S(TRUE, <<B("io", 30)>>, <<B("io", 30)>>)}
MC_Case == {[C(300, n, "user", <<a, b>>) EXCEPT !.cr = cr] : cr \in BOOLEAN, n \in {1, 2}, a \in CaseProfiles, b \in CaseProfiles}
           \cup {[C(300, 1, "user", <<a>>) EXCEPT !.cr = TRUE] : a \in CaseProfiles}

\* one and four servers
MC_One  == {C(ta, 1, "user", <<a>>) : ta \in {300, 120}, a \in Profiles}
MC_Four == {C(300, 2, "user", <<a, b, c, d>>) : a \in Few, b \in Few, c \in Few, d \in Few}

\* the counterexample configurations of the two "asis" rules
MC_DeadlineWitness ==
    {C(300, 1, "user", <<S(FALSE, <<B("nx", 180)>>, <<B("nx", 180)>>), S(TRUE, <<B("timeout", 0)>>, <<>>)>>)}
MC_UdpWitness ==
    {C(300, 1, "user", <<S(TRUE, <<B("trunc", 30)>>, <<>>), S(TRUE, <<B("answer", 30)>>, <<>>)>>)}

MC_Gaps == {0, 50}
=============================================================================
