--------------------------- MODULE Gen_FrontDoor ---------------------------
(* Case generator for C11 (obligation R: spec -> impl).  Three families,    *)
(* each exhaustive in its own dimensions:                                   *)
(*   gate     every combination of the header / question / body / EDNS      *)
(*            attributes x allowed and denied source x in-zone and          *)
(*            out-of-zone name x UDP and TCP, one fixed configuration       *)
(*   acl      every allow list x every deny list of at most two prefixes    *)
(*            out of four x three sources, one plain query                  *)
(*   catalog  every catalog of at most three origins out of {., z., a.z.,   *)
(*            b.a.z., o.} x every handler chain of the model x six names    *)
(*   route    every such catalog (nested, sibling, root, single, empty) x   *)
(*            query names with unusual first labels around every origin of  *)
(*            the universe: the origin itself, one label below it, a        *)
(*            leading "*" directly below it and one level further down, a   *)
(*            "*" in the middle, a 63-octet label -- each in lower case and *)
(*            with the letters in upper case on the wire (RFC 4343: names   *)
(*            compare case-insensitively; the echo is still byte for byte)  *)
(* A label value below 256 is that single octet; 1000 + c stands for the    *)
(* label of 63 octets c.  `ucase` asks the concretiser to send the letters  *)
(* of the question name in upper case.                                      *)
(* Each case carries what FrontDoorReq prescribes for the message and for   *)
(* the plain probe query sent right after it (C11_Survives).                *)
EXTENDS FrontDoorReq, TLC, Json, FiniteSets

VARIABLE dummy

lz == 122  la == 97  lb == 98  lo == 111  lx == 120
ZRoot == <<>>
ZZ == <<lz>>  ZA == <<la, lz>>  ZBA == <<lb, la, lz>>  ZO == <<lo>>
P(oct, len) == [a |-> oct, len |-> len]
P0 == P(<<0, 0, 0, 0>>, 0)  P8 == P(<<10, 0, 0, 0>>, 8)  P16 == P(<<10, 0, 0, 0>>, 16)  P24 == P(<<10, 0, 0, 0>>, 24)
Src1 == <<10, 0, 0, 1>>  Src2 == <<10, 1, 0, 1>>  Src3 == <<192, 0, 2, 1>>

Cfg(os, ch, al, dn) == [origins |-> os, chain |-> [og \in os |-> ch], allow |-> al, deny |-> dn]
Chains == {<<"C">>, <<"B">>, <<"S", "C">>, <<"B", "C">>, <<"C", "B">>, <<"S", "S">>, <<"S", "B">>, <<"C", "C">>}

Req(sh, qr, op, qd, qok, body, edns, src, qn) ==
    [short |-> sh, qr |-> qr, op |-> op, qd |-> qd, qok |-> qok, body |-> body, edns |-> edns, src |-> src, qname |-> qn,
     loose |-> FALSE]
PlainQ(src, qn) == Req(FALSE, FALSE, 0, 1, TRUE, "ok", "none", src, qn)

\* ---- family "gate"
GateCfg == Cfg({ZZ, ZA}, <<"C">>, {P16}, {P8})       \* Src1 allowed (10.0/16 inside 10/8), Src2 denied
GateReqs ==
    {Req(TRUE, qr, 0, 0, FALSE, "ok", "none", s, ZZ) : qr \in BOOLEAN, s \in {Src1, Src2}}
    \cup {Req(FALSE, TRUE, op, qd, TRUE, "ok", e, s, <<lx, la, lz>>) : op \in {0, 5, 7, 13}, qd \in 0..1, e \in {"none", "v1"}, s \in {Src1, Src2}}
    \cup {Req(FALSE, FALSE, op, qd, qok, be[1], be[2], s, qn) :
            \* the OPCODE field has four bits: 8, 13, 15 are 0 (QUERY), 5 (UPDATE), 7 with the top bit set
            op \in {0, 5, 4, 2, 1, 7, 8, 13, 15}, qd \in 0..2, qok \in BOOLEAN,
            be \in {<<"ok", "none">>, <<"ok", "v0">>, <<"ok", "v1">>, <<"bad", "none">>},
            s \in {Src1, Src2}, qn \in {<<lx, la, lz>>, <<lx, lo>>, <<STAR, la, lz>>}}
GateCases == {[g |-> "gate", proto |-> p, req |-> r, cfg |-> GateCfg, ucase |-> FALSE] : r \in GateReqs, p \in {"udp", "tcp"}}

\* ---- family "acl"
Lists == {S \in SUBSET {P0, P8, P16, P24} : Cardinality(S) <= 2}
AclCases == {[g |-> "acl", proto |-> "udp", req |-> PlainQ(s, <<lx, la, lz>>), cfg |-> Cfg({ZZ}, <<"C">>, al, dn), ucase |-> FALSE] :
                al \in Lists, dn \in Lists, s \in {Src1, Src2, Src3}}

\* ---- family "catalog"
OriginSets == {S \in SUBSET {ZRoot, ZZ, ZA, ZBA, ZO} : Cardinality(S) <= 3}
CatNames == {<<lx, la, lz>>, ZZ, <<lx, lo>>, <<lx, lb, la, lz>>, ZBA, <<lx>>}
CatCases == {[g |-> "catalog", proto |-> "tcp", req |-> PlainQ(Src3, qn), cfg |-> Cfg(os, ch, {}, {}), ucase |-> FALSE] :
                os \in OriginSets, ch \in Chains, qn \in CatNames}

\* ---- family "route"
L63 == 1000 + lx
Around(og) == {og, <<lx>> \o og, <<STAR>> \o og, <<STAR, lx>> \o og, <<lx, STAR>> \o og, <<L63>> \o og}
RouteNames == UNION {Around(og) : og \in {ZRoot, ZZ, ZA, ZBA, ZO}}
RouteCases == {[g |-> "route", proto |-> p, req |-> PlainQ(Src3, qn), cfg |-> Cfg(os, ch, {}, {}), ucase |-> u] :
                os \in OriginSets, ch \in {<<"C">>, <<"S", "B">>}, qn \in RouteNames, u \in BOOLEAN, p \in {"udp"}}

Cases == GateCases \cup AclCases \cup CatCases \cup RouteCases

Expect(r, cfg) ==
    LET plain == Plain(r, cfg.allow, cfg.deny) /\ "deny" \notin AclDecisions(cfg.allow, cfg.deny, r.src)
        zn == IF QuestionOk(r) THEN AnsweringZone(cfg.origins, r.qname) ELSE NoZone
        fa == IF zn = NoZone THEN 0 ELSE FirstActive(cfg.chain[zn])
    IN  [replies |-> ExpectedReplies(r), rcodes |-> PermittedRcodes(r, cfg), echo |-> EchoRequired(r),
         plain |-> plain, zone |-> zn, first |-> fa,
         brk |-> IF fa = 0 THEN FALSE ELSE cfg.chain[zn][fa] = "B"]

\* the probe: a plain query for a name of the first origin-independent universe, from the case's source
Probe(c) == PlainQ(c.req.src, <<lx, la, lz>>)

CfgJson(cfg) == [origins |-> cfg.origins, chains |-> {[o |-> og, ch |-> cfg.chain[og]] : og \in cfg.origins},
                 allow |-> cfg.allow, deny |-> cfg.deny]
CaseJson(c) == [g |-> c.g, proto |-> c.proto, ucase |-> c.ucase, req |-> c.req, cfg |-> CfgJson(c.cfg), exp |-> Expect(c.req, c.cfg),
                probe |-> Probe(c), pexp |-> Expect(Probe(c), c.cfg)]

Init == dummy = 0
Next == UNCHANGED dummy
GSpec == Init /\ [][Next]_dummy
Emit == \A c \in Cases : PrintT(<<"REPLAY", ToJson(CaseJson(c))>>)
=============================================================================
