------------------------------ MODULE MC_Cache ------------------------------
EXTENDS Cache
CONSTANT MaxNow

B(pmin, pmax, nmin, nmax) == [pmin |-> pmin, pmax |-> pmax, nmin |-> nmin, nmax |-> nmax]
R(s, t, ttl) == [sec |-> s, type |-> t, ttl |-> ttl]

MC_Queries == {[name |-> "a", type |-> "A"], [name |-> "a", type |-> "TXT"]}
\* per-type override on CNAME makes the two readings of L differ; A has min > small ttls
MC_Cfg == [def |-> B(2, 6, 1, 4), byType |-> [CNAME |-> B(0, 3, 0, MaxTtl), A |-> B(3, 5, 2, 3)]]
MC_Messages == { <<R("an", "A", 1)>>, <<R("an", "A", 9)>>,
                 <<R("an", "CNAME", 5), R("an", "A", 4), R("ns", "NS", 10)>>,
                 <<R("an", "TXT", 0), R("ad", "A", 7)>>,
                 <<R("ns", "NS", 1)>> }
MC_NegTtls == {0 - 1, 0, 1, 5}
MC_Err == {"timeout"}
MC_Steps == {1, 2, 7}
Bound == now <= MaxNow
=============================================================================
