-------------------------- MODULE Trace_Canonical --------------------------
(* Trace validation for C05 (obligation T: impl -> spec), monitor style.    *)
(* The decision procedure is pure, so every event is its own case:          *)
(*   tbs   type,class,owner,recs,sig  res,tbs                               *)
(*         TBS::from_input on real Records; allowed iff (res, tbs) is one   *)
(*         of SignedOutcomes(owner, class, recs, sig)                       *)
(*   sv    type,class, sowner,srecs (the RRset the built-in signer signed), *)
(*         powner,precs (what the built-in verifier was shown), sig (the    *)
(*         RRSIG parameters the signer produced), verdict                   *)
(*         allowed iff the signer chose the parameters of RFC 4034 3.1      *)
(*         (Type Covered, Labels, Original TTL) and                         *)
(*         verdict = accept  <=>  the signed data of both presentations is  *)
(*         the same octet string (crypto trusted: a signature verifies for  *)
(*         exactly the octets it was made over)                             *)
(*   reset                     shard boundary, no effect                    *)
EXTENDS Naturals, Sequences, SequencesExt, TLC, Json, IOUtils, CanonicalForm

Rec == ndJsonDeserialize(IOEnv.TRACE)

VARIABLES l, bad
tvars == <<l, bad>>

Init == l = 1 /\ bad = 0

e == Rec[l]

AllSameTtl(recs) == \A i \in 1..Len(recs) : recs[i].ttl = recs[1].ttl

SvExpected ==
    IF LabelsTooMany(e.powner, e.sig.labels) /\ ~LabelsAmbiguous(e.powner, e.sig.labels) THEN {"reject"}
    ELSE IF LabelsAmbiguous(e.powner, e.sig.labels) THEN {"accept", "reject"}
    ELSE IF SignedData(e.sowner, e.class, e.srecs, e.sig) = SignedData(e.powner, e.class, e.precs, e.sig)
         THEN {"accept"} ELSE {"reject"}

SignerParamsOk ==
    /\ e.sig.tc = e.type
    /\ e.sig.labels = SignerLabels(e.sowner)
    /\ Len(e.srecs) > 0 /\ AllSameTtl(e.srecs) /\ e.sig.ottl = e.srecs[1].ttl

Allowed ==
    \/ /\ e.ev = "tbs"
       /\ [res |-> e.res, tbs |-> e.tbs] \in SignedOutcomes(e.owner, e.class, e.recs, e.sig)
    \/ /\ e.ev = "sv"
       /\ SignerParamsOk
       /\ e.verdict \in SvExpected

Expected ==
    IF e.ev = "tbs" THEN [allowed |-> SetToSeq(SignedOutcomes(e.owner, e.class, e.recs, e.sig))]
    ELSE [allowed |-> SetToSeq(SvExpected), signer_params_ok |-> SignerParamsOk]

Reset   == e.ev = "reset" /\ UNCHANGED bad
Matched == e.ev # "reset" /\ Allowed /\ UNCHANGED bad
Reject  ==
    /\ e.ev # "reset" /\ ~Allowed
    /\ PrintT(<<"MISMATCH", ToJson([case |-> e.case, line |-> l, event |-> e, expected |-> Expected])>>)
    /\ bad' = bad + 1

Next == l <= Len(Rec) /\ l' = l + 1 /\ (Reset \/ Matched \/ Reject)

TraceSpec == Init /\ [][Next]_tvars

Consumed ==
    LET d == TLCGet("stats").diameter IN
    IF d - 1 = Len(Rec) THEN PrintT(<<"TRACE-CONSUMED", Len(Rec)>>)
    ELSE PrintT(<<"TRACE-STUCK", d, Len(Rec)>>) /\ FALSE
=============================================================================
