--------------------------- MODULE MC_ZoneFile ---------------------------
(* Exhaustive configurations for the master-file printer against the      *)
(* independent reading (C20, obligation D).  Two scopes:                  *)
(*  MC_ZoneFile_inherit : owner / TTL / class / $ORIGIN / $TTL inheritance *)
(*                        over files of <= 3 RRs + 2 directives + 1 blank  *)
(*  MC_ZoneFile_rdata   : RDATA layouts (parentheses with line breaks and  *)
(*                        comments inside, quoted / unquoted / escaped     *)
(*                        strings, relative / @ names, tabs, CRLF, missing *)
(*                        final line terminator) over files of one RR       *)
EXTENDS ZonePrinter

Apex == <<"example", "com">>
Rec(o, c, t, ttl, rd) == [o |-> o, c |-> c, t |-> t, ttl |-> ttl, rd |-> rd]

NoFirst == {}
AllOpt == {"$ORIGIN-rel", "rdname-at", "rdname-rel-svcb", "str-quoted-in-paren", "str-unquoted-escape",
           "str-unquoted-dollar", "paren-before-type"}

\* ---- inheritance scope
I_Records == {
    Rec(Apex, "IN", "NS", "300", <<<<"ns-", "example", "com">>>>),
    Rec(<<"ns-", "example", "com">>, "IN", "A", "300", <<<<"192.0.2.1">>>>),
    Rec(<<"ns-", "example", "com">>, "CH", "TXT", "60", <<<<"x">>>>),
    Rec(<<"a.b", "sub", "example", "com">>, "CH", "TXT", "60", <<<<"a b">>>>) }
I_Origins == {<<"sub", "example", "com">>, <<>>}
I_TtlDirs == {"60"}
I_Seps == {" "}
I_PSeps == {}
I_Comments == {}
I_Eols == {"\n"}
I_Opt == {"$ORIGIN-rel"}

\* ---- RDATA layout scope
R_Records == {
    Rec(Apex, "IN", "MX", "300", <<<<"10">>, <<"m", "example", "com">>>>),
    Rec(<<"n", "example", "com">>, "IN", "NS", "300", <<Apex>>),
    Rec(<<"t", "example", "com">>, "IN", "TXT", "300", <<<<"a \"\\;">>, <<"$p">>>>) }
R_Origins == {}
R_TtlDirs == {}
R_Seps == {" "}
R_Seps2 == {" ", "\t "}        \* thorough tier
R_PSeps == {" ", "\n\t", " ; c ) \"\n"}
R_Comments == {"; x ( \" y"}
R_Eols == {"\n", "\r\n"}
R_Opt == AllOpt
=============================================================================
