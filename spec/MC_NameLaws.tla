----------------------------- MODULE MC_NameLaws -----------------------------
EXTENDS NameLaws
\* both sides of both case-fold boundaries, NUL, "*", high bit; lengths 1 and 2
MC_Octets == {0, 42, 65, 90, 91, 97, 122, 255}
MC_Labels == {<<x>> : x \in MC_Octets} \cup {<<97, 0>>, <<65, 65>>}
=============================================================================
