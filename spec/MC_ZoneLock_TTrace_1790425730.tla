---- MODULE MC_ZoneLock_TTrace_1790425730 ----
EXTENDS Sequences, TLCExt, Toolbox, Naturals, TLC, MC_ZoneLock

_expression ==
    LET MC_ZoneLock_TEExpression == INSTANCE MC_ZoneLock_TEExpression
    IN MC_ZoneLock_TEExpression!expression
----

_trace ==
    LET MC_ZoneLock_TETrace == INSTANCE MC_ZoneLock_TETrace
    IN MC_ZoneLock_TETrace!trace
----

_inv ==
    ~(
        TLCGet("level") = Len(_TETrace)
        /\
        pc = ([q1 |-> "wait", q2 |-> "wait", u1 |-> "wait", u2 |-> "wait", x1 |-> "wait2", x2 |-> "wait"])
        /\
        readers = (1)
        /\
        writer = (FALSE)
        /\
        queue = (<<<<"u1", "w">>, <<"q1", "r">>, <<"u2", "w">>, <<"q2", "r">>, <<"x2", "r">>, <<"x1", "r">>>>)
    )
----

_init ==
    /\ readers = _TETrace[1].readers
    /\ pc = _TETrace[1].pc
    /\ writer = _TETrace[1].writer
    /\ queue = _TETrace[1].queue
----

_next ==
    /\ \E i,j \in DOMAIN _TETrace:
        /\ \/ /\ j = i + 1
              /\ i = TLCGet("level")
        /\ readers  = _TETrace[i].readers
        /\ readers' = _TETrace[j].readers
        /\ pc  = _TETrace[i].pc
        /\ pc' = _TETrace[j].pc
        /\ writer  = _TETrace[i].writer
        /\ writer' = _TETrace[j].writer
        /\ queue  = _TETrace[i].queue
        /\ queue' = _TETrace[j].queue

\* Uncomment the ASSUME below to write the states of the error trace
\* to the given file in Json format. Note that you can pass any tuple
\* to `JsonSerialize`. For example, a sub-sequence of _TETrace.
    \* ASSUME
    \*     LET J == INSTANCE Json
    \*         IN J!JsonSerialize("MC_ZoneLock_TTrace_1790425730.json", _TETrace)

=============================================================================

 Note that you can extract this module `MC_ZoneLock_TEExpression`
  to a dedicated file to reuse `expression` (the module in the 
  dedicated `MC_ZoneLock_TEExpression.tla` file takes precedence 
  over the module `MC_ZoneLock_TEExpression` below).

---- MODULE MC_ZoneLock_TEExpression ----
EXTENDS Sequences, TLCExt, Toolbox, Naturals, TLC, MC_ZoneLock

expression == 
    [
        \* To hide variables of the `MC_ZoneLock` spec from the error trace,
        \* remove the variables below.  The trace will be written in the order
        \* of the fields of this record.
        readers |-> readers
        ,pc |-> pc
        ,writer |-> writer
        ,queue |-> queue
        
        \* Put additional constant-, state-, and action-level expressions here:
        \* ,_stateNumber |-> _TEPosition
        \* ,_readersUnchanged |-> readers = readers'
        
        \* Format the `readers` variable as Json value.
        \* ,_readersJson |->
        \*     LET J == INSTANCE Json
        \*     IN J!ToJson(readers)
        
        \* Lastly, you may build expressions over arbitrary sets of states by
        \* leveraging the _TETrace operator.  For example, this is how to
        \* count the number of times a spec variable changed up to the current
        \* state in the trace.
        \* ,_readersModCount |->
        \*     LET F[s \in DOMAIN _TETrace] ==
        \*         IF s = 1 THEN 0
        \*         ELSE IF _TETrace[s].readers # _TETrace[s-1].readers
        \*             THEN 1 + F[s-1] ELSE F[s-1]
        \*     IN F[_TEPosition - 1]
    ]

=============================================================================



Parsing and semantic processing can take forever if the trace below is long.
 In this case, it is advised to uncomment the module below to deserialize the
 trace from a generated binary file.

\*
\*---- MODULE MC_ZoneLock_TETrace ----
\*EXTENDS IOUtils, TLC, MC_ZoneLock
\*
\*trace == IODeserialize("MC_ZoneLock_TTrace_1790425730.bin", TRUE)
\*
\*=============================================================================
\*

---- MODULE MC_ZoneLock_TETrace ----
EXTENDS TLC, MC_ZoneLock

trace == 
    <<
    ([pc |-> [q1 |-> "idle", q2 |-> "idle", u1 |-> "idle", u2 |-> "idle", x1 |-> "idle", x2 |-> "idle"],readers |-> 0,writer |-> FALSE,queue |-> <<>>]),
    ([pc |-> [q1 |-> "idle", q2 |-> "idle", u1 |-> "idle", u2 |-> "idle", x1 |-> "wait", x2 |-> "idle"],readers |-> 0,writer |-> FALSE,queue |-> <<<<"x1", "r">>>>]),
    ([pc |-> [q1 |-> "idle", q2 |-> "idle", u1 |-> "wait", u2 |-> "idle", x1 |-> "wait", x2 |-> "idle"],readers |-> 0,writer |-> FALSE,queue |-> <<<<"x1", "r">>, <<"u1", "w">>>>]),
    ([pc |-> [q1 |-> "wait", q2 |-> "idle", u1 |-> "wait", u2 |-> "idle", x1 |-> "wait", x2 |-> "idle"],readers |-> 0,writer |-> FALSE,queue |-> <<<<"x1", "r">>, <<"u1", "w">>, <<"q1", "r">>>>]),
    ([pc |-> [q1 |-> "wait", q2 |-> "idle", u1 |-> "wait", u2 |-> "wait", x1 |-> "wait", x2 |-> "idle"],readers |-> 0,writer |-> FALSE,queue |-> <<<<"x1", "r">>, <<"u1", "w">>, <<"q1", "r">>, <<"u2", "w">>>>]),
    ([pc |-> [q1 |-> "wait", q2 |-> "wait", u1 |-> "wait", u2 |-> "wait", x1 |-> "wait", x2 |-> "idle"],readers |-> 0,writer |-> FALSE,queue |-> <<<<"x1", "r">>, <<"u1", "w">>, <<"q1", "r">>, <<"u2", "w">>, <<"q2", "r">>>>]),
    ([pc |-> [q1 |-> "wait", q2 |-> "wait", u1 |-> "wait", u2 |-> "wait", x1 |-> "wait", x2 |-> "wait"],readers |-> 0,writer |-> FALSE,queue |-> <<<<"x1", "r">>, <<"u1", "w">>, <<"q1", "r">>, <<"u2", "w">>, <<"q2", "r">>, <<"x2", "r">>>>]),
    ([pc |-> [q1 |-> "wait", q2 |-> "wait", u1 |-> "wait", u2 |-> "wait", x1 |-> "in", x2 |-> "wait"],readers |-> 1,writer |-> FALSE,queue |-> <<<<"u1", "w">>, <<"q1", "r">>, <<"u2", "w">>, <<"q2", "r">>, <<"x2", "r">>>>]),
    ([pc |-> [q1 |-> "wait", q2 |-> "wait", u1 |-> "wait", u2 |-> "wait", x1 |-> "wait2", x2 |-> "wait"],readers |-> 1,writer |-> FALSE,queue |-> <<<<"u1", "w">>, <<"q1", "r">>, <<"u2", "w">>, <<"q2", "r">>, <<"x2", "r">>, <<"x1", "r">>>>])
    >>
----


=============================================================================

---- CONFIG MC_ZoneLock_TTrace_1790425730 ----
CONSTANTS
    Queries <- MC_Queries
    Updates <- MC_Updates
    Transfers <- MC_Transfers
    NestedRead = TRUE

INVARIANT
    _inv

CHECK_DEADLOCK
    \* CHECK_DEADLOCK off because of PROPERTY or INVARIANT above.
    FALSE

INIT
    _init

NEXT
    _next

CONSTANT
    _TETrace <- _trace

ALIAS
    _expression
=============================================================================
\* Generated on Sat Sep 26 12:28:51 UTC 2026