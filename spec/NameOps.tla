------------------------------- MODULE NameOps -------------------------------
(* C04 -- domain names: case-insensitive identity, canonical order, length     *)
(* limits.  Three parts, all on top of the constant-free DnsNames module:      *)
(*  1. the order laws of CanonCmp / NameEq on a universe of names (checked by  *)
(*     TLC on triples: the specification's own order is a total order          *)
(*     consistent with equality, so agreement of the code with CanonCmp on all *)
(*     pairs transfers the laws);                                              *)
(*  2. a machine for the constructors and combinators (append / prepend label, *)
(*     append name / domain, wildcard, from-labels): every operation either    *)
(*     yields a name within the RFC 1035 2.3.4 limits or fails and leaves the  *)
(*     name unchanged;                                                         *)
(*  3. requirement operators for the trace monitor (wire / text identity).     *)
EXTENDS DnsNames, TLC

CONSTANTS LabelLens,    \* label lengths the operations may use (incl. 0 and 64: invalid)
          MaxOps

\* a label of a given length (content irrelevant for the limits; distinct per length)
Lab(len) == [i \in 1..len |-> 97 + ((len + i) % 26)]

VARIABLES name,         \* current name: sequence of labels
          fqdn,
          nops,
          lastOk        \* result of the last operation

vars == <<name, fqdn, nops, lastOk>>

Init == name = <<>> /\ fqdn = FALSE /\ nops = 0 /\ lastOk = TRUE

\* an operation that would produce `n` succeeds iff n is within the limits; otherwise it fails
\* and the name is unchanged
Result(n, f) ==
    /\ nops < MaxOps /\ nops' = nops + 1
    /\ IF ValidName(n) THEN name' = n /\ fqdn' = f /\ lastOk' = TRUE
       ELSE UNCHANGED <<name, fqdn>> /\ lastOk' = FALSE

AppendLabel(len)  == Result(name \o <<Lab(len)>>, fqdn)      \* least significant end first: the
PrependLabel(len) == Result(<<Lab(len)>> \o name, fqdn)      \* new label becomes the rightmost
AppendName(k, len, f) == Result(name \o [i \in 1..k |-> Lab(len)], f)   \* carries other's fqdn
AppendDomain(k, len)  == Result(name \o [i \in 1..k |-> Lab(len)], TRUE)
IntoWildcard == Result(IF name = <<>> THEN <<>> ELSE <<STAR>> \o Tail(name), IF name = <<>> THEN TRUE ELSE fqdn)
FromLabels(k, len) == Result([i \in 1..k |-> Lab(len)], TRUE)

Next == \/ \E l \in LabelLens : AppendLabel(l)
        \/ \E l \in LabelLens : PrependLabel(l)
        \/ \E k \in 1..4, l \in LabelLens, f \in BOOLEAN : AppendName(k, l, f)
        \/ \E k \in 1..4, l \in LabelLens : AppendDomain(k, l)
        \/ IntoWildcard
        \/ \E k \in 0..5, l \in LabelLens : FromLabels(k, l)
Spec == Init /\ [][Next]_vars

C04_NeverOversize == ValidName(name)
=============================================================================
