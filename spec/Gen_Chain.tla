----------------------------- MODULE Gen_Chain -----------------------------
(* Case generator for C07 (obligation R: spec -> impl).                     *)
(* Enumerates worlds x queries x fault sets (0, 1 or 2 faults on any item   *)
(* of any upstream response) and prints, per case, what ChainOps allows:    *)
(*   allow[item] = [sec, ins]   the item of the final response may be       *)
(*                              marked Secure / Insecure                    *)
(*   negSecure                  the (empty) answer may be handed back as an *)
(*                              authenticated denial                        *)
(*   negInsecure                the response may be handed back without     *)
(*                              authentication (Insecure)                   *)
(*   best                       what a complete validator says in the       *)
(*                              un-faulted world (witness accounting only)  *)
(*   diag                       for reports: what the un-faulted world      *)
(*                              allows and which faults forbid it alone     *)
(* Bogus / Indeterminate / an error are always allowed: the property is an  *)
(* "only if" in both of its clauses.                                        *)
EXTENDS ChainOps, TLC, Json

CONSTANTS GenWorlds, GenQueries, FaultCounts   \* FaultCounts \subseteq 0..2

VARIABLES gw, gq, gF
gvars == <<gw, gq, gF>>

FaultSets(w, q) ==
    LET A == ApplicableFaults(w, q) IN
    (IF 0 \in FaultCounts THEN {{}} ELSE {})
    \cup (IF 1 \in FaultCounts THEN {{f} : f \in A} ELSE {})
    \cup (IF 2 \in FaultCounts THEN {{f, g} : f \in A, g \in A} \ {{f} : f \in A} ELSE {})

GInit == gw \in GenWorlds /\ gq \in GenQueries /\ gF \in FaultSets(gw, gq)
GNext == UNCHANGED gvars
GSpec == GInit /\ [][GNext]_gvars

Case == [world |-> gw, q |-> gq, faults |-> gF,
         allow |-> Allow(gw, gF, gq),
         negSecure |-> NegSecureOk(gw, gF, gq),
         negInsecure |-> InsecureOk(gw, gF, gw.n),
         best |-> Best(gw),
         diag |-> Diagnosis(gw, gF, gq)]

Emit == PrintT(<<"REPLAY", ToJson(Case)>>)
=============================================================================
