------------------------------- MODULE NameLaws -------------------------------
(* Order laws of the specification's own CanonCmp / NameEq over a universe of  *)
(* names: strict total order consistent with case-insensitive equality         *)
(* (C04_TotalOrder, C04_EqIsFoldedEq).  One state per triple.                  *)
EXTENDS DnsNames, TLC

CONSTANT Labels        \* set of labels; the universe is all names of <= 2 labels over it
Universe == {<<>>} \cup {<<a>> : a \in Labels} \cup {<<a, b>> : a \in Labels, b \in Labels}

VARIABLES a, b, c
Init == a \in Universe /\ b \in Universe /\ c \in Universe
Next == UNCHANGED <<a, b, c>>
Spec == Init /\ [][Next]_<<a, b, c>>

C04_EqIsFoldedEq   == NameEq(a, b) <=> (CanonCmp(a, b) = 0)
C04_Antisymmetric  == CanonCmp(a, b) = 0 - CanonCmp(b, a)
C04_Transitive     == (CanonCmp(a, b) <= 0 /\ CanonCmp(b, c) <= 0) => CanonCmp(a, c) <= 0
C04_Total          == CanonCmp(a, b) \in {0 - 1, 0, 1}
C04_EqCongruence   == NameEq(a, b) => CanonCmp(a, c) = CanonCmp(b, c)
\* folding touches nothing but ASCII letters
C04_FoldOnlyLetters == \A l \in Labels : \A i \in 1..Len(l) :
                          (Fold(l[i]) # l[i]) <=> (l[i] >= 65 /\ l[i] <= 90)
=============================================================================
