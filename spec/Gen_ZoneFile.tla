---------------------------- MODULE Gen_ZoneFile ----------------------------
(* Case generator for whole zone files (C20, obligation R: spec -> impl).    *)
(* TLC walks the printer machine ZonePrinter (-simulate, seeded: every step   *)
(* picks one of the enabled layout choices) over a universe of records of all *)
(* parser-supported types; each finished file is printed as one REPLAY case:  *)
(* the text (as its pieces), the records it was written from (= what it must  *)
(* load to), the layout features the independent reading finds in it, and     *)
(* whether the records form a zone the file store would accept.               *)
(* Self-check: the independent reading of the text must give back exactly the *)
(* records -- otherwise the printer or the reading is wrong and TLC stops     *)
(* with an error (tool error, never a finding).                               *)
EXTENDS ZonePrinter, Json

Apex == <<"example", "com">>
N(a) == <<a>> \o Apex                       \* a.example.com.
N2(a, b) == <<a, b>> \o Apex
Rec(o, c, t, ttl, rd) == [o |-> o, c |-> c, t |-> t, ttl |-> ttl, rd |-> rd]
S(x) == <<x>>
HexA == "2bb183af5f22588179a53b0a98631fad1a292118"

G_Zone == {
    Rec(Apex, "IN", "SOA", "3600", <<N("ns"), N("first.last"), S("2024010101"), S("7200"), S("3600"), S("1209600"), S("60")>>),
    Rec(Apex, "IN", "NS", "3600", <<N("ns")>>),
    Rec(Apex, "IN", "NS", "3600", <<<<"ns2", "example", "net">>>>),
    Rec(Apex, "IN", "MX", "300", <<S("10"), N("mail")>>),
    Rec(Apex, "IN", "MX", "300", <<S("20"), <<"mx", "example", "net">>>>),
    Rec(Apex, "IN", "MX", "300", <<S("0"), Apex>>),
    Rec(N("ns"), "IN", "A", "3600", <<S("192.0.2.1")>>),
    Rec(N("ns"), "IN", "A", "3600", <<S("198.51.100.77")>>),
    Rec(N("ns"), "IN", "AAAA", "60", <<S("2001:db8::1")>>),
    Rec(N("www"), "IN", "CNAME", "300", <<N("ns")>>),
    Rec(N("mail"), "IN", "A", "0", <<S("10.0.0.255")>>),
    Rec(N("mail"), "IN", "AAAA", "0", <<S("::1")>>),
    Rec(Apex, "IN", "TXT", "300", <<S("v=spf1 a mx -all")>>),
    Rec(Apex, "IN", "TXT", "300", <<S("plain")>>),
    Rec(N("a.b"), "IN", "TXT", "86400", <<S("a b"), S("q\"uote"), S("back\\slash")>>),
    Rec(N("a.b"), "IN", "TXT", "86400", <<S("semi;colon (paren)"), S("x")>>),
    Rec(N("*"), "IN", "TXT", "60", <<S("wild")>>),
    Rec(N("*"), "IN", "MX", "60", <<S("5"), N("mail")>>),
    Rec(N2("_sip", "_tcp"), "IN", "SRV", "300", <<S("1"), S("2"), S("5060"), N("ns")>>),
    Rec(N2("_sip", "_tcp"), "IN", "SRV", "300", <<S("0"), S("0"), S("5061"), Apex>>),
    Rec(N("sub"), "IN", "NS", "3600", <<N2("ns", "sub")>>),
    Rec(N("sub"), "IN", "DS", "3600", <<S("12345"), S("8"), S("2"), S(HexA)>>),
    Rec(N2("ns", "sub"), "IN", "A", "3600", <<S("203.0.113.9")>>),
    Rec(N2("deep", "sub"), "IN", "HINFO", "300", <<S("PC Intel"), S("unix")>>),
    Rec(Apex, "IN", "CAA", "300", <<S("0"), S("issue"), S("letsencrypt.org")>>),
    Rec(Apex, "IN", "CAA", "300", <<S("128"), S("iodef"), S("mailto:sec@example.com")>>),
    Rec(Apex, "IN", "NAPTR", "300", <<S("100"), S("10"), S("u"), S("E2U+sip"), S("!^.*$!sip:info@example.com!"), <<>>>>),
    Rec(Apex, "IN", "NAPTR", "300", <<S("20"), S("10"), S("s"), S("SIP+D2U"), S(""), N2("_sip", "_udp")>>),
    Rec(N("ns"), "IN", "SSHFP", "300", <<S("1"), S("1"), S(HexA)>>),
    Rec(N("ns"), "IN", "SSHFP", "300", <<S("4"), S("2"), S("0123456789abcdef")>>),
    Rec(<<"_443", "_tcp", "ns">> \o Apex, "IN", "TLSA", "300", <<S("3"), S("1"), S("1"), S("deadbeef")>>),
    Rec(<<"_443", "_tcp", "ns">> \o Apex, "IN", "SMIMEA", "300", <<S("3"), S("0"), S("0"), S("00")>>),
    Rec(Apex, "IN", "HTTPS", "300", <<S("1"), <<>>, S("alpn=h2,h3")>>),
    Rec(N("svc"), "IN", "HTTPS", "300", <<S("1"), N("svc2"), S("port=8443"), S("ipv4hint=192.0.2.1")>>),
    Rec(N("svc"), "IN", "SVCB", "300", <<S("0"), N("ns")>>),
    Rec(<<"host", "example", "net">>, "IN", "A", "300", <<S("192.0.2.1")>>),
    Rec(N("x"), "IN", "PTR", "300", <<N("ns")>>),
    Rec(N("alias"), "IN", "ANAME", "300", <<N("ns")>>),
    Rec(N("key"), "IN", "OPENPGPKEY", "300", <<S("dHJ1c3RfZG5zIGlzIGF3ZXNvbWU=")>>),
    Rec(N("key"), "IN", "CERT", "300", <<S("1"), S("12345"), S("8"), S("AQID")>>),
    Rec(N("e"), "IN", "TXT", "2147483", <<S(""), S(";"), S("(")>>),
    Rec(N("d"), "IN", "TXT", "300", <<S("@"), S("$x"), S("y$")>>),
    Rec(N("d"), "IN", "TXT", "300", <<S("two\nlines")>>) }

\* classes other than IN: "omitted class ... values are default to the last explicitly stated
\* values" (RFC 1035 5.1) shows only where several records of a non-IN class follow each other
BIND == <<"bind">>
G_Chaos == {
    Rec(BIND, "CH", "SOA", "0", <<BIND, <<"hostmaster", "bind">>, S("1"), S("28800"), S("7200"), S("604800"), S("86400")>>),
    Rec(BIND, "CH", "NS", "0", <<<<"localhost">>>>),
    Rec(<<"version", "bind">>, "CH", "TXT", "0", <<S("hickory")>>),
    Rec(<<"hostname", "bind">>, "CH", "TXT", "0", <<S("ns1.example.com")>>),
    Rec(<<"authors", "bind">>, "CH", "TXT", "60", <<S("a b"), S("c")>>),
    Rec(<<"id", "server">>, "CH", "TXT", "0", <<S("ns1")>>),
    Rec(<<"id", "server">>, "CH", "A", "0", <<S("192.0.2.1")>>),
    Rec(<<"ch-mx", "bind">>, "CH", "MX", "60", <<S("1"), <<"localhost">>>>) }
G_Hesiod == {
    Rec(N("hs"), "HS", "TXT", "300", <<S("hesiod")>>),
    Rec(N("hs"), "HS", "TXT", "300", <<S("second")>>),
    Rec(N2("passwd", "hs"), "HS", "TXT", "300", <<S("root:*:0:0")>>),
    Rec(N2("group", "hs"), "HS", "MX", "60", <<S("3"), N("hs")>>) }
G_Other == G_Chaos \cup G_Hesiod

\* <character-string> boundary lengths (RFC 1035 3.3: a length octet + up to 255 octets): 0, 1, 254
\* and 255 octets must load -- quoted, unquoted and inside parentheses
Fill(n) == Cat([i \in 1..n |-> IF i % 10 = 0 THEN "0" ELSE IF i % 2 = 0 THEN "b" ELSE "a"])
S254 == Fill(254)
S255 == Fill(255)
Q255 == Cat([i \in 1..255 |-> IF i % 64 = 0 THEN " " ELSE "c"])       \* needs quotes
G_Bounds == {
    Rec(N("l255"), "IN", "TXT", "300", <<S(S255)>>),
    Rec(N("l255"), "IN", "TXT", "300", <<S("x"), S(S255), S(""), S(S254)>>),
    Rec(N("l254"), "IN", "TXT", "60", <<S(S254), S("y")>>),
    Rec(N("q255"), "IN", "TXT", "60", <<S(Q255)>>),
    Rec(N("l255"), "IN", "HINFO", "300", <<S(S255), S("z")>>),
    Rec(N("l255"), "IN", "NAPTR", "300", <<S("1"), S("1"), S("u"), S(S255), S(Q255), <<>>>>),
    Rec(N("l255"), "IN", "CAA", "300", <<S("0"), S("issue"), S(S255)>>) }

\* labels with hyphens and digits in every position but the first (RFC 2181 11), in owner,
\* $ORIGIN and RDATA-name positions; a label of 63 octets
L63 == Cat([i \in 1..63 |-> IF i % 7 = 0 THEN "-" ELSE "k"])
G_Labels == {
    Rec(N("edge-"), "IN", "A", "300", <<S("192.0.2.1")>>),
    Rec(N("edge-"), "IN", "MX", "300", <<S("10"), <<"mx-", "example", "net">>>>),
    Rec(N("r3---sn"), "IN", "CNAME", "300", <<N2("ab--", "edge-")>>),
    Rec(N2("_a-b", "_-"), "IN", "SRV", "300", <<S("0"), S("0"), S("53"), N("r3---sn")>>),
    Rec(N("123"), "IN", "NS", "300", <<N2("0", "7-")>>),
    Rec(N("first-.last"), "IN", "PTR", "300", <<N("a-.-b")>>),
    Rec(N(L63), "IN", "NS", "60", <<N(L63)>>),
    Rec(N2("x", "edge-"), "IN", "TXT", "300", <<S("under the hyphen origin")>>) }
\* an underscore inside a label that does not start with one (legal, RFC 2181 11; kept apart)
G_Und == {
    Rec(N("a_b"), "IN", "A", "300", <<S("192.0.2.1")>>),
    Rec(N("w_2"), "IN", "AAAA", "300", <<S("::1")>>),
    Rec(N("u"), "IN", "NS", "300", <<N2("ns_1", "dc_2")>>),
    Rec(N("trail_"), "IN", "TXT", "300", <<S("t")>>) }

G_All == G_Zone \cup G_Other \cup G_Bounds \cup G_Labels
G_ZoneB == G_Zone \cup G_Bounds \cup G_Labels
G_AllUnd == G_Zone \cup G_Und
G_NonIN == G_Other
G_Core == G_Zone \cup G_Other
G_BL == G_Bounds \cup G_Labels
G_Soa == {r \in G_Zone : r.t = "SOA"}
G_None == {}
G_AllOpt == {"$ORIGIN-rel", "rdname-at", "rdname-rel-svcb", "str-quoted-in-paren", "str-unquoted-escape",
             "str-unquoted-dollar", "paren-before-type"}

G_Origins == {<<"sub", "example", "com">>, <<"example", "net">>, <<>>, Apex, <<"com">>, <<"edge-", "example", "com">>, <<"bind">>}
G_TtlDirs == {"300", "3600", "0", "60"}
G_Seps == {" ", "\t", "  ", " \t"}
G_PSeps == {" ", "\n", "\n\t", " ; c\n ", "\r\n  ", "\t; ( \" )\n\t"}
G_Comments == {"; comment", ";", "; a \"quote ( paren"}
G_Eols == {"\n", "\r\n"}

Case(r) == [pieces |-> pieces, origin |-> Origin0,
            exp |-> [st |-> "ok", recs |-> RangeOf(recs)],
            tags |-> r.tags, zone |-> ZoneLoadable(recs, Origin0),
            selfcheck |-> Assert(DenotesOK(r), <<"printer and reading disagree", r.st, r.why, pieces>>)]
Emit == (done /\ recs # <<>>) => PrintT(<<"REPLAY", ToJson(Case(Read(Text, Origin0)))>>)
=============================================================================
