---------------------------- MODULE MC_Journal ----------------------------
(* Exhaustive configurations for Journal (C14, obligation D).               *)
(*  MC_Journal          required rule (atomic dump, atomic message): all    *)
(*                      C14_* invariants hold at every crash point          *)
(*  MC_Journal_AsIsMsg  rows of a message committed one by one (the code):  *)
(*                      TLC is EXPECTED to find C14_Boundary violated       *)
(*  MC_Journal_AsIsDump rows of the initial dump committed one by one:      *)
(*                      TLC is EXPECTED to find C14_Boundary violated       *)
EXTENDS Journal, TLC

AP == <<"example", "com">>
NA == <<"a">> \o AP
NB == <<"b">> \o AP
RR(o, c, t, ttl, rd) == [o |-> o, c |-> c, t |-> t, ttl |-> ttl, rd |-> rd, ser |-> <<0, 0>>]
SOARR(o, s) == [o |-> o, c |-> "IN", t |-> "SOA", ttl |-> 300, rd |-> 1, ser |-> s]
M(p, u) == [pre |-> p, upd |-> u]

MC_InitRRs == {<<AP, "SOA", 0>>, <<AP, "NS", 1>>, <<NA, "A", 1>>}
MC_InitSer == <<65535, 65534>>     \* two steps before the serial wraps
MC_Msgs == {
    M(<<>>, <<RR(NA, "IN", "A", 300, 2)>>),                                  \* one add
    M(<<>>, <<RR(NB, "IN", "A", 300, 1), RR(NA, "NONE", "A", 0, 1)>>),       \* add + delete (the shape of DESIGN.md)
    M(<<>>, <<RR(NB, "NONE", "A", 0, 2)>>),                                  \* accepted, changes nothing
    M(<<RR(NB, "ANY", "ANY", 0, 0)>>, <<RR(NB, "IN", "A", 300, 2)>>),        \* prerequisite: b in use
    M(<<>>, <<RR(NA, "ANY", "ANY", 0, 0), RR(NA, "IN", "CNAME", 300, 1)>>),  \* replace a's data by a CNAME
    M(<<>>, <<SOARR(AP, <<65535, 65535>>), RR(NB, "IN", "A", 300, 2)>>),     \* explicit SOA + add
    M(<<>>, <<RR(NA, "IN", "A", 300, 2), RR(NA, "NONE", "A", 0, 2)>>),       \* add and take back: serial moves only
    M(<<>>, <<RR(NA, "CH", "A", 0, 1)>>),                                    \* prescan FORMERR
    M(<<>>, <<RR(NB, "IN", "A", 300, 1), RR(NB, "IN", "A", 300, 0)>>)        \* add + zone-class RR without RDATA
}
=============================================================================
