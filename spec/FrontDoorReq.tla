--------------------------- MODULE FrontDoorReq ---------------------------
(* C11 -- what the front door of the server owes to every message it is     *)
(* handed.  Constant-free requirement operators, shared by FrontDoor (the   *)
(* pipeline as a machine, model-checked against them), Gen_FrontDoor (spec  *)
(* -> impl) and Trace_FrontDoor (impl -> spec).  Written from the property  *)
(* statement: RFC 1035 4.1.1 (header), RFC 6891 6.1.3 (BADVERS), RFC 9619   *)
(* (QDCOUNT), RFC 8906; the access-control rule is the documented contract  *)
(* of the allow/deny lists ("longest-prefix allow overrides deny").         *)
(*                                                                          *)
(* A request, as seen by an independent reader of its bytes:                *)
(*   short  fewer than 12 octets                                            *)
(*   qr     QR bit                          op   OPCODE (number)            *)
(*   qd     QDCOUNT                         qok  the first question parses  *)
(*   body   "ok" | "bad" | "unknown": the records after the question parse  *)
(*          / do not / cannot be told without a full RDATA reader           *)
(*   edns   "none" | "v0" | "v1" (VERSION > 0) | "unknown"                  *)
(*   src    source address <<a, b, c, d>>   qname  the question name        *)
(*   loose  the reader met something it does not interpret (compression    *)
(*          pointer in the question, ...): only the count of replies, QR,  *)
(*          ID and survival are judged for such a message                  *)
(* A configuration: origins (set of zone origins), chain[origin] = sequence *)
(* of handler behaviours "S" (skip) | "C" (continue with its result) | "B"  *)
(* (break with its result), allow / deny = sets of prefixes [a, len].       *)
EXTENDS AuthNames, Integers

QUERY == 0
UPDATE == 5
Supported(op) == op \in {QUERY, UPDATE}
QuestionOk(r) == r.qd = 1 /\ r.qok

\* "messages that are themselves responses (or shorter than a header) get nothing at all";
\* everything else is answered exactly once
Answered(r) == ~r.short /\ ~r.qr
ExpectedReplies(r) == IF Answered(r) THEN 1 ELSE 0

---------------------------------------------------------------------------
(* Access control.  Prefix lengths are multiples of 8 here, so a prefix     *)
(* contains an address iff the first len/8 octets agree.                    *)
Contains(p, ip) == \A i \in 1..(p.len \div 8) : p.a[i] = ip[i]
Matching(S, ip) == {p \in S : Contains(p, ip)}
Longest(S) == CHOOSE p \in S : \A q \in S : q.len <= p.len

\* the set of decisions the lists permit for an address:
\*  - both lists match: the more specific (longer) prefix wins; at equal length the contract
\*    does not say -- both decisions are accepted
\*  - only one list matches: that list decides
\*  - neither matches: allowed, unless only an allow list is configured (then it is a
\*    whitelist and everything else is denied)
AclDecisions(allow, deny, ip) ==
    LET ma == Matching(allow, ip)
        md == Matching(deny, ip)
    IN  IF ma # {} /\ md # {}
        THEN IF Longest(ma).len > Longest(md).len THEN {"allow"}
             ELSE IF Longest(ma).len < Longest(md).len THEN {"deny"}
             ELSE {"allow", "deny"}
        ELSE IF md # {} THEN {"deny"}
        ELSE IF ma # {} THEN {"allow"}
        ELSE IF deny = {} /\ allow # {} THEN {"deny"} ELSE {"allow"}

---------------------------------------------------------------------------
(* Which zone answers: "the zone whose origin is the longest suffix of the  *)
(* query name"; <<"none">> if no configured zone encloses the name.         *)
NoZone == <<0 - 1>>
Enclosing(origins, qn) == {o \in origins : IsSubdomain(qn, o)}
AnsweringZone(origins, qn) ==
    IF Enclosing(origins, qn) = {} THEN NoZone
    ELSE CHOOSE o \in Enclosing(origins, qn) : \A p \in Enclosing(origins, qn) : Len(p) <= Len(o)

\* within the zone's chain the first handler that does not skip answers; 0 if all skip
FirstActive(ch) ==
    IF \A i \in 1..Len(ch) : ch[i] = "S" THEN 0
    ELSE CHOOSE i \in 1..Len(ch) : ch[i] # "S" /\ \A j \in 1..(i - 1) : ch[j] = "S"

---------------------------------------------------------------------------
(* The error classes of the property.  An error is MANDATORY when the       *)
(* request is definitely in the stated situation, OPTIONAL when the reader  *)
(* cannot tell (body "unknown"), when the contract leaves the decision open *)
(* (equal-length allow/deny), or for QDCOUNT = 0 (RFC 9619 forbids only     *)
(* QDCOUNT > 1 for queries).  When several mandatory errors apply the       *)
(* property does not rank them: any of them is accepted.                    *)
Mandatory(r, allow, deny) ==
    (IF ~Supported(r.op) THEN {"NOTIMP"} ELSE {})
    \cup (IF r.qd > 1 \/ (r.qd = 1 /\ ~r.qok) \/ (QuestionOk(r) /\ r.body = "bad") THEN {"FORMERR"} ELSE {})
    \cup (IF AclDecisions(allow, deny, r.src) = {"deny"} THEN {"REFUSED"} ELSE {})
    \cup (IF QuestionOk(r) /\ r.body = "ok" /\ r.edns = "v1" THEN {"BADVERS"} ELSE {})

Optional(r, allow, deny) ==
    (IF r.qd = 0 THEN {"FORMERR", "REFUSED"} ELSE {})
    \cup (IF r.body = "unknown" \/ ~QuestionOk(r) THEN {"FORMERR"} ELSE {})
    \cup (IF "deny" \in AclDecisions(allow, deny, r.src) THEN {"REFUSED"} ELSE {})
    \cup (IF r.edns \in {"v1", "unknown"} THEN {"BADVERS"} ELSE {})

\* the request is an ordinary query that nothing above objects to
Plain(r, allow, deny) == Answered(r) /\ ~r.loose /\ Mandatory(r, allow, deny) = {} /\ r.op = QUERY /\ QuestionOk(r)

\* RCODEs of a normal answer from a zone (what the zone says is C10's business); when every
\* handler of the chain skips there is no answer to give: any server-side error
ZoneRcodes   == {"NOERROR", "NXDOMAIN"}
NobodyRcodes == {"SERVFAIL", "REFUSED", "NOTIMP"}

AnyRcode == {"NOERROR", "FORMERR", "SERVFAIL", "NXDOMAIN", "NOTIMP", "REFUSED", "YXDOMAIN", "YXRRSET", "NXRRSET",
             "NOTAUTH", "NOTZONE", "BADVERS"}

PermittedRcodes(r, cfg) ==
    IF r.loose THEN AnyRcode ELSE
    LET m == Mandatory(r, cfg.allow, cfg.deny)
        o == Optional(r, cfg.allow, cfg.deny)
    IN  IF m # {} THEN m \cup o
        ELSE IF r.op # QUERY THEN o \cup {"NOERROR", "NXDOMAIN", "SERVFAIL", "REFUSED", "NOTAUTH", "NOTIMP", "FORMERR",
                                            "YXDOMAIN", "YXRRSET", "NXRRSET", "NOTZONE"}  \* UPDATE: C12 decides
        ELSE IF ~QuestionOk(r) THEN o
        ELSE LET z == AnsweringZone(cfg.origins, r.qname) IN
             o \cup (IF z = NoZone THEN {"REFUSED"}
                     ELSE IF FirstActive(cfg.chain[z]) = 0 THEN NobodyRcodes ELSE ZoneRcodes)

\* "ID and question equal the request's": the question must come back for every query or
\* update whose question could be read; for other messages it may be left out, but what is
\* there must be the request's
EchoRequired(r) == ~r.loose /\ Supported(r.op) /\ QuestionOk(r)

---------------------------------------------------------------------------
(* One observed reply, and the observation of a whole exchange:             *)
(*   obs = [replies: Nat, qrset, idok: BOOLEAN, rcode: STRING,              *)
(*          question: "same" | "absent" | "different",                      *)
(*          zone: origin of the SOA seen in the reply or NoZone,            *)
(*          handler: index of the handler whose data was returned (0 = n/a),*)
(*          searched: sequence of handler indices asked, consulted: set,    *)
(*          panic: BOOLEAN]                                                 *)
ReplyOk(r, cfg, obs) ==
    /\ obs.qrset /\ obs.idok
    /\ obs.rcode \in PermittedRcodes(r, cfg)
    /\ r.loose \/ obs.question # "different"
    /\ EchoRequired(r) => obs.question = "same"
    \* answered from the right zone, by the right handler, and nobody is asked after a Break
    /\ (Plain(r, cfg.allow, cfg.deny) /\ obs.rcode \in ZoneRcodes /\ "deny" \notin AclDecisions(cfg.allow, cfg.deny, r.src)) =>
          LET z == AnsweringZone(cfg.origins, r.qname) IN
          /\ z # NoZone /\ obs.zone \in {z, NoZone}
          /\ obs.handler \in {0, FirstActive(cfg.chain[z])}
          /\ obs.searched = [i \in 1..FirstActive(cfg.chain[z]) |-> i]
          /\ cfg.chain[z][FirstActive(cfg.chain[z])] = "B" => obs.consulted = {}

Allowed(r, cfg, obs) ==
    /\ ~obs.panic
    /\ obs.replies = ExpectedReplies(r)
    /\ obs.replies = 1 => ReplyOk(r, cfg, obs)
=============================================================================
