--------------------------- MODULE MC_AuthServer ---------------------------
(* Exhaustive configuration for AuthServer (C10, obligation D): every zone  *)
(* of at most two nodes (MC_AuthServer.cfg) over a universe with hosts,     *)
(* empty non-terminals, wildcards at two levels, CNAMEs (chains, loops,     *)
(* leaving the zone, into a wildcard, below a cut), delegations with and    *)
(* without glue and DS, nested cuts -- times every query name in and around *)
(* the zone times the nine query types.                                     *)
EXTENDS AuthServer, AuthZones

MC_Owners  == {<<la>>, <<lb>>, <<STAR>>, <<la, la>>, <<STAR, la>>, <<la, la, la>>}
MC_Targets == {Abs(<<la>>), Abs(<<lc>>), Abs(<<la, la>>), Abs(<<lc, la>>), OutTgt}
MC_Nodes   == NodesOver(MC_Owners, {"A", "TXT", "MULTI"}, {"NS", "NSG", "NSD"}, MC_Targets)
MC_NodeData == {Records(nd) : nd \in MC_Nodes}
MC_QNames  == {Abs(w) : w \in MC_Owners \cup {<<>>, <<lc>>, <<lc, la>>, <<la, STAR>>, <<ln, la>>, <<lb, la, la>>}} \cup {OutName}
\* quick tier: the same shapes over fewer names
\* incl. an owner three labels below the apex: alone in a zone its two ancestors are stacked empty non-terminals
MCQ_Owners  == {<<la>>, <<STAR>>, <<la, la>>, <<STAR, la>>, <<la, la, la>>}
MCQ_Targets == {Abs(<<la>>), Abs(<<lc, la>>), OutTgt}
MCQ_NodeData == {Records(nd) : nd \in NodesOver(MCQ_Owners, {"A", "MULTI"}, {"NS", "NSD"}, MCQ_Targets)}
MCQ_QNames  == {Abs(w) : w \in MCQ_Owners \cup {<<>>, <<lc>>, <<lc, la>>, <<la, STAR>>, <<ln, la>>, <<lb, la, la>>}} \cup {OutName}
MC_QTypes  == {"A", "AAAA", "MX", "NS", "CNAME", "SOA", "DS", "TXT", "ANY"}
=============================================================================
