\* all zones of <= 1 node x all queries; every request ends
SPECIFICATION FairSpec
CONSTANTS
  ZApex  <- Apex
  ApexData <- ApexRRs
  NodeData <- MC_NodeData
  MaxNodes = 1
  QNames <- MC_QNames
  QTypes <- MC_QTypes
  MaxChain = 10
INVARIANTS TypeOK C10_Algorithm
PROPERTY C10_Terminates
CHECK_DEADLOCK FALSE
